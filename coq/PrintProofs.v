(* PrintProofs.v — the variable list is the sequence of names in the printed
   form (C16).  A second printer emits the same text with every occurrence of a
   variable name marked; erasing the marks gives the text of String(), and the
   marked names, in order, are the list Variables() returns. *)
From Secs Require Import Ast WireSpec.
Open Scope Z_scope.

Inductive mpiece := MT (s : bytes) | MN (name : bytes) | MF (w : nat) (bits : Z).

Section Render.
Variable fl : nat -> Z -> bytes.          (* strconv.FormatFloat, whatever it prints *)

Definition render (ps : list piece) : bytes :=
  flat_map (fun p => match p with PT s => s | PF w b => fl w b end) ps.
Definition mrender (ps : list mpiece) : bytes :=
  flat_map (fun p => match p with MT s => s | MN n => n | MF w b => fl w b end) ps.
Definition names (ps : list mpiece) : list bytes :=
  flat_map (fun p => match p with MN n => [n] | _ => [] end) ps.

(* what the printed form shows for a variable: an ellipsis is shown without its number *)
Definition shown (n : bytes) : bytes := if is_ellipsis n then [x2e; x2e; x2e] else n.

Definition mprint_slot (k : kind) (w : nat) (s : slot) : list mpiece :=
  match s with
  | SX n => [MN n]
  | SV v => match k with
            | KBin => [MT (x30 :: x62 :: fmt_bin v)]
            | KBool => [MT (if v =? 0 then [x46] else [x54])]
            | KInt | KUint => [MT (fmt_int v)]
            | KFloat => [MF w v]
            end
  end.

Fixpoint mjoin (xs : list (list mpiece)) : list mpiece :=
  match xs with
  | [] => []
  | [x] => x
  | x :: r => x ++ MT sp :: mjoin r
  end.

Definition ascii_var_len (mn mx : Z) : bytes :=
  if (mn =? 0) && (mx =? -1) then []
  else if mn =? mx then [x5b] ++ fmt_int mx ++ [x5d]
  else if mx =? -1 then [x5b] ++ fmt_int mn ++ [x2e; x2e; x5d]
  else [x5b] ++ fmt_int mn ++ [x2e; x2e] ++ fmt_int mx ++ [x5d].

Fixpoint mprint (level : nat) (t : item) : list mpiece :=
  match t with
  | IList xs =>
    match xs with
    | [] => [MT (indent level ++ B"<L[0]>"%string)]
    | _ =>
      let body := flat_map (fun c =>
        match c with
        | IList _ => mprint (S level) c ++ [MT [x0a]]
        | IVar n => [MT (indent level ++ [x20; x20]); MN (shown n); MT [x0a]]
        | _ => MT (indent level ++ [x20; x20]) :: mprint 0 c ++ [MT [x0a]]
        end) xs in
      let sizestr := if existsb is_list_var xs then [] else [x5b] ++ fmt_int (Z.of_nat (length xs)) ++ [x5d] in
      MT (indent level ++ [x3c; x4c] ++ sizestr ++ [x0a]) :: body ++ [MT (indent level ++ [x3e])]
    end
  | IVar n => [MN n]
  | ILeaf k w xs =>
    match xs with
    | [] => [MT ([x3c] ++ leaf_tag k w ++ B"[0]>"%string)]
    | _ => MT ([x3c] ++ leaf_tag k w ++ [x5b] ++ fmt_int (Z.of_nat (length xs)) ++ [x5d; x20])
           :: mjoin (map (mprint_slot k w) xs) ++ [MT [x3e]]
    end
  | IAscii s =>
    match s with
    | [] => [MT (B"<A[0]>"%string)]
    | _ => [MT ([x3c; x41] ++ print_ascii_body s false ++ [x3e])]
    end
  | IAsciiVar n mn mx => [MT ([x3c; x41] ++ ascii_var_len mn mx ++ [x20]); MN n; MT [x3e]]
  | IEmpty => []
  end.

(* ---------- erasing the marks gives the printed form ---------- *)

Lemma render_app a b : render (a ++ b) = render a ++ render b.
Proof. unfold render. apply flat_map_app. Qed.
Lemma mrender_app a b : mrender (a ++ b) = mrender a ++ mrender b.
Proof. unfold mrender. apply flat_map_app. Qed.
Lemma names_app a b : names (a ++ b) = names a ++ names b.
Proof. unfold names. apply flat_map_app. Qed.

Lemma render_cons p ps : render (p :: ps) = match p with PT s => s | PF w b => fl w b end ++ render ps.
Proof. reflexivity. Qed.
Lemma mrender_cons p ps : mrender (p :: ps) = match p with MT s => s | MN n => n | MF w b => fl w b end ++ mrender ps.
Proof. reflexivity. Qed.

Lemma render_slot k w x : render (print_slot k w x) = mrender (mprint_slot k w x).
Proof. destruct x as [v|n]; [destruct k|]; reflexivity. Qed.

Lemma join_pieces_cons2 x y r : join_pieces (x :: y :: r) = x ++ PT sp :: join_pieces (y :: r).
Proof. reflexivity. Qed.
Lemma mjoin_cons2 x y r : mjoin (x :: y :: r) = x ++ MT sp :: mjoin (y :: r).
Proof. reflexivity. Qed.

Lemma render_join k w : forall xs, render (join_pieces (map (print_slot k w) xs)) = mrender (mjoin (map (mprint_slot k w) xs)).
Proof.
  induction xs as [|x r IH]; [reflexivity|]. destruct r as [|y r].
  - cbn [map join_pieces mjoin]. apply render_slot.
  - cbn [map] in *. rewrite join_pieces_cons2, mjoin_cons2, render_app, mrender_app, render_slot.
    change (render (PT sp :: ?a)) with (sp ++ render a).
    change (mrender (MT sp :: ?a)) with (sp ++ mrender a).
    rewrite IH. reflexivity.
Qed.

Definition is_item (t : item) : Prop := match t with IVar _ => False | _ => True end.

Theorem marks_erase : forall t level, render (print_item_at level t) = mrender (mprint level t).
Proof.
  induction t as [xs IH|n|k w xs|v|n mn mx|] using item_ind'; intro level.
  - destruct xs as [|c0 r0]; [reflexivity|].
    remember (c0 :: r0) as xs eqn:Exs.
    assert (E : print_item_at level (IList xs) =
      PT (indent level ++ [x3c; x4c] ++ (if existsb is_list_var xs then [] else [x5b] ++ fmt_int (Z.of_nat (length xs)) ++ [x5d]) ++ [x0a])
      :: flat_map (fun c => match c with
        | IList _ => print_item_at (S level) c ++ [PT [x0a]]
        | IVar n => [PT (indent level ++ [x20; x20] ++ (if is_ellipsis n then [x2e; x2e; x2e] else n) ++ [x0a])]
        | _ => PT (indent level ++ [x20; x20]) :: print_item_at 0 c ++ [PT [x0a]]
        end) xs ++ [PT (indent level ++ [x3e])]) by (subst xs; reflexivity).
    assert (E' : mprint level (IList xs) =
      MT (indent level ++ [x3c; x4c] ++ (if existsb is_list_var xs then [] else [x5b] ++ fmt_int (Z.of_nat (length xs)) ++ [x5d]) ++ [x0a])
      :: flat_map (fun c => match c with
        | IList _ => mprint (S level) c ++ [MT [x0a]]
        | IVar n => [MT (indent level ++ [x20; x20]); MN (shown n); MT [x0a]]
        | _ => MT (indent level ++ [x20; x20]) :: mprint 0 c ++ [MT [x0a]]
        end) xs ++ [MT (indent level ++ [x3e])]) by (subst xs; reflexivity).
    rewrite E, E'. clear E E' Exs.
    rewrite render_cons, mrender_cons. f_equal.
    rewrite render_app, mrender_app. f_equal.
    induction IH as [|c r Hc _ IHr]; [reflexivity|].
    cbn [flat_map]. rewrite render_app, mrender_app, IHr. f_equal.
    destruct c as [ys|n|k w ys|v|n mn mx|].
    + rewrite render_app, mrender_app, (Hc (S level)). reflexivity.
    + cbn. unfold shown. rewrite !app_nil_r, <- !app_assoc. reflexivity.
    + rewrite render_cons, mrender_cons, render_app, mrender_app, (Hc 0%nat). reflexivity.
    + rewrite render_cons, mrender_cons, render_app, mrender_app, (Hc 0%nat). reflexivity.
    + rewrite render_cons, mrender_cons, render_app, mrender_app, (Hc 0%nat). reflexivity.
    + reflexivity.
  - reflexivity.
  - destruct xs as [|x r]; [reflexivity|]. remember (x :: r) as ys.
    assert (E : print_item_at level (ILeaf k w ys) = PT ([x3c] ++ leaf_tag k w ++ [x5b] ++ fmt_int (Z.of_nat (length ys)) ++ [x5d; x20])
           :: join_pieces (map (print_slot k w) ys) ++ [PT [x3e]]) by (subst ys; reflexivity).
    assert (E' : mprint level (ILeaf k w ys) = MT ([x3c] ++ leaf_tag k w ++ [x5b] ++ fmt_int (Z.of_nat (length ys)) ++ [x5d; x20])
           :: mjoin (map (mprint_slot k w) ys) ++ [MT [x3e]]) by (subst ys; reflexivity).
    rewrite E, E'. rewrite render_cons, mrender_cons, render_app, mrender_app, render_join. reflexivity.
  - destruct v; reflexivity.
  - cbn. unfold print_ascii_var, ascii_var_len. rewrite !app_nil_r, <- !app_assoc. reflexivity.
  - reflexivity.
Qed.
End Render.

(* ---------- the marked names are the variable list ---------- *)

Lemma valid_not_ellipsis n : is_valid_var_name n = true -> is_ellipsis n = false.
Proof.
  destruct n as [|a [|b [|c r]]]; try reflexivity. cbn [is_valid_var_name is_ellipsis].
  intro H. apply andb_true_iff in H as [Ha _].
  destruct (byte_eqb a x2e) eqn:E; [|reflexivity]. apply byte_eqb_spec in E. subst a. discriminate.
Qed.

(* what the constructors establish: names inside value items and ASCII
   variables are valid names (so they are not ellipses); a list holds no stray
   empty node *)
Fixpoint wf_names (t : item) : Prop :=
  match t with
  | IList xs => (fix go (xs : list item) : Prop :=
                   match xs with
                   | [] => True
                   | c :: r => (match c with IEmpty => False | IVar _ => True | _ => wf_names c end) /\ go r
                   end) xs
  | IVar _ => True
  | ILeaf _ _ xs => Forall (fun n => is_ellipsis n = false) (slot_vars xs)
  | IAscii _ => True
  | IAsciiVar n _ _ => is_ellipsis n = false
  | IEmpty => True
  end.

Lemma map_shown_plain ns : Forall (fun n => is_ellipsis n = false) ns -> map shown ns = ns.
Proof. induction 1 as [|n r Hn _ IH]; [reflexivity|]. cbn [map]. unfold shown at 1. rewrite Hn, IH. reflexivity. Qed.

Lemma names_mjoin k w : forall xs, names (mjoin (map (mprint_slot k w) xs)) = slot_vars xs.
Proof.
  induction xs as [|x r IH]; [reflexivity|]. destruct r as [|y r].
  - destruct x as [v|n]; [destruct k|]; reflexivity.
  - cbn [map] in *. rewrite mjoin_cons2, names_app.
    change (names (MT sp :: ?a)) with (names a). rewrite IH.
    destruct x as [v|n]; [destruct k|]; reflexivity.
Qed.

Theorem marked_names_are_vars : forall t level, is_item t -> wf_names t ->
  names (mprint level t) = map shown (vars t).
Proof.
  induction t as [xs IH|n|k w xs|v|n mn mx|] using item_ind'; intros level Hit Hwf.
  - destruct xs as [|c0 r0]; [reflexivity|].
    remember (c0 :: r0) as xs eqn:Exs.
    assert (E' : mprint level (IList xs) =
      MT (indent level ++ [x3c; x4c] ++ (if existsb is_list_var xs then [] else [x5b] ++ fmt_int (Z.of_nat (length xs)) ++ [x5d]) ++ [x0a])
      :: flat_map (fun c => match c with
        | IList _ => mprint (S level) c ++ [MT [x0a]]
        | IVar n => [MT (indent level ++ [x20; x20]); MN (shown n); MT [x0a]]
        | _ => MT (indent level ++ [x20; x20]) :: mprint 0 c ++ [MT [x0a]]
        end) xs ++ [MT (indent level ++ [x3e])]) by (subst xs; reflexivity).
    rewrite E'. clear E' Exs c0 r0.
    change (names (MT ?a :: ?b)) with (names b). rewrite names_app. cbn [names flat_map app]. rewrite app_nil_r.
    fold (names (flat_map (fun c => match c with
        | IList _ => mprint (S level) c ++ [MT [x0a]]
        | IVar n => [MT (indent level ++ [x20; x20]); MN (shown n); MT [x0a]]
        | _ => MT (indent level ++ [x20; x20]) :: mprint 0 c ++ [MT [x0a]]
        end) xs)).
    cbn [vars]. cbn [wf_names] in Hwf. clear Hit.
    induction IH as [|c r Hc _ IHr]; [reflexivity|]. destruct Hwf as [Hwc Hwr].
    cbn [flat_map]. rewrite names_app, map_app, (IHr Hwr). f_equal.
    destruct c as [ys|n|k w ys|v|n mn mx|].
    + rewrite names_app, (Hc (S level) I Hwc). cbn. rewrite ?app_nil_r. reflexivity.
    + reflexivity.
    + change (names (MT ?a :: ?b)) with (names b). rewrite names_app, (Hc 0%nat I Hwc). cbn. rewrite ?app_nil_r. reflexivity.
    + change (names (MT ?a :: ?b)) with (names b). rewrite names_app, (Hc 0%nat I Hwc). cbn. rewrite ?app_nil_r. reflexivity.
    + change (names (MT ?a :: ?b)) with (names b). rewrite names_app, (Hc 0%nat I Hwc). cbn. rewrite ?app_nil_r. reflexivity.
    + contradiction.
  - contradiction.
  - cbn [wf_names] in Hwf. cbn [vars]. rewrite (map_shown_plain _ Hwf).
    destruct xs as [|x r]; [reflexivity|]. remember (x :: r) as ys.
    assert (E' : mprint level (ILeaf k w ys) = MT ([x3c] ++ leaf_tag k w ++ [x5b] ++ fmt_int (Z.of_nat (length ys)) ++ [x5d; x20])
           :: mjoin (map (mprint_slot k w) ys) ++ [MT [x3e]]) by (subst ys; reflexivity).
    rewrite E'. change (names (MT ?a :: ?b)) with (names b). rewrite names_app, names_mjoin. cbn. apply app_nil_r.
  - destruct v; reflexivity.
  - cbn [wf_names] in Hwf. cbn. unfold shown. rewrite Hwf. reflexivity.
  - reflexivity.
Qed.

(* the constructors establish the hypothesis *)
Lemma new_leaf_wf k w args t : new_leaf k w args = Some t -> wf_names t.
Proof.
  unfold new_leaf. destruct (negb _); [discriminate|]. destruct (map_opt _ args) as [xs|]; [|discriminate].
  destruct (width_okb k w && forallb (val_okb k w) xs && names_ok xs) eqn:E; [|discriminate].
  intro H; inversion H; subst. cbn [wf_names].
  apply andb_true_iff in E as [_ E]. unfold names_ok in E. apply andb_true_iff in E as [E _].
  rewrite forallb_forall in E. apply Forall_forall. intros n Hn. apply valid_not_ellipsis. apply E. exact Hn.
Qed.

Lemma new_ascii_var_wf n mn mx t : new_ascii_var n mn mx = Some t -> wf_names t.
Proof.
  unfold new_ascii_var. destruct (is_valid_var_name n) eqn:E; cbn [andb]; [|discriminate].
  destruct (_ && _); [|discriminate]. intro H; inversion H; subst. cbn. apply valid_not_ellipsis. exact E.
Qed.

Example wf_example :
  let t := IList [ILeaf KUint 1 [SV 1; SX (B"x"%string)]; IVar (B"v"%string); IVar (B"...[0]"%string); IList [IAsciiVar (B"s"%string) 0 (-1)]] in
  is_item t /\ wf_names t /\ vars t = [B"x"; B"v"; B"...[0]"; B"s"]%string /\
  names (mprint 0 t) = [B"x"; B"v"; B"..."; B"s"]%string.
Proof. cbn. repeat split; repeat constructor. Qed.
