(* Extract.v — extraction of the executable model (ExtrOcamlBasic only:
   bool, option, unit, list, prod, sumbool mapped to OCaml's; numbers and
   bytes stay Coq's datatypes).  Run coqc on this file in the directory that
   is to receive model.ml. *)
From Secs Require Import Api.
From Coq Require Import ExtrOcamlBasic.
Extraction Language OCaml.
Extraction "model.ml" observe z2b b2z Z.add Z.mul Z.opp Z.of_nat Z.to_nat Z.of_N.
