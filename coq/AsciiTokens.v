(* AsciiTokens.v — the printed form of an ASCII item, as tokens and as text,
   parses back to the item (C04): runs of printable characters in quotes,
   every other character as 0xNN. *)
From Secs Require Import Ast FloatProofs Fill Utf8 Msg WireSpec WireLemmas WireValues HeaderProofs WireEnc WireDec MsgProofs AstProofs FillProofs FillCompose PrintProofs.
From Secs Require Import Lexer Parser SmlNumbers SmlProofs LexProofs ParseProofs LayoutProofs TokenProofs.
Open Scope Z_scope.

Definition quoted (r : bytes) : bytes := x22 :: r ++ [x22].
Definition hexlit (b : byte) : bytes := [x30; x78] ++ fmt_hex2 (b2z b).

(* the tokens of the body of a printed ASCII item; [run] is the quoted run that is still open *)
Fixpoint atoks (s : bytes) (run : option bytes) : list token :=
  match s with
  | [] => match run with Some r => [mk TQuoted (quoted r) 0] | None => [] end
  | b :: t =>
    if is_printable b then atoks t (Some (match run with Some r => r ++ [b] | None => [b] end))
    else (match run with Some r => [mk TQuoted (quoted r) 0] | None => [] end) ++ mk TNumber (hexlit b) 0 :: atoks t None
  end.

(* and its text, each token preceded by a blank *)
Fixpoint atext (s : bytes) (run : option bytes) : bytes :=
  match s with
  | [] => match run with Some r => x20 :: quoted r | None => [] end
  | b :: t =>
    if is_printable b then atext t (Some (match run with Some r => r ++ [b] | None => [b] end))
    else (match run with Some r => x20 :: quoted r | None => [] end) ++ (x20 :: hexlit b) ++ atext t None
  end.

(* the printer emits the characters of an open run at once; grouped, it is the same text *)
Lemma print_ascii_body_atext : forall s,
  (forall r, [x20; x22] ++ r ++ print_ascii_body s true = atext s (Some r)) /\
  print_ascii_body s false = atext s None.
Proof.
  induction s as [|b t [IH1 IH2]].
  - split; [intro r|reflexivity]. cbn [print_ascii_body atext]. unfold quoted. cbn [app]. reflexivity.
  - split; [intro r|]; cbn [print_ascii_body atext]; destruct (is_printable b).
    + rewrite <- (IH1 (r ++ [b])). rewrite <- ?app_assoc. cbn [app]. rewrite <- ?app_assoc. reflexivity.
    + rewrite <- IH2. unfold quoted, hexlit. cbn [app]. rewrite <- ?app_assoc. cbn [app]. rewrite <- ?app_assoc. reflexivity.
    + rewrite <- (IH1 [b]). reflexivity.
    + rewrite <- IH2. unfold hexlit. cbn [app]. rewrite <- ?app_assoc. cbn [app]. rewrite <- ?app_assoc. reflexivity.
Qed.

(* ---------- the parser on those tokens ---------- *)

Definition hex_ok (n : Z) : bool :=
  match parse_uint ([x30; x78] ++ fmt_hex2 n) 64 with (v, NumOk) => v =? n | _ => false end.

Lemma hex_ok_all : forallb hex_ok (map Z.of_nat (seq 0 256)) = true.
Proof. vm_compute. reflexivity. Qed.

Lemma hex_parse b : parse_uint (hexlit b) 64 = (b2z b, NumOk).
Proof.
  pose proof (b2z_range b) as Hr. pose proof hex_ok_all as H. rewrite forallb_forall in H.
  specialize (H (b2z b)). unfold hex_ok in H. unfold hexlit.
  assert (Hin : In (b2z b) (map Z.of_nat (seq 0 256))).
  { apply in_map_iff. exists (Z.to_nat (b2z b)). split; [lia|]. apply in_seq. lia. }
  specialize (H Hin). destruct (parse_uint ([x30; x78] ++ fmt_hex2 (b2z b)) 64) as [v e]. destruct e; try discriminate.
  apply Z.eqb_eq in H. subst v. reflexivity.
Qed.

Lemma decode_ascii b s : b2z b < 128 -> decode_rune (b :: s) = (b2z b, 1%nat).
Proof. intro H. cbn [decode_rune]. destruct (Z.ltb_spec (b2z b) 128); [reflexivity|lia]. Qed.

Lemma runes_ascii : forall s F, (length s <= F)%nat -> Forall (fun b => b2z b < 128) s -> runes_fuel F s = map b2z s.
Proof.
  induction s as [|b s IH]; intros F HF Ha; [destruct F; reflexivity|].
  destruct F as [|F]; [cbn in HF; lia|]. inversion Ha as [|? ? Hb Hs]; subst.
  cbn [runes_fuel]. rewrite (decode_ascii b s Hb). cbn [skipn map]. f_equal. apply IH; [cbn in HF; lia|exact Hs].
Qed.

Lemma no_high_runes r : Forall (fun b => b2z b < 128) r -> existsb (fun rn => 127 <? rn) (runes r) = false.
Proof.
  intro H. unfold runes. rewrite (runes_ascii r (length r)) by (lia || exact H).
  induction H as [|b r Hb _ IH]; [reflexivity|]. cbn [map existsb]. rewrite IH.
  destruct (Z.ltb_spec 127 (b2z b)); [lia|reflexivity].
Qed.

Lemma quoted_body r : removelast (tl (quoted r)) = r.
Proof. unfold quoted. cbn [tl]. apply removelast_last. Qed.

(* the literal loop rebuilds the characters: the ones already read, the open run, the rest *)
Lemma ascii_literal_atoks : forall s st n acc mn mx (run : option bytes),
  Forall (fun b => b2z b < 128) s -> Forall (fun b => b2z b < 128) (match run with Some r => r | None => [] end) ->
  ascii_literal st (atoks s run) n acc mn mx =
  (match new_ascii (acc ++ (match run with Some r => r | None => [] end) ++ s) with Some t => IOk t | None => IPanic end, st).
Proof.
  induction s as [|b t IH]; intros st n acc mn mx run Hs Hr.
  - cbn [atoks]. destruct run as [r|]; cbn [ascii_literal t_typ t_val mk].
    + rewrite quoted_body, (no_high_runes r Hr), app_nil_r. reflexivity.
    + rewrite !app_nil_r. reflexivity.
  - inversion Hs as [|? ? Hb Ht]; subst. cbn [atoks]. destruct (is_printable b).
    + rewrite IH; [|exact Ht|].
      * destruct run as [r|]; cbn [app]; rewrite <- ?app_assoc; reflexivity.
      * destruct run as [r|]; [apply Forall_app; split; [exact Hr|constructor; [exact Hb|constructor]]|constructor; [exact Hb|constructor]].
    + destruct run as [r|]; cbn [app ascii_literal t_typ t_val mk].
      * rewrite quoted_body, (no_high_runes r Hr). rewrite hex_parse.
        destruct (Z.ltb_spec 127 (b2z b)); [lia|]. rewrite z2b_b2z. rewrite IH by (assumption || constructor).
        cbn [app]. rewrite <- !app_assoc. reflexivity.
      * rewrite hex_parse. destruct (Z.ltb_spec 127 (b2z b)); [lia|]. rewrite z2b_b2z. rewrite IH by (assumption || constructor).
        cbn [app]. rewrite <- !app_assoc. reflexivity.
Qed.

Lemma atoks_values : forall s run,
  Forall (fun t => match t_typ t with TNumber | TQuoted => True | _ => False end) (atoks s run).
Proof.
  induction s as [|b t IH]; intro run; cbn [atoks].
  - destruct run; repeat constructor.
  - destruct (is_printable b); [apply IH|]. apply Forall_app. split; [destruct run; repeat constructor|constructor; [exact I|apply IH]].
Qed.

Lemma value_tokens_values ts rab rest : t_typ rab = TRAB ->
  Forall (fun t => match t_typ t with TNumber | TQuoted | TBool | TVariable => True | _ => False end) ts ->
  value_tokens (ts ++ rab :: rest) = (ts, rab :: rest).
Proof.
  intros Hr H. induction H as [|t ts Ht _ IH]; cbn [app value_tokens]; [rewrite Hr; reflexivity|].
  destruct (t_typ t); try contradiction; rewrite IH; reflexivity.
Qed.

Definition ascii_tokens (s : bytes) : list token :=
  [mk TLAB [x3c] 0; mk TItemType [x41] 0] ++
  (match s with [] => [mk TItemSize ([x5b] ++ fmt_unsigned 10 0 ++ [x5d]) 0] | _ => [] end) ++
  atoks s None ++ [mk TRAB [x3e] 0].

Section AsciiTokens.
Variable floats : float_oracle.

Theorem ascii_item_parses_back rec_list s st rest :
  new_ascii s = Some (IAscii s) -> toks st = ascii_tokens s ++ rest ->
  exists st', parse_item_body floats rec_list st = (Some (IAscii s), st') /\
              toks st' = rest /\ errs st' = errs st /\ warns st' = warns st /\ msgs st' = msgs st /\ names_char st st' [].
Proof.
  intros Hnew Ht.
  assert (Hasc : Forall (fun b => b2z b < 128) s).
  { unfold new_ascii in Hnew. destruct (negb _); [discriminate|]. destruct (is_ascii_bytes s) eqn:E; [|discriminate].
    unfold is_ascii_bytes in E. rewrite forallb_forall in E. apply Forall_forall. intros b Hb. apply Z.ltb_lt. apply E. exact Hb. }
  unfold ascii_tokens in Ht. cbn [app] in Ht.
  unfold parse_item_body. unfold advance, peek.
  assert (Hval : Forall (fun t => match t_typ t with TNumber | TQuoted | TBool | TVariable => True | _ => False end) (atoks s None)).
  { eapply Forall_impl; [|apply atoks_values]. intros t H. cbv beta in H. destruct (t_typ t); try contradiction; exact I. }
  destruct s as [|c s'].
  - (* "<A[0]>" *)
    cbn [app atoks] in Ht.
    repeat (cbn [toks tl names ecount errs warns msgs crashed]; rewrite ?Ht).
    cbn [tl typ_is t_typ t_val mk negb andb].
    assert (Hps : parse_size (x5b :: fmt_unsigned 10 0 ++ [x5d]) = (0, 0)) by (apply (parse_size_exact 0); unfold two63; lia).
    rewrite Hps. change (bytes_eqb [x41] (B"L"%string)) with false. change (bytes_eqb [x41] (B"A"%string)) with true. cbv iota.
    unfold take_values. cbn [toks value_tokens t_typ mk]. cbn [ascii_literal app]. rewrite Hnew. cbv beta iota zeta.
    cbn [item_size_for_check size length]. cbn [typ_is t_typ mk toks].
    eexists. split; [reflexivity|]. cbn [toks errs warns msgs tl]. repeat split.
    intro m. unfold known_name. cbn [names existsb]. rewrite orb_false_r. reflexivity.
  - cbn iota in Ht. cbn [app] in Ht. remember (c :: s') as s eqn:Es. rewrite <- app_assoc in Ht. cbn [app] in Ht.
    assert (Hfirst : exists t0 tl0, atoks s None ++ mk TRAB [x3e] 0 :: rest = t0 :: tl0 /\ typ_is t0 TItemSize = false /\ typ_is t0 TError = false).
    { destruct (atoks s None) as [|t0 tl0] eqn:Ea.
      - eexists; eexists. split; [reflexivity|split; reflexivity].
      - inversion Hval as [|? ? Hv _]; subst. eexists; eexists. split; [reflexivity|]. unfold typ_is. destruct (t_typ t0); try contradiction; split; reflexivity. }
    destruct Hfirst as (t0 & tl0 & E0 & Hs1 & Hs2).
    repeat (cbn [toks tl names ecount errs warns msgs crashed]; rewrite ?Ht).
    cbn [tl typ_is t_typ t_val mk negb andb]. rewrite E0, Hs1, Hs2. cbn [negb andb]. rewrite <- E0.
    change (bytes_eqb [x41] (B"L"%string)) with false. change (bytes_eqb [x41] (B"A"%string)) with true. cbv iota.
    unfold take_values. cbn [toks]. rewrite (value_tokens_values (atoks s None) (mk TRAB [x3e] 0) rest eq_refl Hval).
    rewrite (ascii_literal_atoks s _ (length (atoks s None)) [] 0 (-1) None Hasc ltac:(constructor)).
    cbn [app]. rewrite Hnew. cbv beta iota zeta. cbn [item_size_for_check size].
    assert (Hse : size_error (Z.of_nat (length s)) 0 (-1) = false).
    { unfold size_error. cbn [Z.eqb]. destruct (Z.ltb_spec (Z.of_nat (length s)) 0); [lia|reflexivity]. }
    rewrite Hse, andb_false_r. cbn [toks typ_is t_typ mk].
    eexists. split; [reflexivity|]. cbn [toks errs warns msgs tl]. repeat split.
    intro m. unfold known_name. cbn [names existsb]. rewrite orb_false_r. reflexivity.
Qed.
End AsciiTokens.

(* ---------- an ASCII variable with its length constraint ---------- *)

Definition ascii_var_size_tokens (mn mx : Z) : list token :=
  if (mn =? 0) && (mx =? -1) then []
  else if mn =? mx then [mk TItemSize ([x5b] ++ fmt_unsigned 10 mx ++ [x5d]) 0]
  else if mx =? -1 then [mk TItemSize ([x5b] ++ fmt_unsigned 10 mn ++ [x2e; x2e] ++ [x5d]) 0]
  else [mk TItemSize ([x5b] ++ fmt_unsigned 10 mn ++ [x2e; x2e] ++ fmt_unsigned 10 mx ++ [x5d]) 0].

Definition ascii_var_tokens (n : bytes) (mn mx : Z) : list token :=
  [mk TLAB [x3c] 0; mk TItemType [x41] 0] ++ ascii_var_size_tokens mn mx ++ [mk TVariable n 0; mk TRAB [x3e] 0].

Lemma ps_exact a : 0 <= a < two63 -> parse_size (x5b :: fmt_unsigned 10 a ++ [x5d]) = (a, a).
Proof. exact (parse_size_exact a). Qed.
Lemma ps_lower a : 0 <= a < two63 -> parse_size (x5b :: fmt_unsigned 10 a ++ [x2e; x2e; x5d]) = (a, -1).
Proof. exact (parse_size_lower a). Qed.
Lemma ps_range a b : 0 <= a < two63 -> 0 <= b < two63 ->
  parse_size (x5b :: fmt_unsigned 10 a ++ x2e :: x2e :: fmt_unsigned 10 b ++ [x5d]) = (a, b).
Proof. exact (parse_size_range a b). Qed.

Section AsciiVarTokens.
Variable floats : float_oracle.

Theorem ascii_var_parses_back rec_list n mn mx st rest :
  new_ascii_var n mn mx = Some (IAsciiVar n mn mx) -> mn < two63 -> mx < two63 ->
  known_name st n = false -> toks st = ascii_var_tokens n mn mx ++ rest ->
  exists st', parse_item_body floats rec_list st = (Some (IAsciiVar n mn mx), st') /\
              toks st' = rest /\ errs st' = errs st /\ warns st' = warns st /\ msgs st' = msgs st /\ names_char st st' [n].
Proof.
  intros Hnew Hmn Hmx Hk Ht.
  assert (Hc : 0 <= mn /\ -1 <= mx /\ (mx = -1 \/ mn <= mx)).
  { unfold new_ascii_var in Hnew. destruct (is_valid_var_name n && (0 <=? mn) && (-1 <=? mx) && ((mx =? -1) || (mn <=? mx))) eqn:E; [|discriminate].
    repeat (apply andb_true_iff in E as [E ?]). repeat split; try (apply Z.leb_le; assumption).
    match goal with H : (mx =? -1) || (mn <=? mx) = true |- _ => apply orb_true_iff in H as [H|H]; [left; apply Z.eqb_eq; exact H|right; apply Z.leb_le; exact H] end. }
  destruct Hc as (C1 & C2 & C3).
  assert (Hn0 : exists c n', n = c :: n').
  { unfold new_ascii_var in Hnew. destruct n as [|c n']; [discriminate|eauto]. }
  destruct Hn0 as (c & n' & En).
  unfold ascii_var_tokens, ascii_var_size_tokens in Ht.
  unfold parse_item_body. unfold advance, peek.
  assert (Hk' : forall tk, known_name {| toks := tk; names := names st; ecount := ecount st; errs := errs st; warns := warns st; msgs := msgs st; crashed := crashed st |} n = false) by (intro; exact Hk).
  destruct ((mn =? 0) && (mx =? -1)) eqn:E0.
  - apply andb_true_iff in E0 as [A0 B0]. apply Z.eqb_eq in A0. apply Z.eqb_eq in B0. subst mn mx.
    cbn [app] in Ht.
    repeat (cbn [toks tl names ecount errs warns msgs crashed]; rewrite ?Ht).
    cbn [tl typ_is t_typ t_val mk negb andb].
    change (bytes_eqb [x41] (B"L"%string)) with false. change (bytes_eqb [x41] (B"A"%string)) with true. cbv iota.
    unfold take_values. cbn [toks value_tokens t_typ mk]. cbn [ascii_literal t_typ t_val mk length Nat.eqb negb].
    rewrite Hk', Hnew. rewrite En. cbv beta iota zeta. cbn [item_size_for_check size]. cbn [toks add_name typ_is t_typ mk Z.leb Z.compare andb].
    eexists. split; [reflexivity|]. cbn [toks errs warns msgs tl]. repeat split.
    intro m. unfold known_name. cbn [names existsb]. rewrite orb_false_r. apply orb_comm.
  - destruct (Z.eqb_spec mn mx) as [Em|Em]; [|destruct (Z.eqb_spec mx (-1)) as [Ex|Ex]].
    + subst mx. cbn [app] in Ht.
      repeat (cbn [toks tl names ecount errs warns msgs crashed]; rewrite ?Ht).
      cbn [tl typ_is t_typ t_val mk negb andb]. rewrite (ps_exact mn) by lia.
      change (bytes_eqb [x41] (B"L"%string)) with false. change (bytes_eqb [x41] (B"A"%string)) with true. cbv iota.
      unfold take_values. cbn [toks value_tokens t_typ mk]. cbn [ascii_literal t_typ t_val mk length Nat.eqb negb].
      rewrite Hk', Hnew. rewrite En. cbv beta iota zeta. cbn [item_size_for_check size]. cbn [toks add_name typ_is t_typ mk Z.leb Z.compare andb].
      eexists. split; [reflexivity|]. cbn [toks errs warns msgs tl]. repeat split.
      intro m. unfold known_name. cbn [names existsb]. rewrite orb_false_r. apply orb_comm.
    + subst mx. cbn [app] in Ht.
      repeat (cbn [toks tl names ecount errs warns msgs crashed]; rewrite ?Ht).
      cbn [tl typ_is t_typ t_val mk negb andb]. rewrite (ps_lower mn) by lia.
      change (bytes_eqb [x41] (B"L"%string)) with false. change (bytes_eqb [x41] (B"A"%string)) with true. cbv iota.
      unfold take_values. cbn [toks value_tokens t_typ mk]. cbn [ascii_literal t_typ t_val mk length Nat.eqb negb].
      rewrite Hk', Hnew. rewrite En. cbv beta iota zeta. cbn [item_size_for_check size]. cbn [toks add_name typ_is t_typ mk Z.leb Z.compare andb].
      eexists. split; [reflexivity|]. cbn [toks errs warns msgs tl]. repeat split.
      intro m. unfold known_name. cbn [names existsb]. rewrite orb_false_r. apply orb_comm.
    + cbn [app] in Ht.
      repeat (cbn [toks tl names ecount errs warns msgs crashed]; rewrite ?Ht).
      cbn [tl typ_is t_typ t_val mk negb andb]. rewrite (ps_range mn mx) by lia.
      change (bytes_eqb [x41] (B"L"%string)) with false. change (bytes_eqb [x41] (B"A"%string)) with true. cbv iota.
      unfold take_values. cbn [toks value_tokens t_typ mk]. cbn [ascii_literal t_typ t_val mk length Nat.eqb negb].
      rewrite Hk', Hnew. rewrite En. cbv beta iota zeta. cbn [item_size_for_check size]. cbn [toks add_name typ_is t_typ mk Z.leb Z.compare andb].
      eexists. split; [reflexivity|]. cbn [toks errs warns msgs tl]. repeat split.
      intro m. unfold known_name. cbn [names existsb]. rewrite orb_false_r. apply orb_comm.
Qed.
End AsciiVarTokens.

