(* GapProofs.v — what follows a token does not change the token (C08): if the
   text [m] is lexed as exactly one token, then [m] followed by any white-space
   byte and anything after it is lexed as the same token, leaving the lexer in
   the same state in front of that white space.  So the kind and amount of white
   space (or a comment, which begins after white space or is recognised by its
   own two slashes) after a token is irrelevant to the token. *)
From Secs Require Import Ast Utf8 Lexer SmlNumbers SmlProofs LexProofs LayoutProofs LexPrinted CaseProofs LexNames.
Open Scope Z_scope.

(* ---------- white-space bytes ---------- *)

Lemma ws_cases d : is_ws d = true -> d = x20 \/ d = x09 \/ d = x0d \/ d = x0a.
Proof. destruct d; try discriminate; intros _; auto. Qed.

Ltac ws4 H := destruct (ws_cases _ H) as [->|[->|[->| ->]]].

Lemma ws_not_digit d : is_ws d = true -> is_digit d = false. Proof. intro H. ws4 H; reflexivity. Qed.
Lemma ws_not_word d : is_ws d = true -> is_word d = false. Proof. intro H. ws4 H; reflexivity. Qed.
Lemma ws_not_hex d : is_ws d = true -> is_hexdigit d = false. Proof. intro H. ws4 H; reflexivity. Qed.
Lemma ws_not_bin d : is_ws d = true -> is_bindigit d = false. Proof. intro H. ws4 H; reflexivity. Qed.
Lemma ws_not_oct d : is_ws d = true -> is_octdigit d = false. Proof. intro H. ws4 H; reflexivity. Qed.
Lemma ws_not_cont d : is_ws d = true -> is_cont d = false. Proof. intro H. ws4 H; reflexivity. Qed.
Lemma ws_small d : is_ws d = true -> b2z d < 128. Proof. intro H. ws4 H; reflexivity. Qed.
Lemma ws_not b d : is_ws d = true -> is_ws b = false -> byte_eqb d b = false /\ byte_eqb b d = false.
Proof.
  intros Hd Hb. split; destruct (byte_eqb _ _) eqn:E; try reflexivity; apply byte_eqb_spec in E; subst; congruence.
Qed.
Lemma ws_upper d : is_ws d = true -> upper d = d. Proof. intro H. ws4 H; reflexivity. Qed.

(* ---------- the primitives commute with appending white space and a tail ---------- *)

Lemma span_app_stop p d y : p d = false -> forall m, span p (m ++ d :: y) = (fst (span p m), snd (span p m) ++ d :: y).
Proof.
  intros Hd. induction m as [|b m IH]; cbn [app span]; [rewrite Hd; reflexivity|].
  destruct (p b); [|reflexivity]. rewrite IH. destruct (span p m). reflexivity.
Qed.

Lemma accept1_app_stop p d y : p d = false -> forall m, accept1 p (m ++ d :: y) = (fst (accept1 p m), snd (accept1 p m) ++ d :: y).
Proof. intros Hd [|b m]; cbn [app accept1]; [rewrite Hd; reflexivity|]. destruct (p b); reflexivity. Qed.

Lemma slashes_app d y m : is_ws d = true -> m <> [] -> starts_with slashes (m ++ d :: y) = starts_with slashes m.
Proof.
  intros Hd Hm. destruct m as [|a [|b m]]; [congruence| |reflexivity]. cbn [app].
  change (starts_with slashes (a :: d :: y)) with (byte_eqb x2f a && (byte_eqb x2f d && true)).
  change (starts_with slashes [a]) with (byte_eqb x2f a && false).
  assert (byte_eqb x2f d = false) by (ws4 Hd; reflexivity). rewrite H. cbn [andb]. reflexivity.
Qed.

Lemma decode_app d y m : is_ws d = true -> m <> [] -> decode_rune (m ++ d :: y) = decode_rune m.
Proof.
  intros Hd Hp. destruct m as [|b0 p]; [congruence|]. cbn [app]. unfold decode_rune.
  destruct (b2z b0 <? 128); [reflexivity|].
  pose proof (ws_not_cont d Hd) as Hc.
  assert (Hr : forall lo hi, 128 <= lo -> in_range lo hi (b2z d) = false).
  { intros lo hi Hlo. unfold in_range. pose proof (ws_small d Hd). destruct (Z.leb_spec lo (b2z d)); [lia|reflexivity]. }
  destruct (in_range 194 223 (b2z b0)).
  { destruct p as [|b1 p]; cbn [app]; [rewrite Hc|]; reflexivity. }
  destruct (in_range 224 239 (b2z b0)).
  { set (lo := if b2z b0 =? 224 then 160 else 128). set (hi := if b2z b0 =? 237 then 159 else 191).
    assert (Hlo : 128 <= lo) by (subst lo; destruct (b2z b0 =? 224); lia).
    destruct p as [|b1 [|b2 p]]; cbn [app]; try reflexivity.
    - destruct y; [reflexivity|]. rewrite (Hr lo hi Hlo). reflexivity.
    - rewrite Hc, andb_false_r. reflexivity. }
  destruct (in_range 240 244 (b2z b0)); [|reflexivity].
  set (lo := if b2z b0 =? 240 then 144 else 128). set (hi := if b2z b0 =? 244 then 143 else 191).
  assert (Hlo : 128 <= lo) by (subst lo; destruct (b2z b0 =? 240); lia).
  destruct p as [|b1 [|b2 [|b3 p]]]; cbn [app]; try reflexivity.
  - destruct y as [|? [|? ?]]; try reflexivity. rewrite (Hr lo hi Hlo). reflexivity.
  - destruct y; try reflexivity. rewrite Hc, andb_false_r. reflexivity.
  - rewrite Hc, andb_false_r. reflexivity.
Qed.

Lemma decode_ws d y : is_ws d = true -> decode_rune (d :: y) = (b2z d, 1%nat).
Proof. intro H. unfold decode_rune. pose proof (ws_small d H). destruct (Z.ltb_spec (b2z d) 128); [reflexivity|lia]. Qed.

Lemma ws_space_rune d : is_ws d = true -> is_space_rune (b2z d) = true.
Proof. intro H. ws4 H; reflexivity. Qed.

Lemma ws_not_alnum alnum d : is_ws d = true -> is_alnum_rune alnum (b2z d) = false.
Proof. intro H. ws4 H; reflexivity. Qed.

(* ---------- the matchers commute with appending white space and a tail ---------- *)

Definition ext_opt (d : byte) (y : bytes) (o : option (bytes * bytes)) : option (bytes * bytes) :=
  match o with Some (m, r) => Some (m, r ++ d :: y) | None => None end.

Lemma upper_ws_ne d (c : byte) : is_ws d = true -> is_ws c = false -> byte_eqb (upper d) c = false.
Proof. intros Hd Hc. rewrite (ws_upper d Hd). apply (ws_not c d Hd Hc). Qed.

Lemma match_sf_app d y m : is_ws d = true -> match_sf (m ++ d :: y) = ext_opt d y (match_sf m).
Proof.
  intro Hd. pose proof (ws_not_digit d Hd) as Hdig.
  destruct m as [|c r]; cbn [app match_sf ext_opt].
  { rewrite (upper_ws_ne d x53 Hd) by reflexivity. reflexivity. }
  destruct (byte_eqb (upper c) x53); [|reflexivity].
  rewrite (span_app_stop is_digit d y Hdig r). destruct (span is_digit r) as [d1 r1]. cbn [fst snd].
  destruct d1 as [|x1 d1]; [reflexivity|]. destruct r1 as [|f r2]; cbn [app].
  { rewrite (upper_ws_ne d x46 Hd) by reflexivity. reflexivity. }
  destruct (byte_eqb (upper f) x46); [|reflexivity].
  rewrite (span_app_stop is_digit d y Hdig r2). destruct (span is_digit r2) as [d2 r3]. cbn [fst snd].
  destruct d2; reflexivity.
Qed.

Lemma match_wbit_app d y m : is_ws d = true -> match_wbit (m ++ d :: y) = ext_opt d y (match_wbit m).
Proof.
  intro Hd. destruct m as [|c [|w [|e r]]]; cbn [app match_wbit ext_opt].
  - rewrite (upper_ws_ne d x57 Hd) by reflexivity. destruct (byte_eqb d x5b) eqn:E; [apply byte_eqb_spec in E; subst d; discriminate Hd|reflexivity].
  - destruct (byte_eqb (upper c) x57); [reflexivity|]. destruct (byte_eqb c x5b); [|reflexivity]. destruct y as [|e y']; [reflexivity|].
    rewrite (upper_ws_ne d x57 Hd) by reflexivity. reflexivity.
  - destruct (byte_eqb (upper c) x57); [reflexivity|]. destruct (byte_eqb c x5b); [|reflexivity].
    destruct (byte_eqb d x5d) eqn:E; [apply byte_eqb_spec in E; subst d; discriminate Hd|]. rewrite andb_false_r. reflexivity.
  - destruct (byte_eqb (upper c) x57); [reflexivity|]. destruct (byte_eqb c x5b); [|reflexivity]. destruct (_ && _); reflexivity.
Qed.

Lemma ws_ne_sym d (c : byte) : is_ws d = true -> is_ws c = false -> byte_eqb d c = false.
Proof. intros Hd Hc. apply (ws_not c d Hd Hc). Qed.

Lemma match_dir_app d y m : is_ws d = true -> match_dir (m ++ d :: y) = ext_opt d y (match_dir m).
Proof.
  intro Hd.
  assert (N2d : byte_eqb d x2d = false) by (apply ws_ne_sym; [exact Hd|reflexivity]).
  assert (N3e : byte_eqb d x3e = false) by (apply ws_ne_sym; [exact Hd|reflexivity]).
  assert (N3c : byte_eqb d x3c = false) by (apply ws_ne_sym; [exact Hd|reflexivity]).
  assert (NE : byte_eqb (upper d) x45 = false) by (apply upper_ws_ne; [exact Hd|reflexivity]).
  assert (NH : byte_eqb (upper d) x48 = false) by (apply upper_ws_ne; [exact Hd|reflexivity]).
  destruct m as [|h [|a [|b [|c [|e r]]]]]; cbn [app match_dir ext_opt].
  - rewrite NH. reflexivity.
  - destruct (byte_eqb (upper h) x48); [|reflexivity]. destruct y as [|b [|c y']]; try reflexivity.
    rewrite N2d, N3c. reflexivity.
  - destruct (byte_eqb (upper h) x48); [|reflexivity]. destruct y as [|c y']; try reflexivity.
    rewrite N3e, N2d, !andb_false_r. reflexivity.
  - destruct (byte_eqb (upper h) x48); [|reflexivity]. rewrite NE, N3e, !andb_false_r. reflexivity.
  - destruct (byte_eqb (upper h) x48); [|reflexivity].
    destruct (byte_eqb a x2d && byte_eqb b x3e && byte_eqb (upper c) x45); [reflexivity|].
    destruct (byte_eqb a x3c && byte_eqb b x2d && byte_eqb (upper c) x45); [reflexivity|].
    destruct (byte_eqb a x3c && byte_eqb b x2d && byte_eqb c x3e); [|reflexivity]. rewrite NE. reflexivity.
  - destruct (byte_eqb (upper h) x48); [|reflexivity].
    destruct (byte_eqb a x2d && byte_eqb b x3e && byte_eqb (upper c) x45); [reflexivity|].
    destruct (byte_eqb a x3c && byte_eqb b x2d && byte_eqb (upper c) x45); [reflexivity|].
    destruct (byte_eqb a x3c && byte_eqb b x2d && byte_eqb c x3e); [|reflexivity]. destruct (byte_eqb (upper e) x45); reflexivity.
Qed.

Lemma match_index_app d y m : is_ws d = true -> match_index (m ++ d :: y) = ext_opt d y (match_index m).
Proof.
  intro Hd. pose proof (ws_not_digit d Hd) as Hdig. destruct m as [|o r]; cbn [app match_index ext_opt].
  { rewrite (ws_ne_sym d x5b Hd) by reflexivity. reflexivity. }
  destruct (byte_eqb o x5b); [|reflexivity].
  rewrite (span_app_stop is_digit d y Hdig r). destruct (span is_digit r) as [d1 r1]. cbn [fst snd].
  destruct d1 as [|x1 d1]; [destruct r1; reflexivity|]. destruct r1 as [|c r2]; cbn [app].
  { rewrite (ws_ne_sym d x5d Hd) by reflexivity. reflexivity. }
  destruct (byte_eqb c x5d); reflexivity.
Qed.

Lemma match_indices_app d y : is_ws d = true -> forall f m,
  match_indices f (m ++ d :: y) = (fst (match_indices f m), snd (match_indices f m) ++ d :: y).
Proof.
  intro Hd. induction f as [|f IH]; intro m; cbn [match_indices]; [reflexivity|].
  rewrite (match_index_app d y m Hd). destruct (match_index m) as [[mm r]|]; cbn [ext_opt]; [|reflexivity].
  rewrite IH. destruct (match_indices f r). reflexivity.
Qed.

Lemma match_ellipsis_app d y m : is_ws d = true -> match_ellipsis (m ++ d :: y) = ext_opt d y (match_ellipsis m).
Proof.
  intro Hd. assert (Nd : byte_eqb d x2e = false) by (apply ws_ne_sym; [exact Hd|reflexivity]).
  destruct m as [|a [|b [|c r]]]; cbn [app match_ellipsis ext_opt].
  - destruct y as [|? [|? ?]]; try reflexivity. rewrite Nd. reflexivity.
  - destruct y as [|? ?]; try reflexivity. rewrite Nd, andb_false_r. reflexivity.
  - rewrite Nd, andb_false_r. reflexivity.
  - destruct (byte_eqb a x2e && byte_eqb b x2e && byte_eqb c x2e); [|reflexivity].
    rewrite (match_index_app d y r Hd). destruct (match_index r) as [[mm r']|]; reflexivity.
Qed.

Lemma match_ident_app d y m : is_ws d = true -> match_ident (m ++ d :: y) = ext_opt d y (match_ident m).
Proof.
  intro Hd. destruct m as [|c r]; cbn [app match_ident ext_opt].
  { assert (is_alpha_ d = false) by (ws4 Hd; reflexivity). rewrite H. reflexivity. }
  destruct (is_alpha_ c); [|reflexivity]. rewrite (span_app_stop is_word d y (ws_not_word d Hd) r).
  destruct (span is_word r). reflexivity.
Qed.

(* ---------- numbers ---------- *)

Lemma lex_number_app alnum d y m : is_ws d = true ->
  lex_number alnum (m ++ d :: y) = let '(t, r, ok) := lex_number alnum m in (t, r ++ d :: y, ok).
Proof.
  intro Hd. unfold lex_number.
  assert (Psign : (fun b => byte_eqb b x2b || byte_eqb b x2d) d = false) by (ws4 Hd; reflexivity).
  assert (Pzero : (fun b => byte_eqb b x30) d = false) by (ws4 Hd; reflexivity).
  assert (Pdot : (fun b => byte_eqb b x2e) d = false) by (ws4 Hd; reflexivity).
  assert (Pexp : (fun b => byte_eqb (upper b) x45) d = false) by (ws4 Hd; reflexivity).
  rewrite (accept1_app_stop _ d y Psign m). destruct (accept1 _ m) as [sg r0]. cbn [fst snd].
  rewrite (accept1_app_stop _ d y Pzero r0). destruct (accept1 _ r0) as [z r1]. cbn [fst snd].
  (* the prefix stage *)
  set (P1 := match z with [] => _ | _ => _ end).
  set (P2 := match z with [] => _ | _ => _ end).
  assert (EP : P1 = (let '(pre, digits, r2) := P2 in (pre, digits, r2 ++ d :: y)) /\
               (let '(_, digits, _) := P2 in digits d = false)).
  { subst P1 P2. destruct z as [|z0 z'].
    - split; [reflexivity|apply ws_not_digit; exact Hd].
    - destruct r1 as [|c r']; cbn [app].
      + assert (byte_eqb (upper d) x58 = false) by (ws4 Hd; reflexivity).
        assert (byte_eqb (upper d) x42 = false) by (ws4 Hd; reflexivity).
        assert (byte_eqb (upper d) x4f = false) by (ws4 Hd; reflexivity).
        rewrite H, H0, H1. split; [reflexivity|apply ws_not_digit; exact Hd].
      + destruct (byte_eqb (upper c) x58); [split; [reflexivity|apply ws_not_hex; exact Hd]|].
        destruct (byte_eqb (upper c) x42); [split; [reflexivity|apply ws_not_bin; exact Hd]|].
        destruct (byte_eqb (upper c) x4f); [split; [reflexivity|apply ws_not_oct; exact Hd]|].
        split; [reflexivity|apply ws_not_digit; exact Hd]. }
  destruct EP as [EP Hdig]. rewrite EP. clear EP. clearbody P2. destruct P2 as [[pre digits] r2].
  rewrite (span_app_stop digits d y Hdig r2). destruct (span digits r2) as [ds r3]. cbn [fst snd].
  rewrite (accept1_app_stop _ d y Pdot r3). destruct (accept1 _ r3) as [dot r4]. cbn [fst snd].
  set (F1 := match dot with [] => _ | _ => _ end). set (F2 := match dot with [] => _ | _ => _ end).
  assert (EF : F1 = (fst F2, snd F2 ++ d :: y)).
  { subst F1 F2. destruct dot; [reflexivity|]. rewrite (span_app_stop digits d y Hdig r4). reflexivity. }
  rewrite EF. clear EF. clearbody F2. destruct F2 as [fr r5]. cbn [fst snd].
  rewrite (accept1_app_stop _ d y Pexp r5). destruct (accept1 _ r5) as [e r6]. cbn [fst snd].
  set (G1 := match e with [] => _ | _ => _ end). set (G2 := match e with [] => _ | _ => _ end).
  assert (EG : G1 = (fst G2, snd G2 ++ d :: y)).
  { subst G1 G2. destruct e; [reflexivity|]. rewrite (accept1_app_stop _ d y Psign r6). reflexivity. }
  rewrite EG. clear EG. clearbody G2. destruct G2 as [esg r7]. cbn [fst snd].
  set (K1 := match e with [] => _ | _ => _ end). set (K2 := match e with [] => _ | _ => _ end).
  assert (EK : K1 = (fst K2, snd K2 ++ d :: y)).
  { subst K1 K2. destruct e; [reflexivity|]. rewrite (span_app_stop is_digit d y (ws_not_digit d Hd) r7). reflexivity. }
  rewrite EK. clear EK. clearbody K2. destruct K2 as [eds r8]. cbn [fst snd].
  destruct r8 as [|b8 r8']; cbn [app].
  - rewrite (decode_ws d y Hd), (ws_not_alnum alnum d Hd). reflexivity.
  - change (b8 :: r8' ++ d :: y) with ((b8 :: r8') ++ d :: y).
    rewrite (decode_app d y (b8 :: r8') Hd) by discriminate.
    pose proof (decode_rune_width_le (b8 :: r8')) as Hw.
    destruct (decode_rune (b8 :: r8')) as [rn w]. cbn [snd] in Hw.
    destruct (is_alnum_rune alnum rn); [|reflexivity].
    rewrite firstn_app, skipn_app. replace (w - length (b8 :: r8'))%nat with 0%nat by lia. cbn [firstn skipn]. rewrite app_nil_r. reflexivity.
Qed.

(* ---------- message names ---------- *)

Lemma scan_name_app d y : is_ws d = true -> forall g u, scan_name g (u ++ d :: y) = scan_name g u.
Proof.
  intro Hd. induction g as [|g IH]; intro u; [reflexivity|]. cbn [scan_name].
  destruct u as [|b0 u0].
  - cbn [app]. change (starts_with slashes (d :: y)) with (byte_eqb x2f d && match y with [] => false | c :: _ => byte_eqb x2f c && true end).
    assert (byte_eqb x2f d = false) by (ws4 Hd; reflexivity). rewrite H. cbn [andb].
    rewrite (decode_ws d y Hd), (ws_space_rune d Hd). reflexivity.
  - set (u := b0 :: u0). change (b0 :: u0 ++ d :: y) with (u ++ d :: y).
    destruct (u ++ d :: y) as [|c0 c] eqn:Ec; [discriminate Ec|]. rewrite <- Ec.
    rewrite (slashes_app d y u Hd) by discriminate. destruct (starts_with slashes u); [reflexivity|].
    rewrite (decode_app d y u Hd) by discriminate.
    pose proof (decode_rune_width_le u) as Hw. destruct (decode_rune u) as [rn w]. cbn [snd] in Hw.
    destruct (is_space_rune rn); [reflexivity|].
    rewrite firstn_app, skipn_app. replace (w - length u)%nat with 0%nat by lia. cbn [firstn skipn]. rewrite app_nil_r.
    rewrite IH. reflexivity.
Qed.

Lemma scan_name_fuel : forall g g' u, (length u <= g)%nat -> (length u <= g')%nat -> scan_name g u = scan_name g' u.
Proof.
  induction g as [|g IH]; intros g' u Hg Hg'.
  - destruct u; [|cbn in Hg; lia]. destruct g'; reflexivity.
  - destruct g' as [|g'']; [destruct u; [reflexivity|cbn in Hg'; lia]|]. cbn [scan_name].
    destruct u as [|b0 u0]; [reflexivity|]. destruct (starts_with slashes (b0 :: u0)); [reflexivity|].
    pose proof (decode_rune_width_pos b0 u0) as Hp. destruct (decode_rune (b0 :: u0)) as [rn w]. cbn [snd] in Hp.
    destruct (is_space_rune rn); [reflexivity|]. f_equal. apply IH; rewrite skipn_length; cbn [length] in *; lia.
Qed.

(* ---------- sizes and quoted strings: when the token is the whole text ---------- *)

Lemma span_inside p m a c t : span p m = (a, c) -> c <> [] -> span p (m ++ t) = (a, c ++ t).
Proof.
  revert a c. induction m as [|b m IH]; intros a c H Hc; cbn [span] in H; [inversion H; subst; congruence|].
  cbn [app span]. destruct (p b); [|inversion H; subst; reflexivity].
  destruct (span p m) as [a' c'] eqn:E. inversion H; subst. rewrite (IH a' c eq_refl Hc). reflexivity.
Qed.

Lemma lex_quoted_app q t m : lex_quoted m = Some (q, []) -> lex_quoted (m ++ t) = Some (q, t).
Proof.
  unfold lex_quoted. destruct m as [|q0 r]; [discriminate|]. cbn [app].
  destruct (span (fun b => negb (byte_eqb b x22)) r) as [body r1] eqn:E. destruct r1 as [|c r2]; [discriminate|].
  rewrite (span_inside _ r body (c :: r2) t E) by discriminate. cbn [app].
  destruct (existsb _ body); [discriminate|]. intro H; inversion H; subst. reflexivity.
Qed.

(* the part of lexDataItemSize after the first number and the blanks that follow it *)
Definition size_tail (o : byte) (w1 d1 w2 r3 : bytes) : option (bytes * bytes) :=
    let '(dd, w3, d2, w4, r4) :=
        if starts_with [x2e; x2e] r3 then
          let r3' := skipn 2 r3 in
          let '(w3, r5) := span is_ws r3' in
          let '(d2, r6) := span is_digit r5 in
          let '(w4, r7) := match d2 with [] => ([], r6) | _ => span is_ws r6 end in
          ([x2e; x2e], w3, d2, w4, r7)
        else ([], [], [], [], r3) in
    match r4 with
    | c :: r5 =>
      if byte_eqb c x5d && negb (is_nil d1 && is_nil d2)
      then Some (o :: w1 ++ d1 ++ w2 ++ dd ++ w3 ++ d2 ++ w4 ++ [c], r5)
      else None
    | [] => None
    end.

Lemma size_tail_app o w1 d1 w2 r3 raw t : size_tail o w1 d1 w2 r3 = Some (raw, []) -> size_tail o w1 d1 w2 (r3 ++ t) = Some (raw, t).
Proof.
  unfold size_tail. destruct r3 as [|x3 r3']; [cbn; discriminate|].
  destruct (starts_with [x2e; x2e] (x3 :: r3')) eqn:Edots.
  - assert (Hlen : exists x4 r4', r3' = x4 :: r4').
    { destruct r3' as [|x4 r4']; [|eexists; eexists; reflexivity].
      change (starts_with [x2e; x2e] [x3]) with (byte_eqb x2e x3 && false) in Edots. rewrite andb_false_r in Edots. discriminate. }
    destruct Hlen as (x4 & r4' & ->).
    change (starts_with [x2e; x2e] ((x3 :: x4 :: r4') ++ t)) with (starts_with [x2e; x2e] (x3 :: x4 :: r4')). rewrite Edots.
    change (skipn 2 ((x3 :: x4 :: r4') ++ t)) with (r4' ++ t). change (skipn 2 (x3 :: x4 :: r4')) with r4'.
    destruct (span is_ws r4') as [w3 r5] eqn:E5.
    destruct r5 as [|x5 r5']; [cbn; discriminate|].
    rewrite (span_inside is_ws r4' w3 (x5 :: r5') t E5) by discriminate.
    destruct (span is_digit (x5 :: r5')) as [d2 r6] eqn:E6.
    destruct r6 as [|x6 r6']; [destruct d2; cbn; discriminate|].
    rewrite (span_inside is_digit (x5 :: r5') d2 (x6 :: r6') t E6) by discriminate.
    destruct d2 as [|dd2 d2'].
    + cbn [app]. destruct (byte_eqb x6 x5d && negb (is_nil d1 && is_nil [])); [|discriminate]. intro H; inversion H; subst. reflexivity.
    + destruct (span is_ws (x6 :: r6')) as [w4 r7] eqn:E7.
      destruct r7 as [|x7 r7']; [discriminate|].
      rewrite (span_inside is_ws (x6 :: r6') w4 (x7 :: r7') t E7) by discriminate. cbn [app].
      destruct (byte_eqb x7 x5d && negb (is_nil d1 && is_nil (dd2 :: d2'))); [|discriminate]. intro H; inversion H; subst. reflexivity.
  - intro H.
    assert (Edots' : starts_with [x2e; x2e] ((x3 :: r3') ++ t) = false).
    { destruct r3' as [|x4 r4']; [|exact Edots]. cbn [app].
      destruct (byte_eqb x3 x5d && negb (is_nil d1 && is_nil [])) eqn:Ec; [|discriminate H].
      apply andb_true_iff in Ec as [Ec _]. apply byte_eqb_spec in Ec. subst x3. destruct t; reflexivity. }
    rewrite Edots'. cbn [app].
    destruct (byte_eqb x3 x5d && negb (is_nil d1 && is_nil [])); [|discriminate H]. inversion H; subst. reflexivity.
Qed.

Lemma lex_size_app raw t m : lex_size m = Some (raw, []) -> lex_size (m ++ t) = Some (raw, t).
Proof.
  unfold lex_size. destruct m as [|o r]; [discriminate|]. cbn [app].
  destruct (span is_ws r) as [w1 r1] eqn:E1.
  destruct r1 as [|x1 r1']; [cbn; discriminate|].
  rewrite (span_inside is_ws r w1 (x1 :: r1') t E1) by discriminate.
  destruct (span is_digit (x1 :: r1')) as [d1 r2] eqn:E2.
  destruct r2 as [|x2 r2']; [destruct d1; cbn; discriminate|].
  rewrite (span_inside is_digit (x1 :: r1') d1 (x2 :: r2') t E2) by discriminate.
  destruct d1 as [|dd1 d1'].
  - exact (size_tail_app o w1 [] [] (x2 :: r2') raw t).
  - destruct (span is_ws (x2 :: r2')) as [w2 r3] eqn:E3.
    destruct r3 as [|x3 r3']; [cbn; discriminate|].
    rewrite (span_inside is_ws (x2 :: r2') w2 (x3 :: r3') t E3) by discriminate.
    exact (size_tail_app o w1 (dd1 :: d1') w2 (x3 :: r3') raw t).
Qed.

Lemma match_indices_fuel : forall f f' r, (length r <= f)%nat -> (length r <= f')%nat -> match_indices f r = match_indices f' r.
Proof.
  induction f as [|f IH]; intros f' r Hf Hf'.
  - destruct r; [|cbn in Hf; lia]. destruct f'; reflexivity.
  - destruct f' as [|f'']; [destruct r; [reflexivity|cbn in Hf'; lia]|]. cbn [match_indices].
    destruct (match_index r) as [[m r1]|] eqn:E; [|reflexivity].
    destruct (match_index_strip _ _ _ E) as (ds & -> & _ & _ & ->).
    rewrite (IH f'' r1); [reflexivity| |]; rewrite app_length in *; cbn [length] in *; lia.
Qed.

(* ---------- the token is the same whatever follows it ---------- *)

Theorem token_then_ws alnum st m tok st' o' off d y :
  lex_step1 alnum st m off = LEmit tok st' [] o' -> t_typ tok <> TComment -> is_ws d = true ->
  lex_step1 alnum st (m ++ d :: y) off = LEmit tok st' (d :: y) o'.
Proof.
  intros H Hnc Hd.
  assert (Hm : m <> []).
  { intro E. subst m. unfold lex_step1 in H. cbn in H. destruct st; discriminate H. }
  unfold lex_step1 in *. rewrite (slashes_app d y m Hd Hm).
  destruct (starts_with slashes m).
  { exfalso. destruct (lex_comment m) as [[c r] at_end]. destruct at_end; [discriminate H|]. inversion H; subst. apply Hnc. reflexivity. }
  destruct st.
  - (* header *)
    rewrite (match_sf_app d y m Hd). destruct (match_sf m) as [[mm r]|]; cbn [ext_opt].
    { inversion H; subst. reflexivity. }
    rewrite (match_wbit_app d y m Hd). destruct (match_wbit m) as [[mm r]|]; cbn [ext_opt].
    { inversion H; subst. reflexivity. }
    rewrite (match_dir_app d y m Hd). destruct (match_dir m) as [[mm r]|]; cbn [ext_opt].
    { inversion H; subst. reflexivity. }
    destruct m as [|b r]; [congruence|]. cbn [app].
    destruct (is_ws b); [discriminate H|].
    destruct (byte_eqb b x2e); [inversion H; subst; reflexivity|].
    destruct (byte_eqb b x3c); [inversion H; subst; reflexivity|].
    change (b :: r ++ d :: y) with ((b :: r) ++ d :: y). set (s := b :: r) in *.
    rewrite (decode_app d y s Hd Hm).
    pose proof (decode_rune_width_le s) as Hw. destruct (decode_rune s) as [r0 w0]. cbn [snd] in Hw.
    destruct (is_space_rune r0); [discriminate H|].
    assert (Esk : skipn w0 (s ++ d :: y) = skipn w0 s ++ d :: y).
    { rewrite skipn_app. replace (w0 - length s)%nat with 0%nat by lia. reflexivity. }
    assert (Efi : firstn w0 (s ++ d :: y) = firstn w0 s).
    { rewrite firstn_app. replace (w0 - length s)%nat with 0%nat by lia. cbn [firstn]. apply app_nil_r. }
    rewrite Esk, Efi, (scan_name_app d y Hd).
    rewrite (scan_name_fuel (length (s ++ d :: y)) (length s) (skipn w0 s)) by (rewrite ?app_length, skipn_length; cbn [length]; lia).
    set (full := firstn w0 s ++ scan_name (length s) (skipn w0 s)) in *.
    inversion H as [[Ht Hst Hrest Ho]].
    assert (Hfl : (length full <= length s)%nat).
    { subst full. rewrite app_length, firstn_length_le by exact Hw.
      pose proof (f_equal (@length byte) (scan_name_prefix (length s) (skipn w0 s))) as Hp. rewrite firstn_length, skipn_length in Hp. lia. }
    rewrite skipn_app. replace (length full - length s)%nat with 0%nat by lia. rewrite Hrest. cbn [skipn app]. reflexivity.
  - (* message text *)
    rewrite (match_ellipsis_app d y m Hd). destruct (match_ellipsis m) as [[mm r]|]; cbn [ext_opt].
    { inversion H; subst. reflexivity. }
    rewrite (match_ident_app d y m Hd). destruct (match_ident m) as [[mi r]|]; cbn [ext_opt].
    { destruct (mem_bytes (to_upper mi) item_types); [inversion H; subst; reflexivity|].
      destruct (bytes_eqb (to_upper mi) [x54] || bytes_eqb (to_upper mi) [x46]); [inversion H; subst; reflexivity|].
      rewrite (match_indices_app d y Hd).
      rewrite (match_indices_fuel (length (r ++ d :: y)) (length r) r) by (rewrite ?app_length; cbn [length]; lia).
      destruct (match_indices (length r) r) as [ix r']. cbn [fst snd]. inversion H; subst. reflexivity. }
    destruct m as [|b r]; [congruence|]. cbn [app].
    assert (Ens : (match r ++ d :: y with d0 :: _ => is_digit d0 | [] => false end) = (match r with d0 :: _ => is_digit d0 | [] => false end)).
    { destruct r; [cbn [app]; apply ws_not_digit; exact Hd|reflexivity]. }
    rewrite Ens.
    destruct (byte_eqb b x2b || byte_eqb b x2d || is_digit b || byte_eqb b x2e && match r with d0 :: _ => is_digit d0 | [] => false end).
    { change (b :: r ++ d :: y) with ((b :: r) ++ d :: y). rewrite (lex_number_app alnum d y (b :: r) Hd).
      destruct (lex_number alnum (b :: r)) as [[txt r'] ok]. destruct ok; [inversion H; subst; reflexivity|discriminate H]. }
    destruct (byte_eqb b x3c); [inversion H; subst; reflexivity|].
    destruct (byte_eqb b x3e); [inversion H; subst; reflexivity|].
    destruct (byte_eqb b x2e); [inversion H; subst; reflexivity|].
    destruct (byte_eqb b x5b).
    { destruct (lex_size (b :: r)) as [[raw r']|] eqn:Es; [|discriminate H]. inversion H; subst.
      change (b :: r ++ d :: y) with ((b :: r) ++ d :: y). rewrite (lex_size_app raw (d :: y) (b :: r) Es). reflexivity. }
    destruct (byte_eqb b x22).
    { destruct (lex_quoted (b :: r)) as [[q r']|] eqn:Eq; [|discriminate H]. inversion H; subst.
      change (b :: r ++ d :: y) with ((b :: r) ++ d :: y). rewrite (lex_quoted_app q (d :: y) (b :: r) Eq). reflexivity. }
    destruct (is_ws b); [discriminate H|].
    destruct (decode_rune (b :: r)); discriminate H.
Qed.

(* hence: two texts that differ only in what follows the token give the same token *)
Corollary token_ignores_the_gap alnum st m tok st' o' off d y d2 y2 :
  lex_step1 alnum st m off = LEmit tok st' [] o' -> t_typ tok <> TComment -> is_ws d = true -> is_ws d2 = true ->
  lex_step1 alnum st (m ++ d :: y) off = LEmit tok st' (d :: y) o' /\
  lex_step1 alnum st (m ++ d2 :: y2) off = LEmit tok st' (d2 :: y2) o'.
Proof. intros H Hn H1 H2. split; apply token_then_ws; assumption. Qed.

(* premises are satisfiable: a variable with indices, a number, a size spread over two lines *)
Example gap_examples alnum off y :
  lex_step1 alnum LText (B"abc[12][3]"%string ++ x09 :: y) off = LEmit (mk TVariable (B"abc[12][3]"%string) off) LText (x09 :: y) (off + 3 + 7) /\
  lex_step1 alnum LText (B"-0x1F"%string ++ x0d :: y) off = LEmit (mk TNumber (B"-0x1F"%string) off) LText (x0d :: y) (off + 5) /\
  lex_step1 alnum LText ([x5b; x20; x31; x0a; x2e; x2e; x32; x5d] ++ x20 :: y) off =
    LEmit (mk TItemSize (B"[1..2]"%string) off) LText (x20 :: y) (off + 8).
Proof.
  split; [|split]; (apply token_then_ws; [reflexivity|discriminate|reflexivity]).
Qed.

(* ---------- whole texts: tokens separated by white space ---------- *)

(* [ms] are the texts of consecutive tokens: each is lexed as exactly one token
   in the state the previous one leaves; [ts] are the tokens with their offsets erased *)
Inductive tokseq (alnum : list Z) : lstate -> list bytes -> list token -> lstate -> Prop :=
| Ts_nil st : tokseq alnum st [] [] st
| Ts_cons st m tok st1 o' ms ts st2 :
    lex_step1 alnum st m 0 = LEmit tok st1 [] o' -> t_typ tok <> TComment ->
    tokseq alnum st1 ms ts st2 -> tokseq alnum st (m :: ms) (zoff tok :: ts) st2.

(* token texts woven with gaps: m1 g1 m2 g2 ... *)
Fixpoint weave (ms gs : list bytes) : bytes :=
  match ms, gs with
  | m :: ms', g :: gs' => m ++ g ++ weave ms' gs'
  | _, _ => []
  end.

Definition gap (g : bytes) : Prop := g <> [] /\ Forall (fun b => is_ws b = true) g.

Lemma zoff_shift d t : zoff (shift d t) = zoff t.
Proof. reflexivity. Qed.

Lemma lexes_gap alnum g st s off : Forall (fun b => is_ws b = true) g ->
  lexes alnum st (g ++ s) off [] st s (off + Z.of_nat (length g)).
Proof. intro H. exists (length g). intro F. rewrite (lex_skip_whitespace alnum g H). reflexivity. Qed.

Theorem weave_lexes alnum : forall st ms ts st2, tokseq alnum st ms ts st2 ->
  forall gs, length gs = length ms -> Forall gap gs ->
  forall rest off, exists ts' off', lexes alnum st (weave ms gs ++ rest) off ts' st2 rest off' /\ map zoff ts' = ts.
Proof.
  induction 1 as [st|st m tok st1 o' ms ts st2 Hstep Hnc _ IH]; intros gs Hlen Hg rest off.
  - destruct gs; [|discriminate]. exists [], off. split; [|reflexivity]. cbn [weave app]. apply lexes_refl.
  - destruct gs as [|g gs]; [discriminate|]. inversion Hg as [|? ? [Hgne Hgws] Hgs]; subst.
    destruct g as [|d g']; [congruence|]. inversion Hgws as [|? ? Hd Hg']; subst.
    cbn [weave]. rewrite <- !app_assoc. cbn [app].
    pose proof (token_then_ws alnum st m tok st1 o' 0 d (g' ++ weave ms gs ++ rest) Hstep Hnc Hd) as H0.
    destruct (IH gs ltac:(cbn in Hlen; lia) Hgs rest (o' + off + Z.of_nat (length (d :: g')))) as [ts2 [off2 [L2 Z2]]].
    exists ([shift off tok] ++ ([] ++ ts2)), off2. split.
    + eapply lexes_trans.
      * apply lexes_emit. rewrite (lex_step1_shift alnum st _ off), H0. reflexivity.
      * eapply lexes_trans; [|exact L2].
        change (d :: g' ++ weave ms gs ++ rest) with ((d :: g') ++ weave ms gs ++ rest). apply lexes_gap. exact Hgws.
    + cbn [map app]. rewrite zoff_shift, Z2. reflexivity.
Qed.

(* two layouts of the same token texts — any non-empty runs of blanks, tabs, CR
   and LF between them — are lexed into the same tokens up to their offsets *)
Corollary layout_independent alnum st ms ts st2 gs gs' rest rest' off off' :
  tokseq alnum st ms ts st2 -> length gs = length ms -> length gs' = length ms -> Forall gap gs -> Forall gap gs' ->
  exists t1 t2 o1 o2,
    lexes alnum st (weave ms gs ++ rest) off t1 st2 rest o1 /\
    lexes alnum st (weave ms gs' ++ rest') off' t2 st2 rest' o2 /\ map zoff t1 = map zoff t2.
Proof.
  intros Hs L1 L2 G1 G2.
  destruct (weave_lexes alnum st ms ts st2 Hs gs L1 G1 rest off) as [t1 [o1 [A1 Z1]]].
  destruct (weave_lexes alnum st ms ts st2 Hs gs' L2 G2 rest' off') as [t2 [o2 [A2 Z2]]].
  exists t1, t2, o1, o2. split; [exact A1|split; [exact A2|congruence]].
Qed.

(* premises are satisfiable: the token texts of "S1F1 W <U1 7 x>" *)
Example tokseq_example alnum :
  exists ts, tokseq alnum LHeader [B"S1F1"; B"W"; B"<"; B"U1"; B"7"; B"x"; B">"]%string ts LText /\
             map t_typ ts = [TStreamFunction; TWaitBit; TLAB; TItemType; TNumber; TVariable; TRAB].
Proof.
  eexists. split.
  - repeat (eapply Ts_cons; [reflexivity|discriminate|]). apply Ts_nil.
  - reflexivity.
Qed.
