(* EffectsTie.v — obligations over the effect summary regenerated from /repo
   (gen/Effects.v) on every run:
     - no package-level variables, no goroutines;
     - the only named types any function writes through are the three
       call-local work objects (lexer, the two parsers, fillState), and none of
       them is reachable from the exported API;
     - every exported function returns only freshly allocated slices/maps;
     - no slice or map that a caller passed in, and no internal field, is
       stored in a new object, except the two listed, audited sites. *)
From Secs Require Import Bytes.
From Secs.gen Require Import Effects.
Open Scope Z_scope.
Open Scope string_scope.

Definition Bs (s : String.string) : bytes := String.list_byte_of_string s.

Definition mem (x : bytes) (l : list bytes) : bool := existsb (bytes_eqb x) l.
Definition subset (a b : list bytes) : bool := forallb (fun x => mem x b) a.

(* call-local mutable work objects *)
Definition work_types : list bytes := [Bs "lexer"; Bs "parser"; Bs "fillState"].
Definition work_types_qualified : list bytes := [Bs "sml.lexer"; Bs "sml.parser"; Bs "hsms.parser"; Bs "ast.fillState"].

(* audited sharing sites: (function, what) *)
Definition audited_stores : list (bytes * bytes) :=
  [ (* SetWaitBit / FillVariables hand the 4 system bytes of the receiver on to
       the new message: shared between messages, written by no function
       (fe_mutates), returned by none (fe_returns) *)
    (Bs "DataMessage.SetWaitBit", Bs "literal-shares:field:node.systemBytes");
    (Bs "DataMessage.FillVariables", Bs "literal-shares:field:node.systemBytes");
    (* hsms.Parse keeps its input in the call-local parser object only *)
    (Bs "Parse", Bs "literal-shares:param:input") ].

Definition fresh_returns : list bytes := [Bs "fresh"; Bs "local-field:parser.messages"].

Definition store_ok (name s : bytes) : bool :=
  existsb (fun p => bytes_eqb (fst p) name && bytes_eqb (snd p) s) audited_stores.

Definition row_ok (r : fn_effect) : bool :=
  match fe_writes_global r with [] => true | _ => false end &&
  Nat.eqb (fe_go r) 0 &&
  subset (fe_mutates r) work_types &&
  (if fe_exported r then subset (fe_returns r) fresh_returns else true) &&
  forallb (store_ok (fe_name r)) (fe_stores r).

Lemma effects_no_package_vars : gen_package_vars = [].
Proof. reflexivity. Qed.

Lemma effects_rows_ok : forallb row_ok gen_effects = true.
Proof. vm_compute. reflexivity. Qed.

Lemma effects_work_types_hidden : forallb (fun t => negb (mem t gen_exposed_types)) work_types_qualified = true.
Proof. vm_compute. reflexivity. Qed.

(* the facts the heap model (Heap.v) and the interleaving model (Conc.v) take
   from the source, as named statements (the property files quote them) *)
Definition exported_rows := filter fe_exported gen_effects.

(* every exported function returns only freshly allocated slices and maps *)
Definition stmt_no_exposure : Prop :=
  forallb (fun r => subset (fe_returns r) fresh_returns) exported_rows = true.
(* no caller slice/map and no internal field is stored in a new object, except the audited sites *)
Definition stmt_no_retention : Prop :=
  forallb (fun r => forallb (store_ok (fe_name r)) (fe_stores r)) gen_effects = true.
(* no function writes a package-level variable, starts a goroutine, or writes
   through anything but the call-local work objects *)
Definition stmt_no_shared_writes : Prop :=
  forallb (fun r => match fe_writes_global r with [] => true | _ => false end &&
                    subset (fe_mutates r) work_types && Nat.eqb (fe_go r) 0) gen_effects = true.
Definition stmt_no_package_vars : Prop := gen_package_vars = [].
(* the work objects are not reachable from the exported API *)
Definition stmt_work_types_hidden : Prop :=
  forallb (fun t => negb (mem t gen_exposed_types)) work_types_qualified = true.

Lemma no_exposure : stmt_no_exposure.
Proof. vm_compute. reflexivity. Qed.
Lemma no_retention : stmt_no_retention.
Proof. vm_compute. reflexivity. Qed.
Lemma no_shared_writes : stmt_no_shared_writes.
Proof. vm_compute. reflexivity. Qed.
Lemma no_package_vars : stmt_no_package_vars.
Proof. reflexivity. Qed.
Lemma work_types_hidden : stmt_work_types_hidden.
Proof. vm_compute. reflexivity. Qed.
