(* Utf8.v — utf8.DecodeRuneInString and unicode.IsSpace, re-implemented. *)
From Secs Require Export Bytes.
Open Scope Z_scope.

Definition rune_error : Z := 65533.

Definition in_range (lo hi z : Z) : bool := (lo <=? z) && (z <=? hi).
Definition is_cont (b : byte) : bool := in_range 128 191 (b2z b).

(* returns (rune, width); width 0 only on empty input *)
Definition decode_rune (s : bytes) : Z * nat :=
  match s with
  | [] => (rune_error, 0%nat)
  | b0 :: r =>
    let z0 := b2z b0 in
    if z0 <? 128 then (z0, 1%nat)
    else if in_range 194 223 z0 then
      match r with
      | b1 :: _ => if is_cont b1 then ((z0 mod 32) * 64 + b2z b1 mod 64, 2%nat) else (rune_error, 1%nat)
      | _ => (rune_error, 1%nat)
      end
    else if in_range 224 239 z0 then
      let lo := if z0 =? 224 then 160 else 128 in
      let hi := if z0 =? 237 then 159 else 191 in
      match r with
      | b1 :: b2 :: _ =>
        if in_range lo hi (b2z b1) && is_cont b2
        then ((z0 mod 16) * 4096 + (b2z b1 mod 64) * 64 + b2z b2 mod 64, 3%nat)
        else (rune_error, 1%nat)
      | _ => (rune_error, 1%nat)
      end
    else if in_range 240 244 z0 then
      let lo := if z0 =? 240 then 144 else 128 in
      let hi := if z0 =? 244 then 143 else 191 in
      match r with
      | b1 :: b2 :: b3 :: _ =>
        if in_range lo hi (b2z b1) && is_cont b2 && is_cont b3
        then ((z0 mod 8) * 262144 + (b2z b1 mod 64) * 4096 + (b2z b2 mod 64) * 64 + b2z b3 mod 64, 4%nat)
        else (rune_error, 1%nat)
      | _ => (rune_error, 1%nat)
      end
    else (rune_error, 1%nat)
  end.

Definition is_space_rune (r : Z) : bool :=
  in_range 9 13 r || (r =? 32) || (r =? 133) || (r =? 160) || (r =? 5760) ||
  in_range 8192 8202 r || (r =? 8232) || (r =? 8233) || (r =? 8239) || (r =? 8287) || (r =? 12288).

(* runes of a string, as `for _, r := range s` yields them *)
Fixpoint runes_fuel (fuel : nat) (s : bytes) : list Z :=
  match fuel with
  | O => []
  | S f => match s with
           | [] => []
           | _ => let '(r, w) := decode_rune s in r :: runes_fuel f (skipn w s)
           end
  end.
Definition runes (s : bytes) : list Z := runes_fuel (length s) s.

Definition has_space_rune (s : bytes) : bool := existsb is_space_rune (runes s).
