(* Converse.v — what the parser returns can be printed and parsed again (C04,
   converse direction, token level): an item the parser builds without
   reporting an error is `printable`, its ellipses are numbered from the
   parser's counter (`canon`), so the tokens of its printed form parse back to
   it (TokenTrees.item_parses_back). *)
From Secs Require Import Ast FloatProofs FloatRound Fill Msg WireSpec WireLemmas WireValues HeaderProofs WireEnc WireDec MsgProofs AstProofs FillProofs FillCompose.
From Secs Require Import Utf8 Lexer Parser SmlNumbers SmlProofs LexProofs ParseProofs LayoutProofs OffsetProofs PrintProofs TokenProofs AsciiTokens TokenTrees LexPrinted AsciiLex LexTrees MsgRoundTrip CaseProofs LexNames NameLex.
Open Scope Z_scope.

(* ---------- no new error ---------- *)

Definition quiet (a b : pstate) : Prop := nerrs b = nerrs a.

Lemma quiet_split a b c : ext a b -> ext b c -> quiet a c -> quiet a b /\ quiet b c.
Proof. intros H1 H2 H. pose proof (ext_nerrs _ _ H1). pose proof (ext_nerrs _ _ H2). unfold quiet in *. lia. Qed.

Lemma grew_not_quiet a b c : grew a b -> ext b c -> ~ quiet a c.
Proof. intros [_ H1] H2 H. pose proof (ext_nerrs _ _ H2). unfold quiet in H. lia. Qed.

Lemma quiet_errs a b : ext a b -> quiet a b -> errs b = errs a.
Proof.
  intros [_ [_ [d Hd]]] H. unfold quiet, nerrs in H. rewrite Hd, app_length in H.
  destruct d; [rewrite app_nil_r in Hd; exact Hd|cbn [length] in H; lia].
Qed.

Lemma err_not_quiet st t k st' : ext (err st t k) st' -> ~ quiet st st'.
Proof. intro H. eapply grew_not_quiet; [apply grew_err|exact H]. Qed.

(* ---------- the float oracle hands out bit patterns ---------- *)

Definition floats_wf (floats : float_oracle) : Prop :=
  forall k s32 b32 s64 b64, In (k, (s32, b32, s64, b64)) floats -> is_u32 b32 /\ is_u64 b64.

Section Conv.
Variable floats : float_oracle.
Hypothesis Hwf : floats_wf floats.
(* a property of the variable names the lexer hands out (instantiated with sml_var at the end) *)
Variable Pv : bytes -> Prop.
(* and of the message names *)
Variable Pn : bytes -> Prop.

Lemma scan_float_range s w b e : scan_float floats s w = (b, e) -> e = NumOk -> (w = 4%nat -> is_u32 b) /\ (w <> 4%nat -> is_u64 b).
Proof.
  unfold scan_float.
  assert (G : forall l, (forall k v, In (k, v) l -> In (k, v) floats) ->
            forall v, (fix find (l : float_oracle) : option (Z * Z * Z * Z) :=
                         match l with [] => None | (k, v) :: r => if bytes_eqb k s then Some v else find r end) l = Some v ->
            exists k, In (k, v) floats).
  { induction l as [|[k v] l IH]; intros Hin v0 H; [discriminate|]. destruct (bytes_eqb k s).
    - inversion H; subst. exists k. apply Hin. left. reflexivity.
    - apply IH; [|exact H]. intros k' v' H'. apply Hin. right. exact H'. }
  specialize (G floats (fun k v H => H)).
  match goal with |- context [match ?x with Some _ => _ | None => _ end] => destruct x as [[[[s32 b32] s64] b64]|] eqn:E end.
  - destruct (G _ eq_refl) as [k Hk]. destruct (Hwf _ _ _ _ _ Hk) as [H32 H64].
    destruct w as [|[|[|[|[|w]]]]]; intros H He; inversion H; subst; (split; [intro Hw; try discriminate Hw; try exact H32|intro Hw; try (exfalso; apply Hw; reflexivity); try exact H64]).
  - intros H He. inversion H; subst. discriminate.
Qed.

Lemma f32_to_f64_range b : is_u32 b -> is_u64 (f32_to_f64 b).
Proof.
  intro Hu. destruct (f32_fields b Hu) as (s & e & f & Eb & Hs & He & Hf & Es & Ee & Ef).
  unfold f32_to_f64, is_u64. rewrite Es, Ee, Ef.
  destruct (Z.eqb_spec e 255); [destruct (Z.eqb_spec f 0); lia|].
  destruct (Z.eqb_spec e 0); [|lia].
  destruct (Z.eqb_spec f 0); [lia|].
  (* a subnormal float32: normalised *)
  pose proof (Z.log2_nonneg f). assert (Z.log2 f < 23) by (apply Z.log2_lt_pow2; lia).
  assert (2 ^ Z.log2 f <= f < 2 ^ (Z.log2 f + 1)) by (replace (Z.log2 f + 1) with (Z.succ (Z.log2 f)) by lia; apply Z.log2_spec; lia).
  assert (0 < 2 ^ (52 - Z.log2 f)) by (apply Z.pow_pos_nonneg; lia).
  assert (f * 2 ^ (52 - Z.log2 f) < 2 ^ 53).
  { replace (2 ^ 53) with (2 ^ (Z.log2 f + 1) * 2 ^ (52 - Z.log2 f)) by (rewrite <- Z.pow_add_r by lia; f_equal; lia). nia. }
  nia.
Qed.

(* ---------- value items ---------- *)

Definition nk_wf (nk : numkind) : Prop :=
  match nk with
  | NKInt w | NKUint w => w = 1%nat \/ w = 2%nat \/ w = 4%nat \/ w = 8%nat
  | NKFloat w => w = 4%nat \/ w = 8%nat
  | _ => True
  end.

Lemma pow_le_63 w : w = 1%nat \/ w = 2%nat \/ w = 4%nat \/ w = 8%nat -> 0 < 8 * Z.of_nat w /\ 2 ^ (8 * Z.of_nat w - 1) <= two63 /\ 2 ^ (8 * Z.of_nat w) <= two64.
Proof. intros [->|[->|[->| ->]]]; cbn; unfold two63, two64; lia. Qed.

Lemma value_arg_range nk st t g st' : nk_wf nk -> value_arg floats nk st t = Some (g, st') -> quiet st st' -> arg_in_go_range g.
Proof.
  intros Hnk H Hq. unfold value_arg in H. destruct (t_typ t); try discriminate.
  - (* number *)
    destruct nk as [w|w|w| |]; try discriminate.
    + destruct (parse_int (t_val t) (8 * Z.of_nat w)) as [v e] eqn:E. inversion H; subst. clear H. cbn [arg_in_go_range go_range].
      destruct (pow_le_63 w Hnk) as (Hb & H63 & _).
      destruct e; try (exfalso; eapply err_not_quiet; [apply ext_refl|exact Hq]).
      pose proof (parse_int_range _ _ _ Hb E). lia.
    + destruct (parse_uint (t_val t) (8 * Z.of_nat w)) as [v e] eqn:E. inversion H; subst. clear H. cbn [arg_in_go_range go_range].
      destruct (pow_le_63 w Hnk) as (Hb & _ & H64).
      destruct e; try (exfalso; eapply err_not_quiet; [apply ext_refl|exact Hq]).
      pose proof (parse_uint_range _ _ _ Hb E). lia.
    + destruct (scan_float floats (t_val t) w) as [b e] eqn:E. destruct e.
      * inversion H; subst. clear H. destruct (scan_float_range _ _ _ _ E eq_refl) as [H4 H8].
        destruct Hnk as [-> | ->]; cbn [arg_in_go_range]; [apply f32_to_f64_range; apply H4; reflexivity|apply H8; discriminate].
      * inversion H; subst. cbn. unfold is_u64. lia.
      * inversion H; subst. cbn. unfold is_u64. lia.
    + destruct (parse_int (t_val t) 64) as [v e]. destruct ((0 <=? v) && (v <? 256)) eqn:Er; inversion H; subst; cbn [arg_in_go_range go_range]; unfold two63.
      * apply andb_true_iff in Er as [E1 E2]. apply Z.leb_le in E1. apply Z.ltb_lt in E2. lia.
      * lia.
  - (* boolean *)
    destruct nk; try discriminate. inversion H; subst. exact I.
  - (* variable *)
    destruct (known_name st (t_val t)); inversion H; subst; [|exact I]. destruct nk; cbn; unfold two63; try lia; exact I.
Qed.

Lemma value_args_range nk : nk_wf nk -> forall ts st args st', value_args floats nk st ts = (Some args, st') -> quiet st st' ->
  Forall arg_in_go_range args.
Proof.
  intros Hnk. induction ts as [|t ts IH]; intros st args st' H Hq; cbn [value_args] in H.
  - inversion H; subst. constructor.
  - destruct (value_arg floats nk st t) as [[g st1]|] eqn:E.
    + destruct (value_args floats nk st1 ts) as [o st2] eqn:E2. destruct o as [gs|]; [|discriminate].
      inversion H; subst. clear H.
      pose proof (ext_value_arg floats nk st t g st1 E) as X1.
      pose proof (ext_value_args floats nk ts st1) as X2. rewrite E2 in X2. cbn [snd] in X2.
      destruct (quiet_split _ _ _ X1 X2 Hq) as [Q1 Q2].
      constructor; [eapply value_arg_range; eassumption|eapply IH; eassumption].
    + discriminate.
Qed.

(* the names among the factory arguments come from variable tokens *)
Definition var_tok (t : token) : Prop :=
  (t_typ t = TVariable -> is_ellipsis (t_val t) = false /\ Pv (t_val t)) /\ (t_typ t = TMsgName -> Pn (t_val t)).
Definition gname_ok (g : gval) : Prop := match g with GStr n => Pv n | _ => True end.

Lemma value_arg_names nk st t g st' : var_tok t -> value_arg floats nk st t = Some (g, st') -> gname_ok g.
Proof.
  intros Ht H. unfold value_arg in H. destruct (t_typ t) eqn:Et; try discriminate.
  - destruct nk; try discriminate;
      repeat match type of H with
             | (let '(_, _) := ?x in _) = _ => destruct x
             | (if ?c then _ else _) = _ => destruct c
             | match ?x with _ => _ end = _ => destruct x
             end; inversion H; subst; try exact I;
      repeat match goal with |- gname_ok (match ?w with _ => _ end) => destruct w end; exact I.
  - destruct nk; try discriminate. inversion H; subst. exact I.
  - destruct (known_name st (t_val t)); inversion H; subst; [destruct nk; exact I|]. exact (proj2 (proj1 Ht Et)).
Qed.

Lemma value_args_names nk : forall ts st args st', Forall var_tok ts -> value_args floats nk st ts = (Some args, st') -> Forall gname_ok args.
Proof.
  induction ts as [|t ts IH]; intros st args st' Hts H; cbn [value_args] in H.
  - inversion H; subst. constructor.
  - inversion Hts as [|? ? Ht Hrest]; subst. destruct (value_arg floats nk st t) as [[g st1]|] eqn:E; [|discriminate].
    destruct (value_args floats nk st1 ts) as [o st2] eqn:E2. destruct o as [gs|]; [|discriminate]. inversion H; subst.
    constructor; [eapply value_arg_names; eassumption|eapply IH; eassumption].
Qed.

Lemma value_tokens_forall (P : token -> Prop) : P zero_tok -> forall l, Forall P l -> Forall P (fst (value_tokens l)).
Proof.
  intros Hz. induction l as [|t r IH]; intro H; cbn [value_tokens]; [constructor; [exact Hz|constructor]|].
  inversion H; subst. destruct (t_typ t); try (cbn [fst]; constructor; [assumption|constructor]); try (cbn [fst]; constructor).
  all: destruct (value_tokens r) as [a b]; cbn [fst] in *; constructor; [assumption|apply IH; assumption].
Qed.

Definition kw_of (nk : numkind) : kind * nat :=
  match nk with NKInt w => (KInt, w) | NKUint w => (KUint, w) | NKFloat w => (KFloat, w) | NKBin => (KBin, 1%nat) | NKBool => (KBool, 1%nat) end.

Lemma build_new_leaf nk args : build nk args = new_leaf (fst (kw_of nk)) (snd (kw_of nk)) args.
Proof. destruct nk; reflexivity. Qed.

Lemma nk_fmt_ok nk : nk_wf nk -> fmt_ok (fst (kw_of nk)) (snd (kw_of nk)).
Proof. destruct nk; cbn; intro H; try exact H; reflexivity. Qed.

Lemma build_printable nk args t : nk_wf nk -> Forall arg_in_go_range args -> Forall gname_ok args -> build nk args = Some t ->
  printable t /\ ells (vars t) = [] /\ Forall Pv (vars t).
Proof.
  intros Hnk Hr Hgn H. rewrite build_new_leaf in H. pose proof (nk_fmt_ok nk Hnk) as Hf.
  destruct (kw_of nk) as [k w]. cbn [fst snd] in *. unfold new_leaf in H.
  destruct (negb (size_ok (size_typ k w) (length args))) eqn:Hs; [discriminate|]. apply negb_false_iff in Hs.
  destruct (map_opt (leaf_arg k w) args) as [xs|] eqn:Em; [|discriminate].
  destruct (width_okb k w && forallb (val_okb k w) xs && names_ok xs) eqn:Hc; [|discriminate].
  inversion H; subst t. clear H.
  apply andb_true_iff in Hc as [Hc Hn]. apply andb_true_iff in Hc as [Hw Hv].
  pose proof (map_opt_forall2 _ _ _ Em) as F2. pose proof (forall2_length _ _ _ F2) as Hlen.
  split; [|split].
  - cbn [printable]. rewrite Hlen. repeat split; try assumption.
    clear Em Hlen Hs Hn Hgn. revert Hr Hv. induction F2 as [|a x args' xs' Hax _ IH]; intros Hr Hv; [constructor|].
    inversion Hr; subst. cbn [forallb] in Hv. apply andb_true_iff in Hv as [Hv1 Hv2].
    constructor; [eapply leaf_arg_built; eassumption|apply IH; assumption].
  - cbn [vars]. unfold names_ok in Hn. apply andb_true_iff in Hn as [Hn _]. exact (proj2 (valid_names_plain _ Hn)).
  - cbn [vars]. clear -F2 Hgn. induction F2 as [|a x args' xs' Hax _ IH]; [constructor|].
    inversion Hgn; subst. unfold slot_vars in *. cbn [flat_map]. apply Forall_app. split; [|apply IH; assumption].
    destruct x as [v|n]; [constructor|]. destruct (leaf_arg_sx _ _ _ _ Hax) as [-> _]. constructor; [assumption|constructor].
Qed.

(* ---------- ASCII items ---------- *)

Lemma ascii_literal_conv ts : Forall var_tok ts -> forall st n acc mn mx t st', ascii_literal st ts n acc mn mx = (IOk t, st') -> quiet st st' ->
  (exists v, t = IAscii v /\ new_ascii v = Some (IAscii v)) \/
  (exists nm, t = IAsciiVar nm mn mx /\ new_ascii_var nm mn mx = Some t /\ nm <> [] /\ Pv nm).
Proof.
  induction 1 as [|tk ts Htk _ IH]; intros st n acc mn mx t st' H Hq; cbn [ascii_literal] in H.
  - destruct (new_ascii acc) as [it|] eqn:E; [|discriminate]. inversion H; subst. left.
    destruct (new_ascii_inv _ _ E) as [-> _]. exists acc. split; [reflexivity|exact E].
  - destruct (t_typ tk) eqn:Etk; try discriminate.
    + (* number *)
      destruct (parse_uint (t_val tk) 64) as [v e].
      assert (He : match e with NumSyntax => err st tk 16 | _ => st end = st).
      { destruct e; try reflexivity. exfalso.
        destruct (127 <? v); (eapply (err_not_quiet st tk 16); [|exact Hq]);
          [eapply ext_trans; [apply ext_err|]|];
          match goal with Hx : ascii_literal ?s ?r ?n ?a ?x ?y = _ |- ext _ _ =>
            pose proof (ext_ascii_literal r s n a x y) as X; rewrite Hx in X; exact X end. }
      rewrite He in H. destruct (127 <? v).
      * exfalso. eapply (err_not_quiet st tk 17); [|exact Hq].
        pose proof (ext_ascii_literal ts (err st tk 17) n (acc ++ [x00]) mn mx) as X. rewrite H in X. exact X.
      * eapply IH; eassumption.
    + (* variable *)
      destruct (negb (n =? 1)%nat); [discriminate|]. destruct (known_name st (t_val tk)).
      * exfalso. inversion H; subst. eapply (err_not_quiet st tk 12); [apply ext_refl|exact Hq].
      * destruct (new_ascii_var (t_val tk) mn mx) as [it|] eqn:E; [|discriminate]. inversion H; subst. right.
        unfold new_ascii_var in E. destruct (is_valid_var_name (t_val tk) && (0 <=? mn) && (-1 <=? mx) && ((mx =? -1) || (mn <=? mx))) eqn:Ec; [|discriminate].
        inversion E; subst. exists (t_val tk). split; [reflexivity|]. split; [|split].
        -- unfold new_ascii_var. rewrite Ec. reflexivity.
        -- intro En. rewrite En in Ec. discriminate.
        -- exact (proj2 (proj1 Htk Etk)).
    + (* quoted *)
      destruct (existsb (fun rn => 127 <? rn) (runes (removelast (tl (t_val tk))))).
      * exfalso. eapply (err_not_quiet st tk 15); [|exact Hq].
        pose proof (ext_ascii_literal ts (err st tk 15) n acc mn mx) as X. rewrite H in X. exact X.
      * eapply IH; eassumption.
Qed.

(* ---------- lists ---------- *)

Definition tokvars_ok (ts : list token) : Prop := Forall var_tok ts.

Lemma tokvars_ext a b : ext a b -> tokvars_ok (toks a) -> tokvars_ok (toks b).
Proof. intros [_ [[n Hn] _]] H. unfold tokvars_ok. rewrite Hn. apply Forall_skipn. exact H. Qed.

Lemma peek_var_plain st : tokvars_ok (toks st) -> t_typ (peek st) = TVariable ->
  is_ellipsis (t_val (peek st)) = false /\ Pv (t_val (peek st)).
Proof.
  unfold peek. intros H Ht. destruct (toks st) as [|t r]; [discriminate Ht|]. inversion H as [|? ? [Hv _] _]; subst. auto.
Qed.

Lemma peek_name st : tokvars_ok (toks st) -> typ_is (peek st) TMsgName = true -> Pn (t_val (peek st)).
Proof.
  unfold peek. intros H Ht. apply typ_is_eq in Ht. destruct (toks st) as [|t r]; [discriminate Ht|]. inversion H as [|? ? [_ Hn] _]; subst. auto.
Qed.

Definition item_res (st : pstate) (t : item) (st' : pstate) : Prop :=
  printable t /\ canon (ecount st) (vars t) /\ ecount st' = ecount st + Z.of_nat (length (ells (vars t))) /\
  Forall Pv (named (vars t)).

Definition item_conv (rec_item : pstate -> option item * pstate) : Prop :=
  forall st t st', rec_item st = (Some t, st') -> quiet st st' -> tokvars_ok (toks st) -> 0 <= ecount st -> item_res st t st'.

Definition list_conv (rec_list : pstate -> list gval -> Z -> ires * pstate) : Prop :=
  forall st cs count l st' e0, rec_list st (map gv cs) count = (IOk l, st') -> quiet st st' -> tokvars_ok (toks st) -> 0 <= e0 ->
    Forall child_ok cs -> canon e0 (flat_map cvars cs) -> ecount st = e0 + Z.of_nat (length (ells (flat_map cvars cs))) ->
    count = Z.of_nat (length cs) -> Forall Pv (named (flat_map cvars cs)) ->
    exists xs, l = IList xs /\ printable (IList xs) /\ canon e0 (vars (IList xs)) /\
               ecount st' = e0 + Z.of_nat (length (ells (vars (IList xs)))) /\ Forall Pv (named (vars (IList xs))).

Lemma canon_app_intro e a b : canon e a -> canon (e + Z.of_nat (length (ells a))) b -> canon e (a ++ b).
Proof.
  unfold canon. intros Ha Hb. rewrite ells_app, app_length, zseq_app, map_app, <- Ha, <- Hb. reflexivity.
Qed.

Lemma fmt_int_nonneg_digits e : 0 <= e -> fmt_int e = fmt_unsigned 10 e.
Proof. intro H. unfold fmt_int. destruct (Z.ltb_spec e 0); [lia|reflexivity]. Qed.

Lemma children_printable cs : Forall child_ok cs ->
  (fix go (cs : list item) : Prop :=
     match cs with
     | [] => True
     | c :: r => match c with
                 | IVar n => True
                 | IList _ | ILeaf _ _ _ | IAscii _ | IAsciiVar _ _ _ => printable c
                 | _ => False
                 end /\ go r
     end) cs.
Proof. induction 1 as [|c r Hc _ IH]; [exact I|]. split; [exact Hc|exact IH]. Qed.

Lemma list_arg_gv cs : Forall child_ok cs -> map_opt list_arg (map gv cs) = Some cs.
Proof.
  induction 1 as [|c r Hc _ IH]; [reflexivity|]. cbn [map map_opt]. rewrite IH.
  destruct c; cbn [child_ok] in Hc; try contradiction; reflexivity.
Qed.

Lemma drop_while_all p (ds rest : bytes) : Forall (fun c => p c = true) ds ->
  match rest with [] => True | x :: _ => p x = false end -> drop_while p (ds ++ rest) = rest.
Proof.
  intros Hd Hr. induction Hd as [|d ds Hp _ IH]; cbn [app drop_while].
  - destruct rest as [|x r]; [reflexivity|]. cbn [drop_while]. rewrite Hr. reflexivity.
  - rewrite Hp. exact IH.
Qed.

Lemma ell_name_is_ellipsis e : 0 <= e -> is_ellipsis (ell_name e) = true.
Proof.
  intro He. unfold ell_name. rewrite (fmt_int_nonneg_digits e He).
  pose proof (fmt_unsigned_digits e He) as Hd. destruct (digits_val_fmt 10 e ltac:(lia) He) as [_ Hne].
  destruct (fmt_unsigned 10 e) as [|d ds]; [congruence|]. inversion Hd as [|? ? Hd1 Hds]; subst.
  cbn [app is_ellipsis]. change (byte_eqb x2e x2e) with true. cbn [andb].
  cbn [strip_index]. change (byte_eqb x5b x5b) with true. cbv iota. rewrite Hd1.
  change (d :: ds ++ [x5d]) with ((d :: ds) ++ [x5d]).
  rewrite (drop_while_all is_digit (d :: ds) [x5d] Hd ltac:(reflexivity)). reflexivity.
Qed.

Lemma ells_snoc_plain a n : is_ellipsis n = false -> ells (a ++ [n]) = ells a.
Proof. intro H. rewrite ells_app. unfold ells at 2. cbn [filter]. rewrite H. apply app_nil_r. Qed.

Lemma ells_snoc_ell a n : is_ellipsis n = true -> ells (a ++ [n]) = ells a ++ [n].
Proof. intro H. rewrite ells_app. unfold ells at 2. cbn [filter]. rewrite H. reflexivity. Qed.

Lemma flat_map_snoc {X Y} (f : X -> list Y) l x : flat_map f (l ++ [x]) = flat_map f l ++ f x.
Proof. rewrite flat_map_app. cbn [flat_map]. rewrite app_nil_r. reflexivity. Qed.

Lemma parse_list_body_conv rec_item rec_list :
  item_pres rec_item -> list_pres rec_list -> item_conv rec_item -> list_conv rec_list ->
  list_conv (parse_list_body rec_item rec_list).
Proof.
  intros Pi Pl Ci Cl st cs count l st' e0 H Hq Htv He0 Hok Hcan Hec Hcnt Hpv.
  unfold parse_list_body in H.
  destruct (t_typ (peek st)) eqn:Et; try discriminate.
  - (* '<': an item *)
    destruct (rec_item st) as [[c|] st1] eqn:Ei; [|discriminate].
    pose proof (Pi st) as X1. rewrite Ei in X1. cbn [snd] in X1.
    pose proof (Pl st1 (map gv cs ++ [GItem c]) (count + 1)) as X2. rewrite H in X2. cbn [snd] in X2.
    destruct (quiet_split _ _ _ X1 X2 Hq) as [Q1 Q2].
    assert (Hec0 : 0 <= ecount st) by lia.
    destruct (Ci st c st1 Ei Q1 Htv Hec0) as (Hp & Hc1 & Hc2 & Hc3).
    assert (Hch : child_ok c) by (destruct c; cbn [printable] in Hp; try contradiction; exact Hp).
    assert (Egv : gv c = GItem c) by (destruct c; cbn [printable] in Hp; try contradiction; reflexivity).
    assert (Ecv : cvars c = vars c) by (destruct c; cbn [printable] in Hp; try contradiction; reflexivity).
    assert (Em : map gv cs ++ [GItem c] = map gv (cs ++ [c])) by (rewrite map_app; cbn [map]; rewrite Egv; reflexivity).
    rewrite Em in H.
    apply (Cl st1 (cs ++ [c]) (count + 1) l st' e0 H Q2 (tokvars_ext _ _ X1 Htv) He0).
    + apply Forall_app. split; [exact Hok|constructor; [exact Hch|constructor]].
    + rewrite flat_map_snoc, Ecv. apply canon_app_intro; [exact Hcan|]. rewrite <- Hec. exact Hc1.
    + rewrite flat_map_snoc, Ecv, ells_app, app_length, Nat2Z.inj_add. lia.
    + rewrite app_length. cbn [length]. lia.
    + rewrite flat_map_snoc, Ecv, named_app. apply Forall_app. split; assumption.
  - (* '>' *)
    destruct (new_list (map gv cs)) as [l0|] eqn:En; [|discriminate]. inversion H; subst l0 st'. clear H.
    pose proof En as En'. unfold new_list in En'. destruct (negb _); [discriminate|]. rewrite (list_arg_gv cs Hok) in En'.
    destruct (_ && _ && _); [|discriminate]. inversion En'; subst l. clear En'.
    exists cs. split; [reflexivity|]. split; [|split; [|split]].
    + cbn [printable]. split; [exact En|apply children_printable; exact Hok].
    + exact Hcan.
    + exact Hec.
    + exact Hpv.
  - (* a named variable *)
    set (n := t_val (peek st)) in *.
    destruct (known_name (advance st) n) eqn:Ek.
    + exfalso. eapply (err_not_quiet (advance st) (peek st) 12); [|].
      * pose proof (Pl (err (advance st) (peek st) 12) (map gv cs ++ [GItem IEmpty]) (count + 1)) as X. rewrite H in X. exact X.
      * exact Hq.
    + destruct (peek_var_plain st Htv Et) as [Hn HPn]. fold n in Hn, HPn.
      assert (Em : map gv cs ++ [GStr n] = map gv (cs ++ [IVar n])) by (rewrite map_app; reflexivity).
      rewrite Em in H.
      apply (Cl (add_name (advance st) n) (cs ++ [IVar n]) (count + 1) l st' e0 H Hq).
      * cbn [add_name advance toks]. unfold tokvars_ok in *. destruct (toks st); [constructor|inversion Htv; assumption].
      * exact He0.
      * apply Forall_app. split; [exact Hok|constructor; [exact I|constructor]].
      * rewrite flat_map_snoc. cbn [cvars]. unfold canon. rewrite (ells_snoc_plain _ n Hn). exact Hcan.
      * rewrite flat_map_snoc. cbn [cvars add_name advance ecount]. rewrite (ells_snoc_plain _ n Hn). exact Hec.
      * rewrite app_length. cbn [length]. lia.
      * rewrite flat_map_snoc, named_app. cbn [cvars]. unfold named at 2. cbn [filter]. rewrite Hn. cbn [negb].
        apply Forall_app. split; [exact Hpv|constructor; [exact HPn|constructor]].
  - (* an ellipsis *)
    destruct (count =? 0) eqn:Ec; [discriminate|].
    set (name := [x2e; x2e; x2e] ++ [x5b] ++ fmt_int (ecount (advance st)) ++ [x5d]) in *.
    assert (Ename : name = ell_name (ecount st)) by reflexivity.
    assert (Hell : is_ellipsis name = true) by (rewrite Ename; apply ell_name_is_ellipsis; lia).
    set (st2 := if bytes_eqb (t_val (peek st)) [x2e; x2e; x2e] || bytes_eqb (t_val (peek st)) name
                then with_ecount (advance st) (ecount (advance st) + 1)
                else warn (with_ecount (advance st) (ecount (advance st) + 1)) (peek st) 41) in *.
    assert (F2 : errs st2 = errs st /\ ecount st2 = ecount st + 1 /\ toks st2 = tl (toks st)).
    { subst st2. destruct (_ || _); repeat split. }
    destruct F2 as (F2e & F2c & F2t).
    assert (Em : map gv cs ++ [GStr name] = map gv (cs ++ [IVar name])) by (rewrite map_app; reflexivity).
    rewrite Em in H.
    apply (Cl st2 (cs ++ [IVar name]) (count + 1) l st' e0 H).
    + unfold quiet, nerrs in *. rewrite F2e. exact Hq.
    + rewrite F2t. unfold tokvars_ok in *. destruct (toks st); [constructor|inversion Htv; assumption].
    + exact He0.
    + apply Forall_app. split; [exact Hok|constructor; [exact I|constructor]].
    + rewrite flat_map_snoc. cbn [cvars]. apply canon_app_intro; [exact Hcan|].
      unfold canon, ells. cbn [filter]. rewrite Hell. cbn [length zseq map]. rewrite Ename, Hec. reflexivity.
    + rewrite flat_map_snoc. cbn [cvars]. rewrite (ells_snoc_ell _ name Hell), app_length, Nat2Z.inj_add, F2c. cbn [length]. lia.
    + rewrite app_length. cbn [length]. lia.
    + rewrite flat_map_snoc, named_app. cbn [cvars]. unfold named at 2. cbn [filter]. rewrite Hell. cbn [negb]. rewrite app_nil_r. exact Hpv.
Qed.

(* ---------- items ---------- *)

Lemma atoi_lt s : fst (atoi s) < two63.
Proof.
  unfold atoi. destruct s; [cbn; unfold two63; lia|]. destruct (digits_val 10 (b :: s) 0) as [v|]; [|cbn; unfold two63; lia].
  destruct (Z.leb_spec two63 v); cbn [fst]; unfold two63 in *; lia.
Qed.

Lemma parse_size_lt v lo hi : parse_size v = (lo, hi) -> lo < two63 /\ hi < two63.
Proof.
  unfold parse_size. destruct (split_dots (removelast (tl v))) as [[a b]|].
  - pose proof (atoi_lt a) as Ha. pose proof (atoi_lt b) as Hb. destruct (atoi a) as [x ?]. destruct (atoi b) as [y e]. cbn [fst] in *.
    intro Heq; inversion Heq; subst. split; [assumption|]. destruct e; unfold two63 in *; lia.
  - pose proof (atoi_lt (removelast (tl v))) as Ha. destruct (atoi _) as [x ?]. cbn [fst] in *. intro Heq; inversion Heq; subst. split; assumption.
Qed.

Lemma nk_of_type_wf ty nk : nk_of_type ty = Some nk -> nk_wf nk.
Proof.
  unfold nk_of_type. intro H.
  repeat match type of H with (if ?c then _ else _) = _ => destruct c end; inversion H; subst; cbn; auto.
Qed.

Lemma parse_numeric_conv nk st t st' : nk_wf nk -> parse_numeric floats nk st = (IOk t, st') -> quiet st st' -> tokvars_ok (toks st) ->
  printable t /\ ells (vars t) = [] /\ Forall Pv (vars t).
Proof.
  intros Hnk H Hq Htv. unfold parse_numeric in H.
  destruct (take_values st) as [vs st0] eqn:E0. destruct (value_args floats nk st0 vs) as [o st1] eqn:E1.
  destruct o as [args|]; [|discriminate]. destruct (build nk args) as [it|] eqn:Eb; [|discriminate]. inversion H; subst. clear H.
  pose proof (ext_take_values st) as X0. rewrite E0 in X0. cbn [snd] in X0.
  pose proof (ext_value_args floats nk vs st0) as X1. rewrite E1 in X1. cbn [snd] in X1.
  destruct (quiet_split _ _ _ X0 X1 Hq) as [_ Q1].
  pose proof (value_args_range nk Hnk vs st0 args st' E1 Q1) as Hr.
  assert (Hvs : Forall var_tok vs).
  { unfold take_values in E0. pose proof (value_tokens_forall var_tok ltac:(split; intro Hx; discriminate Hx) (toks st) Htv) as Hv.
    destruct (value_tokens (toks st)) as [a b]. inversion E0; subst. exact Hv. }
  pose proof (value_args_names nk vs st0 args st' Hvs E1) as Hgn.
  destruct (build_printable nk args t Hnk Hr Hgn Eb) as (Hp & He & Hpv). split; [exact Hp|split; [exact He|exact Hpv]].
Qed.

Lemma parse_item_body_conv rec_list : list_pres rec_list -> list_conv rec_list -> item_conv (parse_item_body floats rec_list).
Proof.
  intros Pl Cl st t st' H Hq Htv He0. unfold parse_item_body in H.
  destruct (negb (typ_is (peek st) TLAB)); [discriminate|].
  destruct (negb (typ_is (peek (advance st)) TItemType)); [discriminate|].
  set (st2 := advance (advance st)) in *.
  assert (H2 : ext st st2) by (subst st2; eapply ext_trans; apply ext_advance).
  assert (F2 : errs st2 = errs st /\ ecount st2 = ecount st) by (split; reflexivity).
  set (szt := peek st2) in *.
  set (S4 := if typ_is szt TItemSize then _ else _) in *.
  assert (HS : let '(sized, lo, hi, s) := S4 in ext st s /\ errs s = errs st /\ ecount s = ecount st /\ lo < two63 /\ hi < two63).
  { subst S4. destruct (typ_is szt TItemSize).
    - destruct (parse_size (t_val szt)) as [a b] eqn:Eps. destruct (parse_size_lt _ _ _ Eps).
      split; [eapply ext_trans; [exact H2|apply ext_advance]|]. repeat split; assumption.
    - split; [exact H2|]. repeat split; unfold two63; lia. }
  destruct S4 as [[[sized lo] hi] st3]. destruct HS as (X3 & E3 & C3 & Hlo & Hhi).
  destruct (negb sized && typ_is szt TError); [discriminate|].
  set (V := if bytes_eqb _ _ then _ else _) in *.
  assert (HV : let '(res, placeholder, s) := V in ext st3 s /\
            forall it, res = IOk it -> quiet st3 s -> printable it /\ canon (ecount st) (vars it) /\
                                      ecount s = ecount st + Z.of_nat (length (ells (vars it))) /\ Forall Pv (named (vars it))).
  { subst V. destruct (bytes_eqb (t_val (peek (advance st))) (B"L"%string)).
    { (* a list *)
      pose proof (Pl st3 [] 0) as X. destruct (rec_list st3 [] 0) as [r s] eqn:Er. cbn [snd] in X. split; [exact X|].
      intros it -> Hq3.
      destruct (Cl st3 [] 0 it s (ecount st) Er Hq3 (tokvars_ext _ _ X3 Htv) He0 (Forall_nil _)) as (xs & -> & Hp & Hc & Hcnt & Hpv).
      - unfold canon. reflexivity.
      - cbn. lia.
      - reflexivity.
      - constructor.
      - split; [exact Hp|split; [exact Hc|split; [exact Hcnt|exact Hpv]]]. }
    destruct (bytes_eqb (t_val (peek (advance st))) (B"A"%string)).
    { (* text *)
      pose proof (ext_take_values st3) as X0. destruct (take_values st3) as [vs st0] eqn:E0. cbn [snd] in X0.
      pose proof (ext_ascii_literal vs st0 (length vs) [] lo hi) as X1.
      destruct (ascii_literal st0 vs (length vs) [] lo hi) as [r s] eqn:Ea. cbn [snd] in X1.
      split; [eapply ext_trans; eassumption|]. intros it Hres Hq3.
      destruct (quiet_split _ _ _ X0 X1 Hq3) as [_ Q1].
      assert (Ecs : ecount s = ecount st).
      { rewrite (ascii_literal_ecount _ _ _ _ _ _ _ _ Ea), (take_values_ecount _ _ _ E0). exact C3. }
      destruct r as [r0| |]; try (destruct r0; discriminate Hres); try discriminate Hres.
      assert (Hvs : Forall var_tok vs).
      { unfold take_values in E0. pose proof (value_tokens_forall var_tok ltac:(split; intro Hx; discriminate Hx) (toks st3) (tokvars_ext _ _ X3 Htv)) as Hv.
        destruct (value_tokens (toks st3)) as [a b]. inversion E0; subst. exact Hv. }
      destruct (ascii_literal_conv vs Hvs st0 (length vs) [] lo hi r0 s Ea Q1) as [(v & -> & Hnew)|(nm & -> & Hnew & Hnm & HPnm)].
      - inversion Hres; subst it. split; [exact Hnew|split; [reflexivity|split; [rewrite Ecs; cbn; lia|constructor]]].
      - destruct nm as [|c nm]; [congruence|]. inversion Hres; subst it.
        assert (Hvalid : forallb is_valid_var_name [c :: nm] = true).
        { unfold new_ascii_var in Hnew. cbn [forallb]. destruct (is_valid_var_name (c :: nm)); [reflexivity|discriminate]. }
        destruct (valid_names_plain _ Hvalid) as [En El].
        split; [cbn [printable]; repeat split; assumption|]. change (vars (IAsciiVar (c :: nm) lo hi)) with [c :: nm].
        split; [apply canon_no_ellipsis; exact El|split; [rewrite El, Ecs; cbn [length]; lia|rewrite En; constructor; [exact HPnm|constructor]]]. }
    destruct (nk_of_type (t_val (peek (advance st)))) as [nk|] eqn:Enk.
    { pose proof (ext_parse_numeric floats nk st3) as X. destruct (parse_numeric floats nk st3) as [r s] eqn:En. cbn [snd] in X.
      split; [exact X|]. intros it -> Hq3.
      destruct (parse_numeric_conv nk st3 it s (nk_of_type_wf _ _ Enk) En Hq3 (tokvars_ext _ _ X3 Htv)) as (Hp & El & Hpv).
      rewrite El. split; [exact Hp|split; [apply canon_no_ellipsis; exact El|split]].
      - rewrite (parse_numeric_ecount _ _ _ _ _ En). cbn [length]. lia.
      - unfold named. apply Forall_forall. intros x Hx. apply filter_In in Hx as [Hx _]. rewrite Forall_forall in Hpv. auto. }
    split; [apply ext_refl|]. intros it Hres. discriminate Hres. }
  destruct V as [[res placeholder] st4]. destruct HV as [X4 HV].
  destruct res as [it| |]; try discriminate.
  cbv zeta in H. set (st5 := if (0 <=? _) && _ then err st4 szt 10 else st4) in *.
  destruct (typ_is (peek st5) TRAB); [|discriminate]. inversion H; subst t st'. clear H.
  assert (E5 : st5 = st4).
  { subst st5. match goal with |- (if ?c then _ else _) = _ => destruct c end; [|reflexivity]. exfalso.
    eapply (grew_not_quiet st (err st4 szt 10) (advance (err st4 szt 10))); [|apply ext_advance|exact Hq].
    eapply ext_grew; [eapply ext_trans; [exact X3|exact X4]|apply grew_err]. }
  rewrite E5 in *.
  assert (Q34 : quiet st3 st4).
  { unfold quiet, nerrs in *. rewrite E3. exact Hq. }
  destruct (HV it eq_refl Q34) as (Hp & Hc & Hcnt & Hpv). split; [exact Hp|split; [exact Hc|split; [exact Hcnt|exact Hpv]]].
Qed.

Lemma conv_fuel : forall f, item_conv (parse_item floats f) /\ list_conv (parse_list floats f).
Proof.
  induction f as [|f [IHi IHl]].
  - split; [intros st t st' H; discriminate H|intros st cs count l st' e0 H; discriminate H].
  - destruct (ext_parse_item_list floats f) as [Pi Pl]. split.
    + change (parse_item floats (S f)) with (parse_item_body floats (parse_list floats f)).
      apply parse_item_body_conv; assumption.
    + change (parse_list floats (S f)) with (parse_list_body (parse_item floats f) (parse_list floats f)).
      apply parse_list_body_conv; assumption.
Qed.

(* an item the parser returns without reporting an error is printable, and its
   ellipses are numbered from the parser's counter *)
Theorem parsed_item_printable f st t st' :
  parse_item floats f st = (Some t, st') -> errs st' = errs st -> tokvars_ok (toks st) -> 0 <= ecount st ->
  printable t /\ canon (ecount st) (vars t) /\ ecount st' = ecount st + Z.of_nat (length (ells (vars t))) /\
  Forall Pv (named (vars t)).
Proof.
  intros H He Htv Hc. apply (proj1 (conv_fuel f) st t st' H); [|exact Htv|exact Hc]. unfold quiet, nerrs. rewrite He. reflexivity.
Qed.

(* ---------- messages ---------- *)

(* a message as the parser builds it (sml_msg without the float-oracle part) *)
Definition sml_msg0 (m : msg) : Prop :=
  msg_ok m = true /\ m_sid m = -1 /\ m_sys m = [x00; x00; x00; x00] /\
  (m_item m = IEmpty \/ (printable (m_item m) /\ canon 0 (vars (m_item m)) /\ Forall Pv (named (vars (m_item m))))) /\
  (m_name m = [] \/ Pn (m_name m)).

Lemma tokvars_tl ts : tokvars_ok ts -> tokvars_ok (tl ts).
Proof. intro H. destruct ts; [exact H|inversion H; assumption]. Qed.

Lemma new_data_message_fields name stream function wbit dir it m :
  new_data_message name stream function wbit dir it = Some m ->
  msg_ok m = true /\ m_sid m = -1 /\ m_sys m = [x00; x00; x00; x00] /\ m_item m = it /\ m_name m = name.
Proof.
  unfold new_data_message, check. match goal with |- context [msg_ok ?x] => destruct (msg_ok x) eqn:E end; [|discriminate].
  intro H; inversion H; subst. repeat split; try reflexivity. exact E.
Qed.

Theorem parse_message_conv st st' : parse_message floats st = (true, st') -> quiet st st' -> tokvars_ok (toks st) ->
  exists m, msgs st' = msgs st ++ [m] /\ sml_msg0 m.
Proof.
  intros H Hq Htv. unfold parse_message in H.
  repeat match type of H with
         | (let '(_, _) := ?x in _) = _ => destruct x eqn:?
         | (if ?c then _ else _) = _ => destruct c eqn:?
         | match ?x with _ => _ end = _ => destruct x eqn:?
         end; try discriminate; inversion H; subst; clear H.
  all: repeat match goal with
              | H : (if ?c then _ else _) = (_, _) |- _ => destruct c eqn:?
              end.
  all: repeat match goal with
              | H : (_, _) = (_, _) |- _ => inversion H; subst; clear H
              end.
  all: match goal with H : new_data_message _ _ _ _ _ ?i = Some ?m |- _ =>
         destruct (new_data_message_fields _ _ _ _ _ _ _ H) as (Fok & Fsid & Fsys & Fit & Fnm); exists m;
         split; [cbn [msgs add_msg advance];
                 try match goal with Hp : parse_item _ _ ?sx = (_, ?s) |- _ => rewrite (proj1 (parse_item_msgs floats _) _ _ _ Hp) end; reflexivity|];
         split; [exact Fok|split; [exact Fsid|split; [exact Fsys|split; [rewrite Fit|rewrite Fnm]]]]
       end.
  (* the name: none, or the value of a name token *)
  all: try (left; reflexivity).
  all: try match goal with |- _ \/ Pn (t_val (peek ?sx)) =>
             right; apply peek_name; [cbn [toks err warn advance reset_msg_scope]; repeat apply tokvars_tl; exact Htv|assumption]
           end.
  all: try (left; reflexivity).
  all: try discriminate.
  all: right.
  all: match goal with Hp : parse_item _ ?f ?sx = (Some ?t, ?s) |- _ =>
         pose proof (proj1 (ext_parse_item_list floats f) sx) as X; rewrite Hp in X; cbn [snd] in X;
         pose proof (ext_nerrs _ _ X) as Hn;
         assert (Hq' : quiet sx s);
         [unfold quiet, nerrs in *; cbn [errs err warn advance reset_msg_scope add_msg] in *; rewrite ?app_length in *; cbn [length] in *; lia|];
         assert (Hz : ecount sx = 0) by reflexivity;
         destruct (proj1 (conv_fuel f) sx t s Hp Hq') as (Pp & Pc & _ & Pvs);
         [cbn [toks err warn advance reset_msg_scope]; repeat apply tokvars_tl; exact Htv|rewrite Hz; lia|];
         rewrite Hz in Pc; split; [exact Pp|split; [exact Pc|exact Pvs]]
       end.
Qed.

Lemma parse_loop_conv : forall f st, pinv st -> tokvars_ok (toks st) -> quiet st (parse_loop floats f st) ->
  Forall sml_msg0 (msgs st) -> Forall sml_msg0 (msgs (parse_loop floats f st)).
Proof.
  induction f as [|f IH]; intros st Hinv Htv Hq Hm; [exact Hm|]. cbn [parse_loop] in *.
  destruct (typ_is (peek st) TEOF); [exact Hm|].
  pose proof (parse_message_pinv floats st Hinv) as Hp. destruct (parse_message_progress floats st Hinv) as [He [Hfail _]].
  destruct (parse_message floats st) as [ok st1] eqn:E. cbn [fst snd] in *. destruct ok.
  - pose proof (parse_loop_ext floats f st1 Hp) as He2.
    destruct (quiet_split _ _ _ He He2 Hq) as [Q1 Q2].
    destruct (parse_message_conv st st1 E Q1 Htv) as (m & Em & Hgood).
    apply IH; [exact Hp|exact (tokvars_ext _ _ He Htv)|exact Q2|]. rewrite Em. apply Forall_app. split; [exact Hm|constructor; [exact Hgood|constructor]].
  - exfalso. specialize (Hfail eq_refl). unfold quiet in Hq. lia.
Qed.
End Conv.

Lemma filter_var_toks alnum (f : token -> bool) l : Forall var_tok_ok l -> Forall (name_tok_ok alnum) l ->
  Forall (var_tok sml_var (name_lexes alnum)) (filter f l).
Proof.
  intros Hv Hn. induction Hv as [|t l Ht _ IH]; [constructor|]. inversion Hn as [|? ? Hnt Hnl]; subst.
  cbn [filter]. destruct (f t); [constructor; [|exact (IH Hnl)]|exact (IH Hnl)].
  split; [intro Hty; destruct (Ht Hty) as [Ha Hb]; split; assumption|exact Hnt].
Qed.

(* every message sml.Parse returns is one the parser can rebuild from its
   printed form: its item (if any) is printable, with ellipses numbered from 0,
   every variable name in it is one the lexer reads back (sml_var), and its name
   (if any) is read back as one name (name_lexes) *)
Theorem parsed_messages_printable alnum floats input : floats_wf floats ->
  Forall (sml_msg0 sml_var (name_lexes alnum)) (r_msgs (sml_parse alnum floats input)).
Proof.
  intro Hwf. unfold sml_parse. cbn [r_msgs].
  set (st0 := {| toks := filter (fun t => negb (typ_is t TComment)) (lex_all alnum input);
                 Parser.names := []; ecount := 0; errs := []; warns := []; msgs := []; crashed := false |}).
  set (st := parse_loop floats _ st0).
  destruct (errs st) eqn:Ee; [|constructor].
  apply (parse_loop_conv floats Hwf sml_var (name_lexes alnum) _ st0 (sml_start_pinv alnum input)); [| |constructor].
  - unfold tokvars_ok. cbn [toks st0]. apply filter_var_toks; [apply lex_all_var_tokens|apply lex_all_name_tokens].
  - unfold quiet, nerrs. fold st. rewrite Ee. reflexivity.
Qed.

(* the fixed point at token level: from the tokens of the printed form of a
   message the parser returned, the parser rebuilds that message (for float
   items: when the float oracles agree on its values, `scans`) *)
Theorem printed_tokens_parse_back alnum floats fl input m st rest : floats_wf floats ->
  In m (r_msgs (sml_parse alnum floats input)) ->
  (m_item m = IEmpty \/ scans floats fl (m_item m)) ->
  toks st = msg_tokens fl m ++ rest ->
  exists st', parse_message floats st = (true, st') /\ toks st' = rest /\ errs st' = errs st /\ warns st' = warns st /\
              msgs st' = msgs st ++ [m] /\ crashed st' = crashed st.
Proof.
  intros Hwf Hin Hsc Ht.
  pose proof (parsed_messages_printable alnum floats input Hwf) as Hall. rewrite Forall_forall in Hall.
  destruct (Hall m Hin) as (Hok & Hsid & Hsys & Hit & _).
  apply (msg_parses_back floats fl m st rest); [|exact Ht].
  split; [exact Hok|]. split; [exact Hsid|]. split; [exact Hsys|].
  destruct Hit as [E|[Hp [Hc _]]]; [left; exact E|right].
  destruct Hsc as [E|Hs]; [rewrite E in Hp; contradiction|]. split; [exact Hp|split; [exact Hs|exact Hc]].
Qed.

(* ---------- characters: what the parser returned is lexable ---------- *)

(* the float texts of a tree are each lexed as one number (an oracle hypothesis, see LexPrinted.float_lexes) *)
Fixpoint floats_lex (alnum : list Z) (fl : nat -> Z -> bytes) (t : item) : Prop :=
  match t with
  | IList xs => (fix go (cs : list item) : Prop := match cs with [] => True | c :: r => floats_lex alnum fl c /\ go r end) xs
  | ILeaf KFloat w ys => Forall (fun x => match x with SV v => float_lexes alnum (fl w v) | SX _ => True end) ys
  | _ => True
  end.

Lemma floats_lex_children alnum fl xs : floats_lex alnum fl (IList xs) -> Forall (floats_lex alnum fl) xs.
Proof. cbn [floats_lex]. induction xs as [|c r IH]; intro H; [constructor|]. destruct H as [Hc Hr]. constructor; [exact Hc|apply IH; exact Hr]. Qed.

Lemma named_in ns n : In n ns -> is_ellipsis n = false -> In n (named ns).
Proof. intros Hin He. unfold named. apply filter_In. split; [exact Hin|]. rewrite He. reflexivity. Qed.

Lemma cvars_in_vars xs c n : In c xs -> In n (cvars c) -> In n (vars (IList xs)).
Proof. intros Hc Hn. change (vars (IList xs)) with (flat_map cvars xs). apply in_flat_map. exists c. split; assumption. Qed.

Theorem lexable_of_names alnum fl : forall t, printable t -> Forall sml_var (named (vars t)) -> floats_lex alnum fl t ->
  lexable alnum fl t.
Proof.
  induction t as [xs IH|n|k w ys|v|n mn mx|] using item_ind'; intros Hp Hn Hf; try (cbn [printable] in Hp; contradiction).
  - (* a list *)
    pose proof (printable_children xs Hp) as Hok. pose proof (floats_lex_children alnum fl xs Hf) as Hfc.
    rewrite Forall_forall in Hn.
    assert (G : Forall (child_lexable alnum fl) xs).
    { apply Forall_forall. intros c Hc. rewrite Forall_forall in IH, Hok, Hfc.
      specialize (IH c Hc). specialize (Hok c Hc). specialize (Hfc c Hc).
      assert (Hsub : forall m, In m (cvars c) -> is_ellipsis m = false -> sml_var m).
      { intros m Hm He. apply Hn. apply named_in; [eapply cvars_in_vars; eassumption|exact He]. }
      destruct c as [ys|m|k w ys|v|m mn mx|]; cbn [child_ok] in Hok; try contradiction; cbn [child_lexable].
      - apply IH; [exact Hok| |exact Hfc]. apply Forall_forall. intros m Hm. apply filter_In in Hm as [Hm He].
        apply Hsub; [exact Hm|]. destruct (is_ellipsis m); [discriminate|reflexivity].
      - intro He. apply Hsub; [left; reflexivity|exact He].
      - apply IH; [exact Hok| |exact Hfc]. apply Forall_forall. intros m Hm. apply filter_In in Hm as [Hm He].
        apply Hsub; [exact Hm|]. destruct (is_ellipsis m); [discriminate|reflexivity].
      - exact I.
      - apply IH; [exact Hok| |exact Hfc]. apply Forall_forall. intros m' Hm. apply filter_In in Hm as [Hm He].
        apply Hsub; [exact Hm|]. destruct (is_ellipsis m'); [discriminate|reflexivity]. }
    clear -G. cbn [lexable]. induction G as [|c r Hc _ IHr]; [exact I|]. split; [exact Hc|exact IHr].
  - (* a value item *)
    cbn [printable] in Hp. destruct Hp as (_ & _ & _ & _ & Hv & Hnm). cbn [lexable vars] in *.
    assert (Hvalid : forallb is_valid_var_name (slot_vars ys) = true) by (unfold names_ok in Hnm; apply andb_true_iff in Hnm as [H _]; exact H).
    destruct (valid_names_plain _ Hvalid) as [En _]. rewrite En in Hn. rewrite Forall_forall in Hn.
    apply Forall_forall. intros x Hx. destruct x as [v|n]; cbn [slot_lexable].
    + destruct k; try exact I.
      * rewrite forallb_forall in Hv. specialize (Hv _ Hx). cbn [val_okb bin_val_ok] in Hv. apply andb_true_iff in Hv as [Hv _]. apply Z.leb_le. exact Hv.
      * cbn [floats_lex] in Hf. rewrite Forall_forall in Hf. exact (Hf _ Hx).
    + apply Hn. unfold slot_vars. apply in_flat_map. exists (SX n). split; [exact Hx|left; reflexivity].
  - exact I.
  - (* an ASCII variable *)
    cbn [printable] in Hp. destruct Hp as (Hnew & _ & _). cbn [lexable vars] in *.
    assert (Hvalid : forallb is_valid_var_name [n] = true).
    { unfold new_ascii_var in Hnew. cbn [forallb]. destruct (is_valid_var_name n); [reflexivity|discriminate]. }
    destruct (valid_names_plain _ Hvalid) as [En _]. rewrite En in Hn. inversion Hn; assumption.
Qed.

(* THE CONVERSE DIRECTION: for every text sml.Parse accepts, printing the
   returned messages and parsing the printed text returns exactly those
   messages again, with no error and no warning — the printed form is a fixed
   point.  The only hypotheses are about the two float oracles: they agree on
   the float values of the messages (`scans`: ParseFloat of the text FormatFloat
   printed gives the value back; `floats_lex`: that text is lexed as one number). *)
Theorem printed_form_is_fixed_point alnum floats fl input : floats_wf floats ->
  let ms := r_msgs (sml_parse alnum floats input) in
  Forall (fun m => m_item m = IEmpty \/ (scans floats fl (m_item m) /\ floats_lex alnum fl (m_item m))) ms ->
  let r := sml_parse alnum floats (msgs_text fl ms) in
  r_msgs r = ms /\ r_errs r = [] /\ r_warns r = [] /\ r_crashed r = false.
Proof.
  intros Hwf ms Hor. apply print_parse_messages.
  pose proof (parsed_messages_printable alnum floats input Hwf) as Hall. fold ms in Hall.
  rewrite Forall_forall in *. intros m Hin. destruct (Hall m Hin) as (Hok & Hsid & Hsys & Hit & Hnm). pose proof (Hor m Hin) as Hfl.
  split; [|split; [|exact Hnm]].
  - split; [exact Hok|]. split; [exact Hsid|]. split; [exact Hsys|].
    destruct Hit as [E|[Hp [Hc _]]]; [left; exact E|right].
    destruct Hfl as [E|[Hs _]]; [rewrite E in Hp; contradiction|]. split; [exact Hp|split; [exact Hs|exact Hc]].
  - destruct Hit as [E|[Hp [_ Hn]]]; [left; exact E|right].
    destruct Hfl as [E|[_ Hf]]; [rewrite E in Hp; contradiction|]. apply lexable_of_names; assumption.
Qed.

(* without floats there is no hypothesis left *)
Fixpoint no_floats (t : item) : Prop :=
  match t with
  | IList xs => (fix go (cs : list item) : Prop := match cs with [] => True | c :: r => no_floats c /\ go r end) xs
  | ILeaf KFloat _ ys => Forall (fun x => match x with SV _ => False | SX _ => True end) ys
  | _ => True
  end.

Lemma no_floats_oracles alnum floats fl : forall t, no_floats t -> scans floats fl t /\ floats_lex alnum fl t.
Proof.
  induction t as [xs IH|n|k w ys|v|n mn mx|] using item_ind'; intro H; try (split; exact I).
  - cbn [no_floats scans floats_lex] in *. induction IH as [|c cs Hc _ IHcs]; [split; exact I|].
    destruct H as [H1 H2]. destruct (Hc H1) as [A1 A2]. destruct (IHcs H2) as [B1 B2]. split; split; assumption.
  - destruct k; try (split; [cbn [scans]; apply Forall_forall; intros x _; destruct x; exact I|exact I]).
    cbn [no_floats scans floats_lex] in *. split; apply Forall_forall; intros x Hx; rewrite Forall_forall in H; specialize (H x Hx);
      destruct x; try contradiction; exact I.
Qed.

Theorem printed_form_is_fixed_point_no_floats alnum floats fl input : floats_wf floats ->
  let ms := r_msgs (sml_parse alnum floats input) in
  Forall (fun m => no_floats (m_item m)) ms ->
  let r := sml_parse alnum floats (msgs_text fl ms) in
  r_msgs r = ms /\ r_errs r = [] /\ r_warns r = [] /\ r_crashed r = false.
Proof.
  intros Hwf ms Hnf. apply printed_form_is_fixed_point; [exact Hwf|].
  eapply Forall_impl; [|exact Hnf]. intros m Hm. cbv beta in Hm.
  right. apply no_floats_oracles. exact Hm.
Qed.

(* every message sml.Parse returns, with the float-oracle hypotheses on its float values, is `msg_good` *)
Lemma parsed_messages_good alnum floats fl input : floats_wf floats ->
  Forall (fun m => m_item m = IEmpty \/ (scans floats fl (m_item m) /\ floats_lex alnum fl (m_item m))) (r_msgs (sml_parse alnum floats input)) ->
  Forall (msg_good alnum floats fl) (r_msgs (sml_parse alnum floats input)).
Proof.
  intros Hwf Hor. pose proof (parsed_messages_printable alnum floats input Hwf) as Hall.
  rewrite Forall_forall in *. intros m Hin. destruct (Hall m Hin) as (Hok & Hsid & Hsys & Hit & Hnm). pose proof (Hor m Hin) as Hfl.
  split; [|split; [|exact Hnm]].
  - split; [exact Hok|]. split; [exact Hsid|]. split; [exact Hsys|].
    destruct Hit as [E|[Hp [Hc _]]]; [left; exact E|right].
    destruct Hfl as [E|[Hs _]]; [rewrite E in Hp; contradiction|]. split; [exact Hp|split; [exact Hs|exact Hc]].
  - destruct Hit as [E|[Hp [_ Hn]]]; [left; exact E|right].
    destruct Hfl as [E|[_ Hf]]; [rewrite E in Hp; contradiction|]. apply lexable_of_names; assumption.
Qed.

(* C19 for the canonical layout of arbitrary accepted texts: the printed forms
   of what two texts parse to, one after the other, parse to the messages of
   the first text followed by the messages of the second *)
Theorem concat_of_accepted alnum floats fl t1 t2 : floats_wf floats ->
  let m1 := r_msgs (sml_parse alnum floats t1) in
  let m2 := r_msgs (sml_parse alnum floats t2) in
  Forall (fun m => no_floats (m_item m)) m1 -> Forall (fun m => no_floats (m_item m)) m2 ->
  let r := sml_parse alnum floats (msgs_text fl m1 ++ msgs_text fl m2) in
  r_msgs r = m1 ++ m2 /\ r_errs r = [] /\ r_warns r = [].
Proof.
  intros Hwf m1 m2 H1 H2.
  assert (G : forall input, Forall (fun m => no_floats (m_item m)) (r_msgs (sml_parse alnum floats input)) ->
              Forall (msg_good alnum floats fl) (r_msgs (sml_parse alnum floats input))).
  { intros input H. apply parsed_messages_good; [exact Hwf|]. eapply Forall_impl; [|exact H].
    intros m Hm. right. apply no_floats_oracles. exact Hm. }
  destruct (concat_printed alnum floats fl m1 m2 (G t1 H1) (G t2 H2)) as (A & B' & C).
  destruct (print_parse_messages alnum floats fl m1 (G t1 H1)) as (A1 & _).
  destruct (print_parse_messages alnum floats fl m2 (G t2 H2)) as (A2 & _).
  cbv zeta in *. rewrite A, A1, A2. repeat split; assumption.
Qed.
