(* CaseProofs.v — letter case of keywords (C08): a type name, a boolean literal,
   a stream/function code, a wait bit or a direction written in any letter case
   gives the same token and leaves the lexer at the same place. *)
From Secs Require Import Ast Utf8 Lexer SmlNumbers SmlProofs LexProofs LayoutProofs LexPrinted.
Open Scope Z_scope.

Lemma upper_alpha c : is_alpha_ (upper c) = is_alpha_ c. Proof. destruct c; reflexivity. Qed.
Lemma upper_word c : is_word (upper c) = is_word c. Proof. destruct c; reflexivity. Qed.
Lemma upper_digit c : is_digit (upper c) = is_digit c. Proof. destruct c; reflexivity. Qed.
Lemma upper_idem c : upper (upper c) = upper c. Proof. destruct c; reflexivity. Qed.

Lemma alpha_not_slash_dot c : is_alpha_ c = true -> byte_eqb x2f c = false /\ byte_eqb c x2e = false.
Proof. destruct c; try discriminate; intros _; split; reflexivity. Qed.

Lemma same_upper_alpha c c' : upper c' = upper c -> is_alpha_ c' = is_alpha_ c.
Proof. intro H. rewrite <- (upper_alpha c'), <- (upper_alpha c), H. reflexivity. Qed.
Lemma same_upper_word c c' : upper c' = upper c -> is_word c' = is_word c.
Proof. intro H. rewrite <- (upper_word c'), <- (upper_word c), H. reflexivity. Qed.
Lemma same_upper_digit c c' : upper c' = upper c -> is_digit c' = is_digit c.
Proof. intro H. rewrite <- (upper_digit c'), <- (upper_digit c), H. reflexivity. Qed.

(* a digit has no other spelling *)
Lemma digit_fixed c c' : upper c' = upper c -> is_digit c = true -> c' = c.
Proof. destruct c; try discriminate; intros H _; destruct c'; try discriminate H; reflexivity. Qed.

Lemma span_rest_stops p : forall s a c, span p s = (a, c) -> match c with [] => True | x :: _ => p x = false end.
Proof.
  induction s as [|b s IH]; intros a c H; cbn [span] in H; [inversion H; exact I|].
  destruct (p b) eqn:E.
  - destruct (span p s) as [a' c'] eqn:Es. inversion H; subst. exact (IH a' c eq_refl).
  - inversion H; subst. exact E.
Qed.

Lemma span_all p : forall a, Forall (fun x => p x = true) a -> span p a = (a, []).
Proof. induction 1 as [|x a Hx _ IH]; [reflexivity|]. cbn [span]. rewrite Hx, IH. reflexivity. Qed.

Lemma span_exact p a c : Forall (fun x => p x = true) a -> match c with [] => True | x :: _ => p x = false end ->
  span p (a ++ c) = (a, c).
Proof.
  intros Ha Hc. destruct c as [|x c]; [rewrite app_nil_r; apply span_all; exact Ha|apply span_stop; assumption].
Qed.

Lemma span_inv p s a c : span p s = (a, c) ->
  s = a ++ c /\ Forall (fun x => p x = true) a /\ match c with [] => True | x :: _ => p x = false end.
Proof. intro H. split; [eapply span_eq; exact H|]. split; [eapply span_forall; exact H|eapply span_rest_stops; exact H]. Qed.

(* recasing a run keeps the class of every byte *)
Lemma recased_forall (p : byte -> bool) : (forall c c', upper c' = upper c -> p c' = p c) ->
  forall w w', to_upper w' = to_upper w -> Forall (fun x => p x = true) w -> Forall (fun x => p x = true) w'.
Proof.
  intros Hp w. induction w as [|x w IH]; intros [|x' w'] H Hw; try discriminate; [constructor|].
  cbn [to_upper map] in H. inversion H as [[Hx Hr]]. inversion Hw; subst. constructor.
  - rewrite (Hp x x' Hx). assumption.
  - apply IH; assumption.
Qed.

Lemma recased_length w w' : to_upper w' = to_upper w -> length w' = length w.
Proof. intro H. apply (f_equal (@length byte)) in H. unfold to_upper in H. rewrite !map_length in H. exact H. Qed.

(* ---------- item type names and boolean literals ---------- *)

Definition is_keyword (u : bytes) : bool := mem_bytes u item_types || bytes_eqb u [x54] || bytes_eqb u [x46].

Lemma match_ident_recased m m' r : to_upper m' = to_upper m ->
  match_ident (m ++ r) = Some (m, r) -> match_ident (m' ++ r) = Some (m', r).
Proof.
  intros Hu Hm. destruct m as [|c w].
  - exfalso. cbn [app] in Hm. destruct r as [|b r]; [discriminate|]. cbn [match_ident] in Hm.
    destruct (is_alpha_ b); [|discriminate]. destruct (span is_word r) as [a rest]. discriminate Hm.
  - destruct m' as [|c' w']; [discriminate|]. cbn [to_upper map] in Hu. inversion Hu as [[Hc Hw]].
    cbn [app match_ident] in Hm |- *. destruct (is_alpha_ c) eqn:Ea; [|discriminate].
    rewrite (same_upper_alpha c c' Hc), Ea.
    destruct (span is_word (w ++ r)) as [a rest] eqn:Es. inversion Hm; subst a rest. clear Hm.
    destruct (span_inv _ _ _ _ Es) as (_ & Hall & Hstop).
    rewrite (span_exact is_word w' r); [reflexivity| |exact Hstop].
    apply (recased_forall is_word same_upper_word w w' Hw Hall).
Qed.

(* a type name or a boolean literal in any letter case: the same token, the same rest *)
Theorem keyword_case alnum m m' r off : to_upper m' = to_upper m ->
  match_ident (m ++ r) = Some (m, r) -> is_keyword (to_upper m) = true ->
  lex_step1 alnum LText (m' ++ r) off = lex_step1 alnum LText (m ++ r) off.
Proof.
  intros Hu Hm Hk. pose proof (match_ident_recased m m' r Hu Hm) as Hm'.
  assert (Hl : zlen m' = zlen m) by (unfold zlen; rewrite (recased_length m m' Hu); reflexivity).
  destruct m as [|c w]; [cbn in Hk; discriminate|]. destruct m' as [|c' w']; [discriminate|].
  assert (Ha : is_alpha_ c = true) by (cbn [app match_ident] in Hm; destruct (is_alpha_ c); [reflexivity|discriminate]).
  assert (Ha' : is_alpha_ c' = true) by (cbn [app match_ident] in Hm'; destruct (is_alpha_ c'); [reflexivity|discriminate]).
  destruct (alpha_not_slash_dot c Ha) as [S1 D1]. destruct (alpha_not_slash_dot c' Ha') as [S2 D2].
  unfold lex_step1. cbn [app]. rewrite (no_slashes c _ S1), (no_slashes c' _ S2), (no_ellipsis c _ D1), (no_ellipsis c' _ D2).
  cbn [app] in Hm, Hm'. rewrite Hm, Hm', Hu, Hl. unfold is_keyword in Hk.
  destruct (mem_bytes (to_upper (c :: w)) item_types); [reflexivity|]. cbn [orb] in Hk. rewrite Hk. reflexivity.
Qed.

(* ---------- header keywords ---------- *)

Lemma recased_digits d d' : to_upper d' = to_upper d -> Forall (fun x => is_digit x = true) d -> d' = d.
Proof.
  revert d'. induction d as [|x d IH]; intros [|x' d'] H Hd; try discriminate; [reflexivity|].
  cbn [to_upper map] in H. inversion H as [[Hx Hr]]. inversion Hd; subst.
  rewrite (digit_fixed x x' Hx) by assumption. f_equal. apply IH; assumption.
Qed.

Lemma recased_split a f b : forall w', to_upper w' = to_upper (a ++ f :: b) ->
  exists e1 g e2, w' = e1 ++ g :: e2 /\ to_upper e1 = to_upper a /\ upper g = upper f /\ to_upper e2 = to_upper b.
Proof.
  induction a as [|y a IH]; intros w' H.
  - destruct w' as [|g e2]; [discriminate|]. cbn [app to_upper map] in H. inversion H as [[Hg He2]].
    exists [], g, e2. repeat split; first [exact Hg | exact He2 | reflexivity].
  - destruct w' as [|y' w']; [discriminate|]. cbn [app to_upper map] in H. inversion H as [[Hy Hrest]].
    destruct (IH w' Hrest) as (e1 & g & e2 & -> & He1 & Hg & He2). exists (y' :: e1), g, e2.
    split; [reflexivity|]. split; [|split; [exact Hg|exact He2]].
    cbn [to_upper map]. rewrite Hy. unfold to_upper in He1. rewrite He1. reflexivity.
Qed.

(* SnFm *)
Lemma match_sf_recased m m' r : to_upper m' = to_upper m ->
  match_sf (m ++ r) = Some (m, r) -> match_sf (m' ++ r) = Some (m', r).
Proof.
  intros Hu Hm.
  destruct m as [|c w].
  { exfalso. cbn [app] in Hm. unfold match_sf in Hm. destruct r as [|b r]; [discriminate|].
    destruct (byte_eqb (upper b) x53); [|discriminate]. destruct (span is_digit r) as [d1 r1].
    destruct d1; [discriminate|]. destruct r1 as [|f r2]; [discriminate|]. destruct (byte_eqb (upper f) x46); [|discriminate].
    destruct (span is_digit r2) as [d2 r3]. destruct d2; [discriminate|]. inversion Hm. }
  cbn [app match_sf] in Hm. destruct (byte_eqb (upper c) x53) eqn:Ec; [|discriminate].
  destruct (span is_digit (w ++ r)) as [d1 r1] eqn:E1. destruct d1 as [|x1 d1]; [discriminate|].
  destruct r1 as [|f r2]; [discriminate|]. destruct (byte_eqb (upper f) x46) eqn:Ef; [|discriminate].
  destruct (span is_digit r2) as [d2 r3] eqn:E2. destruct d2 as [|x2 d2]; [discriminate|].
  inversion Hm as [[Hw Hr]]. subst r3. subst w. clear Hm.
  (* w = (x1 :: d1) ++ f :: (x2 :: d2) *)
  destruct m' as [|c' w']; [discriminate|]. cbn [to_upper map] in Hu. inversion Hu as [[Hc Hw']]. clear Hu.
  change (map upper) with to_upper in Hw'.
  (* split w' along the same lengths *)
  destruct (recased_split (x1 :: d1) f (x2 :: d2) w' Hw') as (e1 & g & e2 & Hsplit).
  destruct Hsplit as (-> & He1 & Hg & He2).
  destruct (span_inv _ _ _ _ E1) as (Hs1 & Hd1 & Hst1). destruct (span_inv _ _ _ _ E2) as (Hs2 & Hd2 & Hst2).
  rewrite (recased_digits _ _ He1 Hd1), (recased_digits _ _ He2 Hd2).
  cbn [app match_sf]. rewrite Hc, Ec.
  assert (Hfd : is_digit f = false) by (cbn in Hst1; exact Hst1).
  assert (Hgd : is_digit g = false) by (rewrite (same_upper_digit f g Hg); exact Hfd).
  rewrite <- app_assoc. cbn [app].
  change (x1 :: d1 ++ g :: x2 :: d2 ++ r) with ((x1 :: d1) ++ g :: (x2 :: d2) ++ r).
  rewrite (span_stop is_digit (x1 :: d1) g ((x2 :: d2) ++ r) Hd1 Hgd). rewrite Hg, Ef.
  rewrite Hs2 in *. rewrite E2. reflexivity.
Qed.

Theorem sf_case alnum m m' r off : to_upper m' = to_upper m -> match_sf (m ++ r) = Some (m, r) ->
  starts_with slashes (m ++ r) = false -> starts_with slashes (m' ++ r) = false ->
  lex_step1 alnum LHeader (m' ++ r) off = lex_step1 alnum LHeader (m ++ r) off.
Proof.
  intros Hu Hm S1 S2. unfold lex_step1. rewrite S1, S2, Hm, (match_sf_recased m m' r Hu Hm), Hu.
  unfold zlen. rewrite (recased_length m m' Hu). reflexivity.
Qed.

Lemma upper_eq_sym c c' x : upper c' = upper c -> byte_eqb (upper c) x = byte_eqb (upper c') x.
Proof. intros ->. reflexivity. Qed.

(* W or [W] *)
Lemma match_wbit_recased m m' r : to_upper m' = to_upper m ->
  match_wbit (m ++ r) = Some (m, r) -> match_wbit (m' ++ r) = Some (m', r).
Proof.
  intros Hu Hm. destruct m as [|c m]; [exfalso; cbn [app] in Hm; unfold match_wbit in Hm; destruct r as [|b r]; [discriminate|];
    destruct (byte_eqb (upper b) x57); [discriminate|]; destruct (byte_eqb b x5b); [|discriminate]; destruct r as [|w [|e r']]; try discriminate;
    destruct (_ && _); discriminate|].
  destruct m' as [|c' m']; [discriminate|]. cbn [to_upper map] in Hu. inversion Hu as [[Hc Hrest]]. clear Hu.
  cbn [app match_wbit] in Hm |- *. rewrite <- (upper_eq_sym c c' x57 Hc).
  destruct (byte_eqb (upper c) x57) eqn:Ew.
  - inversion Hm as [[Hm1 Hr]]. destruct m; [|discriminate]. destruct m'; [reflexivity|discriminate].
  - destruct (byte_eqb c x5b) eqn:Eb; [|discriminate]. apply byte_eqb_spec in Eb. subst c.
    assert (c' = x5b) by (destruct c'; try discriminate Hc; reflexivity). subst c'. cbn [byte_eqb]. change (byte_eqb x5b x5b) with true. cbv iota.
    destruct m as [|w [|e m]]; cbn [app] in Hm.
    + destruct r as [|w [|e r']]; try discriminate. destruct (_ && _); [|discriminate]. inversion Hm.
    + destruct r as [|e r']; try discriminate. destruct (_ && _); [|discriminate]. inversion Hm.
    + destruct (byte_eqb (upper w) x57 && byte_eqb e x5d) eqn:Ec; [|discriminate]. inversion Hm as [[Hm1 Hr]].
      destruct m; [|exfalso; apply (f_equal (@length byte)) in Hm1; cbn [length] in Hm1; lia]. clear Hm1.
      destruct m' as [|w' [|e' [|x m']]]; try discriminate. cbn [map] in Hrest. inversion Hrest as [[Hw He]].
      apply andb_true_iff in Ec as [E1 E2]. apply byte_eqb_spec in E2. subst e.
      assert (e' = x5d) by (destruct e'; try discriminate He; reflexivity). subst e'.
      cbn [app]. rewrite Hw, E1. reflexivity.
Qed.

Theorem wbit_case alnum m m' r off : to_upper m' = to_upper m -> match_wbit (m ++ r) = Some (m, r) ->
  starts_with slashes (m ++ r) = false -> starts_with slashes (m' ++ r) = false ->
  match_sf (m ++ r) = None -> match_sf (m' ++ r) = None ->
  lex_step1 alnum LHeader (m' ++ r) off = lex_step1 alnum LHeader (m ++ r) off.
Proof.
  intros Hu Hm S1 S2 F1 F2. unfold lex_step1. rewrite S1, S2, F1, F2, Hm, (match_wbit_recased m m' r Hu Hm), Hu.
  unfold zlen. rewrite (recased_length m m' Hu). reflexivity.
Qed.

(* H->E, H<-E, H<->E *)
Lemma sym_fixed_2d c : upper c = upper x2d -> c = x2d. Proof. destruct c; try discriminate; reflexivity. Qed.
Lemma sym_fixed_3e c : upper c = upper x3e -> c = x3e. Proof. destruct c; try discriminate; reflexivity. Qed.
Lemma sym_fixed_3c c : upper c = upper x3c -> c = x3c. Proof. destruct c; try discriminate; reflexivity. Qed.

Lemma match_dir_shape s m r : match_dir s = Some (m, r) ->
  (exists h c, m = [h; x2d; x3e; c] /\ s = m ++ r /\ byte_eqb (upper h) x48 = true /\ byte_eqb (upper c) x45 = true) \/
  (exists h c, m = [h; x3c; x2d; c] /\ s = m ++ r /\ byte_eqb (upper h) x48 = true /\ byte_eqb (upper c) x45 = true) \/
  (exists h e, m = [h; x3c; x2d; x3e; e] /\ s = m ++ r /\ byte_eqb (upper h) x48 = true /\ byte_eqb (upper e) x45 = true).
Proof.
  unfold match_dir. destruct s as [|h [|a [|b [|c r']]]]; try discriminate; try (destruct (byte_eqb (upper h) x48); discriminate).
  destruct (byte_eqb (upper h) x48) eqn:Eh; [|discriminate].
  destruct (byte_eqb a x2d && byte_eqb b x3e && byte_eqb (upper c) x45) eqn:E1.
  { intro H; inversion H; subst. apply andb_true_iff in E1 as [E1 Ec]. apply andb_true_iff in E1 as [Ea Eb].
    apply byte_eqb_spec in Ea. apply byte_eqb_spec in Eb. subst. left. exists h, c. repeat split; assumption. }
  destruct (byte_eqb a x3c && byte_eqb b x2d && byte_eqb (upper c) x45) eqn:E2.
  { intro H; inversion H; subst. apply andb_true_iff in E2 as [E2 Ec]. apply andb_true_iff in E2 as [Ea Eb].
    apply byte_eqb_spec in Ea. apply byte_eqb_spec in Eb. subst. right; left. exists h, c. repeat split; assumption. }
  destruct (byte_eqb a x3c && byte_eqb b x2d && byte_eqb c x3e) eqn:E3; [|discriminate].
  destruct r' as [|e r'']; [discriminate|]. destruct (byte_eqb (upper e) x45) eqn:Ee; [|discriminate].
  intro H; inversion H; subst. apply andb_true_iff in E3 as [E3 Ec]. apply andb_true_iff in E3 as [Ea Eb].
  apply byte_eqb_spec in Ea. apply byte_eqb_spec in Eb. apply byte_eqb_spec in Ec. subst. right; right. exists h, e. repeat split; assumption.
Qed.

Lemma match_dir_recased m m' r : to_upper m' = to_upper m ->
  match_dir (m ++ r) = Some (m, r) -> match_dir (m' ++ r) = Some (m', r).
Proof.
  intros Hu Hm. destruct (match_dir_shape _ _ _ Hm) as [(h & c & -> & _ & Eh & Ec)|[(h & c & -> & _ & Eh & Ec)|(h & e & -> & _ & Eh & Ee)]].
  - destruct m' as [|h' [|a' [|b' [|c' [|x m']]]]]; try discriminate. cbn [to_upper map] in Hu. inversion Hu as [[Hh Ha Hb Hc]].
    rewrite (sym_fixed_2d a' Ha), (sym_fixed_3e b' Hb). cbn [app match_dir]. rewrite Hh, Eh, Hc, Ec. reflexivity.
  - destruct m' as [|h' [|a' [|b' [|c' [|x m']]]]]; try discriminate. cbn [to_upper map] in Hu. inversion Hu as [[Hh Ha Hb Hc]].
    rewrite (sym_fixed_3c a' Ha), (sym_fixed_2d b' Hb). cbn [app match_dir]. rewrite Hh, Eh, Hc, Ec. reflexivity.
  - destruct m' as [|h' [|a' [|b' [|c' [|e' [|x m']]]]]]; try discriminate. cbn [to_upper map] in Hu. inversion Hu as [[Hh Ha Hb Hc He]].
    rewrite (sym_fixed_3c a' Ha), (sym_fixed_2d b' Hb), (sym_fixed_3e c' Hc). cbn [app match_dir]. rewrite Hh, Eh, He, Ee. reflexivity.
Qed.

Theorem dir_case alnum m m' r off : to_upper m' = to_upper m -> match_dir (m ++ r) = Some (m, r) ->
  starts_with slashes (m ++ r) = false -> starts_with slashes (m' ++ r) = false ->
  match_sf (m ++ r) = None -> match_sf (m' ++ r) = None -> match_wbit (m ++ r) = None -> match_wbit (m' ++ r) = None ->
  lex_step1 alnum LHeader (m' ++ r) off = lex_step1 alnum LHeader (m ++ r) off.
Proof.
  intros Hu Hm S1 S2 F1 F2 W1 W2. unfold lex_step1. rewrite S1, S2, F1, F2, W1, W2, Hm, (match_dir_recased m m' r Hu Hm), Hu.
  unfold zlen. rewrite (recased_length m m' Hu). reflexivity.
Qed.

(* the premises hold of a type name and of a stream/function code *)
Example keyword_case_example alnum r off :
  lex_step1 alnum LText (B"boolean"%string ++ x5b :: r) off = lex_step1 alnum LText (B"BOOLEAN"%string ++ x5b :: r) off /\
  lex_step1 alnum LText (B"BOOLEAN"%string ++ x5b :: r) off = LEmit (mk TItemType (B"BOOLEAN"%string) off) LText (x5b :: r) (off + 7).
Proof.
  split; [|reflexivity]. apply keyword_case; reflexivity.
Qed.

Example wbit_case_example alnum r off :
  lex_step1 alnum LHeader (B"[w]"%string ++ x20 :: r) off = lex_step1 alnum LHeader (B"[W]"%string ++ x20 :: r) off /\
  lex_step1 alnum LHeader (B"[W]"%string ++ x20 :: r) off = LEmit (mk TWaitBit (B"[W]"%string) off) LHeader (x20 :: r) (off + 3).
Proof. split; [|reflexivity]. apply wbit_case; reflexivity. Qed.

Example dir_case_example alnum r off :
  lex_step1 alnum LHeader (B"h<->e"%string ++ x20 :: r) off = lex_step1 alnum LHeader (B"H<->E"%string ++ x20 :: r) off /\
  lex_step1 alnum LHeader (B"H<->E"%string ++ x20 :: r) off = LEmit (mk TDirection (B"H<->E"%string) off) LHeader (x20 :: r) (off + 5).
Proof. split; [|reflexivity]. apply dir_case; reflexivity. Qed.

Example sf_case_example alnum r off :
  lex_step1 alnum LHeader (B"s12f3"%string ++ x20 :: r) off = lex_step1 alnum LHeader (B"S12F3"%string ++ x20 :: r) off /\
  lex_step1 alnum LHeader (B"S12F3"%string ++ x20 :: r) off = LEmit (mk TStreamFunction (B"S12F3"%string) off) LHeader (x20 :: r) (off + 5).
Proof.
  split; [|reflexivity]. apply sf_case; reflexivity.
Qed.
