(* MsgProofs.v — message level: the HSMS frame (C02), the decoder accepts
   exactly the well-formed frames (C03) and inverts the encoder (C01). *)
From Secs Require Import Ast Fill Msg WireSpec WireLemmas WireValues HeaderProofs WireEnc WireDec.
Open Scope Z_scope.

Definition dir_any : bytes := B"H<->E"%string.

(* E37 section 8.2: 4 length bytes, 10 header bytes, text *)
Definition frame_wf (bs : bytes) (hm : hmsg) : Prop :=
  exists lenb hdr text,
    bs = lenb ++ hdr ++ text /\ length lenb = 4%nat /\ length hdr = 10%nat /\
    be_dec lenb = 10 + Z.of_nat (length text) /\
    bnth hdr 4 = x00 /\                                         (* PType 0: SECS-II *)
    match hm with
    | HCtl h => text = [] /\ h = hdr /\ stype_defined (b2z (bnth hdr 5)) = true
    | HData m =>
      bnth hdr 5 = x00 /\
      m_name m = [] /\ m_dir m = dir_any /\
      m_sid m = be_dec (firstn 2 hdr) /\
      m_wbit m = b2z (bnth hdr 2) / 128 /\ m_stream m = b2z (bnth hdr 2) mod 128 /\
      m_function m = b2z (bnth hdr 3) /\ m_sys m = skipn 6 hdr /\
      ~ (m_wbit m = 1 /\ m_function m mod 2 = 0) /\
      ((text = [] /\ m_item m = IEmpty) \/ wire false (m_item m) text)
    end.

Definition decoded_form (m : msg) : msg :=
  {| m_name := []; m_stream := m_stream m; m_function := m_function m; m_wbit := m_wbit m;
     m_dir := dir_any; m_item := m_item m; m_sid := m_sid m; m_sys := m_sys m |}.

Definition encodable_item (t : item) : Prop := t = IEmpty \/ value_item t.

Lemma msg_ok_fields m : msg_ok m = true ->
  0 <= m_stream m < 128 /\ 0 <= m_function m < 256 /\ 0 <= m_wbit m <= 2 /\ -1 <= m_sid m < 65536 /\
  length (m_sys m) = 4%nat /\ ~ (m_wbit m = 1 /\ m_function m mod 2 = 0) /\ has_space_rune (m_name m) = false /\
  dir_ok (m_dir m) = true.
Proof.
  unfold msg_ok. rewrite !andb_true_iff, !negb_true_iff, andb_false_iff. intros H.
  repeat match goal with H : _ /\ _ |- _ => destruct H end.
  repeat match goal with
         | H : (_ <=? _) = true |- _ => apply Z.leb_le in H
         | H : (_ <? _) = true |- _ => apply Z.ltb_lt in H
         | H : (_ =? _)%nat = true |- _ => apply Nat.eqb_eq in H
         end.
  repeat split; try assumption; try lia.
Qed.

Lemma to_bytes_encodable t : encodable_item t ->
  (t = IEmpty /\ to_bytes t = []) \/ (wire false t (to_bytes t)).
Proof.
  intros [->|H]; [left; split; reflexivity|right]. apply wire_strict_lenient, to_bytes_conforms, H.
Qed.

Lemma vars_encodable t : encodable_item t -> vars t = [].
Proof. intros [->|H]; [reflexivity|apply vars_value_item, H]. Qed.

(* C02, message frame *)
Theorem msg_to_bytes_frame m :
  msg_complete m = true ->
  msg_to_bytes m =
    be_enc 4 (10 + Z.of_nat (length (to_bytes (m_item m)))) ++
    be_enc 2 (m_sid m) ++ [z2b (m_stream m + (if m_wbit m =? 1 then 128 else 0)); z2b (m_function m); x00; x00] ++
    firstn 4 (m_sys m) ++ to_bytes (m_item m).
Proof. intro H. unfold msg_to_bytes. rewrite H. cbn [negb]. rewrite Z.add_comm. reflexivity. Qed.

Theorem msg_to_bytes_incomplete m : msg_complete m = false -> msg_to_bytes m = [].
Proof. intro H. unfold msg_to_bytes. rewrite H. reflexivity. Qed.

Lemma zlength0 {A} (l : list A) : zlength l 0 = Z.of_nat (length l).
Proof. rewrite zlength_spec. lia. Qed.

Lemma ztake_app_len {A} (a b : list A) n : Z.of_nat (length a) = n -> ztake (a ++ b) n = Some (a, b).
Proof. intros <-. apply ztake_app. Qed.

Lemma has_space_nil : has_space_rune [] = false.
Proof. reflexivity. Qed.

(* C03, completeness: every well-formed frame is accepted, with that result *)
Theorem hsms_parse_complete bs hm : frame_wf bs hm -> hsms_parse bs = Some hm.
Proof.
  intros (lenb & hdr & text & -> & Hl4 & Hl10 & Hlen & Hp & Hm).
  unfold hsms_parse. rewrite zlength0, !app_length, Hl4, Hl10.
  destruct (Z.ltb_spec (Z.of_nat (4 + (10 + length text))) 14); [lia|].
  rewrite (ztake_app_len lenb (hdr ++ text) 4) by lia. rewrite Hlen.
  destruct (Z.eqb_spec (Z.of_nat (4 + (10 + length text)) - 4) (10 + Z.of_nat (length text))); [|lia].
  cbn [negb]. rewrite (ztake_app_len hdr text 10) by lia.
  rewrite Hp. change (byte_eqb x00 x00) with true. cbn [negb].
  destruct hm as [m|h].
  - destruct Hm as (H5 & Hname & Hdir & Hsid & Hw & Hs & Hfn & Hsys & Hwf & Hitem).
    rewrite H5. change (b2z x00 =? 0) with true. cbn iota.
    pose proof (b2z_range (bnth hdr 2)) as R2. pose proof (b2z_range (bnth hdr 3)) as R3.
    assert (Hit : (if 10 + Z.of_nat (length text) =? 10 then Some IEmpty
                   else match dec_item (S (length text)) text (10 + Z.of_nat (length text) - 10) with
                        | Some (t, [], _) => Some t | _ => None end) = Some (m_item m)).
    { destruct Hitem as [[-> Hi]|Hwire].
      - cbn. rewrite Hi. reflexivity.
      - pose proof (wire_length_pos _ _ _ Hwire).
        destruct (Z.eqb_spec (10 + Z.of_nat (length text)) 10); [lia|].
        replace (10 + Z.of_nat (length text) - 10) with (Z.of_nat (length (text ++ []))) by (rewrite app_nil_r; lia).
        rewrite <- (app_nil_r text) at 2.
        rewrite (dec_item_complete _ _ Hwire (S (length text)) []); [reflexivity|].
        pose proof (need_le_length _ _ Hwire). lia. }
    rewrite Hit.
    assert (Hvars : vars (m_item m) = []).
    { destruct Hitem as [[_ ->]|Hwire]; [reflexivity|]. apply vars_value_item. eapply wire_value_item; exact Hwire. }
    unfold new_hsms_data_message. rewrite <- Hw, <- Hs, <- Hfn, <- Hsid, <- Hsys.
    assert (Hw01 : m_wbit m = 0 \/ m_wbit m = 1) by lia.
    assert (Hsidr : 0 <= m_sid m < 65536).
    { rewrite Hsid. pose proof (be_dec_range (firstn 2 hdr)) as R. rewrite firstn_length, Hl10 in R. change (256 ^ Z.of_nat (Nat.min 2 10)) with 65536 in R. lia. }
    assert (Hsysl : length (m_sys m) = 4%nat) by (rewrite Hsys, skipn_length, Hl10; reflexivity).
    destruct Hw01 as [E|E]; rewrite E; cbn [Z.eqb orb negb];
      (destruct (Z.eqb_spec (m_sid m) (-1)); [lia|]); rewrite Hvars; cbn [is_nil negb];
      unfold check, msg_ok; cbn [m_name m_stream m_function m_wbit m_dir m_item m_sid m_sys];
      rewrite has_space_nil; cbn [negb andb].
    + assert (P : pad4 4 (m_sys m) = m_sys m).
      { destruct (m_sys m) as [|a [|b [|c [|d [|? ?]]]]]; cbn in Hsysl; try lia. reflexivity. }
      rewrite P, Hsysl. cbn [Nat.eqb].
      destruct (Z.leb_spec 0 (m_stream m)); [|lia]. destruct (Z.ltb_spec (m_stream m) 128); [|lia].
      destruct (Z.leb_spec 0 (m_function m)); [|lia]. destruct (Z.ltb_spec (m_function m) 256); [|lia].
      destruct (Z.leb_spec (-1) (m_sid m)); [|lia]. destruct (Z.ltb_spec (m_sid m) 65536); [|lia].
      cbn [andb dir_ok bytes_eqb]. change (dir_ok dir_any) with true. cbn iota. f_equal. f_equal. clear -Hname Hdir E. destruct m as [n0 s0 f0 w0 d0 i0 sid0 sys0]; cbn [m_name m_stream m_function m_wbit m_dir m_item m_sid m_sys] in *; subst; reflexivity.
    + assert (P : pad4 4 (m_sys m) = m_sys m).
      { destruct (m_sys m) as [|a [|b [|c [|d [|? ?]]]]]; cbn in Hsysl; try lia. reflexivity. }
      rewrite P, Hsysl. cbn [Nat.eqb].
      destruct (Z.leb_spec 0 (m_stream m)); [|lia]. destruct (Z.ltb_spec (m_stream m) 128); [|lia].
      destruct (Z.leb_spec 0 (m_function m)); [|lia]. destruct (Z.ltb_spec (m_function m) 256); [|lia].
      destruct (Z.leb_spec (-1) (m_sid m)); [|lia]. destruct (Z.ltb_spec (m_sid m) 65536); [|lia].
      destruct (Z.eqb_spec (m_function m mod 2) 0); [exfalso; apply Hwf; split; assumption|].
      cbn [andb dir_ok bytes_eqb]. change (dir_ok dir_any) with true. cbn iota. f_equal. f_equal. clear -Hname Hdir E. destruct m as [n0 s0 f0 w0 d0 i0 sid0 sys0]; cbn [m_name m_stream m_function m_wbit m_dir m_item m_sid m_sys] in *; subst; reflexivity.
  - destruct Hm as (-> & -> & Hst).
    destruct (Z.eqb_spec (b2z (bnth hdr 5)) 0) as [E|_].
    { rewrite E in Hst. discriminate. }
    rewrite Hst. cbn [length]. rewrite Z.add_0_r. cbn [Z.eqb Pos.eqb].
    unfold new_control. rewrite Hl10. cbn [Nat.ltb Nat.leb].
    assert (P : pad4 10 hdr = hdr).
    { destruct hdr as [|a0 [|a1 [|a2 [|a3 [|a4 [|a5 [|a6 [|a7 [|a8 [|a9 [|? ?]]]]]]]]]]]; cbn in Hl10; try lia. reflexivity. }
    rewrite P. reflexivity.
Qed.

Lemma new_hsms_inv name s f w d it sid sys m :
  new_hsms_data_message name s f w d it sid sys = Some m ->
  m = {| m_name := name; m_stream := s; m_function := f; m_wbit := w; m_dir := d; m_item := it;
         m_sid := sid; m_sys := pad4 4 sys |} /\ msg_ok m = true /\ (w = 0 \/ w = 1) /\ sid <> -1 /\ vars it = [].
Proof.
  unfold new_hsms_data_message.
  destruct (Z.eqb_spec w 0); destruct (Z.eqb_spec w 1); cbn [orb negb]; try discriminate;
    (destruct (Z.eqb_spec sid (-1)); [discriminate|]);
    (destruct (vars it) eqn:Ev; cbn [is_nil negb]; [|discriminate]);
    unfold check; match goal with |- (if msg_ok ?x then _ else _) = _ -> _ => destruct (msg_ok x) eqn:Eok end; try discriminate;
    intro H; inversion H; subst m; repeat split; auto.
Qed.

Lemma pad4_4 a b c d : pad4 4 [a; b; c; d] = [a; b; c; d].
Proof. reflexivity. Qed.

(* C03, soundness: whatever is accepted is a well-formed frame denoting the result *)
Theorem hsms_parse_sound bs hm : hsms_parse bs = Some hm -> frame_wf bs hm.
Proof.
  unfold hsms_parse. rewrite zlength0.
  destruct (Z.ltb_spec (Z.of_nat (length bs)) 14) as [|Hn]; [discriminate|].
  destruct (ztake bs 4) as [[lenb r1]|] eqn:E4; [|discriminate].
  apply ztake_spec in E4 as [-> Hl4]; [|lia].
  destruct (Z.eqb_spec (Z.of_nat (length (lenb ++ r1)) - 4) (be_dec lenb)) as [Hlen|]; [|discriminate]. cbn [negb].
  destruct (ztake r1 10) as [[hdr text]|] eqn:E10; [|discriminate].
  apply ztake_spec in E10 as [-> Hl10]; [|lia].
  destruct (byte_eqb (bnth hdr 4) x00) eqn:Ep; [|discriminate]. cbn [negb].
  apply byte_eqb_spec in Ep. rewrite !app_length in Hlen.
  assert (Hmlen : be_dec lenb = 10 + Z.of_nat (length text)) by lia.
  assert (H4 : length lenb = 4%nat) by lia. assert (H10 : length hdr = 10%nat) by lia.
  destruct (Z.eqb_spec (b2z (bnth hdr 5)) 0) as [Hst|Hst].
  - (* data *)
    destruct (if be_dec lenb =? 10 then Some IEmpty else _) as [t|] eqn:Eit; [|discriminate].
    destruct (new_hsms_data_message _ _ _ _ _ t _ _) as [m|] eqn:En; [|discriminate].
    intro H; inversion H; subst hm. clear H.
    apply new_hsms_inv in En as (-> & Hok & Hw & Hsid & Hv).
    exists lenb, hdr, text. split; [reflexivity|]. split; [exact H4|]. split; [exact H10|]. split; [exact Hmlen|].
    split; [exact Ep|]. cbn [m_name m_stream m_function m_wbit m_dir m_item m_sid m_sys].
    assert (Hsys : pad4 4 (skipn 6 hdr) = skipn 6 hdr).
    { destruct hdr as [|a0 [|a1 [|a2 [|a3 [|a4 [|a5 [|a6 [|a7 [|a8 [|a9 [|? ?]]]]]]]]]]]; cbn in H10; try lia. reflexivity. }
    split; [apply b2z_inj; rewrite Hst; reflexivity|]. split; [reflexivity|]. split; [reflexivity|].
    split; [reflexivity|]. split; [reflexivity|]. split; [reflexivity|]. split; [reflexivity|]. split; [exact Hsys|].
    apply msg_ok_fields in Hok. cbn [m_name m_stream m_function m_wbit m_dir m_item m_sid m_sys] in Hok.
    split; [tauto|].
    destruct (Z.eqb_spec (be_dec lenb) 10) as [E|E].
    + inversion Eit; subst t. left. split; [|reflexivity]. destruct text; [reflexivity|cbn [length] in Hmlen; lia].
    + right. destruct (dec_item (S (length text)) text (be_dec lenb - 10)) as [[[t' r] rem']|] eqn:Ed; [|discriminate].
      destruct r; [|discriminate]. inversion Eit; subst t'.
      replace (be_dec lenb - 10) with (Z.of_nat (length text)) in Ed by lia.
      apply dec_item_sound in Ed as (enc & -> & Hw'). rewrite app_nil_r. exact Hw'.
  - (* control *)
    destruct (stype_defined (b2z (bnth hdr 5))) eqn:Esd; [|discriminate].
    destruct (Z.eqb_spec (be_dec lenb) 10) as [E|E]; [|discriminate].
    unfold new_control. rewrite H10. cbn [Nat.ltb Nat.leb].
    assert (P : pad4 10 hdr = hdr).
    { destruct hdr as [|a0 [|a1 [|a2 [|a3 [|a4 [|a5 [|a6 [|a7 [|a8 [|a9 [|? ?]]]]]]]]]]]; cbn in H10; try lia. reflexivity. }
    rewrite P. intro H; inversion H; subst hm.
    exists lenb, hdr, text. split; [reflexivity|]. split; [exact H4|]. split; [exact H10|]. split; [exact Hmlen|].
    split; [exact Ep|]. split; [destruct text; [reflexivity|cbn [length] in Hmlen; lia]|]. split; [reflexivity|exact Esd].
Qed.

(* a byte string is the frame of at most one message *)
Theorem frame_unique bs a b : frame_wf bs a -> frame_wf bs b -> a = b.
Proof.
  intros Ha Hb. apply hsms_parse_complete in Ha. apply hsms_parse_complete in Hb. congruence.
Qed.

(* C01: the encoding of a complete message is a well-formed frame of that message *)
Theorem msg_frame m :
  msg_ok m = true -> msg_complete m = true -> encodable_item (m_item m) ->
  Z.of_nat (length (to_bytes (m_item m))) + 10 < 2 ^ 32 ->
  frame_wf (msg_to_bytes m) (HData (decoded_form m)).
Proof.
  intros Hok Hc Hit Hsize. rewrite msg_to_bytes_frame by exact Hc.
  apply msg_ok_fields in Hok as (Hs & Hf & Hw & Hsid & Hsys & Hwf & _ & _).
  unfold msg_complete in Hc. rewrite !andb_true_iff, !negb_true_iff in Hc. destruct Hc as [[Hc1 _] Hc3].
  apply Z.eqb_neq in Hc1. apply Z.eqb_neq in Hc3.
  destruct (m_sys m) as [|a [|b [|c [|d [|? ?]]]]] eqn:Esys; cbn in Hsys; try lia.
  set (ib := to_bytes (m_item m)) in *.
  set (b2 := z2b (m_stream m + (if m_wbit m =? 1 then 128 else 0))).
  exists (be_enc 4 (10 + Z.of_nat (length ib))), (be_enc 2 (m_sid m) ++ [b2; z2b (m_function m); x00; x00] ++ [a; b; c; d]), ib.
  split; [cbn [firstn]; rewrite <- !app_assoc; reflexivity|].
  split; [apply be_enc_length|]. split; [rewrite app_length, be_enc_length; reflexivity|].
  split; [apply be_enc_small; change (256 ^ Z.of_nat 4) with (2 ^ 32); lia|].
  rewrite be_enc_2. cbn [app].
  split; [reflexivity|]. cbn [decoded_form m_name m_stream m_function m_wbit m_dir m_item m_sid m_sys bnth nth].
  split; [reflexivity|]. split; [reflexivity|]. split; [reflexivity|].
  assert (Hb2 : b2z b2 = m_stream m + (if m_wbit m =? 1 then 128 else 0)).
  { unfold b2. rewrite b2z_z2b. apply Z.mod_small. destruct (m_wbit m =? 1); lia. }
  split.
  { cbn [firstn]. change [z2b (m_sid m / 256); z2b (m_sid m)] with (be_enc 2 (m_sid m)). symmetry. apply be_enc_small.
    change (256 ^ Z.of_nat 2) with 65536. lia. }
  split; [rewrite Hb2; destruct (Z.eqb_spec (m_wbit m) 1); lia|].
  split; [rewrite Hb2; destruct (Z.eqb_spec (m_wbit m) 1); lia|].
  split; [rewrite b2z_z2b; symmetry; apply Z.mod_small; lia|].
  split; [rewrite Esys; reflexivity|]. split; [exact Hwf|].
  destruct (to_bytes_encodable _ Hit) as [[E1 E2]|Hwire]; [left; fold ib in E2; split; assumption|right; exact Hwire].
Qed.

Theorem roundtrip m :
  msg_ok m = true -> msg_complete m = true -> encodable_item (m_item m) ->
  Z.of_nat (length (to_bytes (m_item m))) + 10 < 2 ^ 32 ->
  hsms_parse (msg_to_bytes m) = Some (HData (decoded_form m)).
Proof. intros. apply hsms_parse_complete, msg_frame; assumption. Qed.

Lemma decoded_form_bytes m : msg_to_bytes (decoded_form m) = msg_to_bytes m.
Proof. reflexivity. Qed.

Theorem reencode m :
  msg_ok m = true -> msg_complete m = true -> encodable_item (m_item m) ->
  Z.of_nat (length (to_bytes (m_item m))) + 10 < 2 ^ 32 ->
  exists m', hsms_parse (msg_to_bytes m) = Some (HData m') /\ msg_to_bytes m' = msg_to_bytes m /\
             m_item m' = m_item m /\ m_stream m' = m_stream m /\ m_function m' = m_function m /\
             m_wbit m' = m_wbit m /\ m_sid m' = m_sid m /\ m_sys m' = m_sys m.
Proof.
  intros. exists (decoded_form m). split; [apply roundtrip; assumption|]. repeat split; reflexivity.
Qed.

Lemma hsms_parse_msg_ok bs m : hsms_parse bs = Some (HData m) -> msg_ok m = true /\ msg_complete m = true.
Proof.
  unfold hsms_parse.
  destruct (_ <? 14); [discriminate|].
  destruct (ztake bs 4) as [[lenb r1]|]; [|discriminate].
  destruct (negb _); [discriminate|].
  destruct (ztake r1 10) as [[hdr text]|]; [|discriminate].
  destruct (negb _); [discriminate|].
  destruct (b2z (bnth hdr 5) =? 0).
  - destruct (if be_dec lenb =? 10 then Some IEmpty else _) as [t|]; [|discriminate].
    destruct (new_hsms_data_message _ _ _ _ _ t _ _) as [m'|] eqn:En; [|discriminate].
    intro Hx; inversion Hx; subst m'. apply new_hsms_inv in En as (Em & Hok & Hw & Hsid & Hv).
    split; [exact Hok|]. unfold msg_complete. rewrite Em. cbn [m_wbit m_item m_sid]. rewrite Hv. cbn [is_nil].
    destruct (Z.eqb_spec (be_dec (firstn 2 hdr)) (-1)); [lia|].
    destruct Hw as [->| ->]; reflexivity.
  - destruct (stype_defined _); [|discriminate]. destruct (_ =? 10); [|discriminate].
    destruct (new_control _); discriminate.
Qed.

(* decoding then encoding: the result is the strict encoding of what the input
   denotes leniently (C03, last sentence) *)
Theorem decoded_reencodes bs m :
  hsms_parse bs = Some (HData m) ->
  msg_complete m = true /\ msg_ok m = true /\
  ((m_item m = IEmpty /\ length bs = 14%nat) \/
   exists text, skipn 14 bs = text /\ wire false (m_item m) text /\ wire true (m_item m) (to_bytes (m_item m))).
Proof.
  intro H. pose proof (hsms_parse_msg_ok _ _ H) as [Hok Hc].
  pose proof (hsms_parse_sound _ _ H) as (lenb & hdr & text & -> & H4 & H10 & Hlen & Hp & Hm).
  destruct Hm as (H5 & Hname & Hdir & Hsid & Hw & Hs & Hfn & Hsys & Hwf & Hitem).
  split; [exact Hc|]. split; [exact Hok|].
  destruct Hitem as [[-> Hi]|Hwire].
  - left. split; [exact Hi|]. rewrite !app_length, H4, H10. reflexivity.
  - right. exists text. split.
    + rewrite app_assoc. rewrite skipn_app. rewrite skipn_all2 by (rewrite app_length; lia).
      rewrite app_length, H4, H10. reflexivity.
    + split; [exact Hwire|]. apply to_bytes_conforms. eapply wire_value_item; exact Hwire.
Qed.
