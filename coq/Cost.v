(* Cost.v — allocation units of the HSMS decoder (C07).  [cost_item] follows
   the control flow of dec_item and charges, at the point where the Go code
   allocates: one unit per element of every slice made with a computed size
   (the []interface{} of a value item, the node's value slice, the boxed
   values), per byte of the string built for an ASCII item, and per element
   appended to / copied out of a list's slice.  Allocation sized from a
   declared length happens only after that length has been checked against the
   bytes that remain, so the total is linear in the input. *)
From Secs Require Import Ast Fill Msg WireSpec WireLemmas WireValues HeaderProofs WireEnc WireDec.
Open Scope Z_scope.

Fixpoint cost_item (fuel : nat) (bs : bytes) (rem : Z) : Z :=
  match fuel with
  | O => 0
  | S f =>
    match bs with
    | [] => 0
    | fb :: r1 =>
      let code := b2z fb / 4 in
      let k := b2z fb mod 4 in
      if k =? 0 then 0 else
      match ztake r1 k with
      | None => 0
      | Some (lb, r2) =>
        let len := be_dec lb in
        let rem2 := rem - 1 - k in
        if rem2 <? len then 0 else
        if code =? 0 then cost_items f len r2 rem2
        else match ztake r2 len with
             | None => 0
             | Some _ => 3 * len            (* boxed values, argument slice, node slice / string bytes *)
             end
      end
    end
  end
with cost_items (fuel : nat) (n : Z) (bs : bytes) (rem : Z) : Z :=
  match fuel with
  | O => 0
  | S f =>
    if n <=? 0 then 0 else
    match dec_item f bs rem with
    | Some (_, r, rem') => cost_item f bs rem + 4 + cost_items f (n - 1) r rem'   (* append (amortised 2) + node slice + checkRep *)
    | None => cost_item f bs rem
    end
  end.

Definition cost_msg (input : bytes) : Z :=
  match ztake input 14 with
  | Some (_, text) => 16 + cost_item (S (length text)) text (Z.of_nat (length text))
  | None => 0
  end.

Lemma len_app_rest (enc rest : bytes) : Z.of_nat (length (enc ++ rest)) - Z.of_nat (length rest) = Z.of_nat (length enc).
Proof. rewrite app_length. lia. Qed.

Theorem cost_bound fuel :
  (forall bs rem, rem = Z.of_nat (length bs) ->
     0 <= cost_item fuel bs rem <= 5 * Z.of_nat (length bs) /\
     forall t rest rem', dec_item fuel bs rem = Some (t, rest, rem') ->
                         cost_item fuel bs rem <= 5 * (Z.of_nat (length bs) - Z.of_nat (length rest)) - 4) /\
  (forall n bs rem, rem = Z.of_nat (length bs) -> 0 <= n ->
     0 <= cost_items fuel n bs rem <= 5 * Z.of_nat (length bs) /\
     forall ts rest rem', dec_items fuel n bs rem = Some (ts, rest, rem') ->
                          cost_items fuel n bs rem <= 5 * (Z.of_nat (length bs) - Z.of_nat (length rest))).
Proof.
  induction fuel as [|f [IHi IHs]]; [split; intros; cbn [cost_item cost_items dec_item dec_items]; (split; [lia|intros; discriminate])|]. split.
  - intros bs rem Hrem. cbn [cost_item dec_item].
    destruct bs as [|fb r1]; [split; [cbn; lia|intros; discriminate]|].
    pose proof (b2z_range fb) as Hfb.
    destruct (Z.eqb_spec (b2z fb mod 4) 0) as [|Hk0]; [split; [cbn [length]; lia|intros; discriminate]|].
    destruct (ztake r1 (b2z fb mod 4)) as [[lb r2]|] eqn:Et; [|split; [cbn [length]; lia|intros; discriminate]].
    apply ztake_spec in Et as [-> Hlb]; [|lia].
    pose proof (be_dec_range lb) as Hlen. set (len := be_dec lb) in *.
    rewrite zlen_cons, zlen_app in Hrem.
    destruct (Z.ltb_spec (rem - 1 - b2z fb mod 4) len) as [|Hfit]; [split; [cbn [length]; lia|intros; discriminate]|].
    assert (Hrem2 : rem - 1 - b2z fb mod 4 = Z.of_nat (length r2)) by lia.
    rewrite zlen_cons, zlen_app.
    destruct (Z.eqb_spec (b2z fb / 4) 0) as [Hc0|Hc0].
    + destruct (IHs len r2 _ Hrem2 (proj1 Hlen)) as [Hb Hs]. split; [lia|].
      intros t rest rem' H.
      destruct (dec_items f len r2 _) as [[[xs r3] rem3]|] eqn:Ed; [|discriminate].
      destruct (new_list (map GItem xs)); [|discriminate]. inversion H; subst.
      specialize (Hs _ _ _ eq_refl).
      destruct (proj2 (dec_sound f) _ _ _ _ _ _ Ed Hrem2 (proj1 Hlen)) as (encs & E & _).
      rewrite E in *. rewrite app_length in *. lia.
    + destruct (ztake r2 len) as [[payload r3]|] eqn:Ep; [|split; [lia|intros; discriminate]].
      apply ztake_spec in Ep as [-> Hpl]; [|lia]. rewrite zlen_app in *.
      split; [lia|]. intros t rest rem' H.
      destruct (dec_leaf _ payload len); [|discriminate]. inversion H; subst. lia.
  - intros n bs rem Hrem Hn. cbn [cost_items dec_items].
    destruct (Z.leb_spec n 0); [split; [lia|intros ts rest rem' Hx; inversion Hx; subst; lia]|].
    destruct (IHi bs rem Hrem) as [Hb Hs].
    destruct (dec_item f bs rem) as [[[t r] rem1]|] eqn:E1; [|split; [lia|intros; discriminate]].
    specialize (Hs _ _ _ eq_refl).
    destruct (proj1 (dec_sound f) _ _ _ _ _ E1 Hrem) as (enc & -> & Hw & Hr1).
    rewrite app_length in *.
    destruct (IHs (n - 1) r rem1 Hr1) as [Hb2 Hs2]; [lia|].
    split; [lia|]. intros ts rest rem' Hx.
    destruct (dec_items f (n - 1) r rem1) as [[[ts' r'] rem2]|] eqn:E2; [|discriminate].
    inversion Hx; subst. specialize (Hs2 _ _ _ eq_refl). lia.
Qed.

(* C07: the allocation units of decoding any byte string are bounded by a fixed
   linear function of its length, whatever lengths it declares *)
Theorem cost_msg_linear input : 0 <= cost_msg input <= 5 * Z.of_nat (length input) + 16.
Proof.
  unfold cost_msg. destruct (ztake input 14) as [[h text]|] eqn:E; [|lia].
  apply ztake_spec in E as [-> Hl]; [|lia].
  destruct (proj1 (cost_bound (S (length text))) text _ eq_refl) as [H _].
  rewrite app_length. lia.
Qed.

(* the recursion depth is bounded by half the input length: every nesting level consumes two bytes *)
Fixpoint item_depth (t : item) : nat :=
  match t with
  | IList xs => S (fold_right (fun c m => Nat.max (item_depth c) m) O xs)
  | _ => O
  end.

Lemma depth_le_length t : forall bs, wire false t bs -> (2 * item_depth t <= length bs)%nat.
Proof.
  induction t as [xs IH| | k w slots | s | | ] using item_ind'; intros bs H; try (cbn in H; tauto).
  - apply wire_list in H as (fb & lb & encs & -> & _ & (Hk & _) & Hc).
    cbn [item_depth length]. rewrite app_length.
    assert (2 * fold_right (fun c m => Nat.max (item_depth c) m) O xs <= length (concat encs))%nat; [|lia].
    clear -IH Hc. revert encs Hc. induction IH as [|x xs Hx _ IH2]; intros [|e es] Hc; cbn in Hc; try tauto; [cbn; lia|].
    destruct Hc as [Hc1 Hc2]. cbn [fold_right concat]. rewrite app_length.
    specialize (Hx e Hc1). specialize (IH2 es Hc2). lia.
  - cbn [wire] in H. destruct H as (fb & lb & vs & ch & -> & _ & _ & _ & (Hk & _) & _). cbn [item_depth length]. rewrite app_length. lia.
  - cbn [wire] in H. destruct H as (fb & lb & -> & _ & (Hk & _) & _). cbn [item_depth length]. rewrite app_length. lia.
Qed.
