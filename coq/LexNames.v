(* LexNames.v — what the lexer hands out as a variable name is a name the
   printer can print and the lexer reads back as the same variable (`sml_var`):
   the link from an arbitrary accepted text to the printable sub-grammar (C04,
   converse direction). *)
From Secs Require Import Ast Utf8 Lexer SmlNumbers SmlProofs LexProofs LayoutProofs LexPrinted CaseProofs.
Open Scope Z_scope.

(* ---------- a property of every token of a stream, from a property of every step ---------- *)

Definition step_all (P : token -> Prop) (x : lstep) : Prop :=
  match x with LEmit t _ _ _ => P t | LSkip _ _ _ => True | LStop l => Forall P l end.

Lemma lex_from_all alnum (P : token -> Prop) : (forall st s off, step_all P (lex_step1 alnum st s off)) ->
  forall f st s off, Forall P (lex_from alnum f st s off).
Proof.
  intros H. induction f as [|f IH]; intros st s off; [constructor|]. cbn [lex_from].
  pose proof (H st s off) as Hs. destruct (lex_step1 alnum st s off); cbn [step_all] in Hs.
  - constructor; [exact Hs|apply IH].
  - apply IH.
  - exact Hs.
Qed.

(* ---------- index groups ---------- *)

Lemma match_index_strip s m r : match_index s = Some (m, r) ->
  exists ds, m = x5b :: ds ++ [x5d] /\ ds <> [] /\ Forall (fun b => is_digit b = true) ds /\ s = m ++ r.
Proof.
  unfold match_index. destruct s as [|o s]; [discriminate|]. destruct (byte_eqb o x5b) eqn:Eo; [|discriminate].
  apply byte_eqb_spec in Eo. subst o.
  destruct (span is_digit s) as [d r1] eqn:E. pose proof (span_eq _ _ _ _ E) as Heq. pose proof (span_forall _ _ _ _ E) as Hd.
  destruct d as [|x d]; [discriminate|]. destruct r1 as [|c r2]; [discriminate|].
  destruct (byte_eqb c x5d) eqn:Ec; [|discriminate]. apply byte_eqb_spec in Ec. subst c.
  intro H; inversion H; subst. exists (x :: d). split; [reflexivity|]. split; [discriminate|]. split; [exact Hd|].
  cbn [app]. rewrite <- app_assoc. reflexivity.
Qed.

Lemma drop_while_stop p (ds rest : bytes) : Forall (fun c => p c = true) ds ->
  match rest with [] => True | x :: _ => p x = false end -> drop_while p (ds ++ rest) = rest.
Proof.
  intros Hd Hr. induction Hd as [|d ds Hp _ IH]; cbn [app drop_while].
  - destruct rest as [|x r]; [reflexivity|]. cbn [drop_while]. rewrite Hr. reflexivity.
  - rewrite Hp. exact IH.
Qed.

Lemma strip_group ds rest : ds <> [] -> Forall (fun b => is_digit b = true) ds ->
  strip_index ((x5b :: ds ++ [x5d]) ++ rest) = Some rest.
Proof.
  intros Hne Hd. assert (E : (x5b :: ds ++ [x5d]) ++ rest = x5b :: ds ++ x5d :: rest) by (cbn [app]; rewrite <- app_assoc; reflexivity).
  rewrite E. destruct ds as [|d ds]; [congruence|]. inversion Hd as [|? ? Hd1 _]; subst.
  cbn [app strip_index]. change (byte_eqb x5b x5b) with true. cbv iota. rewrite Hd1.
  change (d :: ds ++ x5d :: rest) with ((d :: ds) ++ x5d :: rest).
  rewrite (drop_while_stop is_digit (d :: ds) (x5d :: rest) Hd ltac:(reflexivity)).
  change (byte_eqb x5d x5d) with true. reflexivity.
Qed.

Lemma match_indices_all : forall f s ix r', match_indices f s = (ix, r') ->
  forall n, (length ix <= n)%nat -> all_indices n ix = true.
Proof.
  induction f as [|f IH]; intros s ix r' H n Hn; cbn [match_indices] in H.
  - inversion H; subst. destruct n; reflexivity.
  - destruct (match_index s) as [[m r]|] eqn:E.
    + destruct (match_indices f r) as [m' r''] eqn:E2. inversion H; subst ix r'. clear H.
      destruct (match_index_strip _ _ _ E) as (ds & -> & Hne & Hd & _).
      rewrite app_length in Hn. cbn [length] in Hn. destruct n as [|n]; [lia|].
      cbn [all_indices app]. change (x5b :: (ds ++ [x5d]) ++ m') with ((x5b :: ds ++ [x5d]) ++ m').
      rewrite (strip_group ds m' Hne Hd). apply (IH _ _ _ E2). lia.
    + inversion H; subst. destruct n; reflexivity.
Qed.

Lemma match_indices_head : forall f s ix r', match_indices f s = (ix, r') -> match ix with [] => True | x :: _ => is_word x = false end.
Proof.
  destruct f as [|f]; intros s ix r' H; cbn [match_indices] in H; [inversion H; exact I|].
  destruct (match_index s) as [[m r]|] eqn:E; [|inversion H; exact I].
  destruct (match_indices f r) as [m' r'']. inversion H; subst.
  destruct (match_index_strip _ _ _ E) as (ds & -> & _). reflexivity.
Qed.

(* ---------- a variable token ---------- *)

Theorem var_token_sml_var s m r f ix r' :
  match_ident s = Some (m, r) -> mem_bytes (to_upper m) item_types = false ->
  (bytes_eqb (to_upper m) [x54] || bytes_eqb (to_upper m) [x46]) = false ->
  match_indices f r = (ix, r') -> sml_var (m ++ ix) /\ is_ellipsis (m ++ ix) = false.
Proof.
  intros Hm Ht Hb Hi. unfold match_ident in Hm. destruct s as [|c s0]; [discriminate|].
  destruct (is_alpha_ c) eqn:Ea; [|discriminate]. destruct (span is_word s0) as [w r0] eqn:Es. inversion Hm; subst m r0. clear Hm.
  pose proof (span_forall _ _ _ _ Es) as Hw. pose proof (match_indices_head _ _ _ _ Hi) as Hh.
  assert (Ei : ident_part ((c :: w) ++ ix) = c :: w).
  { cbn [app ident_part]. rewrite (span_exact is_word w ix Hw Hh). reflexivity. }
  split; [|cbn [app]; apply alpha_not_ellipsis; exact Ea].
  unfold sml_var. rewrite Ei. split; [|split; assumption].
  cbn [app is_valid_var_name]. rewrite Ea. cbn [andb].
  rewrite (drop_while_stop is_word w ix Hw Hh). apply (match_indices_all _ _ _ _ Hi). rewrite app_length. lia.
Qed.

(* every variable token of every stream carries such a name *)
Definition var_tok_ok (t : token) : Prop := t_typ t = TVariable -> sml_var (t_val t) /\ is_ellipsis (t_val t) = false.

Lemma step_var_ok alnum st s off : step_all var_tok_ok (lex_step1 alnum st s off).
Proof.
  unfold lex_step1, var_tok_ok.
  repeat match goal with
         | |- step_all _ (let '(_, _) := ?x in _) => destruct x eqn:?
         | |- step_all _ (if ?c then _ else _) => destruct c eqn:?
         | |- step_all _ (match ?x with _ => _ end) => destruct x eqn:?
         end; cbn [step_all t_typ t_val mk mkerr];
  try exact I; try (intro Hx; discriminate Hx);
  repeat (apply Forall_cons; [intro Hx; discriminate Hx|]); try apply Forall_nil.
  all: intros _; eapply var_token_sml_var; eassumption.
Qed.

Theorem lex_all_var_tokens alnum input : Forall var_tok_ok (lex_all alnum input).
Proof. apply lex_from_all. apply step_var_ok. Qed.
