(* TablesTie.v — the literal tables of the hand-written model equal the tables
   regenerated from /repo's source (gen/Tables.v).  A changed constant, width
   or format code in the Go code breaks one of these obligations. *)
From Secs Require Import Ast Msg.
From Secs.gen Require Import Tables.
Open Scope Z_scope.

Lemma tie_no_problems : gen_tables_problems = 0%nat.
Proof. reflexivity. Qed.

Lemma tie_max_byte_size : gen_MAX_BYTE_SIZE = MAX_BYTE_SIZE.
Proof. reflexivity. Qed.

Lemma tie_byte_per_value : gen_byte_per_value = byte_per_value.
Proof. reflexivity. Qed.

Lemma tie_format_code : gen_format_code = format_code.
Proof. reflexivity. Qed.

(* the decoder's own constants: the codes dec_leaf / hsms_parse switch on *)
Definition dec_format_codes_model : list (bytes * Z) :=
  [(B"formatCodeList", 0); (B"formatCodeBinary", 8); (B"formatCodeBoolean", 9); (B"formatCodeASCII", 16);
   (B"formatCodeI8", 24); (B"formatCodeI1", 25); (B"formatCodeI2", 26); (B"formatCodeI4", 28);
   (B"formatCodeF8", 32); (B"formatCodeF4", 36); (B"formatCodeU8", 40); (B"formatCodeU1", 41);
   (B"formatCodeU2", 42); (B"formatCodeU4", 44)]%string.

Lemma tie_dec_format_codes : gen_dec_format_codes = dec_format_codes_model.
Proof. reflexivity. Qed.

Definition dec_stypes_model : list (bytes * Z) :=
  [(B"sTypeDataMessage", 0); (B"sTypeSelectReq", 1); (B"sTypeSelectRsp", 2); (B"sTypeDeselectReq", 3);
   (B"sTypeDeselectRsp", 4); (B"sTypeLinktestReq", 5); (B"sTypeLinktestRsp", 6); (B"sTypeRejectReq", 7);
   (B"sTypeSeparateReq", 9)]%string.

Lemma tie_dec_stypes : gen_dec_stypes = dec_stypes_model.
Proof. reflexivity. Qed.

Lemma tie_ast_stypes : gen_ast_stypes = tl dec_stypes_model.
Proof. reflexivity. Qed.

(* encoder and decoder agree on every format code *)
Lemma tie_codes_agree :
  map snd gen_format_code = map snd gen_dec_format_codes.
Proof. reflexivity. Qed.
