(* TokenProofs.v — the parser gives back a value item from the tokens of its
   printed form (C04, token level, value items of the integer, unsigned,
   binary, boolean and float formats; the text of a float is an oracle on both
   sides — what is assumed of it is stated as a hypothesis, [slot_scans]). *)
From Secs Require Import Ast FloatProofs FloatRound Fill Msg WireSpec WireLemmas WireValues HeaderProofs WireEnc WireDec MsgProofs AstProofs FillProofs FillCompose.
From Secs Require Import Utf8 Lexer Parser SmlNumbers SmlProofs.
Open Scope Z_scope.

Definition nk_of (k : kind) (w : nat) : numkind :=
  match k with KInt => NKInt w | KUint => NKUint w | KBin => NKBin | KBool => NKBool | KFloat => NKFloat w end.

Lemma parse_int_zero bits : 0 < bits -> parse_int (fmt_int 0) bits = (0, NumOk).
Proof.
  intro H. change (fmt_int 0) with [x30]. unfold parse_int. cbn.
  assert (0 < 2 ^ (bits - 1)) by (apply Z.pow_pos_nonneg; lia).
  destruct (Z.leb_spec (2 ^ (bits - 1)) 0); [lia|reflexivity].
Qed.

Lemma parse_int_fmt v bits : 0 < bits -> - 2 ^ (bits - 1) <= v < 2 ^ (bits - 1) -> parse_int (fmt_int v) bits = (v, NumOk).
Proof.
  intros Hb Hr. destruct (Z.eq_dec v 0) as [->|Hne]; [apply parse_int_zero; exact Hb|].
  rewrite parse_int_decimal by assumption.
  destruct (Z.ltb_spec v (- 2 ^ (bits - 1))); [lia|]. destruct (Z.leb_spec (2 ^ (bits - 1)) v); [lia|reflexivity].
Qed.

Lemma parse_uint_fmt v bits : 0 < bits -> 0 <= v < 2 ^ bits -> parse_uint (fmt_int v) bits = (v, NumOk).
Proof.
  intros Hb Hr. unfold fmt_int. destruct (Z.ltb_spec v 0); [lia|].
  destruct (Z.eq_dec v 0) as [->|Hne]; [apply parse_uint_zero; exact Hb|].
  rewrite parse_uint_decimal by lia. destruct (Z.ltb_spec (2 ^ bits - 1) v); [lia|reflexivity].
Qed.

Lemma parse_int_binary v : 0 <= v < 256 -> parse_int (x30 :: x62 :: fmt_bin v) 64 = (v, NumOk).
Proof.
  intro Hr. unfold parse_int. change (byte_eqb x30 x2d) with false. change (byte_eqb x30 x2b) with false. cbn [orb negb andb].
  assert (E : parse_unsigned_base0 (x30 :: x62 :: fmt_bin v) = Some v).
  { apply (parse_unsigned_prefixed x62 2 v); [lia|]. right; left. split; [left; reflexivity|reflexivity]. }
  rewrite E. change (2 ^ (64 - 1)) with 9223372036854775808.
  destruct (Z.leb_spec 9223372036854775808 v); [lia|reflexivity].
Qed.

(* a widened float32 is within the float32 range *)
Lemma widened_in_range b : is_u32 b -> f32_finite b = true -> abs_le_maxf32 (f32_to_f64 b) = true.
Proof.
  intros Hu Hfin. destruct (f32_fields b Hu) as (s & e & f & Eb & Hs & He & Hf & Es & Ee & Ef).
  unfold f32_finite in Hfin. rewrite Ee in Hfin. apply negb_true_iff in Hfin. apply Z.eqb_neq in Hfin.
  unfold abs_le_maxf32, max_f32_as_f64, f32_to_f64. rewrite Es, Ee, Ef.
  destruct (Z.eqb_spec e 255); [lia|]. apply Z.leb_le.
  destruct (Z.eqb_spec e 0) as [E0|E0].
  - destruct (Z.eqb_spec f 0) as [F0|F0].
    + destruct Hs as [->| ->]; cbn; lia.
    + assert (Hfp : 0 < f) by lia.
      pose proof (Z.log2_spec f Hfp) as Hl. pose proof (Z.log2_nonneg f) as Hl0.
      assert (Hl22 : Z.log2 f <= 22).
      { assert (Z.log2 f < 23); [|lia]. apply Z.log2_lt_pow2; [exact Hfp|]. change (2 ^ 23) with 8388608. lia. }
      set (l := Z.log2 f) in *. set (P := 2 ^ l) in *. set (Q := 2 ^ (52 - l)).
      assert (HPQ : P * Q = 4503599627370496).
      { subst P Q. rewrite <- Z.pow_add_r by lia. replace (l + (52 - l)) with 52 by lia. reflexivity. }
      assert (HP : 0 < P) by (subst P; apply Z.pow_pos_nonneg; lia).
      assert (HQ : 0 < Q) by (subst Q; apply Z.pow_pos_nonneg; lia).
      assert (Hf2 : f < 2 * P) by (replace (2 ^ Z.succ l) with (2 * 2 ^ l) in Hl by (rewrite Z.pow_succ_r by lia; reflexivity); lia).
      assert (Hg : 0 <= (f - P) * Q < 4503599627370496) by nia.
      set (g := (f - P) * Q) in *.
      assert (Hmod : (s * 9223372036854775808 + (l - 149 + 1023) * 4503599627370496 + g) mod 9223372036854775808 =
                     (l - 149 + 1023) * 4503599627370496 + g).
      { apply (proj2 (div_mod_witness (s * 9223372036854775808 + (l - 149 + 1023) * 4503599627370496 + g) 9223372036854775808 s ((l - 149 + 1023) * 4503599627370496 + g) ltac:(lia) ltac:(lia))). }
      rewrite Hmod. lia.
  - assert (Hmod : (s * 9223372036854775808 + (e - 127 + 1023) * 4503599627370496 + f * 536870912) mod 9223372036854775808 =
                   (e - 127 + 1023) * 4503599627370496 + f * 536870912).
    { apply (proj2 (div_mod_witness (s * 9223372036854775808 + (e - 127 + 1023) * 4503599627370496 + f * 536870912) 9223372036854775808 s ((e - 127 + 1023) * 4503599627370496 + f * 536870912) ltac:(lia) ltac:(lia))). }
    rewrite Hmod. lia.
Qed.

Section Tokens.
Variable floats : float_oracle.
Variable fl : nat -> Z -> bytes.          (* strconv.FormatFloat(v, 'g', -1, bits), whatever it prints *)

(* the token the lexer makes of one printed element *)
Definition slot_token (k : kind) (w : nat) (x : slot) : token :=
  match x with
  | SX n => mk TVariable n 0
  | SV v => match k with
            | KBool => mk TBool (if v =? 0 then [x46] else [x54]) 0
            | KBin => mk TNumber (x30 :: x62 :: fmt_bin v) 0
            | KFloat => mk TNumber (fl w v) 0
            | _ => mk TNumber (fmt_int v) 0
            end
  end.

(* what is assumed of the float oracles: the text printed for a stored float
   value is read back as that value at the item's width (strconv's round trip),
   and the stored bit patterns are bit patterns of that width *)
Definition slot_scans (k : kind) (w : nat) (x : slot) : Prop :=
  match k, x with
  | KFloat, SV v => scan_float floats (fl w v) w = (v, NumOk) /\ (w = 4%nat -> is_u32 v)
  | _, _ => True
  end.

(* the argument the parser hands to the factory for one element *)
Definition parg (k : kind) (w : nat) (x : slot) : gval :=
  match k, x with
  | KFloat, SV v => match w with 4%nat => GF64 (f32_to_f64 v) | _ => GF64 v end
  | _, _ => slot_arg k w [] x
  end.

Lemma leaf_arg_parg k w x : fmt_ok k w -> slot_built k w x -> slot_scans k w x ->
  (forall n, x = SX n -> is_valid_var_name n = true) -> leaf_arg k w (parg k w x) = Some x.
Proof.
  intros Hf Hb Hs Hn. destruct x as [v|n].
  - destruct k; try (apply (conv_sv _ w [] v Hb)).
    cbn [parg slot_built slot_scans] in *. cbn in Hf. destruct Hs as [_ Hu]. destruct Hf as [->| ->]; cbn [leaf_arg float_arg].
    + rewrite (f32_to_f64_finite v (Hu eq_refl) Hb), (widened_in_range v (Hu eq_refl) Hb), (f32_roundtrip v (Hu eq_refl) Hb). reflexivity.
    + rewrite Hb. reflexivity.
  - assert (E : parg k w (SX n) = slot_arg k w [] (SX n)) by (destruct k; reflexivity). rewrite E.
    apply (conv_sx_miss k w [] n (Hn n eq_refl)). reflexivity.
Qed.

(* one element: the parser's argument is the stored value handed back (C09_values_survive), or the name *)
Lemma value_arg_slot k w st x : fmt_ok k w -> slot_built k w x -> val_okb k w x = true -> slot_scans k w x ->
  (forall n, x = SX n -> known_name st n = false) ->
  value_arg floats (nk_of k w) st (slot_token k w x) =
  Some (parg k w x, match x with SX n => add_name st n | SV _ => st end).
Proof.
  intros Hf Hb Hv Hsc Hfresh. destruct x as [v|n].
  - destruct k; cbn [nk_of slot_token parg slot_arg typed_val value_arg t_typ t_val mk].
    + (* binary *) cbn in Hv. apply andb_true_iff in Hv as [A C]. apply Z.leb_le in A. apply Z.ltb_lt in C.
      rewrite parse_int_binary by lia. destruct (Z.leb_spec 0 v); [|lia]. destruct (Z.ltb_spec v 256); [|lia]. reflexivity.
    + (* boolean *) cbn in Hb. destruct Hb as [->| ->]; reflexivity.
    + (* int *) cbn in Hv. apply andb_true_iff in Hv as [A C]. apply Z.leb_le in A. apply Z.ltb_lt in C.
      assert (Hbits : 0 < 8 * Z.of_nat w /\ 256 ^ Z.of_nat w / 2 = 2 ^ (8 * Z.of_nat w - 1)).
      { cbn in Hf. destruct Hf as [->|[->|[->| ->]]]; split; reflexivity. }
      destruct Hbits as [Hb1 Hb2]. rewrite Hb2 in *. rewrite parse_int_fmt by (lia || exact Hb1). reflexivity.
    + (* unsigned *) cbn in Hv. apply andb_true_iff in Hv as [A C]. apply Z.leb_le in A. apply Z.ltb_lt in C.
      assert (Hbits : 0 < 8 * Z.of_nat w /\ 256 ^ Z.of_nat w = 2 ^ (8 * Z.of_nat w)).
      { cbn in Hf. destruct Hf as [->|[->|[->| ->]]]; split; reflexivity. }
      destruct Hbits as [Hb1 Hb2]. rewrite Hb2 in *. rewrite parse_uint_fmt by (lia || exact Hb1). reflexivity.
    + (* float: the oracle's round trip *)
      cbn [slot_scans] in Hsc. destruct Hsc as [Hsc _]. rewrite Hsc. cbn in Hf. destruct Hf as [->| ->]; reflexivity.
  - assert (E : parg k w (SX n) = GStr n) by (destruct k; reflexivity). rewrite E.
    cbn [slot_token]. unfold value_arg. cbn [t_typ t_val mk]. rewrite (Hfresh n eq_refl). destruct k; reflexivity.
Qed.

Lemma slot_token_is_value k w x :
  match t_typ (slot_token k w x) with TNumber | TBool | TVariable => True | _ => False end.
Proof. destruct x as [v|n]; [destruct k|]; exact I. Qed.

(* getDataItemValueTokens takes exactly the element tokens, up to '>' *)
Lemma value_tokens_slots k w rab rest : t_typ rab = TRAB -> forall xs,
  value_tokens (map (slot_token k w) xs ++ rab :: rest) = (map (slot_token k w) xs, rab :: rest).
Proof.
  intros Hr. induction xs as [|x xs IH]; cbn [map app value_tokens].
  - rewrite Hr. reflexivity.
  - pose proof (slot_token_is_value k w x) as Hx. destruct (t_typ (slot_token k w x)); try contradiction; rewrite IH; reflexivity.
Qed.

Lemma nodupb_cons n ns : nodupb (n :: ns) = true -> existsb (bytes_eqb n) ns = false /\ nodupb ns = true.
Proof. cbn [nodupb]. intro H. apply andb_true_iff in H as [A C]. apply negb_true_iff in A. split; assumption. Qed.

(* the names the later state knows: those of the earlier state and [ns] *)
Definition names_char (st st' : pstate) (ns : list bytes) : Prop :=
  forall m, known_name st' m = known_name st m || existsb (bytes_eqb m) ns.

Lemma names_char_refl st : names_char st st [].
Proof. intro m. cbn. rewrite orb_false_r. reflexivity. Qed.

(* the loop over the element tokens: no diagnostics, the names are recorded, the arguments are the stored values *)
Lemma value_args_slots k w : fmt_ok k w -> forall xs st,
  Forall (slot_built k w) xs -> forallb (val_okb k w) xs = true -> Forall (slot_scans k w) xs -> nodupb (slot_vars xs) = true ->
  (forall n, In n (slot_vars xs) -> known_name st n = false) ->
  exists st', value_args floats (nk_of k w) st (map (slot_token k w) xs) = (Some (map (parg k w) xs), st') /\
              toks st' = toks st /\ errs st' = errs st /\ warns st' = warns st /\ msgs st' = msgs st /\ crashed st' = crashed st /\
              names_char st st' (slot_vars xs).
Proof.
  intros Hf. induction xs as [|x xs IH]; intros st Hb Hv Hsc Hn Hfresh.
  - exists st. repeat split. apply names_char_refl.
  - inversion Hb as [|? ? Hbx Hbr]; subst. inversion Hsc as [|? ? Hscx Hscr]; subst. cbn [forallb] in Hv. apply andb_true_iff in Hv as [Hvx Hvr].
    cbn [map value_args].
    assert (Hfx : forall n, x = SX n -> known_name st n = false).
    { intros n ->. apply Hfresh. left. reflexivity. }
    rewrite (value_arg_slot k w st x Hf Hbx Hvx Hscx Hfx).
    set (st1 := match x with SX n => add_name st n | SV _ => st end).
    assert (Hn' : nodupb (slot_vars xs) = true).
    { destruct x as [v|n]; [exact Hn|]. apply (nodupb_cons n (slot_vars xs)). exact Hn. }
    assert (Hfresh' : forall m, In m (slot_vars xs) -> known_name st1 m = false).
    { intros m Hm. subst st1. destruct x as [v|n].
      - apply Hfresh. exact Hm.
      - pose proof (Hfresh m (or_intror Hm)) as Hold. unfold known_name in *. unfold add_name. cbn [names existsb]. rewrite Hold, orb_false_r.
        destruct (nodupb_cons n (slot_vars xs) Hn) as [Hnot _].
        destruct (bytes_eqb m n) eqn:E; [|reflexivity]. apply bytes_eqb_spec in E. subst m. exfalso.
        rewrite <- not_true_iff_false in Hnot. apply Hnot. apply existsb_exists. exists n. split; [exact Hm|apply bytes_eqb_refl]. }
    destruct (IH st1 Hbr Hvr Hscr Hn' Hfresh') as [st' [E [H1 [H2 [H3 [H4 [H5 H6]]]]]]]. rewrite E.
    exists st'. split; [reflexivity|]. subst st1. destruct x as [v|n]; repeat split; try assumption.
    intro m. rewrite (H6 m). unfold known_name, add_name. cbn [names existsb slot_vars flat_map app].
    change (flat_map (fun s0 : slot => match s0 with SV _ => [] | SX n0 => [n0] end) xs) with (slot_vars xs).
    destruct (bytes_eqb m n); destruct (existsb (bytes_eqb m) (names st)); destruct (existsb (bytes_eqb m) (slot_vars xs)); reflexivity.
Qed.

(* the factory accepts the arguments and builds the very same item *)
Lemma new_leaf_of_slots k w xs : fmt_ok k w ->
  Forall (slot_built k w) xs -> Forall (slot_scans k w) xs -> size_ok (size_typ k w) (length xs) = true -> width_okb k w = true ->
  forallb (val_okb k w) xs = true -> names_ok xs = true ->
  new_leaf k w (map (parg k w) xs) = Some (ILeaf k w xs).
Proof.
  intros Hf Hb Hsc Hs Hw Hv Hn. unfold new_leaf. rewrite map_length, Hs. cbn [negb].
  assert (E : map_opt (leaf_arg k w) (map (parg k w) xs) = Some xs).
  { rewrite map_opt_map.
    assert (G : forall x, In x xs -> leaf_arg k w (parg k w x) = Some x).
    { intros x Hin. rewrite Forall_forall in Hb, Hsc. apply leaf_arg_parg; [exact Hf|apply Hb; exact Hin|apply Hsc; exact Hin|].
      intros n ->. eapply names_ok_valid; eassumption. }
    clear -G. induction xs as [|x r IH]; [reflexivity|]. cbn. rewrite (G x (or_introl eq_refl)), IH; [reflexivity|].
    intros y Hy. apply G. right. exact Hy. }
  rewrite E, Hw, Hv, Hn. reflexivity.
Qed.

(* the value part of a printed item "<TYPE[n] e1 ... en>" parses back to the item *)
Theorem leaf_parses_back k w xs st rab rest :
  fmt_ok k w ->
  Forall (slot_built k w) xs -> Forall (slot_scans k w) xs -> size_ok (size_typ k w) (length xs) = true -> width_okb k w = true ->
  forallb (val_okb k w) xs = true -> names_ok xs = true ->
  (forall n, In n (slot_vars xs) -> known_name st n = false) ->
  toks st = map (slot_token k w) xs ++ rab :: rest -> t_typ rab = TRAB ->
  exists st', parse_numeric floats (nk_of k w) st = (IOk (ILeaf k w xs), st') /\
              toks st' = rab :: rest /\ errs st' = errs st /\ warns st' = warns st /\ msgs st' = msgs st /\ names_char st st' (slot_vars xs).
Proof.
  intros Hf Hb Hsc Hs Hw Hv Hn Hfresh Ht Hr. unfold parse_numeric, take_values. rewrite Ht, (value_tokens_slots k w rab rest Hr xs).
  set (st0 := {| toks := rab :: rest; names := names st; ecount := ecount st; errs := errs st; warns := warns st; msgs := msgs st; crashed := crashed st |}).
  assert (Hnd : nodupb (slot_vars xs) = true) by (unfold names_ok in Hn; apply andb_true_iff in Hn as [_ Hn]; exact Hn).
  destruct (value_args_slots k w Hf xs st0 Hb Hv Hsc Hnd Hfresh) as [st' [E [H1 [H2 [H3 [H4 [_ H6]]]]]]].
  rewrite E.
  assert (Hbuild : build (nk_of k w) (map (parg k w) xs) = Some (ILeaf k w xs)).
  { pose proof (new_leaf_of_slots k w xs Hf Hb Hsc Hs Hw Hv Hn) as Hnl.
    destruct k; cbn [nk_of build]; unfold new_int, new_uint, new_float, new_binary, new_boolean;
      try (cbn in Hf; subst w); exact Hnl. }
  rewrite Hbuild. exists st'. repeat split; assumption.
Qed.

(* the whole printed item "<TYPE[n] e1 ... en>" *)
Definition leaf_tokens (k : kind) (w : nat) (xs : list slot) : list token :=
  [mk TLAB [x3c] 0; mk TItemType (leaf_tag k w) 0;
   mk TItemSize ([x5b] ++ fmt_unsigned 10 (Z.of_nat (length xs)) ++ [x5d]) 0]
  ++ map (slot_token k w) xs ++ [mk TRAB [x3e] 0].

Lemma nk_of_leaf_tag k w : fmt_ok k w ->
  bytes_eqb (leaf_tag k w) (B"L"%string) = false /\ bytes_eqb (leaf_tag k w) (B"A"%string) = false /\
  nk_of_type (leaf_tag k w) = Some (nk_of k w).
Proof.
  intros Hf. destruct k; cbn in Hf.
  - subst w. repeat split.
  - subst w. repeat split.
  - destruct Hf as [->|[->|[->| ->]]]; repeat split.
  - destruct Hf as [->|[->|[->| ->]]]; repeat split.
  - destruct Hf as [->| ->]; repeat split.
Qed.

Theorem leaf_item_parses_back rec_list k w xs st rest :
  fmt_ok k w ->
  Forall (slot_built k w) xs -> Forall (slot_scans k w) xs -> size_ok (size_typ k w) (length xs) = true -> width_okb k w = true ->
  forallb (val_okb k w) xs = true -> names_ok xs = true ->
  (forall n, In n (slot_vars xs) -> known_name st n = false) ->
  toks st = leaf_tokens k w xs ++ rest ->
  exists st', parse_item_body floats rec_list st = (Some (ILeaf k w xs), st') /\
              toks st' = rest /\ errs st' = errs st /\ warns st' = warns st /\ msgs st' = msgs st /\ names_char st st' (slot_vars xs).
Proof.
  intros Hf Hb Hsc Hs Hw Hv Hn Hfresh Ht.
  destruct (nk_of_leaf_tag k w Hf) as [HL [HA Hnk]].
  unfold leaf_tokens in Ht. cbn [app] in Ht.
  unfold parse_item_body. unfold advance, peek.
  repeat (cbn [toks tl names ecount errs warns msgs crashed]; rewrite ?Ht).
  cbn [tl typ_is t_typ t_val mk negb andb].
  assert (Hlen : 0 <= Z.of_nat (length xs) < two63).
  { split; [lia|]. unfold size_ok in Hs. apply negb_true_iff in Hs. unfold data_byte_length, MAX_BYTE_SIZE in Hs.
    unfold two63. destruct (lookup (size_typ k w) byte_per_value =? 0) eqn:E0.
    - (* every format has a positive width *) exfalso. destruct k; cbn in Hf; try subst w; try (destruct Hf as [->|[->|[->| ->]]]); try (destruct Hf as [->| ->]); discriminate E0.
    - assert (Hpos : 1 <= lookup (size_typ k w) byte_per_value).
      { destruct k; cbn in Hf; try subst w; try (destruct Hf as [->|[->|[->| ->]]]); try (destruct Hf as [->| ->]); cbn; lia. }
      rewrite Z.gtb_ltb in Hs. apply Z.ltb_ge in Hs. nia. }
  cbn [toks names ecount errs warns msgs crashed tl].
  assert (Hps : parse_size (x5b :: fmt_unsigned 10 (Z.of_nat (length xs)) ++ [x5d]) = (Z.of_nat (length xs), Z.of_nat (length xs)))
    by exact (parse_size_exact (Z.of_nat (length xs)) Hlen).
  rewrite Hps, HL, HA, Hnk. rewrite <- app_assoc. cbn [app].
  set (st3 := {| toks := map (slot_token k w) xs ++ mk TRAB [x3e] 0 :: rest; names := names st; ecount := ecount st;
                 errs := errs st; warns := warns st; msgs := msgs st; crashed := crashed st |}).
  destruct (leaf_parses_back k w xs st3 (mk TRAB [x3e] 0) rest Hf Hb Hsc Hs Hw Hv Hn Hfresh eq_refl eq_refl)
    as [st' [E [H1 [H2 [H3 [H5 H4]]]]]].
  match goal with |- context [parse_numeric floats (nk_of k w) ?s] => change s with st3 end.
  rewrite E. cbv beta iota zeta. cbn [item_size_for_check size].
  assert (Hse : size_error (Z.of_nat (length xs)) (Z.of_nat (length xs)) (Z.of_nat (length xs)) = false).
  { unfold size_error. destruct (Z.eqb_spec (Z.of_nat (length xs)) (-1)); [lia|].
    destruct (Z.leb_spec (Z.of_nat (length xs)) (Z.of_nat (length xs))); [reflexivity|lia]. }
  rewrite Hse. destruct (0 <=? Z.of_nat (length xs)); cbn [andb]; rewrite H1; cbn [typ_is t_typ mk];
  (eexists; split; [reflexivity|]; cbn [toks errs warns msgs]; rewrite ?H1; cbn [tl]; repeat split; try assumption;
   intro m; exact (H4 m)).
Qed.
End Tokens.
