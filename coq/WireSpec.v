(* WireSpec.v — the SECS-II item encoding of SEMI E5 section 9 and the HSMS
   message frame of SEMI E37 section 8, written from the standards as a
   relation between a byte string and an item.  Nothing here mentions the
   model's encoder or decoder functions: bytes are related to numbers only
   through their positional (big-endian) value [be_dec]. *)
From Secs Require Import Ast.
Open Scope Z_scope.

(* induction over items with the list children available *)
Section ItemInd.
  Variable P : item -> Prop.
  Hypothesis HList : forall xs, Forall P xs -> P (IList xs).
  Hypothesis HVar : forall n, P (IVar n).
  Hypothesis HLeaf : forall k w xs, P (ILeaf k w xs).
  Hypothesis HAscii : forall s, P (IAscii s).
  Hypothesis HAsciiVar : forall n mn mx, P (IAsciiVar n mn mx).
  Hypothesis HEmpty : P IEmpty.
  Fixpoint item_ind' (t : item) : P t :=
    match t with
    | IList xs => HList xs ((fix go (xs : list item) : Forall P xs :=
                               match xs with
                               | [] => Forall_nil P
                               | x :: r => Forall_cons x (item_ind' x) (go r)
                               end) xs)
    | IVar n => HVar n
    | ILeaf k w xs => HLeaf k w xs
    | IAscii s => HAscii s
    | IAsciiVar n mn mx => HAsciiVar n mn mx
    | IEmpty => HEmpty
    end.
End ItemInd.

(* E5 table 1: format codes (octal 00 10 11 20 30 31 32 34 40 44 50 51 52 54) *)
Definition e5_code (k : kind) (w : nat) : Z :=
  match k, w with
  | KBin, _ => 8 | KBool, _ => 9
  | KInt, 8%nat => 24 | KInt, 1%nat => 25 | KInt, 2%nat => 26 | KInt, _ => 28
  | KFloat, 8%nat => 32 | KFloat, _ => 36
  | KUint, 8%nat => 40 | KUint, 1%nat => 41 | KUint, 2%nat => 42 | KUint, _ => 44
  end.
Definition e5_code_list : Z := 0.
Definition e5_code_ascii : Z := 16.

Definition fmt_ok (k : kind) (w : nat) : Prop :=
  match k with
  | KBin | KBool => w = 1%nat
  | KInt | KUint => w = 1%nat \/ w = 2%nat \/ w = 4%nat \/ w = 8%nat
  | KFloat => w = 4%nat \/ w = 8%nat
  end.

(* the values an element of each format can hold *)
Definition float_finite (w : nat) (v : Z) : Prop :=
  match w with
  | 4%nat => (v / 2 ^ 23) mod 2 ^ 8 <> 2 ^ 8 - 1
  | _ => (v / 2 ^ 52) mod 2 ^ 11 <> 2 ^ 11 - 1
  end.

Definition val_wf (k : kind) (w : nat) (v : Z) : Prop :=
  match k with
  | KBin => 0 <= v < 256
  | KBool => v = 0 \/ v = 1
  | KInt => - (256 ^ Z.of_nat w / 2) <= v < 256 ^ Z.of_nat w / 2
  | KUint => 0 <= v < 256 ^ Z.of_nat w
  | KFloat => 0 <= v < 256 ^ Z.of_nat w /\ float_finite w v      (* v is the IEEE-754 bit pattern *)
  end.

(* the bytes of one element: w bytes, most significant first; signed integers
   in two's complement; booleans 0 / 1 (strict) or 0 / non-zero (lenient) *)
Definition elem_bytes (strict : bool) (k : kind) (w : nat) (v : Z) (bs : bytes) : Prop :=
  length bs = w /\
  match k with
  | KBool => if strict then be_dec bs = v else (v = 0 <-> be_dec bs = 0)
  | KInt => be_dec bs = if v <? 0 then v + 256 ^ Z.of_nat w else v
  | KBin | KUint | KFloat => be_dec bs = v
  end.

(* a length field of k bytes holding n; minimal when strict *)
Definition len_field (strict : bool) (lb : bytes) (n : Z) : Prop :=
  (1 <= length lb <= 3)%nat /\ be_dec lb = n /\
  (strict = true -> forall k, (1 <= k)%nat -> n < 256 ^ Z.of_nat k -> (length lb <= k)%nat).

(* format byte: format code in the upper six bits, number of length bytes below *)
Definition fmt_byte_is (fb : byte) (code : Z) (lb : bytes) : Prop :=
  b2z fb = code * 4 + Z.of_nat (length lb).

Fixpoint all2 {A C} (R : A -> C -> Prop) (xs : list A) (ys : list C) : Prop :=
  match xs, ys with
  | [], [] => True
  | x :: xs', y :: ys' => R x y /\ all2 R xs' ys'
  | _, _ => False
  end.

Fixpoint wire (strict : bool) (t : item) (bs : bytes) : Prop :=
  match t with
  | IList xs =>
    exists fb lb encs,
      bs = fb :: lb ++ concat encs /\
      fmt_byte_is fb e5_code_list lb /\
      len_field strict lb (Z.of_nat (length xs)) /\               (* the element COUNT *)
      (fix children (xs : list item) (encs : list bytes) : Prop :=
         match xs, encs with
         | [], [] => True
         | x :: xs', e :: es' => wire strict x e /\ children xs' es'
         | _, _ => False
         end) xs encs
  | ILeaf k w slots =>
    exists fb lb vs chunks,
      bs = fb :: lb ++ concat chunks /\
      slots = map SV vs /\
      fmt_ok k w /\
      fmt_byte_is fb (e5_code k w) lb /\
      len_field strict lb (Z.of_nat w * Z.of_nat (length vs)) /\   (* payload BYTES *)
      Forall (val_wf k w) vs /\
      all2 (elem_bytes strict k w) vs chunks
  | IAscii s =>
    exists fb lb,
      bs = fb :: lb ++ s /\
      fmt_byte_is fb e5_code_ascii lb /\
      len_field strict lb (Z.of_nat (length s)) /\
      Forall (fun b => b2z b < 128) s
  | IVar _ | IAsciiVar _ _ _ | IEmpty => False
  end.

(* items that hold values only and respect the formats: what `wire` can relate *)
Fixpoint value_item (t : item) : Prop :=
  match t with
  | IList xs => Z.of_nat (length xs) <= MAX_BYTE_SIZE /\
                (fix all (xs : list item) : Prop :=
                   match xs with [] => True | x :: r => value_item x /\ all r end) xs
  | ILeaf k w slots => fmt_ok k w /\ exists vs, slots = map SV vs /\ Forall (val_wf k w) vs /\
                       Z.of_nat w * Z.of_nat (length vs) <= MAX_BYTE_SIZE
  | IAscii s => Z.of_nat (length s) <= MAX_BYTE_SIZE /\ Forall (fun b => b2z b < 128) s
  | IVar _ | IAsciiVar _ _ _ | IEmpty => False
  end.

(* the byte strings that differ only in the two freedoms of the lenient
   reading: longer-than-needed length fields, and non-zero bytes for "true" *)
Definition relaxes (canonical lenient : bytes) : Prop :=
  exists t, wire true t canonical /\ wire false t lenient.
