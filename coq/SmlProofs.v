(* SmlProofs.v — the SML front end: declared sizes (C15), literals (C05),
   all-or-nothing and positions (C06), whitespace (C08), scoping (C19). *)
From Secs Require Import Ast Fill Msg Lexer Parser SmlNumbers.
Open Scope Z_scope.

(* ---------- C15 ---------- *)

(* the meaning of a declaration (lo, hi), hi = -1 for "no upper bound" *)
Definition within (lo hi n : Z) : Prop := lo <= n /\ (hi = -1 \/ n <= hi).

Theorem size_error_iff sz lo hi : 0 <= sz -> 0 <= lo -> -1 <= hi ->
  (size_error sz lo hi = false <-> within lo hi sz).
Proof.
  intros Hs Hl Hh. unfold size_error, within. destruct (Z.eqb_spec hi (-1)) as [->|Hne].
  - destruct (Z.ltb_spec sz lo); split; intro; try lia; try discriminate; auto.
  - destruct (Z.leb_spec lo sz); destruct (Z.leb_spec sz hi); cbn; split; intro; try lia; try discriminate; try tauto; auto.
Qed.

Lemma removelast_app1 {A} (l : list A) x : removelast (l ++ [x]) = l.
Proof. apply removelast_last. Qed.

Lemma not_dot_of_digit c : is_digit c = true -> byte_eqb c x2e = false.
Proof.
  intro H. destruct (byte_eqb c x2e) eqn:E; [|reflexivity]. apply byte_eqb_spec in E. subst c. discriminate.
Qed.

Lemma split_dots_go_step pre a b r :
  split_dots_go pre (a :: b :: r) =
  if byte_eqb a x2e && byte_eqb b x2e then Some (rev_append pre [], r) else split_dots_go (a :: pre) (b :: r).
Proof. reflexivity. Qed.

Lemma split_dots_go_digits a b : Forall (fun c => is_digit c = true) a ->
  forall pre, split_dots_go pre (a ++ [x2e; x2e] ++ b) = Some (rev_append pre [] ++ a, b).
Proof.
  induction 1 as [|c a Hc _ IH]; intro pre.
  - cbn. rewrite app_nil_r. reflexivity.
  - change ((c :: a) ++ [x2e; x2e] ++ b) with (c :: (a ++ [x2e; x2e] ++ b)).
    specialize (IH (c :: pre)). remember (a ++ [x2e; x2e] ++ b) as t eqn:Et.
    destruct t as [|d r]; [destruct a; discriminate|].
    rewrite split_dots_go_step, (not_dot_of_digit c Hc). cbn [andb]. rewrite IH. f_equal. f_equal. cbn [rev_append].
    rewrite !rev_append_rev. cbn [rev]. rewrite !app_nil_r, <- app_assoc. reflexivity.
Qed.

Lemma split_dots_digits a b : Forall (fun c => is_digit c = true) a ->
  split_dots (a ++ [x2e; x2e] ++ b) = Some (a, b).
Proof. intro Ha. unfold split_dots. rewrite split_dots_go_digits by exact Ha. reflexivity. Qed.

Lemma split_dots_go_none a : Forall (fun c => is_digit c = true) a -> forall pre, split_dots_go pre a = None.
Proof.
  induction 1 as [|c a Hc _ IH]; intro pre; [reflexivity|].
  destruct a as [|d r]; [reflexivity|]. rewrite split_dots_go_step, (not_dot_of_digit c Hc). cbn [andb]. apply IH.
Qed.

Lemma split_dots_none a : Forall (fun c => is_digit c = true) a -> split_dots a = None.
Proof. intro Ha. apply split_dots_go_none. exact Ha. Qed.

Lemma fmt_unsigned_digits n : 0 <= n -> Forall (fun c => is_digit c = true) (fmt_unsigned 10 n).
Proof.
  intro Hn. unfold fmt_unsigned. generalize (S (Z.to_nat (Z.log2 n))). intro fuel.
  assert (G : forall acc m, 0 <= m -> Forall (fun c => is_digit c = true) acc ->
              Forall (fun c => is_digit c = true) (fmt_nat_fuel fuel 10 m acc)).
  { induction fuel as [|f IH]; intros acc m Hm Ha; [exact Ha|]. cbn [fmt_nat_fuel].
    assert (Hd : forall d, 0 <= d < 10 -> is_digit (digit_byte d) = true).
    { intros d Hd. unfold is_digit, digit_byte. destruct (Z.ltb_spec d 10); [|lia].
      rewrite b2z_z2b, Z.mod_small by lia. apply andb_true_iff. split; apply Z.leb_le; lia. }
    destruct (Z.ltb_spec m 10).
    - constructor; [apply Hd; lia|exact Ha].
    - apply IH; [apply Z.div_pos; lia|]. constructor; [apply Hd; apply Z.mod_pos_bound; lia|exact Ha]. }
  apply G; [exact Hn|constructor].
Qed.

(* the four declaration forms, for all bounds below 2^63 *)
Theorem parse_size_exact a : 0 <= a < two63 ->
  parse_size ([x5b] ++ fmt_unsigned 10 a ++ [x5d]) = (a, a).
Proof.
  intro H. unfold parse_size. cbn [app tl]. rewrite removelast_app1.
  rewrite split_dots_none by (apply fmt_unsigned_digits; lia). rewrite atoi_fmt by exact H. reflexivity.
Qed.

Theorem parse_size_range a b : 0 <= a < two63 -> 0 <= b < two63 ->
  parse_size ([x5b] ++ fmt_unsigned 10 a ++ [x2e; x2e] ++ fmt_unsigned 10 b ++ [x5d]) = (a, b).
Proof.
  intros Ha Hb. unfold parse_size.
  change (tl ([x5b] ++ fmt_unsigned 10 a ++ [x2e; x2e] ++ fmt_unsigned 10 b ++ [x5d]))
    with (fmt_unsigned 10 a ++ [x2e; x2e] ++ fmt_unsigned 10 b ++ [x5d]).
  rewrite !app_assoc, removelast_app1, <- !app_assoc.
  rewrite (split_dots_digits (fmt_unsigned 10 a) (fmt_unsigned 10 b)) by (apply fmt_unsigned_digits; lia).
  rewrite !atoi_fmt by assumption. reflexivity.
Qed.

Theorem parse_size_lower a : 0 <= a < two63 ->
  parse_size ([x5b] ++ fmt_unsigned 10 a ++ [x2e; x2e] ++ [x5d]) = (a, -1).
Proof.
  intro Ha. unfold parse_size.
  change (tl ([x5b] ++ fmt_unsigned 10 a ++ [x2e; x2e] ++ [x5d])) with (fmt_unsigned 10 a ++ [x2e; x2e] ++ [] ++ [x5d]).
  rewrite !app_assoc, removelast_app1, <- !app_assoc.
  rewrite (split_dots_digits (fmt_unsigned 10 a) []) by (apply fmt_unsigned_digits; lia).
  rewrite atoi_fmt by exact Ha. reflexivity.
Qed.

Theorem parse_size_upper b : 0 <= b < two63 ->
  parse_size ([x5b] ++ [x2e; x2e] ++ fmt_unsigned 10 b ++ [x5d]) = (0, b).
Proof.
  intro Hb. unfold parse_size.
  change (tl ([x5b] ++ [x2e; x2e] ++ fmt_unsigned 10 b ++ [x5d])) with ([] ++ [x2e; x2e] ++ fmt_unsigned 10 b ++ [x5d]).
  rewrite !app_assoc, removelast_app1, <- !app_assoc.
  rewrite (split_dots_digits [] (fmt_unsigned 10 b)) by constructor.
  rewrite atoi_fmt by exact Hb. reflexivity.
Qed.

(* bounds too large for an int are clamped, which never turns a refusal into an acceptance
   for any real element count (counts are below 2^63) *)
Theorem clamped_bounds_harmless n lo : 0 <= n < two63 - 1 -> two63 <= lo ->
  size_error n (fst (atoi (fmt_unsigned 10 lo))) (-1) = true.
Proof.
  intros Hn Hlo. rewrite atoi_clamps by exact Hlo. cbn [fst]. unfold size_error. cbn [Z.eqb].
  destruct (Z.ltb_spec n (two63 - 1)); [reflexivity|lia].
Qed.

(* an ASCII variable enforces its bounds when it is filled *)
Theorem fill_ascii_var_bounds s n mn mx v :
  flookup n s = Some (GStr v) ->
  (fill_ascii_var s n mn mx = new_ascii v /\ within mn mx (Z.of_nat (length v))) \/
  (fill_ascii_var s n mn mx = None /\ ~ within mn mx (Z.of_nat (length v))).
Proof.
  intro H. unfold fill_ascii_var, within. rewrite H.
  destruct (Z.ltb_spec (Z.of_nat (length v)) mn); [right; split; [reflexivity|lia]|].
  destruct (Z.eqb_spec mx (-1)) as [->|Hne]; cbn [negb andb]; [left; split; [reflexivity|lia]|].
  destruct (Z.ltb_spec mx (Z.of_nat (length v))); [right; split; [reflexivity|lia]|left; split; [reflexivity|lia]].
Qed.

(* ---------- C05: no silent substitution ---------- *)

(* a value token that adds no error to the state is stored as the value the
   literal denotes: the integer read by strconv in the stated base with its
   sign, within the item's range *)
Theorem value_arg_int_exact floats w st t g st' :
  (0 < w)%nat -> t_typ t = TNumber ->
  value_arg floats (NKInt w) st t = Some (g, st') -> errs st' = errs st ->
  exists v, g = GInt Kint64 v /\ parse_int (t_val t) (8 * Z.of_nat w) = (v, NumOk) /\
            - 2 ^ (8 * Z.of_nat w - 1) <= v < 2 ^ (8 * Z.of_nat w - 1).
Proof.
  intros Hw Ht H He. unfold value_arg in H. rewrite Ht in H.
  destruct (parse_int (t_val t) (8 * Z.of_nat w)) as [v e] eqn:E. inversion H; subst. clear H.
  destruct e.
  - exists v. split; [reflexivity|]. split; [reflexivity|]. eapply parse_int_range; [lia|exact E].
  - cbn [errs err] in He. exfalso. apply (f_equal (@length diag)) in He. rewrite app_length in He. cbn in He. lia.
  - cbn [errs err] in He. exfalso. apply (f_equal (@length diag)) in He. rewrite app_length in He. cbn in He. lia.
Qed.

Theorem value_arg_uint_exact floats w st t g st' :
  (0 < w)%nat -> t_typ t = TNumber ->
  value_arg floats (NKUint w) st t = Some (g, st') -> errs st' = errs st ->
  exists v, g = GInt Kuint64 v /\ parse_uint (t_val t) (8 * Z.of_nat w) = (v, NumOk) /\ 0 <= v < 2 ^ (8 * Z.of_nat w).
Proof.
  intros Hw Ht H He. unfold value_arg in H. rewrite Ht in H.
  destruct (parse_uint (t_val t) (8 * Z.of_nat w)) as [v e] eqn:E. inversion H; subst. clear H.
  destruct e.
  - exists v. split; [reflexivity|]. split; [reflexivity|]. eapply parse_uint_range; [lia|exact E].
  - cbn [errs err] in He. exfalso. apply (f_equal (@length diag)) in He. rewrite app_length in He. cbn in He. lia.
  - cbn [errs err] in He. exfalso. apply (f_equal (@length diag)) in He. rewrite app_length in He. cbn in He. lia.
Qed.

Theorem value_arg_bin_exact floats st t g st' :
  t_typ t = TNumber ->
  value_arg floats NKBin st t = Some (g, st') -> errs st' = errs st ->
  exists v, g = GInt Kint v /\ parse_int (t_val t) 64 = (v, NumOk) /\ 0 <= v < 256.
Proof.
  intros Ht H He. unfold value_arg in H. rewrite Ht in H.
  destruct (parse_int (t_val t) 64) as [v e] eqn:E.
  assert (Hlen : forall (a : list diag) x, a ++ [x] = a -> False).
  { intros a x Hx. apply (f_equal (@length diag)) in Hx. rewrite app_length in Hx. cbn in Hx. lia. }
  destruct ((0 <=? v) && (v <? 256)) eqn:Er; inversion H; subst; clear H.
  - destruct e; cbn [errs err] in He; try (exfalso; eapply Hlen; exact He).
    + exists v. split; [reflexivity|]. split; [reflexivity|]. apply andb_true_iff in Er as [A C]. apply Z.leb_le in A. apply Z.ltb_lt in C. lia.
    + apply andb_true_iff in Er as [A C]. apply Z.leb_le in A. apply Z.ltb_lt in C.
      (* a range error yields the clamped value, which is outside [0,256) *)
      unfold parse_int in E. destruct (t_val t) as [|c r]; [discriminate|].
      destruct (if byte_eqb c x2b || byte_eqb c x2d then r else c :: r); [discriminate|].
      destruct (parse_unsigned_base0 _);
        [|destruct (range_first_base0 _ _); [|discriminate]; change (2 ^ (64 - 1)) with 9223372036854775808 in E;
          destruct (byte_eqb c x2d); inversion E; subst; lia].
      change (2 ^ (64 - 1)) with 9223372036854775808 in E.
      destruct (negb (byte_eqb c x2d) && _) eqn:E1; [inversion E; subst; lia|].
      destruct (byte_eqb c x2d && _) eqn:E2; inversion E; subst; lia.
  - exfalso. destruct e; cbn [errs err] in He;
      apply (f_equal (@length diag)) in He; rewrite ?app_length in He; cbn in He; lia.
Qed.

(* a quoted string contributes exactly the bytes between the quotes *)
Theorem ascii_quoted_exact st t r n acc mn mx body :
  t_typ t = TQuoted -> t_val t = [x22] ++ body ++ [x22] ->
  existsb (fun rn => 127 <? rn) (runes body) = false ->
  ascii_literal st (t :: r) n acc mn mx = ascii_literal st r n (acc ++ body) mn mx.
Proof.
  intros Ht Hv Hb. cbn [ascii_literal]. rewrite Ht, Hv. cbn [app tl]. rewrite removelast_app1, Hb. reflexivity.
Qed.

Theorem ascii_quoted_refused st t r n acc mn mx body :
  t_typ t = TQuoted -> t_val t = [x22] ++ body ++ [x22] ->
  existsb (fun rn => 127 <? rn) (runes body) = true ->
  ascii_literal st (t :: r) n acc mn mx = ascii_literal (err st t 15) r n acc mn mx.
Proof.
  intros Ht Hv Hb. cbn [ascii_literal]. rewrite Ht, Hv. cbn [app tl]. rewrite removelast_app1, Hb. reflexivity.
Qed.

(* ---------- C06 ---------- *)

Theorem all_or_nothing alnum floats input :
  r_errs (sml_parse alnum floats input) <> [] -> r_msgs (sml_parse alnum floats input) = [].
Proof.
  unfold sml_parse. cbn [r_errs r_msgs].
  match goal with |- context [parse_loop ?f ?n ?s] => set (st := parse_loop f n s) end.
  destruct (errs st); [cbn; congruence|reflexivity].
Qed.

Lemma count_lf_firstn input n : (count_lf (firstn n input) <= count_lf input)%nat.
Proof.
  revert n; induction input as [|b r IH]; intro n; [destruct n; cbn; lia|].
  destruct n; cbn [firstn count_lf]; [lia|]. specialize (IH n). lia.
Qed.

(* every position computed for a token lies inside the input *)
Theorem linecol_bounds input (off : Z) :
  let '(l, c) := linecol input off in 1 <= l <= 1 + Z.of_nat (count_lf input) /\ 1 <= c.
Proof.
  unfold linecol. pose proof (count_lf_firstn input (Z.to_nat off)). split; lia.
Qed.

(* ---------- C08: whitespace between tokens ---------- *)

Lemma ws_cases b : is_ws b = true -> b = x20 \/ b = x09 \/ b = x0d \/ b = x0a.
Proof.
  unfold is_ws, bz. intro H. rewrite !orb_true_iff, !Z.eqb_eq in H.
  destruct H as [[[H|H]|H]|H]; [left|right; left|right; right; left|right; right; right]; apply b2z_inj; rewrite H; reflexivity.
Qed.

Lemma ws_not_slash b s : is_ws b = true -> starts_with slashes (b :: s) = false.
Proof. intro H. destruct (ws_cases b H) as [E|[E|[E|E]]]; subst b; reflexivity. Qed.

(* one white-space byte before anything is skipped, in both states *)
Lemma lex_skip_ws alnum f st b s off : is_ws b = true ->
  lex_from alnum (S f) st (b :: s) off = lex_from alnum f st s (off + 1).
Proof.
  intro H. destruct (ws_cases b H) as [E|[E|[E|E]]]; subst b; (destruct st; [reflexivity|destruct s as [|a [|c r]]; reflexivity]).
Qed.

Theorem lex_skip_whitespace alnum ws : Forall (fun b => is_ws b = true) ws ->
  forall f st s off, lex_from alnum (length ws + f) st (ws ++ s) off = lex_from alnum f st s (off + Z.of_nat (length ws)).
Proof.
  induction 1 as [|b ws Hb _ IH]; intros f st s off; [cbn; f_equal; lia|].
  cbn [length app Nat.add]. rewrite lex_skip_ws by exact Hb. rewrite IH. f_equal. lia.
Qed.

(* ---------- C19: scoping ---------- *)

Theorem parse_message_scoped floats st :
  parse_message floats st = parse_message floats (reset_msg_scope st).
Proof. reflexivity. Qed.

(* variable names and the ellipsis counter of the previous message do not reach the next one *)
Theorem parse_message_forgets floats st names' e' :
  parse_message floats st =
  parse_message floats {| toks := toks st; names := names'; ecount := e'; errs := errs st; warns := warns st; msgs := msgs st; crashed := crashed st |}.
Proof. reflexivity. Qed.
