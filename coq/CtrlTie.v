(* CtrlTie.v — the control-message constructors, Type() and ToBytes() as
   translated from the source (gen/Ctrl.v) equal the hand-written
   specification functions of Msg.v, for all arguments. *)
From Secs Require Import Ast Msg.
From Secs.gen Require Import Ctrl.
Open Scope Z_scope.

Lemma tie_ctrl_no_problems : gen_ctrl_problems = 0%nat.
Proof. reflexivity. Qed.

Lemma z2b_lit_eq n b : z2b n = b -> z2b n = b. Proof. auto. Qed.

Lemma tie_ctl_type h : gen_ctl_type h = ctl_type h.
Proof. reflexivity. Qed.

Lemma tie_ctl_to_bytes h : gen_ctl_to_bytes h = ctl_to_bytes h.
Proof. reflexivity. Qed.

Ltac sys_cases sys :=
  destruct sys as [|?a [|?b [|?c [|?d ?r]]]]; try reflexivity.

Lemma tie_select_req sid sys : gen_select_req sid sys = spec_select_req sid sys.
Proof. sys_cases sys. Qed.
Lemma tie_deselect_req sid sys : gen_deselect_req sid sys = spec_deselect_req sid sys.
Proof. sys_cases sys. Qed.
Lemma tie_separate_req sid sys : gen_separate_req sid sys = spec_separate_req sid sys.
Proof. sys_cases sys. Qed.
Lemma tie_linktest_req sys : gen_linktest_req sys = spec_linktest_req sys.
Proof. sys_cases sys. Qed.
Lemma tie_reject_req sid pt st sys reason :
  gen_reject_req sid pt st sys reason = spec_reject_req sid pt st sys reason.
Proof. sys_cases sys. Qed.

Lemma tie_select_rsp req status : gen_select_rsp req status = spec_select_rsp req status.
Proof.
  unfold gen_select_rsp, spec_select_rsp, ctl_rsp. rewrite tie_ctl_type.
  destruct (bytes_eqb (ctl_type req) _); reflexivity.
Qed.
Lemma tie_deselect_rsp req status : gen_deselect_rsp req status = spec_deselect_rsp req status.
Proof.
  unfold gen_deselect_rsp, spec_deselect_rsp, ctl_rsp. rewrite tie_ctl_type.
  destruct (bytes_eqb (ctl_type req) _); reflexivity.
Qed.
Lemma tie_linktest_rsp req : gen_linktest_rsp req = spec_linktest_rsp req.
Proof.
  unfold gen_linktest_rsp, spec_linktest_rsp, ctl_rsp. rewrite tie_ctl_type.
  destruct (bytes_eqb (ctl_type req) _); reflexivity.
Qed.
