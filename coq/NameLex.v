(* NameLex.v — every message-name token the lexer hands out is read back as
   the same single name when the name is printed on a header line (followed by
   a line feed): hypothesis `name_lexes` of the C04 fixed point, discharged for
   the lexer's own output. *)
From Secs Require Import Ast Utf8 Lexer SmlNumbers SmlProofs LexProofs LayoutProofs LexPrinted CaseProofs LexNames.
From Secs Require Import Parser ParseProofs MsgRoundTrip.
Open Scope Z_scope.

(* ---------- a line feed after a prefix: what the matchers and the rune decoder see ---------- *)

Lemma decode_before_lf p r : p <> [] -> decode_rune (p ++ x0a :: r) = decode_rune p.
Proof.
  intro Hp. destruct p as [|b0 p]; [congruence|]. cbn [app]. unfold decode_rune.
  destruct (b2z b0 <? 128); [reflexivity|].
  assert (Hc : is_cont x0a = false) by reflexivity.
  assert (Hr : forall lo hi, 128 <= lo -> in_range lo hi (b2z x0a) = false).
  { intros lo hi Hlo. unfold in_range. change (b2z x0a) with 10. destruct (Z.leb_spec lo 10); [lia|reflexivity]. }
  destruct (in_range 194 223 (b2z b0)).
  { destruct p as [|b1 p]; cbn [app]; [rewrite Hc|]; reflexivity. }
  destruct (in_range 224 239 (b2z b0)).
  { set (lo := if b2z b0 =? 224 then 160 else 128). set (hi := if b2z b0 =? 237 then 159 else 191).
    assert (Hlo : 128 <= lo) by (subst lo; destruct (b2z b0 =? 224); lia).
    destruct p as [|b1 [|b2 p]]; cbn [app]; try reflexivity.
    - destruct r; [reflexivity|]. rewrite (Hr lo hi Hlo). reflexivity.
    - rewrite Hc, andb_false_r. reflexivity. }
  destruct (in_range 240 244 (b2z b0)); [|reflexivity].
  set (lo := if b2z b0 =? 240 then 144 else 128). set (hi := if b2z b0 =? 244 then 143 else 191).
  assert (Hlo : 128 <= lo) by (subst lo; destruct (b2z b0 =? 240); lia).
  destruct p as [|b1 [|b2 [|b3 p]]]; cbn [app]; try reflexivity.
  - destruct r as [|? [|? ?]]; try reflexivity. rewrite (Hr lo hi Hlo). reflexivity.
  - destruct r; try reflexivity. rewrite Hc, andb_false_r. reflexivity.
  - rewrite Hc, andb_false_r. reflexivity.
Qed.

Lemma decode_prefix p t : (snd (decode_rune (p ++ t)) <= length p)%nat -> decode_rune (p ++ t) = decode_rune p.
Proof.
  intro H. rewrite <- (decode_rune_firstn (p ++ t) (length p) H). rewrite firstn_app, Nat.sub_diag, firstn_all. cbn [firstn]. rewrite app_nil_r. reflexivity.
Qed.

Lemma slashes_before_lf p t r : p <> [] -> starts_with slashes (p ++ t) = false -> starts_with slashes (p ++ x0a :: r) = false.
Proof.
  intros Hp H. destruct p as [|a [|b p]]; [congruence| |exact H].
  cbn [app]. change (starts_with slashes (a :: x0a :: r)) with (byte_eqb x2f a && (byte_eqb x2f x0a && true)).
  change (byte_eqb x2f x0a) with false. cbn [andb]. apply andb_false_r.
Qed.

(* ---------- the rest of a name is scanned again as itself ---------- *)

Lemma scan_lf g r : scan_name (S g) (x0a :: r) = [].
Proof. reflexivity. Qed.

Lemma scan_relex : forall g u g' r, (length (scan_name g u) < g')%nat ->
  scan_name g' (scan_name g u ++ x0a :: r) = scan_name g u.
Proof.
  induction g as [|g IH]; intros u g' r Hg'.
  - cbn [scan_name app] in *. destruct g' as [|g'']; [cbn in Hg'; lia|]. apply scan_lf.
  - cbn [scan_name] in *. destruct u as [|b0 u0].
    { cbn [app] in *. destruct g' as [|g'']; [cbn in Hg'; lia|]. apply scan_lf. }
    destruct (starts_with slashes (b0 :: u0)) eqn:Esl.
    { cbn [app] in *. destruct g' as [|g'']; [cbn in Hg'; lia|]. apply scan_lf. }
    destruct (decode_rune (b0 :: u0)) as [rn w] eqn:Ed.
    destruct (is_space_rune rn) eqn:Esp.
    { cbn [app] in *. destruct g' as [|g'']; [cbn in Hg'; lia|]. apply scan_lf. }
    set (u := b0 :: u0) in *. set (q1 := firstn w u) in *. set (nm' := scan_name g (skipn w u)) in *.
    pose proof (decode_rune_width_le u) as Hwle. rewrite Ed in Hwle. cbn [snd] in Hwle.
    pose proof (decode_rune_width_pos b0 u0) as Hwpos. fold u in Hwpos. rewrite Ed in Hwpos. cbn [snd] in Hwpos.
    assert (Hq1 : length q1 = w) by (subst q1; apply firstn_length_le; exact Hwle).
    rewrite app_length in Hg'. destruct g' as [|g'']; [lia|].
    (* u = (q1 ++ nm') ++ rest *)
    assert (Hu : exists rest, u = (q1 ++ nm') ++ rest).
    { exists (skipn (length nm') (skipn w u)). rewrite <- app_assoc.
      rewrite <- (firstn_skipn w u) at 1. fold q1. f_equal.
      rewrite <- (firstn_skipn (length nm') (skipn w u)) at 1. f_equal. subst nm'. symmetry. apply scan_name_prefix. }
    destruct Hu as [rest Hu].
    assert (Hpne : q1 ++ nm' <> []) by (destruct q1; [cbn in Hq1; lia|discriminate]).
    rewrite <- app_assoc. rewrite app_assoc.
    cbn [scan_name]. destruct ((q1 ++ nm') ++ x0a :: r) as [|c0 c] eqn:Ec; [destruct (q1 ++ nm'); discriminate|]. rewrite <- Ec.
    rewrite (slashes_before_lf (q1 ++ nm') rest r Hpne) by (rewrite <- Hu; exact Esl).
    rewrite (decode_before_lf (q1 ++ nm') r Hpne).
    assert (Edp : decode_rune (q1 ++ nm') = (rn, w)).
    { rewrite <- (decode_prefix (q1 ++ nm') rest); [rewrite <- Hu; exact Ed|]. rewrite <- Hu, Ed. cbn [snd]. rewrite app_length. lia. }
    rewrite Edp, Esp.
    rewrite <- app_assoc. rewrite firstn_app, Hq1, Nat.sub_diag, (firstn_all2 q1) by lia. cbn [firstn]. rewrite app_nil_r.
    rewrite skipn_app, Hq1, Nat.sub_diag, (skipn_all2 q1) by lia. cbn [skipn app].
    f_equal. apply IH. fold nm'. lia.
Qed.

(* ---------- the three header matchers do not fire on the name either ---------- *)

(* what follows a '.'-free, digit-free, letter-free line feed cannot complete a match *)
Lemma split_at_lf {X} (m rest p : list X) x r : m ++ rest = p ++ x :: r -> ~ In x m -> exists p', p = m ++ p'.
Proof.
  revert p. induction m as [|a m IH]; intros p H Hn; [exists p; reflexivity|].
  destruct p as [|b p]; cbn [app] in H; inversion H; subst; [exfalso; apply Hn; left; reflexivity|].
  destruct (IH p H2 (fun Hx => Hn (or_intror Hx))) as [p' ->]. exists p'. reflexivity.
Qed.

Lemma match_sf_shape s m r : match_sf s = Some (m, r) ->
  exists c d1 f d2, m = c :: d1 ++ f :: d2 /\ s = m ++ r /\ byte_eqb (upper c) x53 = true /\ byte_eqb (upper f) x46 = true /\
    d1 <> [] /\ d2 <> [] /\ Forall (fun b => is_digit b = true) d1 /\ Forall (fun b => is_digit b = true) d2.
Proof.
  unfold match_sf. destruct s as [|c s]; [discriminate|]. destruct (byte_eqb (upper c) x53) eqn:Ec; [|discriminate].
  destruct (span is_digit s) as [d1 r1] eqn:E1. destruct d1 as [|x1 d1]; [discriminate|]. destruct r1 as [|f r2]; [discriminate|].
  destruct (byte_eqb (upper f) x46) eqn:Ef; [|discriminate]. destruct (span is_digit r2) as [d2 r3] eqn:E2. destruct d2 as [|x2 d2]; [discriminate|].
  intro H; inversion H; subst. exists c, (x1 :: d1), f, (x2 :: d2).
  pose proof (span_eq _ _ _ _ E1) as Q1. pose proof (span_eq _ _ _ _ E2) as Q2.
  split; [reflexivity|]. split; [rewrite Q1, Q2; cbn [app]; rewrite <- !app_assoc; reflexivity|].
  split; [exact Ec|]. split; [exact Ef|]. split; [discriminate|]. split; [discriminate|].
  split; [eapply span_forall; exact E1|eapply span_forall; exact E2].
Qed.

Lemma upper_F_not_digit f : byte_eqb (upper f) x46 = true -> is_digit f = false.
Proof. destruct f; try discriminate; reflexivity. Qed.

Lemma match_sf_fires c d1 f d2 y : byte_eqb (upper c) x53 = true -> byte_eqb (upper f) x46 = true ->
  d1 <> [] -> d2 <> [] -> Forall (fun b => is_digit b = true) d1 -> Forall (fun b => is_digit b = true) d2 ->
  match_sf ((c :: d1 ++ f :: d2) ++ y) <> None.
Proof.
  intros Hc Hf N1 N2 D1 D2. cbn [app match_sf]. rewrite Hc. rewrite <- app_assoc. cbn [app].
  rewrite (span_stop is_digit d1 f (d2 ++ y) D1 (upper_F_not_digit f Hf)).
  destruct d1 as [|x1 d1]; [congruence|]. rewrite Hf.
  destruct (span is_digit (d2 ++ y)) as [d2' r3] eqn:E.
  destruct d2 as [|x2 d2]; [congruence|]. cbn [app span] in E. inversion D2; subst.
  match goal with Hx : is_digit x2 = true |- _ => rewrite Hx in E end.
  destruct (span is_digit (d2 ++ y)). inversion E; subst. discriminate.
Qed.

Lemma digit_not_lf d : is_digit d = true -> d <> x0a.
Proof. intros H ->. discriminate. Qed.

Lemma match_sf_before_lf p t r : match_sf (p ++ t) = None -> match_sf (p ++ x0a :: r) = None.
Proof.
  intro H. destruct (match_sf (p ++ x0a :: r)) as [[m rest]|] eqn:E; [exfalso|reflexivity].
  destruct (match_sf_shape _ _ _ E) as (c & d1 & f & d2 & -> & Hs & Hc & Hf & N1 & N2 & D1 & D2).
  assert (Hnot : ~ In x0a (c :: d1 ++ f :: d2)).
  { intros [->|Hin]; [discriminate Hc|]. apply in_app_or in Hin as [Hin|[->|Hin]]; [|discriminate Hf|].
    - rewrite Forall_forall in D1. exact (digit_not_lf _ (D1 _ Hin) eq_refl).
    - rewrite Forall_forall in D2. exact (digit_not_lf _ (D2 _ Hin) eq_refl). }
  destruct (split_at_lf _ _ _ _ _ (eq_sym Hs) Hnot) as [p' ->].
  rewrite <- app_assoc in H. exact (match_sf_fires c d1 f d2 (p' ++ t) Hc Hf N1 N2 D1 D2 H).
Qed.

Lemma match_wbit_before_lf p t r : p <> [] -> match_wbit (p ++ t) = None -> match_wbit (p ++ x0a :: r) = None.
Proof.
  intros Hp H. destruct p as [|c [|w [|e p]]]; [congruence| | |cbn [app match_wbit] in *; destruct (byte_eqb (upper c) x57); [discriminate H|]; destruct (byte_eqb c x5b); [|reflexivity]; destruct (byte_eqb (upper w) x57 && byte_eqb e x5d); [discriminate H|reflexivity]]; cbn [app match_wbit] in *.
  - destruct (byte_eqb (upper c) x57); [discriminate H|]. destruct (byte_eqb c x5b); [|reflexivity]. destruct r as [|? ?]; reflexivity.
  - destruct (byte_eqb (upper c) x57); [discriminate H|]. destruct (byte_eqb c x5b); [|reflexivity].
    change (byte_eqb x0a x5d) with false. rewrite andb_false_r. reflexivity.
Qed.

Lemma match_dir_before_lf p t r : p <> [] -> match_dir (p ++ t) = None -> match_dir (p ++ x0a :: r) = None.
Proof.
  intros Hp H. destruct (match_dir (p ++ x0a :: r)) as [[m rest]|] eqn:E; [exfalso|reflexivity].
  destruct (match_dir_shape _ _ _ E) as [(h & c & -> & Hs & Eh & Ec)|[(h & c & -> & Hs & Eh & Ec)|(h & e & -> & Hs & Eh & Ee)]].
  - assert (Hnot : ~ In x0a [h; x2d; x3e; c]).
    { intros [->|[Hx|[Hx|[->|[]]]]]; try discriminate. }
    destruct (split_at_lf _ _ _ _ _ (eq_sym Hs) Hnot) as [p' ->]. cbn [app match_dir] in H. rewrite Eh in H.
    change (byte_eqb x2d x2d) with true in H. change (byte_eqb x3e x3e) with true in H. rewrite Ec in H. discriminate H.
  - assert (Hnot : ~ In x0a [h; x3c; x2d; c]).
    { intros [->|[Hx|[Hx|[->|[]]]]]; try discriminate. }
    destruct (split_at_lf _ _ _ _ _ (eq_sym Hs) Hnot) as [p' ->]. cbn [app match_dir] in H. rewrite Eh in H.
    change (byte_eqb x3c x2d) with false in H. change (byte_eqb x3c x3c) with true in H. change (byte_eqb x2d x2d) with true in H.
    rewrite Ec in H. discriminate H.
  - assert (Hnot : ~ In x0a [h; x3c; x2d; x3e; e]).
    { intros [->|[Hx|[Hx|[Hx|[->|[]]]]]]; try discriminate. }
    destruct (split_at_lf _ _ _ _ _ (eq_sym Hs) Hnot) as [p' ->]. cbn [app match_dir] in H. rewrite Eh in H.
    change (byte_eqb x3c x2d) with false in H. change (byte_eqb x3c x3c) with true in H. change (byte_eqb x2d x2d) with true in H.
    change (byte_eqb (upper x3e) x45) with false in H. change (byte_eqb x3e x3e) with true in H. cbn [andb] in H.
    rewrite Ee in H. discriminate H.
Qed.

(* ---------- the name token ---------- *)

Theorem name_token_relexes alnum b t rn w0 :
  let s := b :: t in
  starts_with slashes s = false -> match_sf s = None -> match_wbit s = None -> match_dir s = None ->
  is_ws b = false -> byte_eqb b x2e = false -> byte_eqb b x3c = false ->
  decode_rune s = (rn, w0) -> is_space_rune rn = false ->
  name_lexes alnum (firstn w0 s ++ scan_name (length s) (skipn w0 s)).
Proof.
  intros s Hsl Hsf Hwb Hdir Hws Hdot Hlab Ed Esp r off.
  set (q0 := firstn w0 s). set (nm := scan_name (length s) (skipn w0 s)). set (full := q0 ++ nm).
  pose proof (decode_rune_width_le s) as Hwle. rewrite Ed in Hwle. cbn [snd] in Hwle.
  pose proof (decode_rune_width_pos b t) as Hwpos. fold s in Hwpos. rewrite Ed in Hwpos. cbn [snd] in Hwpos.
  assert (Hq0 : length q0 = w0) by (subst q0; apply firstn_length_le; exact Hwle).
  assert (Hs : exists rest, s = full ++ rest).
  { exists (skipn (length nm) (skipn w0 s)). subst full. rewrite <- app_assoc.
    rewrite <- (firstn_skipn w0 s) at 1. fold q0. f_equal.
    rewrite <- (firstn_skipn (length nm) (skipn w0 s)) at 1. f_equal. subst nm. symmetry. apply scan_name_prefix. }
  destruct Hs as [rest Hs].
  assert (Hfne : full <> []) by (subst full; destruct q0; [cbn in Hq0; lia|discriminate]).
  assert (Hhead : exists ft, full = b :: ft).
  { subst full q0 s. destruct w0; [lia|]. cbn [firstn app]. eexists; reflexivity. }
  destruct Hhead as [ft Hft].
  unfold lex_step1.
  rewrite (slashes_before_lf full rest r Hfne) by (rewrite <- Hs; exact Hsl).
  rewrite (match_sf_before_lf full rest r) by (rewrite <- Hs; exact Hsf).
  rewrite (match_wbit_before_lf full rest r Hfne) by (rewrite <- Hs; exact Hwb).
  rewrite (match_dir_before_lf full rest r Hfne) by (rewrite <- Hs; exact Hdir).
  assert (Edf : decode_rune (full ++ x0a :: r) = (rn, w0)).
  { rewrite (decode_before_lf full r Hfne). rewrite <- (decode_prefix full rest); [rewrite <- Hs; exact Ed|].
    rewrite <- Hs, Ed. cbn [snd]. subst full. rewrite app_length. lia. }
  assert (Esk : skipn w0 (full ++ x0a :: r) = nm ++ x0a :: r).
  { subst full. rewrite <- app_assoc, skipn_app, Hq0, Nat.sub_diag, (skipn_all2 q0) by lia. reflexivity. }
  assert (Efi : firstn w0 (full ++ x0a :: r) = q0).
  { subst full. rewrite <- app_assoc, firstn_app, Hq0, Nat.sub_diag, (firstn_all2 q0) by lia. cbn [firstn]. apply app_nil_r. }
  assert (Esc : scan_name (length (full ++ x0a :: r)) (nm ++ x0a :: r) = nm).
  { subst nm. apply scan_relex. rewrite app_length. cbn [length]. subst full. rewrite app_length. lia. }
  assert (Esf : skipn (length full) (full ++ x0a :: r) = x0a :: r).
  { rewrite skipn_app, Nat.sub_diag, (skipn_all2 full) by lia. reflexivity. }
  revert Edf Esk Efi Esc Esf. rewrite Hft. cbn [app]. intros Edf Esk Efi Esc Esf.
  rewrite Hws, Hdot, Hlab, Edf, Esp, Esk, Efi, Esc. rewrite <- Hft. fold full. 
  rewrite Hft at 2. rewrite Esf. reflexivity.
Qed.

(* every message-name token of every stream is such a name *)
Definition name_tok_ok (alnum : list Z) (t : token) : Prop := t_typ t = TMsgName -> name_lexes alnum (t_val t).

Lemma step_name_ok alnum st s off : step_all (name_tok_ok alnum) (lex_step1 alnum st s off).
Proof.
  unfold lex_step1, name_tok_ok.
  repeat match goal with
         | |- step_all _ (let '(_, _) := ?x in _) => destruct x eqn:?
         | |- step_all _ (if ?c then _ else _) => destruct c eqn:?
         | |- step_all _ (match ?x with _ => _ end) => destruct x eqn:?
         end; cbn [step_all t_typ t_val mk mkerr];
  try exact I; try (intro Hx; discriminate Hx);
  repeat (apply Forall_cons; [intro Hx; discriminate Hx|]); try apply Forall_nil.
  all: intros _; eapply name_token_relexes; eassumption.
Qed.

Theorem lex_all_name_tokens alnum input : Forall (name_tok_ok alnum) (lex_all alnum input).
Proof. apply lex_from_all. apply step_name_ok. Qed.
