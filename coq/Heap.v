(* Heap.v — an address-level model of the slices that cross the API (C11).
   Objects own private cells; an operation either copies what the caller
   hands in or shares a cell between objects of the pool; an accessor either
   returns a fresh cell or exposes the object's own.  The caller may write to
   every address it ever passed in or got back.  Theorem: when no operation
   exposes or retains (the facts EffectsTie.v establishes on the source), no
   sequence of operations and caller writes changes what any object holds. *)
From Coq Require Import List Arith Lia Bool.
Import ListNotations.

Definition addr := nat.
Definition value := list nat.

Record heap := { next : addr; cell : addr -> value }.
Definition alloc (h : heap) (v : value) : heap * addr :=
  ({| next := S (next h); cell := fun a => if Nat.eqb a (next h) then v else cell h a |}, next h).
Definition write (h : heap) (a : addr) (v : value) : heap :=
  {| next := next h; cell := fun b => if Nat.eqb b a then v else cell h b |}.

(* an object of the pool holds one private slice (system bytes, header, ...) *)
Definition obj := addr.

(* how the library treats slices, as flags taken from the source *)
Record policy := {
  retains_argument : bool;    (* a constructor keeps the caller's slice instead of copying it *)
  exposes_field : bool        (* an accessor returns the object's own slice *)
}.

Inductive op :=
| ONew (arg : addr)                 (* construct from a caller slice *)
| ODerive (o : nat)                 (* producer: a new object sharing the slice of pool object o *)
| OGet (o : nat)                    (* accessor / encoder: the caller receives a slice *)
| OCallerAlloc (v : value)          (* the caller makes a slice *)
| OCallerWrite (k : nat) (v : value)  (* the caller overwrites the k-th address it knows *)
.

Record state := { hp : heap; pool : list obj; known : list addr }.

Definition step (p : policy) (s : state) (o : op) : state :=
  match o with
  | ONew arg =>
    if retains_argument p then {| hp := hp s; pool := pool s ++ [arg]; known := known s |}
    else let '(h', a) := alloc (hp s) (cell (hp s) arg) in
         {| hp := h'; pool := pool s ++ [a]; known := known s |}
  | ODerive i =>
    match nth_error (pool s) i with
    | Some a => {| hp := hp s; pool := pool s ++ [a]; known := known s |}
    | None => s
    end
  | OGet i =>
    match nth_error (pool s) i with
    | Some a =>
      if exposes_field p then {| hp := hp s; pool := pool s; known := known s ++ [a] |}
      else let '(h', b) := alloc (hp s) (cell (hp s) a) in
           {| hp := h'; pool := pool s; known := known s ++ [b] |}
    | None => s
    end
  | OCallerAlloc v =>
    let '(h', a) := alloc (hp s) v in {| hp := h'; pool := pool s; known := known s ++ [a] |}
  | OCallerWrite k v =>
    match nth_error (known s) k with
    | Some a => {| hp := write (hp s) a v; pool := pool s; known := known s |}
    | None => s
    end
  end.

Definition init : state := {| hp := {| next := 0; cell := fun _ => [] |}; pool := []; known := [] |}.
Definition run (p : policy) (ops : list op) : state := fold_left (step p) ops init.

(* what the caller can observe of pool object i *)
Definition observe (s : state) (i : nat) : option value :=
  match nth_error (pool s) i with Some a => Some (cell (hp s) a) | None => None end.

Definition safe_policy : policy := {| retains_argument := false; exposes_field := false |}.

(* invariant: the caller knows no address of the pool, all addresses are allocated *)
Definition Inv (s : state) : Prop :=
  (forall a, In a (pool s) -> ~ In a (known s)) /\
  (forall a, In a (pool s) -> a < next (hp s)) /\
  (forall a, In a (known s) -> a < next (hp s)).

Lemma inv_init : Inv init.
Proof. unfold Inv, init; cbn. repeat split; intros a []. Qed.

Lemma nth_error_in {A} (l : list A) i x : nth_error l i = Some x -> In x l.
Proof. apply nth_error_In. Qed.

Lemma inv_step s o : Inv s -> Inv (step safe_policy s o).
Proof.
  intros (H1 & H2 & H3). destruct o; cbn [step safe_policy retains_argument exposes_field].
  - (* ONew *) unfold alloc; cbn. repeat split; cbn.
    + intros a Ha Hk. apply in_app_or in Ha as [Ha|[<-|[]]]; [exact (H1 a Ha Hk)|]. apply H3 in Hk. lia.
    + intros a Ha. apply in_app_or in Ha as [Ha|[<-|[]]]; [apply H2 in Ha; lia|lia].
    + intros a Ha. apply H3 in Ha. lia.
  - (* ODerive *) destruct (nth_error (pool s) o) as [a|] eqn:E; [|repeat split; assumption].
    apply nth_error_in in E. repeat split; cbn.
    + intros b Hb Hk. apply in_app_or in Hb as [Hb|[<-|[]]]; [exact (H1 b Hb Hk)|exact (H1 a E Hk)].
    + intros b Hb. apply in_app_or in Hb as [Hb|[<-|[]]]; [exact (H2 b Hb)|exact (H2 a E)].
    + exact H3.
  - (* OGet *) destruct (nth_error (pool s) o) as [a|] eqn:E; [|repeat split; assumption].
    unfold alloc; cbn. repeat split; cbn.
    + intros b Hb Hk. apply in_app_or in Hk as [Hk|[<-|[]]]; [exact (H1 b Hb Hk)|]. apply H2 in Hb. lia.
    + intros b Hb. apply H2 in Hb. lia.
    + intros b Hb. apply in_app_or in Hb as [Hb|[<-|[]]]; [apply H3 in Hb; lia|lia].
  - (* OCallerAlloc *) unfold alloc; cbn. repeat split; cbn.
    + intros b Hb Hk. apply in_app_or in Hk as [Hk|[<-|[]]]; [exact (H1 b Hb Hk)|]. apply H2 in Hb. lia.
    + intros b Hb. apply H2 in Hb. lia.
    + intros b Hb. apply in_app_or in Hb as [Hb|[<-|[]]]; [apply H3 in Hb; lia|lia].
  - (* OCallerWrite *) destruct (nth_error (known s) k) as [a|] eqn:E; [|repeat split; assumption].
    repeat split; cbn; assumption.
Qed.

(* one step never changes what an existing object holds *)
Lemma observe_step s o i v : Inv s -> observe s i = Some v -> observe (step safe_policy s o) i = Some v.
Proof.
  intros (H1 & H2 & H3) Hobs. unfold observe in *.
  destruct (nth_error (pool s) i) as [a|] eqn:E; [|discriminate]. inversion Hobs; subst v. clear Hobs.
  pose proof (nth_error_in _ _ _ E) as Hin. pose proof (H2 a Hin) as Hlt.
  destruct o; cbn [step safe_policy retains_argument exposes_field].
  - unfold alloc; cbn. rewrite nth_error_app1 by (apply nth_error_Some; congruence). rewrite E.
    destruct (Nat.eqb_spec a (next (hp s))); [lia|reflexivity].
  - destruct (nth_error (pool s) o) as [b|]; cbn; [rewrite nth_error_app1 by (apply nth_error_Some; congruence)|]; rewrite E; reflexivity.
  - destruct (nth_error (pool s) o) as [b|]; cbn; [|rewrite E; reflexivity].
    rewrite E. destruct (Nat.eqb_spec a (next (hp s))); [lia|reflexivity].
  - unfold alloc; cbn. rewrite E. destruct (Nat.eqb_spec a (next (hp s))); [lia|reflexivity].
  - destruct (nth_error (known s) k) as [b|] eqn:Ek; cbn; [|rewrite E; reflexivity].
    rewrite E. destruct (Nat.eqb_spec a b) as [->|]; [|reflexivity].
    exfalso. exact (H1 b Hin (nth_error_in _ _ _ Ek)).
Qed.

Lemma inv_run_from s ops : Inv s -> Inv (fold_left (step safe_policy) ops s).
Proof. revert s; induction ops as [|o ops IH]; intros s H; [exact H|]. cbn. apply IH, inv_step, H. Qed.

(* C11 on the heap model: every object, once created, is observed the same
   after any further sequence of library calls and caller writes *)
Theorem objects_never_change ops1 ops2 i v :
  observe (run safe_policy ops1) i = Some v ->
  observe (run safe_policy (ops1 ++ ops2)) i = Some v.
Proof.
  unfold run. rewrite fold_left_app. generalize (inv_run_from init ops1 inv_init).
  generalize (fold_left (step safe_policy) ops1 init). intros s Hinv Hobs.
  revert s Hinv Hobs. induction ops2 as [|o ops IH]; intros s Hinv Hobs; [exact Hobs|].
  cbn. apply IH; [apply inv_step; exact Hinv|apply observe_step; assumption].
Qed.

(* the two ways to lose it, as refutations: each is a concrete history *)
Example exposure_breaks :
  let p := {| retains_argument := false; exposes_field := true |} in
  let ops := [OCallerAlloc [1; 2; 3; 4]; ONew 0; OGet 0] in
  observe (run p ops) 0 = Some [1; 2; 3; 4] /\
  observe (run p (ops ++ [OCallerWrite 1 [99]])) 0 = Some [99].
Proof. split; reflexivity. Qed.

Example retention_breaks :
  let p := {| retains_argument := true; exposes_field := false |} in
  let ops := [OCallerAlloc [1; 2; 3; 4]; ONew 0] in
  observe (run p ops) 0 = Some [1; 2; 3; 4] /\
  observe (run p (ops ++ [OCallerWrite 0 [99]])) 0 = Some [99].
Proof. split; reflexivity. Qed.
