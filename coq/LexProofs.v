(* LexProofs.v — invariants of the lexer (C06): every step consumes input, so
   the fuel never runs out and the token stream ends in EOF or an error token;
   a direction token is one of the three directions; a message-name token
   holds no Unicode space. *)
From Secs Require Import Ast Utf8 Msg Lexer.
Open Scope Z_scope.

(* ---------- utf8.DecodeRune ---------- *)

Lemma decode_rune_width_pos b s : (1 <= snd (decode_rune (b :: s)))%nat.
Proof.
  cbn [decode_rune].
  repeat match goal with
         | |- context [if ?c then _ else _] => destruct c
         | |- context [match ?l with [] => _ | _ :: _ => _ end] => destruct l
         end; cbn [snd]; lia.
Qed.

Lemma decode_rune_width_le s : (snd (decode_rune s) <= length s)%nat.
Proof.
  destruct s as [|b0 s]; [cbn; lia|]. cbn [decode_rune].
  repeat match goal with
         | |- context [if ?c then _ else _] => destruct c
         | |- context [match ?l with [] => _ | _ :: _ => _ end] => destruct l
         end; cbn [snd length]; lia.
Qed.

(* the decoder looks at no byte beyond the width it reports — except to find
   out that a sequence is invalid, and then it reports width 1 whatever follows
   in a shorter prefix too *)
Lemma decode_rune_firstn s n : (snd (decode_rune s) <= n)%nat -> decode_rune (firstn n s) = decode_rune s.
Proof.
  destruct s as [|b0 s]; [intros _; destruct n; reflexivity|].
  destruct n as [|n]; [intro H; pose proof (decode_rune_width_pos b0 s); lia|].
  cbn [firstn decode_rune].
  destruct (b2z b0 <? 128); [reflexivity|].
  destruct (in_range 194 223 (b2z b0)).
  { destruct s as [|b1 s]; [destruct n; reflexivity|].
    destruct n as [|n]; cbn [firstn]; [destruct (is_cont b1); cbn [snd]; [lia|reflexivity]|reflexivity]. }
  destruct (in_range 224 239 (b2z b0)).
  { destruct s as [|b1 [|b2 s]]; [destruct n; reflexivity|destruct n as [|[|n]]; reflexivity|].
    destruct n as [|[|n]]; cbn [firstn];
      match goal with |- context [if ?c then _ else _] => destruct c end; cbn [snd]; try lia; reflexivity. }
  destruct (in_range 240 244 (b2z b0)); [|reflexivity].
  destruct s as [|b1 [|b2 [|b3 s]]];
    [destruct n; reflexivity|destruct n as [|[|n]]; reflexivity|destruct n as [|[|[|n]]]; reflexivity|].
  destruct n as [|[|[|n]]]; cbn [firstn];
    match goal with |- context [if ?c then _ else _] => destruct c end; cbn [snd]; try lia; reflexivity.
Qed.

Lemma firstn_app_prefix {A} (n : nat) (s : list A) m :
  (n <= length s)%nat -> firstn n s ++ firstn m (skipn n s) = firstn (n + m) s.
Proof.
  revert s; induction n as [|n IH]; intros s H; [reflexivity|].
  destruct s as [|a s]; [cbn in H; lia|]. cbn [firstn skipn app Nat.add]. f_equal. apply IH. cbn in H. lia.
Qed.

(* ---------- the name scanner ---------- *)

Lemma scan_name_prefix g t : scan_name g t = firstn (length (scan_name g t)) t.
Proof.
  revert t; induction g as [|g IH]; intro t; [reflexivity|]. cbn [scan_name].
  destruct t as [|b t]; [reflexivity|].
  destruct (starts_with slashes (b :: t)); [reflexivity|].
  destruct (decode_rune (b :: t)) as [rn w] eqn:E.
  destruct (is_space_rune rn); [reflexivity|].
  pose proof (decode_rune_width_le (b :: t)) as Hw. rewrite E in Hw. cbn [snd] in Hw.
  rewrite app_length, firstn_length_le by exact Hw.
  rewrite <- firstn_app_prefix by exact Hw. f_equal. apply IH.
Qed.

(* a chunk that decodes to a non-space rune, followed by a prefix of what comes
   after it with no space rune, has no space rune *)
Lemma runes_chunk F t rn w m :
  t <> [] -> decode_rune t = (rn, w) ->
  runes_fuel (S F) (firstn w t ++ firstn m (skipn w t)) = rn :: runes_fuel F (firstn m (skipn w t)).
Proof.
  intros Hne E.
  pose proof (decode_rune_width_le t) as Hw. rewrite E in Hw. cbn [snd] in Hw.
  assert (Hpos : (1 <= w)%nat).
  { destruct t as [|b t]; [congruence|]. pose proof (decode_rune_width_pos b t) as H. rewrite E in H. exact H. }
  cbn [runes_fuel].
  destruct (firstn w t ++ firstn m (skipn w t)) as [|c r] eqn:Ec.
  { exfalso. destruct t as [|b t]; [congruence|]. destruct w; [lia|]. discriminate. }
  rewrite <- Ec. rewrite firstn_app_prefix by exact Hw.
  rewrite decode_rune_firstn by (rewrite E; cbn [snd]; lia). rewrite E.
  f_equal. rewrite <- firstn_app_prefix by exact Hw.
  rewrite skipn_app, firstn_length_le by exact Hw. rewrite Nat.sub_diag. cbn [skipn].
  rewrite skipn_all2 by (rewrite firstn_length_le by exact Hw; lia). reflexivity.
Qed.

Lemma scan_name_no_space g : forall t F, existsb is_space_rune (runes_fuel F (scan_name g t)) = false.
Proof.
  induction g as [|g IH]; intros t F; [destruct F; reflexivity|]. cbn [scan_name].
  destruct t as [|b t]; [destruct F; reflexivity|].
  destruct (starts_with slashes (b :: t)); [destruct F; reflexivity|].
  destruct (decode_rune (b :: t)) as [rn w] eqn:E.
  destruct (is_space_rune rn) eqn:Es; [destruct F; reflexivity|].
  destruct F as [|F]; [reflexivity|].
  rewrite (scan_name_prefix g (skipn w (b :: t))).
  rewrite (runes_chunk F (b :: t) rn w) by (congruence || exact E).
  cbn [existsb]. rewrite Es. cbn [orb]. rewrite <- scan_name_prefix. apply IH.
Qed.

(* the message-name token of the header state *)
Lemma name_token_no_space s rn w :
  s <> [] -> decode_rune s = (rn, w) -> is_space_rune rn = false ->
  has_space_rune (firstn w s ++ scan_name (length s) (skipn w s)) = false.
Proof.
  intros Hne E Es. unfold has_space_rune, runes.
  pose proof (decode_rune_width_le s) as Hw. rewrite E in Hw. cbn [snd] in Hw.
  assert (Hpos : (1 <= w)%nat).
  { destruct s as [|b t]; [congruence|]. pose proof (decode_rune_width_pos b t) as H. rewrite E in H. exact H. }
  rewrite app_length, firstn_length_le by exact Hw.
  destruct w as [|w']; [lia|]. cbn [Nat.add].
  rewrite (scan_name_prefix (length s) (skipn (S w') s)).
  rewrite (runes_chunk _ s rn (S w')) by assumption.
  cbn [existsb]. rewrite Es. cbn [orb]. rewrite <- scan_name_prefix. apply scan_name_no_space.
Qed.

(* ---------- the prefix matchers consume what they match ---------- *)

Lemma span_eq p s a c : span p s = (a, c) -> s = a ++ c.
Proof.
  revert a c; induction s as [|b s IH]; intros a c H; cbn in H; [inversion H; reflexivity|].
  destruct (p b); [|inversion H; reflexivity].
  destruct (span p s) as [a' c'] eqn:E. inversion H; subst. cbn. f_equal. apply IH. reflexivity.
Qed.

Definition consumes (s m r : bytes) : Prop := s = m ++ r /\ m <> [].

Lemma consumes_lt s m r : consumes s m r -> (length r < length s)%nat.
Proof. intros [-> H]. rewrite app_length. destruct m; [congruence|cbn; lia]. Qed.

Lemma match_sf_consumes s m r : match_sf s = Some (m, r) -> consumes s m r.
Proof.
  unfold match_sf. destruct s as [|c s]; [discriminate|].
  destruct (byte_eqb (upper c) x53); [|discriminate].
  destruct (span is_digit s) as [d1 r1] eqn:E1. apply span_eq in E1. subst s.
  destruct d1 as [|x d1]; [discriminate|]. destruct r1 as [|f r2]; [discriminate|].
  destruct (byte_eqb (upper f) x46); [|discriminate].
  destruct (span is_digit r2) as [d2 r3] eqn:E2. apply span_eq in E2. subst r2.
  destruct d2 as [|y d2]; [discriminate|]. intro H; inversion H; subst. split; [|discriminate].
  cbn. rewrite <- !app_assoc. reflexivity.
Qed.

Lemma match_wbit_consumes s m r : match_wbit s = Some (m, r) -> consumes s m r.
Proof.
  unfold match_wbit. destruct s as [|c s]; [discriminate|].
  destruct (byte_eqb (upper c) x57); [intro H; inversion H; split; [reflexivity|discriminate]|].
  destruct (byte_eqb c x5b); [|discriminate].
  destruct s as [|w [|e s]]; try discriminate.
  destruct (byte_eqb (upper w) x57 && byte_eqb e x5d); [|discriminate].
  intro H; inversion H; split; [reflexivity|discriminate].
Qed.

Lemma match_dir_consumes s m r : match_dir s = Some (m, r) -> consumes s m r.
Proof.
  unfold match_dir. destruct s as [|h s]; [discriminate|].
  destruct (byte_eqb (upper h) x48); [|discriminate].
  destruct s as [|a [|b [|c s]]]; try discriminate.
  destruct (byte_eqb a x2d && byte_eqb b x3e && byte_eqb (upper c) x45); [intro H; inversion H; split; [reflexivity|discriminate]|].
  destruct (byte_eqb a x3c && byte_eqb b x2d && byte_eqb (upper c) x45); [intro H; inversion H; split; [reflexivity|discriminate]|].
  destruct (byte_eqb a x3c && byte_eqb b x2d && byte_eqb c x3e); [|discriminate].
  destruct s as [|e s]; [discriminate|]. destruct (byte_eqb (upper e) x45); [|discriminate].
  intro H; inversion H; split; [reflexivity|discriminate].
Qed.

Lemma match_index_consumes s m r : match_index s = Some (m, r) -> consumes s m r.
Proof.
  unfold match_index. destruct s as [|o s]; [discriminate|].
  destruct (byte_eqb o x5b); [|discriminate].
  destruct (span is_digit s) as [d r1] eqn:E. apply span_eq in E. subst s.
  destruct d as [|x d]; [discriminate|]. destruct r1 as [|c r2]; [discriminate|].
  destruct (byte_eqb c x5d); [|discriminate]. intro H; inversion H; subst. split; [|discriminate].
  cbn. rewrite <- !app_assoc. reflexivity.
Qed.

Lemma match_indices_eq f : forall s m r, match_indices f s = (m, r) -> s = m ++ r.
Proof.
  induction f as [|f IH]; intros s m r H; cbn in H; [inversion H; reflexivity|].
  destruct (match_index s) as [[m1 r1]|] eqn:E; [|inversion H; reflexivity].
  destruct (match_indices f r1) as [m2 r2] eqn:E2. inversion H; subst.
  apply match_index_consumes in E as [-> _]. rewrite (IH _ _ _ E2), app_assoc. reflexivity.
Qed.

Lemma match_ellipsis_consumes s m r : match_ellipsis s = Some (m, r) -> consumes s m r.
Proof.
  unfold match_ellipsis. destruct s as [|a [|b [|c s]]]; try discriminate.
  destruct (byte_eqb a x2e && byte_eqb b x2e && byte_eqb c x2e); [|discriminate].
  destruct (match_index s) as [[m1 r1]|] eqn:E; intro H; inversion H; subst; (split; [|discriminate]); [|reflexivity].
  apply match_index_consumes in E as [-> _]. reflexivity.
Qed.

Lemma match_ident_consumes s m r : match_ident s = Some (m, r) -> consumes s m r.
Proof.
  unfold match_ident. destruct s as [|c s]; [discriminate|]. destruct (is_alpha_ c); [|discriminate].
  destruct (span is_word s) as [w r'] eqn:E. apply span_eq in E. subst s.
  intro H; inversion H; subst. split; [reflexivity|discriminate].
Qed.

(* the direction token, in upper case, is one of the three directions *)
Lemma upper_eq c k : byte_eqb (upper c) k = true -> upper c = k.
Proof. apply byte_eqb_spec. Qed.

Lemma match_dir_ok s m r : match_dir s = Some (m, r) -> dir_ok (to_upper m) = true.
Proof.
  unfold match_dir. destruct s as [|h s]; [discriminate|].
  destruct (byte_eqb (upper h) x48) eqn:Eh; [|discriminate]. apply upper_eq in Eh.
  destruct s as [|a [|b [|c s]]]; try discriminate.
  destruct (byte_eqb a x2d && byte_eqb b x3e && byte_eqb (upper c) x45) eqn:E1.
  { apply andb_true_iff in E1 as [E1 Ec]. apply andb_true_iff in E1 as [Ea Eb].
    apply byte_eqb_spec in Ea, Eb. apply upper_eq in Ec. subst a b.
    intro H; inversion H; subst. cbn [to_upper map]. rewrite Eh, Ec. reflexivity. }
  destruct (byte_eqb a x3c && byte_eqb b x2d && byte_eqb (upper c) x45) eqn:E2.
  { apply andb_true_iff in E2 as [E2 Ec]. apply andb_true_iff in E2 as [Ea Eb].
    apply byte_eqb_spec in Ea, Eb. apply upper_eq in Ec. subst a b.
    intro H; inversion H; subst. cbn [to_upper map]. rewrite Eh, Ec. reflexivity. }
  destruct (byte_eqb a x3c && byte_eqb b x2d && byte_eqb c x3e) eqn:E3; [|discriminate].
  apply andb_true_iff in E3 as [E3 Ec]. apply andb_true_iff in E3 as [Ea Eb].
  apply byte_eqb_spec in Ea, Eb, Ec. subst a b c.
  destruct s as [|e s]; [discriminate|]. destruct (byte_eqb (upper e) x45) eqn:Ee; [|discriminate]. apply upper_eq in Ee.
  intro H; inversion H; subst. cbn [to_upper map]. rewrite Eh, Ee. reflexivity.
Qed.

(* ---------- the sub-states consume what they return ---------- *)

Lemma rtrim_ws_eq l : forall k t, rtrim_ws l = (k, t) -> l = rev_append t [] ++ k /\ (Forall (fun b => is_ws_nolf b = true) t).
Proof.
  induction l as [|b l IH]; intros k t H; cbn in H; [inversion H; split; [reflexivity|constructor]|].
  destruct (is_ws_nolf b) eqn:Eb; [|inversion H; split; [reflexivity|constructor]].
  destruct (rtrim_ws l) as [k' t'] eqn:E. inversion H; subst. destruct (IH _ _ eq_refl) as [-> Ht].
  split.
  - rewrite !rev_append_rev, !app_nil_r, rev_app_distr. reflexivity.
  - apply Forall_app. split; [exact Ht|constructor; [exact Eb|constructor]].
Qed.

Lemma starts_with_slashes s : starts_with slashes s = true -> exists r, s = x2f :: x2f :: r.
Proof.
  destruct s as [|a [|b r]]; [discriminate| |].
  - change (starts_with slashes [a]) with (byte_eqb x2f a && false). rewrite andb_false_r. discriminate.
  - change (starts_with slashes (a :: b :: r)) with (byte_eqb x2f a && (byte_eqb x2f b && true)).
    rewrite andb_true_r. intro H. apply andb_true_iff in H as [Ha Hb].
    apply byte_eqb_spec in Ha, Hb. subst. eexists. reflexivity.
Qed.

(* a comment that does not reach the end of the input leaves strictly less input *)
Lemma lex_comment_progress s c r : starts_with slashes s = true -> lex_comment s = (c, r, false) ->
  (length r < length s)%nat /\ c <> [].
Proof.
  intros Hs H. apply starts_with_slashes in Hs as [s' ->]. unfold lex_comment in H.
  destruct (span (fun b => negb (byte_eqb b x0a)) (x2f :: x2f :: s')) as [line rest] eqn:E.
  pose proof (span_eq _ _ _ _ E) as Heq.
  assert (Hl : exists l', line = x2f :: x2f :: l').
  { cbn in E. destruct (span (fun b => negb (byte_eqb b x0a)) s') as [a c']. inversion E. eexists. reflexivity. }
  destruct Hl as [l' ->].
  destruct rest as [|b rest]; [inversion H|].
  destruct (rtrim_ws (rev_append (x2f :: x2f :: l') [])) as [k t] eqn:Et. inversion H; subst c r. clear H.
  apply rtrim_ws_eq in Et as [Et Hws].
  (* the line, reversed, is trimmed blanks then the kept part; the two slashes are not blanks, so they are kept *)
  rewrite !rev_append_rev, !app_nil_r in *. 
  assert (Hlen : (length (x2f :: x2f :: l') = length t + length k)%nat).
  { rewrite <- (rev_length (x2f :: x2f :: l')), Et, app_length, rev_length. reflexivity. }
  assert (Hk : (2 <= length k)%nat).
  { (* the last two elements of the reversed line are the slashes *)
    assert (Hrev : rev (x2f :: x2f :: l') = rev l' ++ [x2f; x2f]).
    { cbn [rev]. rewrite <- !app_assoc. reflexivity. }
    rewrite Hrev in Et. clear Hrev Hlen Heq E.
    destruct k as [|k1 [|k2 k]]; cbn [length]; try lia; exfalso.
    - rewrite app_nil_r in Et.
      assert (Hin : In x2f (rev t)) by (rewrite <- Et; apply in_or_app; right; left; reflexivity).
      apply in_rev in Hin. rewrite Forall_forall in Hws. specialize (Hws _ Hin). discriminate.
    - assert (E2 : rev l' ++ [x2f] ++ [x2f] = rev t ++ [k1]) by exact Et.
      rewrite app_assoc in E2. apply app_inj_tail in E2 as [E2 _].
      assert (Hin : In x2f (rev t)) by (rewrite <- E2; apply in_or_app; right; left; reflexivity).
      apply in_rev in Hin. rewrite Forall_forall in Hws. specialize (Hws _ Hin). discriminate. }
  split.
  - rewrite Heq, !app_length. rewrite Hlen. cbn [length]. lia.
  - intro Hn. apply (f_equal (@length byte)) in Hn. rewrite rev_length in Hn. cbn in Hn. lia.
Qed.

Lemma accept1_eq p s a r : accept1 p s = (a, r) -> s = a ++ r.
Proof.
  unfold accept1. destruct s as [|b s]; [intro H; inversion H; reflexivity|].
  destruct (p b); intro H; inversion H; reflexivity.
Qed.

Lemma lex_number_eq alnum s txt r ok : lex_number alnum s = (txt, r, ok) -> s = txt ++ r.
Proof.
  unfold lex_number.
  destruct (accept1 _ s) as [sg r0] eqn:E0. apply accept1_eq in E0. subst s.
  destruct (accept1 _ r0) as [z r1] eqn:E1. apply accept1_eq in E1. subst r0.
  set (P := match z with [] => _ | _ => _ end).
  assert (HP : let '(pre, digits, r2) := P in r1 = pre ++ r2).
  { subst P. destruct z; [reflexivity|]. destruct r1 as [|c r']; [reflexivity|].
    destruct (byte_eqb (upper c) x58); [reflexivity|]. destruct (byte_eqb (upper c) x42); [reflexivity|].
    destruct (byte_eqb (upper c) x4f); reflexivity. }
  destruct P as [[pre digits] r2]. subst r1.
  destruct (span digits r2) as [ds r3] eqn:E3. apply span_eq in E3. subst r2.
  destruct (accept1 _ r3) as [dot r4] eqn:E4. apply accept1_eq in E4. subst r3.
  set (Q := match dot with [] => _ | _ => _ end).
  assert (HQ : let '(fr, r5) := Q in r4 = fr ++ r5).
  { subst Q. destruct dot; [reflexivity|]. destruct (span digits r4) as [a c] eqn:E. apply span_eq in E. exact E. }
  destruct Q as [fr r5]. subst r4.
  destruct (accept1 _ r5) as [e r6] eqn:E6. apply accept1_eq in E6. subst r5.
  set (R := match e with [] => ([], r6) | _ => accept1 _ r6 end).
  assert (HR : let '(esg, r7) := R in r6 = esg ++ r7).
  { subst R. destruct e; [reflexivity|]. destruct (accept1 _ r6) as [a c] eqn:E. apply accept1_eq in E. exact E. }
  destruct R as [esg r7]. subst r6.
  set (T := match e with [] => ([], r7) | _ => span is_digit r7 end).
  assert (HT : let '(eds, r8) := T in r7 = eds ++ r8).
  { subst T. destruct e; [reflexivity|]. destruct (span is_digit r7) as [a c] eqn:E. apply span_eq in E. exact E. }
  destruct T as [eds r8]. subst r7.
  destruct r8 as [|c r8].
  - intro H; inversion H; subst. rewrite <- !app_assoc. reflexivity.
  - destruct (decode_rune (c :: r8)) as [rn w]. destruct (is_alnum_rune alnum rn); intro H; inversion H; subst.
    + rewrite <- !app_assoc. rewrite (firstn_skipn w (c :: r8)). reflexivity.
    + rewrite <- !app_assoc. reflexivity.
Qed.

Definition numstart (b : byte) (r : bytes) : bool :=
  byte_eqb b x2b || byte_eqb b x2d || is_digit b ||
  (byte_eqb b x2e && match r with d :: _ => is_digit d | [] => false end).

Lemma digit_not_special b : is_digit b = true ->
  byte_eqb b x2b = false /\ byte_eqb b x2d = false /\ byte_eqb b x2e = false.
Proof.
  intro H. repeat split; destruct (byte_eqb b _) eqn:E; try reflexivity; apply byte_eqb_spec in E; subst b; discriminate.
Qed.

Lemma lex_number_nonempty alnum b s' txt r ok :
  numstart b s' = true -> lex_number alnum (b :: s') = (txt, r, ok) -> txt <> [].
Proof.
  intros Hn. unfold lex_number.
  destruct (accept1 (fun b0 => byte_eqb b0 x2b || byte_eqb b0 x2d) (b :: s')) as [sg r0] eqn:E0.
  destruct (accept1 (fun b0 => byte_eqb b0 x30) r0) as [z r1] eqn:E1.
  set (P := match z with [] => _ | _ => _ end).
  assert (HP : z = [] -> P = ([], is_digit, r1)).
  { subst P. intros ->. reflexivity. }
  destruct P as [[pre digits] r2].
  destruct (span digits r2) as [ds r3] eqn:E3.
  destruct (accept1 (fun b0 => byte_eqb b0 x2e) r3) as [dot r4] eqn:E4.
  set (Q := match dot with [] => _ | _ => _ end). destruct Q as [fr r5].
  destruct (accept1 _ r5) as [e r6].
  set (R := match e with [] => ([], r6) | _ => accept1 _ r6 end). destruct R as [esg r7].
  set (T := match e with [] => ([], r7) | _ => span is_digit r7 end). destruct T as [eds r8].
  assert (Hne : sg ++ z ++ pre ++ ds ++ dot ++ fr ++ e ++ esg ++ eds <> []).
  { unfold accept1 in E0. destruct (byte_eqb b x2b || byte_eqb b x2d) eqn:Es.
    { inversion E0; subst. discriminate. }
    inversion E0; subst sg r0. clear E0. cbn [app].
    unfold accept1 in E1. destruct (byte_eqb b x30) eqn:Ez.
    { inversion E1; subst. discriminate. }
    inversion E1; subst z r1. clear E1. specialize (HP eq_refl). inversion HP; subst pre digits r2. clear HP. cbn [app].
    unfold numstart in Hn. rewrite Es in Hn. cbn [orb] in Hn.
    destruct (is_digit b) eqn:Ed.
    { cbn [span] in E3. rewrite Ed in E3. destruct (span is_digit s') as [a c]. inversion E3; subst.
      discriminate. }
    cbn [orb] in Hn. apply andb_true_iff in Hn as [Hdot _].
    cbn [span] in E3. rewrite Ed in E3. inversion E3; subst ds r3. clear E3.
    unfold accept1 in E4. rewrite Hdot in E4. inversion E4; subst. discriminate. }
  destruct r8 as [|c r8]; [intro H; inversion H; subst; exact Hne|].
  destruct (decode_rune (c :: r8)) as [rn w]. destruct (is_alnum_rune alnum rn); intro H; inversion H; subst; [|exact Hne].
  intro Hx. apply app_eq_nil in Hx as [Hx _]. exact (Hne Hx).
Qed.

Lemma lex_size_consumes s raw r : lex_size s = Some (raw, r) -> consumes s raw r.
Proof.
  unfold lex_size. destruct s as [|o s]; [discriminate|].
  destruct (span is_ws s) as [w1 r1] eqn:E1. apply span_eq in E1. subst s.
  destruct (span is_digit r1) as [d1 r2] eqn:E2. apply span_eq in E2. subst r1.
  set (P := match d1 with [] => ([], r2) | _ => span is_ws r2 end).
  assert (HP : let '(w2, r3) := P in r2 = w2 ++ r3).
  { subst P. destruct d1; [reflexivity|]. destruct (span is_ws r2) as [a c] eqn:E. apply span_eq in E. exact E. }
  destruct P as [w2 r3]. subst r2.
  set (Q := if starts_with [x2e; x2e] r3 then _ else _).
  assert (HQ : let '(dd, w3, d2, w4, r4) := Q in r3 = dd ++ w3 ++ d2 ++ w4 ++ r4).
  { subst Q. destruct (starts_with [x2e; x2e] r3) eqn:Es; [|reflexivity].
    assert (Hr3 : exists t, r3 = x2e :: x2e :: t).
    { destruct r3 as [|a [|b t]]; [discriminate| |].
      - change (starts_with [x2e; x2e] [a]) with (byte_eqb x2e a && false) in Es. rewrite andb_false_r in Es. discriminate.
      - change (starts_with [x2e; x2e] (a :: b :: t)) with (byte_eqb x2e a && (byte_eqb x2e b && true)) in Es.
        rewrite andb_true_r in Es. apply andb_true_iff in Es as [Ha Hb]. apply byte_eqb_spec in Ha, Hb. subst. eexists; reflexivity. }
    destruct Hr3 as [t ->]. cbn [skipn].
    destruct (span is_ws t) as [w3 r5] eqn:E5. apply span_eq in E5. subst t.
    destruct (span is_digit r5) as [d2 r6] eqn:E6. apply span_eq in E6. subst r5.
    set (W := match d2 with [] => ([], r6) | _ => span is_ws r6 end).
    assert (HW : let '(w4, r7) := W in r6 = w4 ++ r7).
    { subst W. destruct d2; [reflexivity|]. destruct (span is_ws r6) as [a c] eqn:E. apply span_eq in E. exact E. }
    destruct W as [w4 r7]. subst r6. reflexivity. }
  destruct Q as [[[[dd w3] d2] w4] r4]. subst r3.
  destruct r4 as [|c r5]; [discriminate|].
  destruct (byte_eqb c x5d && negb (is_nil d1 && is_nil d2)); [|discriminate].
  intro H; inversion H; subst. split; [|discriminate]. cbn [app]. rewrite <- !app_assoc. reflexivity.
Qed.

Lemma lex_quoted_consumes s q r : lex_quoted s = Some (q, r) -> consumes s q r.
Proof.
  unfold lex_quoted. destruct s as [|c s]; [discriminate|].
  destruct (span (fun b => negb (byte_eqb b x22)) s) as [body r1] eqn:E. apply span_eq in E. subst s.
  destruct r1 as [|d r2]; [discriminate|].
  destruct (existsb _ body); [discriminate|]. intro H; inversion H; subst. split; [|discriminate].
  cbn [app]. rewrite <- !app_assoc. reflexivity.
Qed.

(* ---------- one step of the lexer ---------- *)

Definition tok_ok (t : token) : Prop :=
  (t_typ t = TDirection -> dir_ok (t_val t) = true) /\
  (t_typ t = TMsgName -> has_space_rune (t_val t) = false) /\
  (t_typ t = TItemType -> mem_bytes (t_val t) item_types = true) /\
  (t_typ t = TVariable -> is_ellipsis (t_val t) = false).
Definition final (t : token) : Prop := t_typ t = TEOF \/ t_typ t = TError.

Lemma tok_ok_other ty v off : ty <> TDirection -> ty <> TMsgName -> ty <> TItemType -> ty <> TVariable -> tok_ok (mk ty v off).
Proof. intros H1 H2 H3 H4. repeat split; cbn; intro H; congruence. Qed.

(* a variable name starts with a letter or '_': it is not an ellipsis *)
Lemma alpha_not_ellipsis c x : is_alpha_ c = true -> is_ellipsis (c :: x) = false.
Proof.
  intro H. destruct x as [|a [|b x]]; try reflexivity. cbn [is_ellipsis].
  destruct (byte_eqb c x2e) eqn:E; [|reflexivity]. apply byte_eqb_spec in E. subst c. discriminate.
Qed.
Lemma tok_ok_err e v off : tok_ok (mkerr e v off).
Proof. repeat split; cbn; intro H; discriminate. Qed.

Section Shape.
Variable alnum : list Z.

(* what one step does: a token and strictly less input, or strictly less
   input, or the end of the stream *)
Inductive shape (s : bytes) : lstep -> Prop :=
| Sh_emit tok st' r off' : (length r < length s)%nat -> tok_ok tok -> ~ final tok -> shape s (LEmit tok st' r off')
| Sh_skip st' r off' : (length r < length s)%nat -> shape s (LSkip st' r off')
| Sh_final pre tok : Forall tok_ok pre -> Forall (fun t => ~ final t) pre -> tok_ok tok -> final tok -> shape s (LStop (pre ++ [tok])).

Ltac other := apply tok_ok_other; discriminate.
Ltac notfinal := let H := fresh in intros [H|H]; discriminate H.
Ltac fin1 tok := change [tok] with ([] ++ [tok]); apply Sh_final; [constructor|constructor| |].

Lemma lex_step st s off : shape s (lex_step1 alnum st s off).
Proof.
  unfold lex_step1.
  destruct (starts_with slashes s) eqn:Esl.
  { destruct (lex_comment s) as [[c r] at_end] eqn:Ec. destruct at_end.
    - change [mk TComment c off; mk TEOF (B"EOF"%string) (off + zlen c)]
        with ([mk TComment c off] ++ [mk TEOF (B"EOF"%string) (off + zlen c)]).
      apply Sh_final; [constructor; [other|constructor]|constructor; [notfinal|constructor]|other|left; reflexivity].
    - apply Sh_emit; [apply (lex_comment_progress s c r Esl Ec)|other|notfinal]. }
  destruct st.
  - (* header *)
    destruct (match_sf s) as [[m r]|] eqn:E1.
    { apply Sh_emit; [apply (consumes_lt _ _ _ (match_sf_consumes _ _ _ E1))|other|notfinal]. }
    destruct (match_wbit s) as [[m r]|] eqn:E2.
    { apply Sh_emit; [apply (consumes_lt _ _ _ (match_wbit_consumes _ _ _ E2))|other|notfinal]. }
    destruct (match_dir s) as [[m r]|] eqn:E3.
    { apply Sh_emit; [apply (consumes_lt _ _ _ (match_dir_consumes _ _ _ E3))| |notfinal].
      repeat split; cbn; intro H; [apply (match_dir_ok _ _ _ E3)|discriminate|discriminate|discriminate]. }
    destruct s as [|b r].
    { fin1 (mk TEOF (B"EOF"%string) off); [other|left; reflexivity]. }
    destruct (is_ws b).
    { apply Sh_skip. cbn. lia. }
    destruct (byte_eqb b x2e).
    { apply Sh_emit; [cbn; lia|other|notfinal]. }
    destruct (byte_eqb b x3c).
    { apply Sh_emit; [cbn; lia|other|notfinal]. }
    destruct (decode_rune (b :: r)) as [r0 w0] eqn:Ed.
    pose proof (decode_rune_width_pos b r) as Hpos. rewrite Ed in Hpos. cbn [snd] in Hpos.
    pose proof (decode_rune_width_le (b :: r)) as Hle. rewrite Ed in Hle. cbn [snd] in Hle.
    destruct (is_space_rune r0) eqn:Esp.
    { apply Sh_skip. rewrite skipn_length. cbn [length] in *. lia. }
    apply Sh_emit; [| |notfinal].
    + rewrite skipn_length, app_length, firstn_length_le by exact Hle. cbn [length] in *. lia.
    + repeat split; cbn; intro H; [discriminate| |discriminate|discriminate]. apply (name_token_no_space (b :: r) r0 w0); [discriminate|exact Ed|exact Esp].
  - (* message text *)
    destruct (match_ellipsis s) as [[m r]|] eqn:E1.
    { apply Sh_emit; [apply (consumes_lt _ _ _ (match_ellipsis_consumes _ _ _ E1))|other|notfinal]. }
    destruct (match_ident s) as [[m r]|] eqn:E2.
    { pose proof (consumes_lt _ _ _ (match_ident_consumes _ _ _ E2)) as Hlt.
      destruct (mem_bytes (to_upper m) item_types) eqn:Emem.
      { apply Sh_emit; [exact Hlt| |notfinal]. repeat split; cbn; intro H; [discriminate|discriminate|exact Emem|discriminate]. }
      destruct (bytes_eqb (to_upper m) [x54] || bytes_eqb (to_upper m) [x46]); [apply Sh_emit; [exact Hlt|other|notfinal]|].
      destruct (match_indices (length r) r) as [ix r'] eqn:Ei. apply match_indices_eq in Ei.
      apply Sh_emit; [| |notfinal]; [subst r; rewrite app_length in Hlt; lia|].
      repeat split; cbn [t_typ t_val mk]; intro H; try discriminate H.
      unfold match_ident in E2. destruct s as [|c0 s0]; [discriminate|]. destruct (is_alpha_ c0) eqn:Ea; [|discriminate].
      destruct (span is_word s0) as [w0 r0]. inversion E2; subst m. cbn [app]. apply alpha_not_ellipsis. exact Ea. }
    destruct s as [|b r].
    { fin1 (mk TEOF (B"EOF"%string) off); [other|left; reflexivity]. }
    match goal with |- context [if ?c then _ else _] => change c with (numstart b r); destruct (numstart b r) eqn:En end.
    { destruct (lex_number alnum (b :: r)) as [[txt r'] ok] eqn:El.
      pose proof (lex_number_eq _ _ _ _ _ El) as Heq. pose proof (lex_number_nonempty _ _ _ _ _ _ En El) as Hne.
      destruct ok.
      - apply Sh_emit; [|other|notfinal]. rewrite Heq, app_length. destruct txt; [congruence|cbn; lia].
      - fin1 (mkerr LEBadNumber txt off); [apply tok_ok_err|right; reflexivity]. }
    destruct (byte_eqb b x3c); [apply Sh_emit; [cbn; lia|other|notfinal]|].
    destruct (byte_eqb b x3e); [apply Sh_emit; [cbn; lia|other|notfinal]|].
    destruct (byte_eqb b x2e); [apply Sh_emit; [cbn; lia|other|notfinal]|].
    destruct (byte_eqb b x5b).
    { destruct (lex_size (b :: r)) as [[raw r']|] eqn:Ez.
      - apply Sh_emit; [apply (consumes_lt _ _ _ (lex_size_consumes _ _ _ Ez))|other|notfinal].
      - fin1 (mkerr LEBadSize [] off); [apply tok_ok_err|right; reflexivity]. }
    destruct (byte_eqb b x22).
    { destruct (lex_quoted (b :: r)) as [[q r']|] eqn:Eq.
      - apply Sh_emit; [apply (consumes_lt _ _ _ (lex_quoted_consumes _ _ _ Eq))|other|notfinal].
      - fin1 (mkerr LEUnclosedString [] off); [apply tok_ok_err|right; reflexivity]. }
    destruct (is_ws b); [apply Sh_skip; cbn; lia|].
    destruct (decode_rune (b :: r)) as [rn w].
    fin1 (mkerr LEUnexpectedChar (firstn w (b :: r)) off); [apply tok_ok_err|right; reflexivity].
Qed.

(* with more fuel than input, the stream ends in EOF or an error token, no
   token before the end is final, and every token is well formed *)
Definition terminated (l : list token) : Prop :=
  exists pre t, l = pre ++ [t] /\ final t /\ Forall (fun t => ~ final t) pre.

Theorem lex_from_invariant : forall f st s off, (length s < f)%nat ->
  terminated (lex_from alnum f st s off) /\ Forall tok_ok (lex_from alnum f st s off).
Proof.
  induction f as [|f IH]; intros st s off Hf; [lia|]. cbn [lex_from].
  destruct (lex_step st s off) as [tok st' r off' Hlt Hok Hnf|st' r off' Hlt|pre tok Hpre Hnf Hok Hfin].
  - destruct (IH st' r off' ltac:(lia)) as [[pre [t [E [Ht Hp]]]] Hall]. split.
    + exists (tok :: pre), t. rewrite E. split; [reflexivity|]. split; [exact Ht|constructor; assumption].
    + constructor; assumption.
  - apply IH. lia.
  - split.
    + exists pre, tok. auto.
    + apply Forall_app. split; [exact Hpre|constructor; [exact Hok|constructor]].
Qed.

(* the fuel is not part of the meaning: any two amounts above the input length give the same stream *)
Theorem lex_fuel_irrelevant : forall f g st s off, (length s < f)%nat -> (length s < g)%nat ->
  lex_from alnum f st s off = lex_from alnum g st s off.
Proof.
  induction f as [|f IH]; intros g st s off Hf Hg; [lia|]. destruct g as [|g]; [lia|]. cbn [lex_from].
  destruct (lex_step st s off) as [tok st' r off' Hlt _ _|st' r off' Hlt|pre tok _ _ _ _].
  - f_equal. apply IH; lia.
  - apply IH; lia.
  - reflexivity.
Qed.

Theorem lex_all_terminated s : terminated (lex_all alnum s).
Proof. apply lex_from_invariant. lia. Qed.

Theorem lex_all_tokens_ok s : Forall tok_ok (lex_all alnum s).
Proof. apply lex_from_invariant. lia. Qed.


(* ---------- offsets: a stream lexed at another offset is the same stream, moved ---------- *)

Definition shift (d : Z) (t : token) : token :=
  {| t_typ := t_typ t; t_val := t_val t; t_off := t_off t + d; t_err := t_err t |}.

Definition shift_step (d : Z) (x : lstep) : lstep :=
  match x with
  | LEmit tok st r o => LEmit (shift d tok) st r (o + d)
  | LSkip st r o => LSkip st r (o + d)
  | LStop l => LStop (map (shift d) l)
  end.

Ltac shift_leaf := unfold shift_step, shift, mk, mkerr; cbn [map t_typ t_val t_off t_err];
  repeat match goal with
         | |- LEmit _ _ _ _ = LEmit _ _ _ _ => f_equal
         | |- LSkip _ _ _ = LSkip _ _ _ => f_equal
         | |- LStop _ = LStop _ => f_equal
         | |- _ :: _ = _ :: _ => f_equal
         | |- Build_token _ _ _ _ = Build_token _ _ _ _ => f_equal
         end; try reflexivity; lia.

Lemma lex_step1_shift st s off : lex_step1 alnum st s off = shift_step off (lex_step1 alnum st s 0).
Proof.
  unfold lex_step1.
  destruct (starts_with slashes s).
  { destruct (lex_comment s) as [[c r] at_end]. destruct at_end; shift_leaf. }
  destruct st.
  - destruct (match_sf s) as [[m r]|]; [shift_leaf|].
    destruct (match_wbit s) as [[m r]|]; [shift_leaf|].
    destruct (match_dir s) as [[m r]|]; [shift_leaf|].
    destruct s as [|b r]; [shift_leaf|].
    destruct (is_ws b); [shift_leaf|]. destruct (byte_eqb b x2e); [shift_leaf|]. destruct (byte_eqb b x3c); [shift_leaf|].
    destruct (decode_rune (b :: r)) as [r0 w0]. destruct (is_space_rune r0); shift_leaf.
  - destruct (match_ellipsis s) as [[m r]|]; [shift_leaf|].
    destruct (match_ident s) as [[m r]|].
    { destruct (mem_bytes (to_upper m) item_types); [shift_leaf|].
      destruct (bytes_eqb (to_upper m) [x54] || bytes_eqb (to_upper m) [x46]); [shift_leaf|].
      destruct (match_indices (length r) r) as [ix r']. shift_leaf. }
    destruct s as [|b r]; [shift_leaf|].
    match goal with |- context [if ?c then _ else _] => destruct c end.
    { destruct (lex_number alnum (b :: r)) as [[txt r'] ok]. destruct ok; shift_leaf. }
    destruct (byte_eqb b x3c); [shift_leaf|]. destruct (byte_eqb b x3e); [shift_leaf|]. destruct (byte_eqb b x2e); [shift_leaf|].
    destruct (byte_eqb b x5b); [destruct (lex_size (b :: r)) as [[raw r']|]; shift_leaf|].
    destruct (byte_eqb b x22); [destruct (lex_quoted (b :: r)) as [[q r']|]; shift_leaf|].
    destruct (is_ws b); [shift_leaf|]. destruct (decode_rune (b :: r)) as [rn w]. shift_leaf.
Qed.

Lemma shift_shift a b t : shift a (shift b t) = shift (b + a) t.
Proof. unfold shift. cbn. f_equal. lia. Qed.

Theorem lex_from_shift : forall f st s off, lex_from alnum f st s off = map (shift off) (lex_from alnum f st s 0).
Proof.
  induction f as [|f IH]; intros st s off; [reflexivity|]. cbn [lex_from]. rewrite (lex_step1_shift st s off).
  destruct (lex_step1 alnum st s 0) as [tok st' r o|st' r o|l]; cbn [shift_step map].
  - f_equal. rewrite (IH st' r (o + off)), (IH st' r o), map_map. apply map_ext. intro t. symmetry. apply shift_shift.
  - rewrite (IH st' r (o + off)), (IH st' r o), map_map. apply map_ext. intro t. symmetry. apply shift_shift.
  - reflexivity.
Qed.

End Shape.
