(* OffsetProofs.v — the parser never looks at where a token is: its outcome,
   its messages and the kinds of its diagnostics are the same when every token
   offset is changed; diagnostics carry the tokens they point at (C08: positions
   move with the tokens; C04: the round trip does not depend on the layout). *)
From Secs Require Import Ast Fill Utf8 Msg Lexer Parser SmlNumbers SmlProofs LexProofs ParseProofs.
Open Scope Z_scope.

Section Reoffset.
Variable g : token -> Z.                       (* the new offset of each token *)
Hypothesis g_zero : g zero_tok = 0.

Definition re (t : token) : token := {| t_typ := t_typ t; t_val := t_val t; t_off := g t; t_err := t_err t |}.
Definition red (d : diag) : diag := {| d_tok := re (d_tok d); d_kind := d_kind d |}.
Definition R (st : pstate) : pstate :=
  {| toks := map re (toks st); names := names st; ecount := ecount st; errs := map red (errs st);
     warns := map red (warns st); msgs := msgs st; crashed := crashed st |}.

Lemma re_zero : re zero_tok = zero_tok.
Proof. unfold re. cbn. rewrite g_zero. reflexivity. Qed.

Lemma peek_R st : peek (R st) = re (peek st).
Proof. unfold peek, R. cbn [toks]. destruct (toks st); [symmetry; apply re_zero|reflexivity]. Qed.
Lemma typ_re t ty : typ_is (re t) ty = typ_is t ty.       Proof. reflexivity. Qed.
Lemma val_re t : t_val (re t) = t_val t.                   Proof. reflexivity. Qed.
Lemma ttyp_re t : t_typ (re t) = t_typ t.                  Proof. reflexivity. Qed.
Lemma advance_R st : advance (R st) = R (advance st).
Proof. unfold advance, R. cbn. destruct (toks st); reflexivity. Qed.
Lemma err_R st t k : err (R st) (re t) k = R (err st t k).
Proof. unfold err, R. cbn. rewrite map_app. reflexivity. Qed.
Lemma warn_R st t k : warn (R st) (re t) k = R (warn st t k).
Proof. unfold warn, R. cbn. rewrite map_app. reflexivity. Qed.
Lemma add_name_R st n : add_name (R st) n = R (add_name st n).         Proof. reflexivity. Qed.
Lemma with_ecount_R st c : with_ecount (R st) c = R (with_ecount st c). Proof. reflexivity. Qed.
Lemma reset_R st : reset_msg_scope (R st) = R (reset_msg_scope st).     Proof. reflexivity. Qed.
Lemma add_msg_R st m : add_msg (R st) m = R (add_msg st m).             Proof. reflexivity. Qed.
Lemma crash_R st : crash (R st) = R (crash st).                         Proof. reflexivity. Qed.
Lemma known_R st n : known_name (R st) n = known_name st n.             Proof. reflexivity. Qed.

Lemma value_tokens_re : forall l, value_tokens (map re l) = (map re (fst (value_tokens l)), map re (snd (value_tokens l))).
Proof.
  induction l as [|t r IH]; cbn [map value_tokens fst snd]; [rewrite re_zero; reflexivity|].
  rewrite ttyp_re. destruct (t_typ t); try reflexivity; rewrite IH; destruct (value_tokens r); reflexivity.
Qed.

Lemma take_values_R st : take_values (R st) = (map re (fst (take_values st)), R (snd (take_values st))).
Proof.
  unfold take_values. cbn [toks R]. rewrite value_tokens_re. destruct (value_tokens (toks st)); reflexivity.
Qed.

Variable floats : float_oracle.

Ltac Rn := rewrite ?err_R, ?warn_R.

Lemma value_arg_R nk st t : value_arg floats nk (R st) (re t) =
  match value_arg floats nk st t with Some (a, s) => Some (a, R s) | None => None end.
Proof.
  unfold value_arg. rewrite known_R, ttyp_re, val_re. destruct (t_typ t); try reflexivity.
  - destruct nk; try reflexivity.
    + destruct (parse_int _ _) as [v x]; destruct x; Rn; reflexivity.
    + destruct (parse_uint _ _) as [v x]; destruct x; Rn; reflexivity.
    + destruct (scan_float _ _ _) as [b x]; destruct x; Rn; reflexivity.
    + destruct (parse_int _ _) as [v x]. destruct ((0 <=? v) && (v <? 256)); destruct x; Rn; reflexivity.
  - destruct nk; reflexivity.
  - destruct (known_name st (t_val t)); Rn; reflexivity.
Qed.

Lemma value_args_R nk : forall ts st, value_args floats nk (R st) (map re ts) =
  (fst (value_args floats nk st ts), R (snd (value_args floats nk st ts))).
Proof.
  induction ts as [|t r IH]; intro st; cbn [map value_args]; [reflexivity|].
  rewrite value_arg_R. destruct (value_arg floats nk st t) as [[a s1]|].
  - rewrite IH. destruct (value_args floats nk s1 r) as [o s2]. reflexivity.
  - rewrite ttyp_re. destruct (t_typ t); Rn; reflexivity.
Qed.

Lemma parse_numeric_R nk st : parse_numeric floats nk (R st) =
  (fst (parse_numeric floats nk st), R (snd (parse_numeric floats nk st))).
Proof.
  unfold parse_numeric. rewrite take_values_R. destruct (take_values st) as [vs st0]. cbn [fst snd].
  rewrite value_args_R. destruct (value_args floats nk st0 vs) as [o st1]. cbn [fst snd].
  destruct o as [args|]; [destruct (build nk args)|]; reflexivity.
Qed.

Lemma ascii_literal_R : forall ts st n acc mn mx, ascii_literal (R st) (map re ts) n acc mn mx =
  (fst (ascii_literal st ts n acc mn mx), R (snd (ascii_literal st ts n acc mn mx))).
Proof.
  induction ts as [|t r IH]; intros st n acc mn mx; cbn [map ascii_literal]; [reflexivity|].
  rewrite ttyp_re, val_re. destruct (t_typ t); Rn; try reflexivity.
  - destruct (parse_uint (t_val t) 64) as [v x]. destruct (127 <? v); destruct x; Rn; rewrite IH; reflexivity.
  - destruct (negb (n =? 1)%nat); Rn; [reflexivity|]. rewrite known_R. destruct (known_name st (t_val t)); Rn; reflexivity.
  - destruct (existsb _ _); Rn; rewrite IH; reflexivity.
Qed.

Definition list_R (rec_list : pstate -> list gval -> Z -> ires * pstate) : Prop :=
  forall st acc c, rec_list (R st) acc c = (fst (rec_list st acc c), R (snd (rec_list st acc c))).
Definition item_R (rec_item : pstate -> option item * pstate) : Prop :=
  forall st, rec_item (R st) = (fst (rec_item st), R (snd (rec_item st))).

Ltac R_fin :=
  repeat (Rn; rewrite ?peek_R, ?advance_R, ?typ_re, ?val_re;
          match goal with |- context [if ?c then _ else _] =>
            lazymatch c with context [if _ then _ else _] => fail | _ => destruct c eqn:? end end);
  Rn; rewrite ?peek_R, ?advance_R, ?typ_re, ?val_re; Rn; reflexivity.

Lemma parse_item_body_R rec_list : list_R rec_list -> item_R (parse_item_body floats rec_list).
Proof.
  intros Hrec st. unfold parse_item_body. rewrite !peek_R, !advance_R, !peek_R, !typ_re, !val_re.
  destruct (negb (typ_is (peek st) TLAB)); [Rn; reflexivity|].
  destruct (negb (typ_is (peek (advance st)) TItemType)); [Rn; reflexivity|].
  set (st2 := advance (advance st)). set (szt := peek st2).
  destruct (typ_is szt TItemSize) eqn:Esz.
  - destruct (parse_size (t_val szt)) as [lo hi]. cbn [negb andb].
    set (st3 := advance st2).
    destruct (bytes_eqb (t_val (peek (advance st))) (B"L"%string)).
    { rewrite Hrec. destruct (rec_list st3 [] 0) as [r s]. cbn [fst snd]. destruct r as [it| |]; R_fin. }
    destruct (bytes_eqb (t_val (peek (advance st))) (B"A"%string)).
    { rewrite take_values_R. destruct (take_values st3) as [vs st0]. cbn [fst snd]. rewrite map_length.
      rewrite ascii_literal_R. destruct (ascii_literal st0 vs (length vs) [] lo hi) as [r s]. cbn [fst snd].
      destruct r as [it| |]; [|R_fin|R_fin]. destruct it as [xs|n|k w' xs|v|n mn mx|]; R_fin. }
    destruct (nk_of_type _) as [nk|]; [|reflexivity].
    rewrite parse_numeric_R. destruct (parse_numeric floats nk st3) as [r s]. cbn [fst snd]. destruct r as [it| |]; R_fin.
  - cbn [negb andb]. destruct (typ_is szt TError); [Rn; reflexivity|].
    destruct (bytes_eqb (t_val (peek (advance st))) (B"L"%string)).
    { rewrite Hrec. destruct (rec_list st2 [] 0) as [r s]. cbn [fst snd]. destruct r as [it| |]; R_fin. }
    destruct (bytes_eqb (t_val (peek (advance st))) (B"A"%string)).
    { rewrite take_values_R. destruct (take_values st2) as [vs st0]. cbn [fst snd]. rewrite map_length.
      rewrite ascii_literal_R. destruct (ascii_literal st0 vs (length vs) [] 0 (-1)) as [r s]. cbn [fst snd].
      destruct r as [it| |]; [|R_fin|R_fin]. destruct it as [xs|n|k w' xs|v|n mn mx|]; R_fin. }
    destruct (nk_of_type _) as [nk|]; [|reflexivity].
    rewrite parse_numeric_R. destruct (parse_numeric floats nk st2) as [r s]. cbn [fst snd]. destruct r as [it| |]; R_fin.
Qed.

Lemma parse_list_body_R rec_item rec_list : item_R rec_item -> list_R rec_list -> list_R (parse_list_body rec_item rec_list).
Proof.
  intros Hi Hl st acc c. unfold parse_list_body. rewrite !peek_R, !advance_R, !ttyp_re, !val_re.
  destruct (t_typ (peek st)); Rn; try reflexivity.
  - rewrite Hi. destruct (rec_item st) as [[ch|] st1]; cbn [fst snd]; [apply Hl|reflexivity].
  - rewrite known_R. destruct (known_name (advance st) (t_val (peek st))); Rn; rewrite ?add_name_R; apply Hl.
  - destruct (c =? 0); Rn; [reflexivity|].
    change (ecount (R (advance st))) with (ecount (advance st)). rewrite with_ecount_R.
    match goal with |- context [if ?x then _ else _] => destruct x end; Rn; apply Hl.
Qed.

Lemma parse_item_list_R : forall f, item_R (parse_item floats f) /\ list_R (parse_list floats f).
Proof.
  induction f as [|f [IHi IHl]].
  - split; [intro st|intros st acc c]; reflexivity.
  - split.
    + change (parse_item floats (S f)) with (parse_item_body floats (parse_list floats f)).
      apply parse_item_body_R. exact IHl.
    + change (parse_list floats (S f)) with (parse_list_body (parse_item floats f) (parse_list floats f)).
      apply parse_list_body_R; assumption.
Qed.

Theorem parse_message_R st : parse_message floats (R st) =
  (fst (parse_message floats st), R (snd (parse_message floats st))).
Proof.
  unfold parse_message. rewrite reset_R, !peek_R, !typ_re, !val_re.
  set (st1 := reset_msg_scope st).
  destruct (negb (typ_is (peek st1) TStreamFunction)); [Rn; reflexivity|].
  rewrite advance_R. set (st2 := advance st1).
  destruct (split_sf (t_val (peek st1))) as [sd fd]. destruct (atoi sd) as [stream0 e1]. destruct (atoi fd) as [function0 e2].
  destruct ((0 <=? stream0) && (stream0 <? 128)); destruct ((0 <=? function0) && (function0 <? 256)); Rn; rewrite ?peek_R, ?typ_re, ?val_re.
  all: match goal with |- context [typ_is (peek ?s) TWaitBit] => set (st4 := s) end.
  all: destruct (typ_is (peek st4) TWaitBit);
       [rewrite ?advance_R; destruct (bytes_eqb (t_val (peek st4)) [x57]);
        [match goal with |- context [if ?x =? 0 then _ else _] => destruct (x =? 0) end|destruct (bytes_eqb (t_val (peek st4)) (B"[W]"%string))]|];
       Rn; rewrite ?peek_R, ?typ_re, ?val_re.
  all: match goal with |- context [typ_is (peek ?s) TDirection] => set (st5 := s) end;
       destruct (typ_is (peek st5) TDirection); Rn; rewrite ?advance_R, ?peek_R, ?typ_re, ?val_re.
  all: match goal with |- context [typ_is (peek ?s) TMsgName] => set (st6 := s) end;
       destruct (typ_is (peek st6) TMsgName); rewrite ?advance_R, ?peek_R, ?typ_re, ?val_re.
  all: match goal with |- context [typ_is (peek ?s) TMsgEnd] => set (st7 := s) end;
       destruct (typ_is (peek st7) TMsgEnd);
       [|destruct (typ_is (peek st7) TLAB);
         [change (toks (R st7)) with (map re (toks st7)); rewrite map_length; rewrite (proj1 (parse_item_list_R (S (length (toks st7)))) st7);
          destruct (parse_item floats (S (length (toks st7))) st7) as [it s8]; cbn [fst snd]; destruct it as [item|]; [|reflexivity]
         |Rn; reflexivity]];
       rewrite ?peek_R, ?typ_re;
       match goal with |- context [typ_is (peek ?s) TMsgEnd] => destruct (typ_is (peek s) TMsgEnd) end; cbn [negb]; Rn; try reflexivity;
       rewrite ?advance_R;
       match goal with |- context [new_data_message ?a ?b ?c ?d ?x ?y] => destruct (new_data_message a b c d x y) end;
       Rn; rewrite ?crash_R, ?add_msg_R; reflexivity.
Qed.

Theorem parse_loop_R : forall f st, parse_loop floats f (R st) = R (parse_loop floats f st).
Proof.
  induction f as [|f IH]; intro st; [reflexivity|]. cbn [parse_loop].
  rewrite peek_R, typ_re. destruct (typ_is (peek st) TEOF); [reflexivity|].
  rewrite parse_message_R. destruct (parse_message floats st) as [ok st1]. cbn [fst snd].
  destruct ok; [apply IH|reflexivity].
Qed.
End Reoffset.

(* the messages returned and the kinds of the diagnostics do not depend on the offsets of the tokens *)
Definition kinds (ds : list diag) : list Z := map d_kind ds.

Theorem parse_ignores_positions g : g zero_tok = 0 -> forall floats f st,
  msgs (parse_loop floats f (R g st)) = msgs (parse_loop floats f st) /\
  kinds (errs (parse_loop floats f (R g st))) = kinds (errs (parse_loop floats f st)) /\
  kinds (warns (parse_loop floats f (R g st))) = kinds (warns (parse_loop floats f st)) /\
  crashed (parse_loop floats f (R g st)) = crashed (parse_loop floats f st).
Proof.
  intros Hg floats f st. rewrite (parse_loop_R g Hg floats f st). unfold R, kinds. cbn [msgs errs warns crashed].
  rewrite !map_map. repeat split; reflexivity.
Qed.
