(* C16 — variable listing; encodable iff no variables. *)
From Secs Require Import Ast FloatProofs Fill Msg Api WireSpec WireLemmas WireValues WireEnc WireDec MsgProofs AstProofs PrintProofs.
Open Scope Z_scope.

(* for every history of API calls: no name occurs twice anywhere in any item or message of the pool *)
Theorem C16_nodup : forall steps, Forall entry_nodup (run steps).
Proof. exact run_nodup. Qed.
Print Assumptions C16_nodup.

Theorem C16_nodup_items : forall steps t, In (EItem t) (run steps) -> NoDup (vars t).
Proof. intros steps t H. pose proof (run_nodup steps) as F. rewrite Forall_forall in F. exact (F _ H). Qed.
Print Assumptions C16_nodup_items.

(* an item encodes to bytes iff its variable list is empty *)
Theorem C16_encodable : forall t, sized t -> t <> IEmpty -> (to_bytes t <> [] <-> vars t = []).
Proof. exact encodable_iff. Qed.
Print Assumptions C16_encodable.

(* the reported size is the number of elements held *)
Theorem C16_size : forall t,
  size t = match t with
           | IList xs => Z.of_nat (length xs)
           | ILeaf _ _ xs => Z.of_nat (length xs)
           | IAscii s => Z.of_nat (length s)
           | IAsciiVar _ _ _ => -1
           | _ => 0
           end.
Proof. intro t. destruct t; reflexivity. Qed.
Print Assumptions C16_size.

(* the order: the printed form is the text of a printer that marks every
   occurrence of a variable name (erasing the marks gives String(), whatever
   strconv prints for floats), and the marked names, in order of appearance,
   are exactly the list Variables() returns — an ellipsis being shown as "..." *)
Theorem C16_printed_form : forall fl t level, render fl (print_item_at level t) = mrender fl (mprint level t).
Proof. exact marks_erase. Qed.
Print Assumptions C16_printed_form.

Theorem C16_order : forall t level, is_item t -> wf_names t -> names (mprint level t) = map shown (vars t).
Proof. exact marked_names_are_vars. Qed.
Print Assumptions C16_order.

(* the hypothesis is what the constructors establish *)
Theorem C16_order_premise : forall k w args t n mn mx t',
  (new_leaf k w args = Some t -> wf_names t) /\ (new_ascii_var n mn mx = Some t' -> wf_names t').
Proof. intros. split; [apply new_leaf_wf|apply new_ascii_var_wf]. Qed.
Print Assumptions C16_order_premise.
