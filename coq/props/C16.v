(* C16 — variable listing; encodable iff no variables. *)
From Secs Require Import Ast FloatProofs Fill Msg Api WireSpec WireLemmas WireValues WireEnc WireDec MsgProofs AstProofs.
Open Scope Z_scope.

(* for every history of API calls: no name occurs twice anywhere in any item or message of the pool *)
Theorem C16_nodup : forall steps, Forall entry_nodup (run steps).
Proof. exact run_nodup. Qed.
Print Assumptions C16_nodup.

Theorem C16_nodup_items : forall steps t, In (EItem t) (run steps) -> NoDup (vars t).
Proof. intros steps t H. pose proof (run_nodup steps) as F. rewrite Forall_forall in F. exact (F _ H). Qed.
Print Assumptions C16_nodup_items.

(* an item encodes to bytes iff its variable list is empty *)
Theorem C16_encodable : forall t, sized t -> t <> IEmpty -> (to_bytes t <> [] <-> vars t = []).
Proof. exact encodable_iff. Qed.
Print Assumptions C16_encodable.

(* the reported size is the number of elements held *)
Theorem C16_size : forall t,
  size t = match t with
           | IList xs => Z.of_nat (length xs)
           | ILeaf _ _ xs => Z.of_nat (length xs)
           | IAscii s => Z.of_nat (length s)
           | IAsciiVar _ _ _ => -1
           | _ => 0
           end.
Proof. intro t. destruct t; reflexivity. Qed.
Print Assumptions C16_size.

(* C16_order_partial: "in the order in which the names appear in the printed
   form" is decided by the Go-side monitor of suite C16 (an independent reader
   of the printed text) and by the correspondence of String() and Variables();
   the theorem over the token layout is stated with C04. *)
