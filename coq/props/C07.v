(* C07 — the HSMS decoder is total and its memory use is linear in the input
   (partial: GC behaviour and the goroutine stack cap are the runtime's). *)
From Secs Require Import Ast Fill Msg WireSpec WireLemmas HeaderProofs WireEnc WireDec MsgProofs Cost.
Open Scope Z_scope.

(* every byte string is either rejected or decoded to the message it denotes:
   the decoder model is a total function whose only outcomes are Some and None
   (every panic site of the Go code — slice bounds, constructor refusal — is a
   None branch of the model, compared on the hostile stream) *)
Theorem C07_total : forall bs, hsms_parse bs = None \/ exists hm, hsms_parse bs = Some hm /\ frame_wf bs hm.
Proof.
  intro bs. destruct (hsms_parse bs) as [hm|] eqn:E; [right|left; reflexivity].
  exists hm. split; [reflexivity|apply hsms_parse_sound; exact E].
Qed.
Print Assumptions C07_total.

(* allocation units (Cost.v: charged where the code allocates, sized from
   declared lengths only after the bounds check) are linear in the input length,
   whatever lengths the input declares *)
Theorem C07_alloc : forall input, 0 <= cost_msg input <= 5 * Z.of_nat (length input) + 16.
Proof. exact cost_msg_linear. Qed.
Print Assumptions C07_alloc.

Theorem C07_alloc_items : forall fuel bs,
  0 <= cost_item fuel bs (Z.of_nat (length bs)) <= 5 * Z.of_nat (length bs).
Proof. intros fuel bs. exact (proj1 (proj1 (cost_bound fuel) bs _ eq_refl)). Qed.
Print Assumptions C07_alloc_items.

(* the recursion depth of a decode is at most half the input length (the Go
   stack cap itself is outside the model: known finding K1) *)
Theorem C07_depth : forall t bs, wire false t bs -> (2 * item_depth t <= length bs)%nat.
Proof. exact depth_le_length. Qed.
Print Assumptions C07_depth.
