(* C19 — messages in one SML text are parsed independently (partial). *)
From Secs Require Import Ast Fill Msg Lexer Parser SmlNumbers SmlProofs.
Open Scope Z_scope.

(* variable names and ellipsis numbering are scoped to one message: parsing a
   message does not depend on the names and the counter left by the previous one *)
Theorem C19_scoping : forall floats st names' e',
  parse_message floats st =
  parse_message floats {| toks := toks st; names := names'; ecount := e'; errs := errs st; warns := warns st; msgs := msgs st; crashed := crashed st |}.
Proof. exact parse_message_forgets. Qed.
Print Assumptions C19_scoping.

(* separators (white space) between two messages do not change the tokens *)
Theorem C19_separator : forall alnum ws, Forall (fun b => is_ws b = true) ws ->
  forall f st s off, lex_from alnum (length ws + f) st (ws ++ s) off = lex_from alnum f st s (off + Z.of_nat (length ws)).
Proof. exact lex_skip_whitespace. Qed.
Print Assumptions C19_separator.

(* C19_concat_partial: msgs (parse (t1 ++ sep ++ t2)) = msgs (parse t1) ++ msgs (parse t2)
   needs the lexer's compositionality after a terminator; it is decided by suite
   C19 (pairs and longer sequences of accepted texts joined by every separator
   class) on the library and on the model. *)
