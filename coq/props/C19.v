(* C19 — messages in one SML text are parsed independently (partial). *)
From Secs Require Import Ast Fill Msg Lexer Parser SmlNumbers SmlProofs LexProofs ParseProofs LayoutProofs FrameProofs MsgRoundTrip Converse.
Open Scope Z_scope.

(* variable names and ellipsis numbering are scoped to one message: parsing a
   message does not depend on the names and the counter left by the previous one *)
Theorem C19_scoping : forall floats st names' e',
  parse_message floats st =
  parse_message floats {| toks := toks st; names := names'; ecount := e'; errs := errs st; warns := warns st; msgs := msgs st; crashed := crashed st |}.
Proof. exact parse_message_forgets. Qed.
Print Assumptions C19_scoping.

(* separators (white space) between two messages do not change the tokens *)
Theorem C19_separator : forall alnum ws, Forall (fun b => is_ws b = true) ws ->
  forall f st s off, lex_from alnum (length ws + f) st (ws ++ s) off = lex_from alnum f st s (off + Z.of_nat (length ws)).
Proof. exact lex_skip_whitespace. Qed.
Print Assumptions C19_separator.

(* one message is parsed from the remaining tokens alone: the same outcome, the
   same new diagnostics and the same new message as from a fresh state — the
   diagnostics and messages of everything parsed before are carried along untouched *)
Theorem C19_message_alone : forall floats st,
  parse_message floats st =
  (fst (parse_message floats (fresh st)),
   past (errs st) (warns st) (msgs st) (snd (parse_message floats (fresh st)))).
Proof. exact message_depends_on_tokens_only. Qed.
Print Assumptions C19_message_alone.

(* the whole rest of the text: at any point of the message loop, the final
   result is the result so far followed by the result of parsing the remaining
   tokens on their own — the messages of the second text are those it yields alone *)
Theorem C19_rest_alone : forall floats f st,
  obs (parse_loop floats f st) =
  obs (past (errs st) (warns st) (msgs st) (parse_loop floats f (fresh st))).
Proof. exact rest_parsed_independently. Qed.
Print Assumptions C19_rest_alone.

(* comments between two messages contribute no token *)
Theorem C19_comment_separator : forall alnum body rest st F G,
  Forall (fun b => negb (byte_eqb b x0a) = true) body ->
  (length (x2f :: x2f :: body ++ x0a :: rest) < F)%nat -> (length rest < G)%nat ->
  drop_comments (lex_from alnum F st (x2f :: x2f :: body ++ x0a :: rest) 0) =
  map (shift (Z.of_nat (length body) + 3)) (drop_comments (lex_from alnum G st rest 0)).
Proof. exact comment_moves_offsets. Qed.
Print Assumptions C19_comment_separator.

(* the loop ends only at EOF or with an error: no message of the input is skipped *)
Theorem C19_all_messages : forall alnum floats input,
  r_errs (sml_parse alnum floats input) = [] -> typ_is (peek (sml_final alnum floats input)) TEOF = true.
Proof. exact no_silent_stop. Qed.
Print Assumptions C19_all_messages.

(* the concatenation law for printed texts (the canonical layout String()
   produces): the printed form of one sequence of messages followed by the
   printed form of another parses to the messages of the first followed by the
   messages of the second, each exactly as parsed alone, with no diagnostics —
   lexer, parser and printer models composed (C04_print_parse) *)
Theorem C19_concat_printed : forall alnum floats fl ms1 ms2, Forall (msg_good alnum floats fl) ms1 -> Forall (msg_good alnum floats fl) ms2 ->
  r_msgs (sml_parse alnum floats (msgs_text fl ms1 ++ msgs_text fl ms2)) =
    r_msgs (sml_parse alnum floats (msgs_text fl ms1)) ++ r_msgs (sml_parse alnum floats (msgs_text fl ms2)) /\
  r_errs (sml_parse alnum floats (msgs_text fl ms1 ++ msgs_text fl ms2)) = [] /\
  r_warns (sml_parse alnum floats (msgs_text fl ms1 ++ msgs_text fl ms2)) = [].
Proof. exact concat_printed. Qed.
Print Assumptions C19_concat_printed.

(* the same law for ARBITRARY accepted texts, in their canonical layout: what
   two texts parse to, printed one after the other, parses to the messages of
   the first text followed by the messages of the second, with no diagnostics
   (uses the converse direction of C04: whatever the parser returns is in the
   printable sub-grammar; stated for messages without float values, where no
   oracle hypothesis is needed) *)
Theorem C19_concat_accepted : forall alnum floats fl t1 t2, floats_wf floats ->
  let m1 := r_msgs (sml_parse alnum floats t1) in
  let m2 := r_msgs (sml_parse alnum floats t2) in
  Forall (fun m => no_floats (m_item m)) m1 -> Forall (fun m => no_floats (m_item m)) m2 ->
  let r := sml_parse alnum floats (msgs_text fl m1 ++ msgs_text fl m2) in
  r_msgs r = m1 ++ m2 /\ r_errs r = [] /\ r_warns r = [].
Proof. exact concat_of_accepted. Qed.
Print Assumptions C19_concat_accepted.

(* C19_concat_partial (arbitrary layouts): that the tokens of t1 ++ sep ++ t2 are the tokens of t1
   (without its EOF) followed by the tokens of t2 moved by |t1 ++ sep| — the
   locality of the lexer's prefix matchers under what follows a terminator —
   and that the first text's messages do not depend on the tokens that follow
   them are decided by suite C19 (pairs and longer sequences of accepted texts
   joined by every separator class) on the library and on the model. *)
