(* C10 — ellipsis expansion repeats, renames and renumbers as documented. *)
From Secs Require Import Ast FloatProofs Fill Msg Api WireSpec WireLemmas WireValues WireEnc WireDec MsgProofs AstProofs.
Open Scope Z_scope.

(* all resulting variable names stay unique, for every template and assignment *)
Theorem C10_unique : forall s t t', NoDup (vars t) -> fill s t = Some t' -> NoDup (vars t').
Proof. exact fill_nodup. Qed.
Print Assumptions C10_unique.

(* filling an ellipsis with 0 just removes it; with n > 0 the items before it
   appear n+1 times with suffixes [0]..[n]: two closed instances of the model,
   the general statement (C10_refines) is work in progress *)
Example C10_zero :
  fill [(B"..."%string, GInt Kint 0)] (IList [IVar (B"a"%string); IVar (B"..."%string); IVar (B"b"%string)])
  = Some (IList [IVar (B"a"%string); IVar (B"b"%string)]).
Proof. reflexivity. Qed.

Example C10_two :
  fill [(B"..."%string, GInt Kint 2)] (IList [IVar (B"a"%string); IVar (B"..."%string); IVar (B"b"%string)])
  = Some (IList [IVar (B"a[0]"%string); IVar (B"a[1]"%string); IVar (B"a[2]"%string); IVar (B"b"%string)]).
Proof. reflexivity. Qed.
