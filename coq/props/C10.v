(* C10 — ellipsis expansion repeats, renames and renumbers as documented. *)
From Secs Require Import Ast FloatProofs Fill Msg Api WireSpec WireLemmas WireValues WireEnc WireDec MsgProofs AstProofs EllipsisProofs.
Open Scope Z_scope.

(* all resulting variable names stay unique, for every template and assignment *)
Theorem C10_unique : forall s t t', NoDup (vars t) -> fill s t = Some t' -> NoDup (vars t').
Proof. exact fill_nodup. Qed.
Print Assumptions C10_unique.

(* the expander of list.go — dimension stack, index vector, restart of the
   loop index, counter of remaining ellipses — computes the declarative
   expansion [expand_d]: the group before a filled ellipsis is copied n + 1
   times, copy j under the index path extended by j, the rest once under the
   enclosing path; nested groups are expanded in every copy; for every template,
   every nesting and all non-negative counts *)
Theorem C10_refines : forall s multi, counts_ok s -> forall fuel st path cnt t,
  rel multi st path cnt -> agree multi path (fill_ell s fuel st t) (expand_d s multi fuel path cnt t).
Proof. intros s multi H fuel. exact (fill_ell_refines s multi H fuel). Qed.
Print Assumptions C10_refines.

(* ItemNode.FillVariables = the declarative expansion under the empty path, then plain substitution *)
Theorem C10_fill : forall s xs tf rem,
  counts_ok (fst (split_values s)) ->
  ellipsis_analysis (fst (split_values s)) (IList xs) = Ok (tf, rem) -> 0 < tf ->
  fill s (IList xs) =
  match expand_d (fst (split_values s)) (1 <? rem) (S (depth (IList xs))) [] 0 (IList xs) with
  | Some (t', _) => fill_plain (snd (split_values s)) t'
  | None => None
  end.
Proof. exact fill_expands. Qed.
Print Assumptions C10_fill.

(* n + 1 copies of the p items before the ellipsis, the others once (n = 0: the ellipsis just disappears) *)
Theorem C10_count : forall s multi f path cnt xs p n t' c,
  find_ellipsis s xs 0 = Some (p, GInt Kint n) -> 0 <= n ->
  expand_d s multi (S f) path cnt (IList xs) = Some (t', c) ->
  exists ys, t' = IList ys /\ length ys = ((Z.to_nat n + 1) * p + (length xs - S p))%nat.
Proof. exact expansion_count. Qed.
Print Assumptions C10_count.

(* a variable in copy j gets the suffix [j] after the suffixes of the enclosing expansions, outermost first *)
Theorem C10_rename : forall multi rec path j cnt n, is_ellipsis n = false ->
  one_d multi rec (path ++ [j]) cnt (IVar n) = Some (GStr (n ++ sfx path ++ index_suffix j), cnt).
Proof. exact renamed_variable. Qed.
Print Assumptions C10_rename.

(* remaining ellipses are renumbered in order of appearance when more than one remains, and left as "..." when one remains *)
Theorem C10_renumber : forall rec path cnt n, is_ellipsis n = true ->
  one_d true rec path cnt (IVar n) = Some (GStr ([x2e; x2e; x2e] ++ index_suffix cnt), cnt + 1) /\
  one_d false rec path cnt (IVar n) = Some (GStr [x2e; x2e; x2e], cnt).
Proof. intros. split; [apply renumbered_ellipsis|apply single_ellipsis_unnumbered]; assumption. Qed.
Print Assumptions C10_renumber.

(* the initial state of an expansion represents the empty path and counter 0 *)
Example C10_initial : forall rem, rel (1 <? rem) (new_fill_state rem) [] 0.
Proof. intro rem. repeat split. Qed.

(* closed instances *)
Example C10_zero :
  fill [(B"..."%string, GInt Kint 0)] (IList [IVar (B"a"%string); IVar (B"..."%string); IVar (B"b"%string)])
  = Some (IList [IVar (B"a"%string); IVar (B"b"%string)]).
Proof. reflexivity. Qed.

Example C10_two :
  fill [(B"..."%string, GInt Kint 2)] (IList [IVar (B"a"%string); IVar (B"..."%string); IVar (B"b"%string)])
  = Some (IList [IVar (B"a[0]"%string); IVar (B"a[1]"%string); IVar (B"a[2]"%string); IVar (B"b"%string)]).
Proof. reflexivity. Qed.
