(* C06 — the SML parser is total and all-or-nothing (partial: time and the
   Go stack are the runtime's; the worker subprocess observes them). *)
From Secs Require Import Ast Fill Msg Lexer Parser SmlNumbers SmlProofs LexProofs ParseProofs.
Open Scope Z_scope.

(* if any error is reported no message is returned *)
Theorem C06_all_or_nothing : forall alnum floats input,
  r_errs (sml_parse alnum floats input) <> [] -> r_msgs (sml_parse alnum floats input) = [].
Proof. exact all_or_nothing. Qed.
Print Assumptions C06_all_or_nothing.

(* if none is reported the parser has read every token up to EOF: no part of
   the input is silently dropped, so every message of the input is returned *)
Theorem C06_nothing_dropped : forall alnum floats input,
  r_errs (sml_parse alnum floats input) = [] -> typ_is (peek (sml_final alnum floats input)) TEOF = true.
Proof. exact no_silent_stop. Qed.
Print Assumptions C06_nothing_dropped.

(* the result is a projection of that final state *)
Theorem C06_final_state : forall alnum floats input,
  r_msgs (sml_parse alnum floats input) = (match errs (sml_final alnum floats input) with [] => msgs (sml_final alnum floats input) | _ => [] end) /\
  r_crashed (sml_parse alnum floats input) = crashed (sml_final alnum floats input).
Proof. intros. split; reflexivity. Qed.
Print Assumptions C06_final_state.

(* no panic escapes: the one panic site outside parseDataItem's recover — the
   message constructor — is never reached with arguments it refuses, for any
   input: the header lexer never lets a Unicode space into a message name, a
   direction token is one of the three directions, stream and function codes
   are clamped, W is dropped on an even function *)
Theorem C06_no_crash : forall alnum floats input, r_crashed (sml_parse alnum floats input) = false.
Proof. exact no_crash. Qed.
Print Assumptions C06_no_crash.

(* the lexer does not hang: every step consumes input, so with the fuel
   |input| + 2 the fuel is never used up — the token stream always ends in EOF
   or an error token, and no token before the end is one *)
Theorem C06_lexer_terminates : forall alnum input, terminated (lex_all alnum input).
Proof. exact lex_all_terminated. Qed.
Print Assumptions C06_lexer_terminates.

(* one message: a refusal always adds an error (so the parser's fuel is never
   used up silently), an acceptance consumes at least one token (so the loop ends) *)
Theorem C06_progress : forall floats st, pinv st -> msg_outcome st (parse_message floats st).
Proof. exact parse_message_progress. Qed.
Print Assumptions C06_progress.

(* every position the parser reports lies inside the input: 1 <= line <= number of lines, column >= 1 *)
Theorem C06_positions : forall input off,
  let '(l, c) := linecol input off in 1 <= l <= 1 + Z.of_nat (count_lf input) /\ 1 <= c.
Proof. exact linecol_bounds. Qed.
Print Assumptions C06_positions.

(* premises are satisfiable: the state sml.Parse starts from meets the invariant *)
Example C06_start : forall alnum input,
  pinv {| toks := filter (fun t => negb (typ_is t TComment)) (lex_all alnum input);
          names := []; ecount := 0; errs := []; warns := []; msgs := []; crashed := false |}.
Proof. exact sml_start_pinv. Qed.
