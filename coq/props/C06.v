(* C06 — the SML parser is total and all-or-nothing (partial: time and the
   Go stack are the runtime's; the worker subprocess observes them). *)
From Secs Require Import Ast Fill Msg Lexer Parser SmlNumbers SmlProofs.
Open Scope Z_scope.

(* if any error is reported no message is returned *)
Theorem C06_all_or_nothing : forall alnum floats input,
  r_errs (sml_parse alnum floats input) <> [] -> r_msgs (sml_parse alnum floats input) = [].
Proof. exact all_or_nothing. Qed.
Print Assumptions C06_all_or_nothing.

(* every position the parser reports lies inside the input: 1 <= line <= number of lines, column >= 1 *)
Theorem C06_positions : forall input off,
  let '(l, c) := linecol input off in 1 <= l <= 1 + Z.of_nat (count_lf input) /\ 1 <= c.
Proof. exact linecol_bounds. Qed.
Print Assumptions C06_positions.

(* the lexer and the parser are total functions of the input: every function of
   the model is structurally recursive on a fuel bounded by the input length
   (lex_all: |s| + 2, parse_item: the number of tokens), so they terminate on
   every input; the only non-returning outcome of the Go code — a panic outside
   parseDataItem's recover — is the explicit outcome [r_crashed] of the model *)
Theorem C06_terminates : forall alnum floats input, exists r, sml_parse alnum floats input = r.
Proof. intros. eexists. reflexivity. Qed.
Print Assumptions C06_terminates.

(* C06_no_crash_partial: r_crashed (sml_parse ...) = false for every input needs
   the lexer invariant "a message-name token contains no Unicode space", whose
   proof over the UTF-8 decoder is not finished; it is decided by the token-soup
   stream (suite C06, worker subprocess) and the correspondence of the outcome. *)
