(* C05 — SML literals denote exactly the values stored (no silent substitution). *)
From Secs Require Import Ast Fill Msg Lexer Parser SmlNumbers SmlProofs.
Open Scope Z_scope.

(* a number token in an integer item that adds no error is stored as the
   integer strconv reads from it, and that integer is within the item's range;
   in every other case an error has been recorded (the state's error list grew) *)
Theorem C05_int : forall floats w st t g st', (0 < w)%nat -> t_typ t = TNumber ->
  value_arg floats (NKInt w) st t = Some (g, st') -> errs st' = errs st ->
  exists v, g = GInt Kint64 v /\ parse_int (t_val t) (8 * Z.of_nat w) = (v, NumOk) /\
            - 2 ^ (8 * Z.of_nat w - 1) <= v < 2 ^ (8 * Z.of_nat w - 1).
Proof. exact value_arg_int_exact. Qed.
Print Assumptions C05_int.

Theorem C05_uint : forall floats w st t g st', (0 < w)%nat -> t_typ t = TNumber ->
  value_arg floats (NKUint w) st t = Some (g, st') -> errs st' = errs st ->
  exists v, g = GInt Kuint64 v /\ parse_uint (t_val t) (8 * Z.of_nat w) = (v, NumOk) /\ 0 <= v < 2 ^ (8 * Z.of_nat w).
Proof. exact value_arg_uint_exact. Qed.
Print Assumptions C05_uint.

Theorem C05_bin : forall floats st t g st', t_typ t = TNumber ->
  value_arg floats NKBin st t = Some (g, st') -> errs st' = errs st ->
  exists v, g = GInt Kint v /\ parse_int (t_val t) 64 = (v, NumOk) /\ 0 <= v < 256.
Proof. exact value_arg_bin_exact. Qed.
Print Assumptions C05_bin.

(* what strconv reads is the positional value of the digits: printing a number
   in base 2..36 and scanning it gives the number back *)
Theorem C05_digits : forall base n, 2 <= base <= 36 -> 0 <= n ->
  digits_val base (fmt_unsigned base n) 0 = Some n /\ fmt_unsigned base n <> [].
Proof. exact digits_val_fmt. Qed.
Print Assumptions C05_digits.

(* decimal with sign, at every width: the value, or a range error — never a wrapped value *)
Theorem C05_decimal : forall z bits, 0 < bits -> z <> 0 ->
  parse_int (fmt_int z) bits =
    if (z <? - 2 ^ (bits - 1)) then (- 2 ^ (bits - 1), NumRange)
    else if (2 ^ (bits - 1) <=? z) then (2 ^ (bits - 1) - 1, NumRange) else (z, NumOk).
Proof. exact parse_int_decimal. Qed.
Print Assumptions C05_decimal.

(* hexadecimal, binary, octal prefixes in either letter case *)
Theorem C05_prefixed : forall (p : byte) base n, 0 <= n ->
  (bz p = 120 \/ bz p = 88) /\ base = 16 \/ (bz p = 98 \/ bz p = 66) /\ base = 2 \/ (bz p = 111 \/ bz p = 79) /\ base = 8 ->
  parse_unsigned_base0 (x30 :: p :: fmt_unsigned base n) = Some n.
Proof. exact parse_unsigned_prefixed. Qed.
Print Assumptions C05_prefixed.

(* a quoted string contributes exactly the bytes between its quotes; a non-ASCII character is an error *)
Theorem C05_quoted : forall st t r n acc mn mx body,
  t_typ t = TQuoted -> t_val t = [x22] ++ body ++ [x22] ->
  existsb (fun rn => 127 <? rn) (runes body) = false ->
  ascii_literal st (t :: r) n acc mn mx = ascii_literal st r n (acc ++ body) mn mx.
Proof. exact ascii_quoted_exact. Qed.
Print Assumptions C05_quoted.

Theorem C05_quoted_refused : forall st t r n acc mn mx body,
  t_typ t = TQuoted -> t_val t = [x22] ++ body ++ [x22] ->
  existsb (fun rn => 127 <? rn) (runes body) = true ->
  ascii_literal st (t :: r) n acc mn mx = ascii_literal (err st t 15) r n acc mn mx.
Proof. exact ascii_quoted_refused. Qed.
Print Assumptions C05_quoted_refused.

(* C05_float_partial: float literals are read by strconv.ParseFloat (an oracle
   of the model, answered by the harness); which text is passed, at which bit
   size, and what happens on both error kinds is modelled (value_arg) and
   compared; the Go-side monitor of suite C05 compares the stored value with
   ParseFloat of the literal computed independently. *)
