(* C14 — HSMS control messages are built, classified and decoded per HSMS.
   The constructors are the ones regenerated from hsms.go (gen/Ctrl.v). *)
From Secs Require Import Ast Fill Msg WireSpec MsgProofs CtrlTie CtrlProofs.
From Secs.gen Require Import Ctrl.
Open Scope Z_scope.

(* requests: the given session id, zero bytes 2-3, PType 0, the SType of the
   kind, the given system bytes; fewer than four system bytes are refused *)
Theorem C14_layout_req : forall sid a b c d r,
  gen_select_req sid (a :: b :: c :: d :: r) = Some [z2b (sid / 256); z2b sid; x00; x00; x00; x01; a; b; c; d] /\
  gen_deselect_req sid (a :: b :: c :: d :: r) = Some [z2b (sid / 256); z2b sid; x00; x00; x00; x03; a; b; c; d] /\
  gen_separate_req sid (a :: b :: c :: d :: r) = Some [z2b (sid / 256); z2b sid; x00; x00; x00; x09; a; b; c; d] /\
  gen_linktest_req (a :: b :: c :: d :: r) = Some [xff; xff; x00; x00; x00; x05; a; b; c; d].
Proof. intros. repeat split; reflexivity. Qed.
Print Assumptions C14_layout_req.

Theorem C14_short_system_bytes : forall sid sys, (length sys < 4)%nat ->
  gen_select_req sid sys = None /\ gen_deselect_req sid sys = None /\ gen_separate_req sid sys = None /\
  gen_linktest_req sys = None /\ forall pt st reason, gen_reject_req sid pt st sys reason = None.
Proof. intros sid sys H. destruct sys as [|a [|b [|c [|d r]]]]; cbn in H; try lia; repeat split; reflexivity. Qed.
Print Assumptions C14_short_system_bytes.

(* reject: byte 2 is the rejected SType, or the PType when the reason is 2; byte 3 the reason *)
Theorem C14_layout_reject : forall sid pt st a b c d r reason,
  gen_reject_req sid pt st (a :: b :: c :: d :: r) reason =
  Some [z2b (sid / 256); z2b sid; (if byte_eqb reason x02 then pt else st); reason; x00; x07; a; b; c; d].
Proof. intros. reflexivity. Qed.
Print Assumptions C14_layout_reject.

(* responses echo session id and system bytes of the request and carry the
   status in byte 3; a request of the wrong kind is refused *)
Theorem C14_echo : forall req status,
  gen_select_rsp req status =
    (if bytes_eqb (ctl_type req) (B"select.req"%string)
     then Some [bnth req 0; bnth req 1; x00; status; x00; x02; bnth req 6; bnth req 7; bnth req 8; bnth req 9] else None) /\
  gen_deselect_rsp req status =
    (if bytes_eqb (ctl_type req) (B"deselect.req"%string)
     then Some [bnth req 0; bnth req 1; x00; status; x00; x04; bnth req 6; bnth req 7; bnth req 8; bnth req 9] else None) /\
  gen_linktest_rsp req =
    (if bytes_eqb (ctl_type req) (B"linktest.req"%string)
     then Some [xff; xff; x00; x00; x00; x06; bnth req 6; bnth req 7; bnth req 8; bnth req 9] else None).
Proof.
  intros. rewrite tie_select_rsp, tie_deselect_rsp, tie_linktest_rsp. repeat split; reflexivity.
Qed.
Print Assumptions C14_echo.

(* the 14 bytes: length 10, then the header *)
Theorem C14_bytes : forall h, gen_ctl_to_bytes h = [x00; x00; x00; x0a] ++ h.
Proof. intro h. reflexivity. Qed.
Print Assumptions C14_bytes.

(* the reported type is a function of (PType, SType) alone ... *)
Theorem C14_type_function : forall h, gen_ctl_type h = type_of (bnth h 4) (bnth h 5).
Proof. intro h. rewrite tie_ctl_type. apply ctl_type_is. Qed.
Print Assumptions C14_type_function.

(* ... total and correct on all 65,536 pairs (finite sweep by vm_compute, lifted
   with forallb_forall): a defined pair names its kind, any other is
   "undefined", distinct defined STypes have distinct names *)
Theorem C14_type_total : forall p s : byte, type_pair_ok p s = true.
Proof. exact type_pair_all. Qed.
Print Assumptions C14_type_total.

(* decoding the bytes of any control message with a defined SType returns an equal message *)
Theorem C14_decode : forall h,
  length h = 10%nat -> bnth h 4 = x00 -> stype_defined (b2z (bnth h 5)) = true ->
  hsms_parse (gen_ctl_to_bytes h) = Some (HCtl h).
Proof. intros h Hl Hp Hs. rewrite tie_ctl_to_bytes. apply ctl_decodes; assumption. Qed.
Print Assumptions C14_decode.

Example C14_example : gen_select_rsp [x12; x34; x00; x00; x00; x01; x01; x02; x03; x04] x05
                      = Some [x12; x34; x00; x05; x00; x02; x01; x02; x03; x04].
Proof. reflexivity. Qed.
