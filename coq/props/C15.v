(* C15 — declared item sizes [n], [a..b], [a..], [..b] are enforced. *)
From Secs Require Import Ast Fill Msg Lexer Parser SmlNumbers SmlProofs.
Open Scope Z_scope.

(* the check the parser applies to a literal item with a declaration (lo, hi)
   (hi = -1: no upper bound) refuses exactly the counts outside the bounds *)
Theorem C15_iff : forall sz lo hi, 0 <= sz -> 0 <= lo -> -1 <= hi ->
  (size_error sz lo hi = false <-> lo <= sz /\ (hi = -1 \/ sz <= hi)).
Proof. exact size_error_iff. Qed.
Print Assumptions C15_iff.

(* the four declaration forms denote the bounds written, for all bounds an int can hold *)
Theorem C15_form_exact : forall a, 0 <= a < two63 -> parse_size ([x5b] ++ fmt_unsigned 10 a ++ [x5d]) = (a, a).
Proof. exact parse_size_exact. Qed.
Print Assumptions C15_form_exact.
Theorem C15_form_range : forall a b, 0 <= a < two63 -> 0 <= b < two63 ->
  parse_size ([x5b] ++ fmt_unsigned 10 a ++ [x2e; x2e] ++ fmt_unsigned 10 b ++ [x5d]) = (a, b).
Proof. exact parse_size_range. Qed.
Print Assumptions C15_form_range.
Theorem C15_form_lower : forall a, 0 <= a < two63 -> parse_size ([x5b] ++ fmt_unsigned 10 a ++ [x2e; x2e] ++ [x5d]) = (a, -1).
Proof. exact parse_size_lower. Qed.
Print Assumptions C15_form_lower.
Theorem C15_form_upper : forall b, 0 <= b < two63 -> parse_size ([x5b] ++ [x2e; x2e] ++ fmt_unsigned 10 b ++ [x5d]) = (0, b).
Proof. exact parse_size_upper. Qed.
Print Assumptions C15_form_upper.

(* overflowing bounds are clamped to the largest int, which still refuses every real count *)
Theorem C15_overflow : forall n lo, 0 <= n < two63 - 1 -> two63 <= lo ->
  size_error n (fst (atoi (fmt_unsigned 10 lo))) (-1) = true.
Proof. exact clamped_bounds_harmless. Qed.
Print Assumptions C15_overflow.

(* an ASCII variable keeps (mn, mx) and enforces them when filled *)
Theorem C15_variable : forall s n mn mx v, flookup n s = Some (GStr v) ->
  (fill_ascii_var s n mn mx = new_ascii v /\ within mn mx (Z.of_nat (length v))) \/
  (fill_ascii_var s n mn mx = None /\ ~ within mn mx (Z.of_nat (length v))).
Proof. exact fill_ascii_var_bounds. Qed.
Print Assumptions C15_variable.

Example C15_example : parse_size (B"[2..5]"%string) = (2, 5) /\ size_error 6 2 5 = true /\ size_error 5 2 5 = false.
Proof. repeat split; reflexivity. Qed.
