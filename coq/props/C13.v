(* C13 — 16,777,215-byte item limit and length header are exact for every size.
   Statements only; every proof is one lemma of the development. *)
From Secs Require Import Ast Fill Msg WireSpec WireLemmas HeaderProofs WireEnc WireDec.
Open Scope Z_scope.

(* one length byte up to 255, two up to 65,535, three beyond — for every type
   name of the table and every size, by arithmetic *)
Theorem C13_length_bytes : forall len,
  len_k len = if len <=? 255 then 1%nat else if len <=? 65535 then 2%nat else 3%nat.
Proof. reflexivity. Qed.
Print Assumptions C13_length_bytes.

Theorem C13_header_exact : forall typ size,
  let len := data_byte_length typ size in
  0 <= len <= 16777215 ->
  header_bytes typ size =
    Some (z2b (lookup typ format_code * 4 + Z.of_nat (len_k len)) :: be_enc (len_k len) len).
Proof. exact header_bytes_exact. Qed.
Print Assumptions C13_header_exact.

Theorem C13_header_refused : forall typ size,
  16777215 < data_byte_length typ size -> header_bytes typ size = None.
Proof. exact header_bytes_refused. Qed.
Print Assumptions C13_header_refused.

(* the byte count is count * width, with the widths of SEMI E5 *)
Theorem C13_width : forall k w, fmt_ok k w ->
  forall n, data_byte_length (tyname k w) n = n * Z.of_nat w.
Proof. intros k w H n. unfold data_byte_length. rewrite (width_lookup_tyname k w H). reflexivity. Qed.
Print Assumptions C13_width.

(* the length field reads back as the same number *)
Theorem C13_readback : forall len, 0 <= len <= 16777215 ->
  be_dec (be_enc (len_k len) len) = len.
Proof. exact header_readback. Qed.
Print Assumptions C13_readback.

(* constructible iff count * width <= 16,777,215, given admissible elements *)
Theorem C13_constructible_iff : forall k w args xs,
  fmt_ok k w ->
  map_opt (leaf_arg k w) args = Some xs -> forallb (val_okb k w) xs = true -> names_ok xs = true ->
  (new_leaf k w args = Some (ILeaf k w xs) <-> Z.of_nat (length args) * Z.of_nat w <= 16777215) /\
  (new_leaf k w args = None <-> 16777215 < Z.of_nat (length args) * Z.of_nat w).
Proof.
  intros k w args xs Hf Hm Hv Hn. unfold new_leaf. rewrite Hm, Hv, Hn, (width_okb_of k w Hf). cbn [andb].
  destruct (size_ok (size_typ k w) (length args)) eqn:Hs; cbn [negb].
  - apply size_ok_iff in Hs. unfold data_byte_length, MAX_BYTE_SIZE in Hs. rewrite (width_lookup k w Hf) in Hs.
    split; split; intro H; try reflexivity; try discriminate; lia.
  - assert (~ data_byte_length (size_typ k w) (Z.of_nat (length args)) <= MAX_BYTE_SIZE) as Hs'
      by (intro H; apply size_ok_iff in H; congruence).
    unfold data_byte_length, MAX_BYTE_SIZE in Hs'. rewrite (width_lookup k w Hf) in Hs'.
    split; split; intro H; try reflexivity; try discriminate; lia.
Qed.
Print Assumptions C13_constructible_iff.

(* every constructible value item has a non-empty encoding with a correct,
   minimal length field (the `wire true` relation of WireSpec.v states it) *)
Theorem C13_encoding : forall t, value_item t -> to_bytes t <> [] /\ wire true t (to_bytes t).
Proof. intros t H. pose proof (to_bytes_conforms t H) as W. split; [exact (wire_nonempty _ _ _ W)|exact W]. Qed.
Print Assumptions C13_encoding.

(* the decoder reads every such length field back as the same count *)
Theorem C13_decoder_reads : forall t, value_item t -> forall rest,
  dec_item (S (length (to_bytes t))) (to_bytes t ++ rest) (Z.of_nat (length (to_bytes t ++ rest))) =
  Some (t, rest, Z.of_nat (length rest)).
Proof.
  intros t H rest. pose proof (wire_strict_lenient _ _ (to_bytes_conforms t H)) as W.
  apply dec_item_complete; [exact W|]. pose proof (need_le_length _ _ W). lia.
Qed.
Print Assumptions C13_decoder_reads.

(* non-vacuity: a 65,536-element U2 item meets the hypotheses *)
Example C13_example : fmt_ok KUint 2 /\ 0 <= data_byte_length (tyname KUint 2) 65536 <= 16777215.
Proof. cbn. split; [auto|unfold data_byte_length; cbn; lia]. Qed.
