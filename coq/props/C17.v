(* C17 — shared items, messages and parsers are safe for concurrent use
   (partial by nature: the Go memory model, the runtime and the standard
   library's own thread safety are outside a Gallina model; the dynamic half is
   the -race driver of the check). *)
From Secs Require Import Bytes EffectsTie Conc.
From Secs.gen Require Import Effects.

(* every function of the three packages writes only memory it allocated in the
   same call tree: no package-level variable, no goroutine, writes only through
   the call-local work objects, which the API never hands out *)
Theorem C17_footprints : stmt_no_package_vars /\ stmt_no_shared_writes /\ stmt_work_types_hidden.
Proof. exact (conj no_package_vars (conj no_shared_writes work_types_hidden)). Qed.
Print Assumptions C17_footprints.

(* calls with such footprints: no two accesses of different threads conflict, in any interleaving *)
Theorem C17_drf : forall tr, scoped_trace tr -> forall e1 e2, In e1 tr -> In e2 tr -> ~ conflict e1 e2.
Proof. exact no_conflicts. Qed.
Print Assumptions C17_drf.

(* ... and every call reads, hence returns, what it does when run alone *)
Theorem C17_results : forall tid tr, scoped_trace tr ->
  forall m1 m2, agree tid m1 m2 -> reads_of tid m1 tr = reads_of tid m2 (project tid tr).
Proof. exact reads_as_alone. Qed.
Print Assumptions C17_results.
