(* C18 — message producers change exactly the fields they name. *)
From Secs Require Import Ast FloatProofs Fill Msg Api WireSpec WireLemmas WireValues WireEnc WireDec MsgProofs AstProofs.
Open Scope Z_scope.

Theorem C18_setwaitbit : forall m b m',
  set_wait_bit m b = Some m' ->
  same_but_wbit m m' /\
  (m_wbit m <> 2 -> m' = m) /\
  (m_wbit m = 2 -> m_wbit m' = (if b then 1 else 0) /\ msg_ok m' = true).
Proof. exact set_wait_bit_frame. Qed.
Print Assumptions C18_setwaitbit.

Theorem C18_setsession : forall m sid sys m',
  set_session m sid sys = Some m' ->
  same_but_session m m' /\ m_sid m' = sid /\ length (m_sys m') = 4%nat /\
  (forall i, (i < 4)%nat -> nth i (m_sys m') x00 = nth i sys x00) /\ msg_ok m' = true.
Proof. exact set_session_frame. Qed.
Print Assumptions C18_setsession.

Theorem C18_fill : forall m s m',
  fill_msg m s = Some m' ->
  same_but_item m m' /\ fill s (m_item m) = Some (m_item m') /\ msg_ok m' = true.
Proof. exact fill_msg_frame. Qed.
Print Assumptions C18_fill.

(* any sequence of producers: the result is valid, and name, stream, function and direction never change *)
Theorem C18_sequences : forall ps m m',
  msg_ok m = true -> fold_left apply_producer ps (Some m) = Some m' ->
  msg_ok m' = true /\ m_name m' = m_name m /\ m_stream m' = m_stream m /\ m_function m' = m_function m /\ m_dir m' = m_dir m.
Proof. exact producers_valid. Qed.
Print Assumptions C18_sequences.
