(* C04 — SML print -> parse round trip (partial: the literal level is proved,
   the token and character levels are decided by correspondence and monitors). *)
From Secs Require Import Ast Fill Msg Lexer Parser SmlNumbers SmlProofs.
Open Scope Z_scope.

(* integers are printed in decimal (FormatInt); scanning the printed form gives the value back *)
Theorem C04_partial_decimal : forall z bits, 0 < bits -> z <> 0 -> - 2 ^ (bits - 1) <= z < 2 ^ (bits - 1) ->
  parse_int (fmt_int z) bits = (z, NumOk).
Proof.
  intros z bits Hb Hz Hr. rewrite parse_int_decimal by assumption.
  destruct (Z.ltb_spec z (- 2 ^ (bits - 1))); [lia|]. destruct (Z.leb_spec (2 ^ (bits - 1)) z); [lia|reflexivity].
Qed.
Print Assumptions C04_partial_decimal.

Theorem C04_partial_unsigned : forall n bits, 0 < n -> 0 < bits -> n < 2 ^ bits ->
  parse_uint (fmt_unsigned 10 n) bits = (n, NumOk).
Proof.
  intros n bits Hn Hb Hr. rewrite parse_uint_decimal by assumption.
  destruct (Z.ltb_spec (2 ^ bits - 1) n); [lia|reflexivity].
Qed.
Print Assumptions C04_partial_unsigned.

(* binary items are printed as 0b + binary digits *)
Theorem C04_partial_binary : forall n, 0 <= n -> parse_unsigned_base0 (x30 :: x62 :: fmt_bin n) = Some n.
Proof. intros n Hn. apply (parse_unsigned_prefixed x62 2 n Hn). right; left. split; [left; reflexivity|reflexivity]. Qed.
Print Assumptions C04_partial_binary.

(* sizes are printed in decimal and read back *)
Theorem C04_partial_size : forall a, 0 <= a < two63 -> parse_size ([x5b] ++ fmt_unsigned 10 a ++ [x5d]) = (a, a).
Proof. exact parse_size_exact. Qed.
Print Assumptions C04_partial_size.

(* C04_print_parse (missing): parse (print_msg m) = ([m], [], []) for every
   canonical message — the composition of the literal lemmas above with the
   lexing of the printed layout is not proved; it is decided on the library by
   the monitors of suite C04 (print -> parse -> compare, and the fixed point of
   every accepted text) and by the correspondence of printer, lexer and parser
   with the model. *)
