(* C04 — SML print -> parse round trip (partial: the literal level is proved,
   the token and character levels are decided by correspondence and monitors). *)
From Secs Require Import Ast FloatProofs Fill Msg WireSpec WireLemmas WireValues HeaderProofs WireEnc WireDec MsgProofs AstProofs FillProofs FillCompose.
From Secs Require Import PrintProofs Lexer Parser SmlNumbers SmlProofs LexProofs ParseProofs OffsetProofs TokenProofs AsciiTokens TokenTrees LexPrinted AsciiLex LexTrees MsgRoundTrip CaseProofs LexNames NameLex Converse.
Open Scope Z_scope.

(* integers are printed in decimal (FormatInt); scanning the printed form gives the value back *)
Theorem C04_partial_decimal : forall z bits, 0 < bits -> z <> 0 -> - 2 ^ (bits - 1) <= z < 2 ^ (bits - 1) ->
  parse_int (fmt_int z) bits = (z, NumOk).
Proof.
  intros z bits Hb Hz Hr. rewrite parse_int_decimal by assumption.
  destruct (Z.ltb_spec z (- 2 ^ (bits - 1))); [lia|]. destruct (Z.leb_spec (2 ^ (bits - 1)) z); [lia|reflexivity].
Qed.
Print Assumptions C04_partial_decimal.

Theorem C04_partial_unsigned : forall n bits, 0 < n -> 0 < bits -> n < 2 ^ bits ->
  parse_uint (fmt_unsigned 10 n) bits = (n, NumOk).
Proof.
  intros n bits Hn Hb Hr. rewrite parse_uint_decimal by assumption.
  destruct (Z.ltb_spec (2 ^ bits - 1) n); [lia|reflexivity].
Qed.
Print Assumptions C04_partial_unsigned.

(* binary items are printed as 0b + binary digits *)
Theorem C04_partial_binary : forall n, 0 <= n -> parse_unsigned_base0 (x30 :: x62 :: fmt_bin n) = Some n.
Proof. intros n Hn. apply (parse_unsigned_prefixed x62 2 n Hn). right; left. split; [left; reflexivity|reflexivity]. Qed.
Print Assumptions C04_partial_binary.

(* sizes are printed in decimal and read back *)
Theorem C04_partial_size : forall a, 0 <= a < two63 -> parse_size ([x5b] ++ fmt_unsigned 10 a ++ [x5d]) = (a, a).
Proof. exact parse_size_exact. Qed.
Print Assumptions C04_partial_size.

(* token level, value items of the integer, unsigned, binary and boolean
   formats: from the tokens of the printed elements "e1 ... en >" the parser
   builds exactly the item that was printed — every stored value is read back,
   every variable is kept under its name — and reports nothing *)
Theorem C04_leaf_tokens : forall floats fl k w xs st rab rest,
  fmt_ok k w -> Forall (slot_built k w) xs -> Forall (slot_scans floats fl k w) xs -> size_ok (size_typ k w) (length xs) = true -> width_okb k w = true ->
  forallb (val_okb k w) xs = true -> names_ok xs = true ->
  (forall n, In n (slot_vars xs) -> known_name st n = false) ->
  toks st = map (slot_token fl k w) xs ++ rab :: rest -> t_typ rab = TRAB ->
  exists st', parse_numeric floats (nk_of k w) st = (IOk (ILeaf k w xs), st') /\
              toks st' = rab :: rest /\ errs st' = errs st /\ warns st' = warns st /\ msgs st' = msgs st /\ names_char st st' (slot_vars xs).
Proof. exact leaf_parses_back. Qed.
Print Assumptions C04_leaf_tokens.

(* the whole printed value item "<TYPE[n] e1 ... en>": '<', the type name, the
   size declaration (which the item meets), the elements, '>' *)
Theorem C04_leaf_item : forall floats fl rec_list k w xs st rest,
  fmt_ok k w -> Forall (slot_built k w) xs -> Forall (slot_scans floats fl k w) xs -> size_ok (size_typ k w) (length xs) = true -> width_okb k w = true ->
  forallb (val_okb k w) xs = true -> names_ok xs = true ->
  (forall n, In n (slot_vars xs) -> known_name st n = false) ->
  toks st = leaf_tokens fl k w xs ++ rest ->
  exists st', parse_item_body floats rec_list st = (Some (ILeaf k w xs), st') /\
              toks st' = rest /\ errs st' = errs st /\ warns st' = warns st /\ msgs st' = msgs st /\ names_char st st' (slot_vars xs).
Proof. exact leaf_item_parses_back. Qed.
Print Assumptions C04_leaf_item.

(* whole item trees made of lists, list variables — named ones and ellipses
   (printed as "...", numbered by the parser from its per-message counter:
   `canon e` says the tree's ellipsis names are "...[e]", "...[e+1]", ... in
   order of occurrence) — value items of every format, ASCII items (any
   characters: printable runs in quotes, the others as 0xNN) and ASCII variables
   with their length constraints, of any size and nesting: from the tokens of
   the printed form the parser rebuilds the same tree, reports nothing,
   consumes exactly those tokens, records exactly the tree's named variables
   and advances its ellipsis counter by the number of ellipses *)
Theorem C04_item_tokens : forall floats fl t st rest,
  printable t -> scans floats fl t -> (forall n, In n (vars t) -> known_name st n = false) -> canon (ecount st) (vars t) ->
  toks st = item_tokens fl t ++ rest ->
  exists st', parse_item floats (S (length (toks st))) st = (Some t, st') /\ toks st' = rest /\
              errs st' = errs st /\ warns st' = warns st /\ msgs st' = msgs st /\ names_char st st' (named (vars t)) /\
              ecount st' = ecount st + Z.of_nat (length (ells (vars t))).
Proof. exact item_parses_back. Qed.
Print Assumptions C04_item_tokens.

(* character level: the text String() prints for such a tree — at any
   indentation, followed by any text — is read by the lexer into tokens
   (`lexes`: for every amount of fuel left) from which the parser rebuilds
   exactly the tree that was printed, reporting nothing and consuming exactly
   those tokens.  Printer model, lexer model and parser model composed. *)
Theorem C04_print_lex_parse : forall alnum floats fl level t rest off,
  printable t -> scans floats fl t -> lexable alnum fl t ->
  exists ts, lexes alnum LText (render fl (print_item_at level t) ++ rest) off ts LText rest
               (off + zlen (render fl (print_item_at level t))) /\
    forall st more, toks st = ts ++ more -> (forall n, In n (vars t) -> known_name st n = false) -> canon (ecount st) (vars t) ->
      exists st', parse_item floats (S (length (toks st))) st = (Some t, st') /\ toks st' = more /\ errs st' = errs st.
Proof. exact print_lex_parse_item. Qed.
Print Assumptions C04_print_lex_parse.

(* the hypotheses hold of a nested tree with values and variables, whose printed text is pinned too *)
Example C04_premises :
  let t := IList [ILeaf KUint 1 [SV 1; SX (B"x"%string)]; IVar (B"v"%string); IList [ILeaf KBool 1 [SV 1; SV 0]; ILeaf KInt 2 [SV (-7)]]] in
  printable t /\ forall alnum floats fl, scans floats fl t /\ lexable alnum fl t.
Proof.
  intro t. split; [exact (proj1 (proj1 print_lex_parse_example [] (fun _ _ => [])))|].
  intros alnum floats fl. split; [|exact (proj2 (proj1 print_lex_parse_example alnum fl))].
  cbn [scans t]. repeat split; repeat constructor; try reflexivity; try discriminate.
Qed.

(* the float hypotheses are satisfiable too: oracles answering "1.5" for the
   float64 bit pattern of 1.5, an F8 item holding it *)
Example C04_float_premises :
  let v := 4609434218613702656 in
  let fl := fun (_ : nat) (_ : Z) => B"1.5"%string in
  let floats := [(B"1.5"%string, (0, 1069547520, 0, v))] in
  let t := ILeaf KFloat 8 [SV v] in
  printable t /\ scans floats fl t /\ forall alnum, lexable alnum fl t.
Proof. exact float_premises. Qed.

(* END TO END: sml.Parse of the printed form of any sequence of messages — any
   stream/function code, wait bit, direction, a name the header lexer reads as
   one name, an item tree as above (named variables, ellipses numbered from 0
   in each message, every item format) or none — returns exactly those messages,
   no error, no warning: printer, lexer and parser models composed, for every
   size, nesting and value *)
Theorem C04_print_parse : forall alnum floats fl ms, Forall (msg_good alnum floats fl) ms ->
  let r := sml_parse alnum floats (msgs_text fl ms) in
  r_msgs r = ms /\ r_errs r = [] /\ r_warns r = [] /\ r_crashed r = false.
Proof. exact print_parse_messages. Qed.
Print Assumptions C04_print_parse.

(* the hypotheses of C04_print_parse hold of two messages, one of them with a
   nested item that has named variables, two ellipses, a quoted text with a
   quote and a line feed in it, an ASCII variable and an empty ASCII item *)
Example C04_print_parse_premises :
  let m1 := {| m_name := B"Report"%string; m_stream := 6; m_function := 11; m_wbit := 1; m_dir := B"H<-E"%string;
               m_item := IList [ILeaf KUint 4 [SX (B"dataid"%string); SV 7]; IVar (B"v"%string);
                                IList [ILeaf KBin 1 [SV 255]; ILeaf KBool 1 [SV 1]; IAscii (B"say " ++ [x22] ++ B"hi" ++ [x22; x0a])%string; IAsciiVar (B"txt"%string) 1 10; IAscii []; IVar (B"...[0]"%string)];
                                IVar (B"...[1]"%string)];
               m_sid := -1; m_sys := [x00; x00; x00; x00] |} in
  let m2 := {| m_name := []; m_stream := 1; m_function := 2; m_wbit := 0; m_dir := B"H<->E"%string;
               m_item := IEmpty; m_sid := -1; m_sys := [x00; x00; x00; x00] |} in
  forall alnum floats fl, Forall (msg_good alnum floats fl) [m1; m2].
Proof. exact print_parse_example. Qed.

(* the text is what the message printer prints: one message per entry, a line feed after each *)
Theorem C04_text : forall fl ms, msgs_text fl ms = flat_map (fun m => render fl (msg_print m) ++ [x0a]) ms.
Proof. reflexivity. Qed.

(* THE CONVERSE DIRECTION.  Every message sml.Parse returns — from any text
   whatever — lies in the printable sub-grammar: its item is `printable`, its
   ellipses are numbered from 0 as the parser numbers them, every variable name
   in it is one the lexer reads back as that variable (sml_var), and its name is
   read back as one name (name_lexes): proved by following the parser through
   every branch under "no error was added", and the lexer through every step
   (variable tokens: LexNames.v; name tokens, including names with invalid or
   truncated UTF-8 in them: NameLex.v). *)
Theorem C04_parsed_is_printable : forall alnum floats input, floats_wf floats ->
  Forall (sml_msg0 sml_var (name_lexes alnum)) (r_msgs (sml_parse alnum floats input)).
Proof. exact parsed_messages_printable. Qed.
Print Assumptions C04_parsed_is_printable.

(* hence, at token level: from the tokens of the printed form of a returned
   message the parser rebuilds that message *)
Theorem C04_fixed_point_tokens : forall alnum floats fl input m st rest, floats_wf floats ->
  In m (r_msgs (sml_parse alnum floats input)) ->
  (m_item m = IEmpty \/ scans floats fl (m_item m)) ->
  toks st = msg_tokens fl m ++ rest ->
  exists st', parse_message floats st = (true, st') /\ toks st' = rest /\ errs st' = errs st /\ warns st' = warns st /\
              msgs st' = msgs st ++ [m] /\ crashed st' = crashed st.
Proof. exact printed_tokens_parse_back. Qed.
Print Assumptions C04_fixed_point_tokens.

(* and at character level: for every text sml.Parse accepts, printing the
   returned messages and parsing the printed text returns exactly those
   messages, no error, no warning: the printed form is a fixed point.  The only
   hypotheses concern the two float oracles on the float values that occur
   (`scans`: ParseFloat of FormatFloat's text gives the value back; `floats_lex`:
   that text is lexed as one number); floats_wf says the ParseFloat oracle hands
   out 32- and 64-bit patterns. *)
Theorem C04_fixed_point : forall alnum floats fl input, floats_wf floats ->
  let ms := r_msgs (sml_parse alnum floats input) in
  Forall (fun m => m_item m = IEmpty \/ (scans floats fl (m_item m) /\ floats_lex alnum fl (m_item m))) ms ->
  let r := sml_parse alnum floats (msgs_text fl ms) in
  r_msgs r = ms /\ r_errs r = [] /\ r_warns r = [] /\ r_crashed r = false.
Proof. exact printed_form_is_fixed_point. Qed.
Print Assumptions C04_fixed_point.

(* for messages without float values there is no hypothesis left *)
Theorem C04_fixed_point_no_floats : forall alnum floats fl input, floats_wf floats ->
  let ms := r_msgs (sml_parse alnum floats input) in
  Forall (fun m => no_floats (m_item m)) ms ->
  let r := sml_parse alnum floats (msgs_text fl ms) in
  r_msgs r = ms /\ r_errs r = [] /\ r_warns r = [] /\ r_crashed r = false.
Proof. exact printed_form_is_fixed_point_no_floats. Qed.
Print Assumptions C04_fixed_point_no_floats.

(* the hypotheses are met by an accepted text with variables, an ellipsis, a
   comment and a second message; the fixed point is computed on it *)
Example C04_fixed_point_premises :
  let input := B"S6F11 W H<-E Report // c
<L <U4 dataid 7> v <L[2] <B 0xff> <A ""hi"" 0x0A>> ...>.
S1F2 .
"%string in
  let r := sml_parse [] [] input in
  r_errs r = [] /\ length (r_msgs r) = 2%nat /\ Forall (fun m => no_floats (m_item m)) (r_msgs r) /\
  r_msgs (sml_parse [] [] (msgs_text (fun _ _ => []) (r_msgs r))) = r_msgs r.
Proof. vm_compute. repeat split; repeat constructor. Qed.

(* Float items are covered under two explicit hypotheses about the two oracles
   (strconv.FormatFloat = fl, strconv.ParseFloat = floats), both part of
   msg_good: [scans] — ParseFloat of the printed text gives the value back, at
   the item's width — and [lexable]'s float_lexes — the printed text is lexed as
   one number token.  Both oracles are recorded from the library on every run
   and the two hypotheses are monitored on every float the suites print.

   C04_remaining: the float-oracle hypotheses (strconv is not modelled) are
   exercised on the library by the monitors of suite C04 (print -> parse ->
   compare, and the fixed point of every accepted text). *)
