(* C04 — SML print -> parse round trip (partial: the literal level is proved,
   the token and character levels are decided by correspondence and monitors). *)
From Secs Require Import Ast FloatProofs Fill Msg WireSpec WireLemmas WireValues HeaderProofs WireEnc WireDec MsgProofs AstProofs FillProofs FillCompose.
From Secs Require Import PrintProofs Lexer Parser SmlNumbers SmlProofs LexProofs ParseProofs OffsetProofs TokenProofs AsciiTokens TokenTrees LexPrinted AsciiLex LexTrees MsgRoundTrip.
Open Scope Z_scope.

(* integers are printed in decimal (FormatInt); scanning the printed form gives the value back *)
Theorem C04_partial_decimal : forall z bits, 0 < bits -> z <> 0 -> - 2 ^ (bits - 1) <= z < 2 ^ (bits - 1) ->
  parse_int (fmt_int z) bits = (z, NumOk).
Proof.
  intros z bits Hb Hz Hr. rewrite parse_int_decimal by assumption.
  destruct (Z.ltb_spec z (- 2 ^ (bits - 1))); [lia|]. destruct (Z.leb_spec (2 ^ (bits - 1)) z); [lia|reflexivity].
Qed.
Print Assumptions C04_partial_decimal.

Theorem C04_partial_unsigned : forall n bits, 0 < n -> 0 < bits -> n < 2 ^ bits ->
  parse_uint (fmt_unsigned 10 n) bits = (n, NumOk).
Proof.
  intros n bits Hn Hb Hr. rewrite parse_uint_decimal by assumption.
  destruct (Z.ltb_spec (2 ^ bits - 1) n); [lia|reflexivity].
Qed.
Print Assumptions C04_partial_unsigned.

(* binary items are printed as 0b + binary digits *)
Theorem C04_partial_binary : forall n, 0 <= n -> parse_unsigned_base0 (x30 :: x62 :: fmt_bin n) = Some n.
Proof. intros n Hn. apply (parse_unsigned_prefixed x62 2 n Hn). right; left. split; [left; reflexivity|reflexivity]. Qed.
Print Assumptions C04_partial_binary.

(* sizes are printed in decimal and read back *)
Theorem C04_partial_size : forall a, 0 <= a < two63 -> parse_size ([x5b] ++ fmt_unsigned 10 a ++ [x5d]) = (a, a).
Proof. exact parse_size_exact. Qed.
Print Assumptions C04_partial_size.

(* token level, value items of the integer, unsigned, binary and boolean
   formats: from the tokens of the printed elements "e1 ... en >" the parser
   builds exactly the item that was printed — every stored value is read back,
   every variable is kept under its name — and reports nothing *)
Theorem C04_leaf_tokens : forall floats k w xs st rab rest,
  k <> KFloat -> fmt_ok k w ->
  Forall (slot_built k w) xs -> size_ok (size_typ k w) (length xs) = true -> width_okb k w = true ->
  forallb (val_okb k w) xs = true -> names_ok xs = true ->
  (forall n, In n (slot_vars xs) -> known_name st n = false) ->
  toks st = map (slot_token k) xs ++ rab :: rest -> t_typ rab = TRAB ->
  exists st', parse_numeric floats (nk_of k w) st = (IOk (ILeaf k w xs), st') /\
              toks st' = rab :: rest /\ errs st' = errs st /\ warns st' = warns st /\ msgs st' = msgs st /\ names_char st st' (slot_vars xs).
Proof. exact leaf_parses_back. Qed.
Print Assumptions C04_leaf_tokens.

(* the whole printed value item "<TYPE[n] e1 ... en>": '<', the type name, the
   size declaration (which the item meets), the elements, '>' *)
Theorem C04_leaf_item : forall floats rec_list k w xs st rest,
  k <> KFloat -> fmt_ok k w ->
  Forall (slot_built k w) xs -> size_ok (size_typ k w) (length xs) = true -> width_okb k w = true ->
  forallb (val_okb k w) xs = true -> names_ok xs = true ->
  (forall n, In n (slot_vars xs) -> known_name st n = false) ->
  toks st = leaf_tokens k w xs ++ rest ->
  exists st', parse_item_body floats rec_list st = (Some (ILeaf k w xs), st') /\
              toks st' = rest /\ errs st' = errs st /\ warns st' = warns st /\ msgs st' = msgs st /\ names_char st st' (slot_vars xs).
Proof. exact leaf_item_parses_back. Qed.
Print Assumptions C04_leaf_item.

(* whole item trees made of lists, plain list variables, integer / unsigned /
   binary / boolean value items, ASCII items (any characters: printable runs in
   quotes, the others as 0xNN) and ASCII variables with their length
   constraints, of any size and nesting: from the tokens of
   the printed form the parser rebuilds the same tree, reports nothing,
   consumes exactly those tokens and records exactly the tree's variables *)
Theorem C04_item_tokens : forall floats t st rest,
  printable t -> (forall n, In n (vars t) -> known_name st n = false) ->
  toks st = item_tokens t ++ rest ->
  exists st', parse_item floats (S (length (toks st))) st = (Some t, st') /\ toks st' = rest /\
              errs st' = errs st /\ warns st' = warns st /\ msgs st' = msgs st /\ names_char st st' (vars t).
Proof. exact item_parses_back. Qed.
Print Assumptions C04_item_tokens.

(* character level: the text String() prints for such a tree — at any
   indentation, followed by any text — is read by the lexer into tokens
   (`lexes`: for every amount of fuel left) from which the parser rebuilds
   exactly the tree that was printed, reporting nothing and consuming exactly
   those tokens.  Printer model, lexer model and parser model composed. *)
Theorem C04_print_lex_parse : forall alnum floats fl level t rest off,
  printable t -> lexable t ->
  exists ts, lexes alnum LText (render fl (print_item_at level t) ++ rest) off ts LText rest
               (off + zlen (render fl (print_item_at level t))) /\
    forall st more, toks st = ts ++ more -> (forall n, In n (vars t) -> known_name st n = false) ->
      exists st', parse_item floats (S (length (toks st))) st = (Some t, st') /\ toks st' = more /\ errs st' = errs st.
Proof. exact print_lex_parse_item. Qed.
Print Assumptions C04_print_lex_parse.

(* the hypotheses hold of a nested tree with values and variables, whose printed text is pinned too *)
Example C04_premises :
  let t := IList [ILeaf KUint 1 [SV 1; SX (B"x"%string)]; IVar (B"v"%string); IList [ILeaf KBool 1 [SV 1; SV 0]; ILeaf KInt 2 [SV (-7)]]] in
  printable t /\ lexable t.
Proof. destruct print_lex_parse_example as (H1 & H2 & _). split; assumption. Qed.

(* END TO END: sml.Parse of the printed form of any sequence of messages — any
   stream/function code, wait bit, direction, a name the header lexer reads as
   one name, an item tree as above or none — returns exactly those messages,
   no error, no warning: printer, lexer and parser models composed, for every
   size, nesting and value *)
Theorem C04_print_parse : forall alnum floats fl ms, Forall (msg_good alnum) ms ->
  let r := sml_parse alnum floats (msgs_text fl ms) in
  r_msgs r = ms /\ r_errs r = [] /\ r_warns r = [] /\ r_crashed r = false.
Proof. exact print_parse_messages. Qed.
Print Assumptions C04_print_parse.

(* the text is what the message printer prints: one message per entry, a line feed after each *)
Theorem C04_text : forall fl ms, msgs_text fl ms = flat_map (fun m => render fl (msg_print m) ++ [x0a]) ms.
Proof. reflexivity. Qed.

(* C04_remaining: float items (their text is an oracle) and ellipses at the
   token and character levels, and the converse direction (fixed
   point of every accepted text) are not proved; they are decided on the library by the monitors of suite C04 (print
   -> parse -> compare, and the fixed point of every accepted text) and by the
   correspondence of printer, lexer and parser with the model. *)
