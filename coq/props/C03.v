(* C03 — the HSMS decoder accepts exactly well-formed messages and decodes them exactly. *)
From Secs Require Import Ast Fill Msg WireSpec WireLemmas HeaderProofs WireEnc WireDec MsgProofs.
Open Scope Z_scope.

(* accepted  =>  one well-formed frame (E37) whose text is empty or exactly one
   lenient E5 item, and the result denotes exactly those bytes *)
Theorem C03_sound : forall bs hm, hsms_parse bs = Some hm -> frame_wf bs hm.
Proof. exact hsms_parse_sound. Qed.
Print Assumptions C03_sound.

(* well-formed  =>  accepted, with that result *)
Theorem C03_complete : forall bs hm, frame_wf bs hm -> hsms_parse bs = Some hm.
Proof. exact hsms_parse_complete. Qed.
Print Assumptions C03_complete.

(* a byte string denotes at most one message *)
Theorem C03_unique : forall bs a b, frame_wf bs a -> frame_wf bs b -> a = b.
Proof. exact frame_unique. Qed.
Print Assumptions C03_unique.

(* item level: whatever dec_item consumes is a lenient encoding of what it returns ... *)
Theorem C03_item_sound : forall fuel bs t rest rem',
  dec_item fuel bs (Z.of_nat (length bs)) = Some (t, rest, rem') ->
  exists enc, bs = enc ++ rest /\ wire false t enc.
Proof. exact dec_item_sound. Qed.
Print Assumptions C03_item_sound.

(* ... and every lenient encoding (1, 2 or 3 length bytes, any non-zero byte for true) is decoded *)
Theorem C03_item_complete : forall t bs, wire false t bs -> forall fuel rest, (length bs <= fuel)%nat ->
  dec_item fuel (bs ++ rest) (Z.of_nat (length (bs ++ rest))) = Some (t, rest, Z.of_nat (length rest)).
Proof. intros t bs W fuel rest Hf. apply dec_item_complete; [exact W|]. pose proof (need_le_length _ _ W). lia. Qed.
Print Assumptions C03_item_complete.

(* re-encoding reproduces the input up to minimal length bytes and 0/1
   booleans: the item the input denotes leniently is re-encoded strictly *)
Theorem C03_reencode : forall bs m, hsms_parse bs = Some (HData m) ->
  msg_complete m = true /\ msg_ok m = true /\
  ((m_item m = IEmpty /\ length bs = 14%nat) \/
   exists text, skipn 14 bs = text /\ wire false (m_item m) text /\ wire true (m_item m) (to_bytes (m_item m))).
Proof. exact decoded_reencodes. Qed.
Print Assumptions C03_reencode.

Theorem C03_strict_is_lenient : forall t bs, wire true t bs -> wire false t bs.
Proof. exact wire_strict_lenient. Qed.
Print Assumptions C03_strict_is_lenient.
