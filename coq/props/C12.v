(* C12 — constructors store exactly what was passed or refuse it. *)
From Secs Require Import Ast FloatProofs FloatRound Fill Msg Api WireSpec WireLemmas WireValues WireEnc WireDec MsgProofs AstProofs FillProofs.
Open Scope Z_scope.

(* the five value-item factories: every stored element is the mathematical
   value of the argument (any Go integer type, within that type's range), in
   the item's range; floats are the float64 / float32 pattern of the value,
   finite and, for F4, within +-MaxFloat32; strings are variable names (or
   "0b..." digits in a binary item).  [stored] is defined in AstProofs.v. *)
Theorem C12_leaf_exact : forall k w args t,
  Forall arg_in_go_range args -> new_leaf k w args = Some t ->
  exists xs, t = ILeaf k w xs /\ Forall2 (stored k w) args xs /\
             width_okb k w = true /\ names_ok xs = true /\
             Z.of_nat (length args) * lookup (size_typ k w) byte_per_value <= 16777215.
Proof. exact new_leaf_exact. Qed.
Print Assumptions C12_leaf_exact.

(* nothing is wrapped around: an integer argument is stored as itself or refused *)
Theorem C12_int_no_wrap : forall k z, go_range k z ->
  (int_arg (GInt k z) = Some (SV z) /\ z < two63) \/ (int_arg (GInt k z) = None /\ two63 <= z).
Proof. exact int_arg_exact. Qed.
Print Assumptions C12_int_no_wrap.

Theorem C12_uint_no_wrap : forall k z, go_range k z ->
  (uint_arg (GInt k z) = Some (SV z) /\ 0 <= z) \/ (uint_arg (GInt k z) = None /\ z < 0).
Proof. exact uint_arg_exact. Qed.
Print Assumptions C12_uint_no_wrap.

(* a refusal always has one of the documented reasons *)
Theorem C12_leaf_refused : forall k w args,
  new_leaf k w args = None ->
  16777215 < Z.of_nat (length args) * lookup (size_typ k w) byte_per_value \/
  (exists a, In a args /\ leaf_arg k w a = None) \/
  width_okb k w = false \/
  (exists xs, map_opt (leaf_arg k w) args = Some xs /\ (forallb (val_okb k w) xs = false \/ names_ok xs = false)).
Proof. exact new_leaf_refused. Qed.
Print Assumptions C12_leaf_refused.

(* float conversions keep accepted values finite *)
Theorem C12_float32_finite : forall b, is_u64 b -> f64_finite b = true -> abs_le_maxf32 b = true -> f32_finite (f64_to_f32 b) = true.
Proof. exact f64_to_f32_finite. Qed.
Print Assumptions C12_float32_finite.

(* a float32 value survives the float64 detour every factory and the parser take:
   widening (exact, subnormals normalised) then narrowing (round to nearest even)
   is the identity on every finite float32 bit pattern — zeros, subnormals, normals *)
Theorem C12_float32_roundtrip : forall b, is_u32 b -> f32_finite b = true -> f64_to_f32 (f32_to_f64 b) = b.
Proof. exact f32_roundtrip. Qed.
Print Assumptions C12_float32_roundtrip.

Theorem C12_ascii : forall s,
  (new_ascii s = Some (IAscii s) /\ Z.of_nat (length s) <= 16777215 /\ Forall (fun b => b2z b < 128) s) \/
  (new_ascii s = None /\ (16777215 < Z.of_nat (length s) \/ exists b, In b s /\ 128 <= b2z b)).
Proof. exact new_ascii_exact. Qed.
Print Assumptions C12_ascii.

(* messages: stream < 128, function < 256, W only on odd functions, session id <= 65535, name without whitespace, direction *)
Theorem C12_message : forall m,
  msg_ok m = true <->
  has_space_rune (m_name m) = false /\ 0 <= m_stream m < 128 /\ 0 <= m_function m < 256 /\
  0 <= m_wbit m <= 2 /\ ~ (m_wbit m = 1 /\ m_function m mod 2 = 0) /\
  -1 <= m_sid m < 65536 /\ length (m_sys m) = 4%nat /\ dir_ok (m_dir m) = true.
Proof. exact msg_ok_iff. Qed.
Print Assumptions C12_message.

(* every fill goes through the same factory: refused exactly as the constructor refuses *)
Theorem C12_fill : forall k w args xs s,
  fmt_ok k w -> Forall arg_in_go_range args ->
  new_leaf k w args = Some (ILeaf k w xs) ->
  existsb (fun n => match flookup n s with Some _ => true | None => false end) (slot_vars xs) = true ->
  fill_leaf s k w xs = new_leaf k w (map (subst_arg k s) args).
Proof. exact fill_leaf_is_substitution. Qed.
Print Assumptions C12_fill.

Example C12_example : new_int 1 [GInt Kuint64 18446744073709551615] = None /\ new_uint 8 [GInt Kint (-1)] = None /\
                      new_int 1 [GInt Kint8 (-128); GStr (B"x"%string)] = Some (ILeaf KInt 1 [SV (-128); SX (B"x"%string)]).
Proof. repeat split; reflexivity. Qed.
