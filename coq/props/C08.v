(* C08 — comments, whitespace and letter case never change what is parsed (partial). *)
From Secs Require Import Ast Fill Msg Lexer Parser SmlNumbers SmlProofs.
Open Scope Z_scope.

(* any amount and kind of white space (blanks, tabs, CR, LF) in front of the
   next token is skipped, in both lexer states; the tokens that follow are the
   same, at offsets moved by exactly the number of bytes inserted *)
Theorem C08_whitespace : forall alnum ws, Forall (fun b => is_ws b = true) ws ->
  forall f st s off, lex_from alnum (length ws + f) st (ws ++ s) off = lex_from alnum f st s (off + Z.of_nat (length ws)).
Proof. exact lex_skip_whitespace. Qed.
Print Assumptions C08_whitespace.

(* positions are recomputed from the offset alone: line = 1 + line feeds before
   the token, column = 1 + characters since the last line feed *)
Theorem C08_positions : forall input off,
  linecol input off = (1 + Z.of_nat (count_lf (firstn (Z.to_nat off) input)),
                       1 + Z.of_nat (length (runes (last_line (firstn (Z.to_nat off) input) [])))).
Proof. reflexivity. Qed.
Print Assumptions C08_positions.

(* number prefixes and digits are read case-insensitively *)
Theorem C08_prefix_case : forall (p : byte) base n, 0 <= n ->
  (bz p = 120 \/ bz p = 88) /\ base = 16 \/ (bz p = 98 \/ bz p = 66) /\ base = 2 \/ (bz p = 111 \/ bz p = 79) /\ base = 8 ->
  parse_unsigned_base0 (x30 :: p :: fmt_unsigned base n) = Some n.
Proof. exact parse_unsigned_prefixed. Qed.
Print Assumptions C08_prefix_case.

(* C08_gap_partial: the full statement (exchanging any two gaps made of white
   space and comments at a token boundary, and the letter case of keywords,
   leaves the token cores unchanged) is decided by the metamorphic pairs of
   suite C08 on the library and by the token-level correspondence with the
   lexer model; the comment half of the theorem is not proved yet. *)
