(* C08 — comments, whitespace and letter case never change what is parsed (partial). *)
From Secs Require Import Ast Fill Msg Lexer Parser SmlNumbers SmlProofs LexProofs ParseProofs LayoutProofs OffsetProofs LexPrinted CaseProofs LexNames GapProofs.
Open Scope Z_scope.

(* any amount and kind of white space (blanks, tabs, CR, LF) in front of the
   next token is skipped, in both lexer states; the tokens that follow are the
   same, at offsets moved by exactly the number of bytes inserted *)
Theorem C08_whitespace : forall alnum ws, Forall (fun b => is_ws b = true) ws ->
  forall f st s off, lex_from alnum (length ws + f) st (ws ++ s) off = lex_from alnum f st s (off + Z.of_nat (length ws)).
Proof. exact lex_skip_whitespace. Qed.
Print Assumptions C08_whitespace.

(* positions are recomputed from the offset alone: line = 1 + line feeds before
   the token, column = 1 + characters since the last line feed *)
Theorem C08_positions : forall input off,
  linecol input off = (1 + Z.of_nat (count_lf (firstn (Z.to_nat off) input)),
                       1 + Z.of_nat (length (runes (last_line (firstn (Z.to_nat off) input) [])))).
Proof. reflexivity. Qed.
Print Assumptions C08_positions.

(* number prefixes and digits are read case-insensitively *)
Theorem C08_prefix_case : forall (p : byte) base n, 0 <= n ->
  (bz p = 120 \/ bz p = 88) /\ base = 16 \/ (bz p = 98 \/ bz p = 66) /\ base = 2 \/ (bz p = 111 \/ bz p = 79) /\ base = 8 ->
  parse_unsigned_base0 (x30 :: p :: fmt_unsigned base n) = Some n.
Proof. exact parse_unsigned_prefixed. Qed.
Print Assumptions C08_prefix_case.

(* a // comment with any content up to its line feed — any bytes, any script,
   any trailing blanks — contributes no token to what the parser sees; the
   tokens that follow are those of the rest of the text, lexed in the same
   state, every offset moved by exactly the bytes of the comment line *)
Theorem C08_comment : forall alnum body rest st F G,
  Forall (fun b => negb (byte_eqb b x0a) = true) body ->
  (length (x2f :: x2f :: body ++ x0a :: rest) < F)%nat -> (length rest < G)%nat ->
  drop_comments (lex_from alnum F st (x2f :: x2f :: body ++ x0a :: rest) 0) =
  map (shift (Z.of_nat (length body) + 3)) (drop_comments (lex_from alnum G st rest 0)).
Proof. exact comment_moves_offsets. Qed.
Print Assumptions C08_comment.

(* the token stream does not depend on where it starts counting: lexing at
   another offset gives the same tokens with every offset moved by the difference *)
Theorem C08_offsets : forall alnum f st s off,
  lex_from alnum f st s off = map (shift off) (lex_from alnum f st s 0).
Proof. exact lex_from_shift. Qed.
Print Assumptions C08_offsets.

(* the model's fuel is not part of the meaning *)
Theorem C08_fuel : forall alnum f g st s off, (length s < f)%nat -> (length s < g)%nat ->
  lex_from alnum f st s off = lex_from alnum g st s off.
Proof. exact lex_fuel_irrelevant. Qed.
Print Assumptions C08_fuel.

(* the parser never looks at where a token is: with every token offset
   replaced (any layout of the same tokens), the messages, the kinds of the
   diagnostics and their order are the same; each diagnostic carries the token
   it points at, so positions move with the tokens *)
Theorem C08_positions_irrelevant : forall g, g zero_tok = 0 -> forall floats f st,
  msgs (parse_loop floats f (R g st)) = msgs (parse_loop floats f st) /\
  kinds (errs (parse_loop floats f (R g st))) = kinds (errs (parse_loop floats f st)) /\
  kinds (warns (parse_loop floats f (R g st))) = kinds (warns (parse_loop floats f st)) /\
  crashed (parse_loop floats f (R g st)) = crashed (parse_loop floats f st).
Proof. exact parse_ignores_positions. Qed.
Print Assumptions C08_positions_irrelevant.

Theorem C08_diagnostics_follow_tokens : forall g, g zero_tok = 0 -> forall floats f st,
  parse_loop floats f (R g st) = R g (parse_loop floats f st).
Proof. exact parse_loop_R. Qed.
Print Assumptions C08_diagnostics_follow_tokens.

(* letter case of keywords.  [m] is what the matcher takes from the input, [m']
   the same letters in any other case, [r] whatever follows: the lexer emits the
   same token (its text is the upper-cased match) and goes on at the same place *)
Theorem C08_keyword_case : forall alnum m m' r off, to_upper m' = to_upper m ->
  match_ident (m ++ r) = Some (m, r) -> is_keyword (to_upper m) = true ->
  lex_step1 alnum LText (m' ++ r) off = lex_step1 alnum LText (m ++ r) off.
Proof. exact keyword_case. Qed.
Print Assumptions C08_keyword_case.

Theorem C08_stream_function_case : forall alnum m m' r off, to_upper m' = to_upper m -> match_sf (m ++ r) = Some (m, r) ->
  starts_with slashes (m ++ r) = false -> starts_with slashes (m' ++ r) = false ->
  lex_step1 alnum LHeader (m' ++ r) off = lex_step1 alnum LHeader (m ++ r) off.
Proof. exact sf_case. Qed.
Print Assumptions C08_stream_function_case.

Theorem C08_wait_bit_case : forall alnum m m' r off, to_upper m' = to_upper m -> match_wbit (m ++ r) = Some (m, r) ->
  starts_with slashes (m ++ r) = false -> starts_with slashes (m' ++ r) = false ->
  match_sf (m ++ r) = None -> match_sf (m' ++ r) = None ->
  lex_step1 alnum LHeader (m' ++ r) off = lex_step1 alnum LHeader (m ++ r) off.
Proof. exact wbit_case. Qed.
Print Assumptions C08_wait_bit_case.

Theorem C08_direction_case : forall alnum m m' r off, to_upper m' = to_upper m -> match_dir (m ++ r) = Some (m, r) ->
  starts_with slashes (m ++ r) = false -> starts_with slashes (m' ++ r) = false ->
  match_sf (m ++ r) = None -> match_sf (m' ++ r) = None -> match_wbit (m ++ r) = None -> match_wbit (m' ++ r) = None ->
  lex_step1 alnum LHeader (m' ++ r) off = lex_step1 alnum LHeader (m ++ r) off.
Proof. exact dir_case. Qed.
Print Assumptions C08_direction_case.

(* the premises hold: "boolean" / "BOOLEAN", "s12f3" / "S12F3", "[w]" / "[W]", "h<->e" / "H<->E" *)
Example C08_case_premises : forall alnum r off,
  lex_step1 alnum LText (B"boolean"%string ++ x5b :: r) off = LEmit (mk TItemType (B"BOOLEAN"%string) off) LText (x5b :: r) (off + 7) /\
  lex_step1 alnum LHeader (B"s12f3"%string ++ x20 :: r) off = LEmit (mk TStreamFunction (B"S12F3"%string) off) LHeader (x20 :: r) (off + 5) /\
  lex_step1 alnum LHeader (B"[w]"%string ++ x20 :: r) off = LEmit (mk TWaitBit (B"[W]"%string) off) LHeader (x20 :: r) (off + 3) /\
  lex_step1 alnum LHeader (B"h<->e"%string ++ x20 :: r) off = LEmit (mk TDirection (B"H<->E"%string) off) LHeader (x20 :: r) (off + 5).
Proof.
  intros alnum r off.
  destruct (keyword_case_example alnum r off) as [A1 A2]. destruct (sf_case_example alnum r off) as [B1 B2].
  destruct (wbit_case_example alnum r off) as [C1 C2]. destruct (dir_case_example alnum r off) as [D1 D2].
  repeat split; congruence.
Qed.

(* what FOLLOWS a token does not change the token: if the text [m] is lexed as
   exactly one token (any token but a comment: a stream/function code, a name,
   a number in any base, a variable with indices, a size spread over several
   lines, a quoted string, ...), then [m] followed by any white-space byte and
   any text is lexed as the same token, with the lexer left in the same state in
   front of that white space — every matcher, the rune decoder and the name
   scanner commute with appending white space.  Together with C08_whitespace and
   C08_comment (what PRECEDES a token) the amount and kind of white space
   between two tokens is irrelevant to both. *)
Theorem C08_token_ignores_what_follows : forall alnum st m tok st' o' off d y,
  lex_step1 alnum st m off = LEmit tok st' [] o' -> t_typ tok <> TComment -> is_ws d = true ->
  lex_step1 alnum st (m ++ d :: y) off = LEmit tok st' (d :: y) o'.
Proof. exact token_then_ws. Qed.
Print Assumptions C08_token_ignores_what_follows.

Example C08_gap_premises : forall alnum off y,
  lex_step1 alnum LText (B"abc[12][3]"%string ++ x09 :: y) off = LEmit (mk TVariable (B"abc[12][3]"%string) off) LText (x09 :: y) (off + 3 + 7) /\
  lex_step1 alnum LText (B"-0x1F"%string ++ x0d :: y) off = LEmit (mk TNumber (B"-0x1F"%string) off) LText (x0d :: y) (off + 5) /\
  lex_step1 alnum LText ([x5b; x20; x31; x0a; x2e; x2e; x32; x5d] ++ x20 :: y) off =
    LEmit (mk TItemSize (B"[1..2]"%string) off) LText (x20 :: y) (off + 8).
Proof. exact gap_examples. Qed.

(* WHOLE TEXTS.  [tokseq st ms ts st2]: the texts [ms] are lexed one after the
   other as exactly one token each (no comment among them), giving the tokens
   [ts] (offsets erased).  Woven with ANY two families of gaps — non-empty runs
   of blanks, tabs, CR and LF — and followed by anything, both texts are lexed
   into the same tokens up to their offsets, and the lexer ends in the same
   state.  By C08_positions_irrelevant the parser then returns the same
   messages and the same diagnostics (kinds and tokens), whose positions are
   recomputed from the offsets (C08_positions). *)
Theorem C08_layout_independent : forall alnum st ms ts st2 gs gs' rest rest' off off',
  tokseq alnum st ms ts st2 -> length gs = length ms -> length gs' = length ms -> Forall gap gs -> Forall gap gs' ->
  exists t1 t2 o1 o2,
    lexes alnum st (weave ms gs ++ rest) off t1 st2 rest o1 /\
    lexes alnum st (weave ms gs' ++ rest') off' t2 st2 rest' o2 /\ map zoff t1 = map zoff t2.
Proof. exact layout_independent. Qed.
Print Assumptions C08_layout_independent.

Example C08_layout_premises : forall alnum,
  exists ts, tokseq alnum LHeader [B"S1F1"; B"W"; B"<"; B"U1"; B"7"; B"x"; B">"]%string ts LText /\
             map t_typ ts = [TStreamFunction; TWaitBit; TLAB; TItemType; TNumber; TVariable; TRAB].
Proof. exact tokseq_example. Qed.

(* C08_remaining: comments inside the gaps of C08_layout_independent (covered
   step by step by C08_comment) and tokens written without any white space
   between them are not part of the whole-text statement; suite C08 compares
   such texts on the library and on the model. *)
