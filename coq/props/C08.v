(* C08 — comments, whitespace and letter case never change what is parsed (partial). *)
From Secs Require Import Ast Fill Msg Lexer Parser SmlNumbers SmlProofs LexProofs ParseProofs LayoutProofs OffsetProofs LexPrinted CaseProofs.
Open Scope Z_scope.

(* any amount and kind of white space (blanks, tabs, CR, LF) in front of the
   next token is skipped, in both lexer states; the tokens that follow are the
   same, at offsets moved by exactly the number of bytes inserted *)
Theorem C08_whitespace : forall alnum ws, Forall (fun b => is_ws b = true) ws ->
  forall f st s off, lex_from alnum (length ws + f) st (ws ++ s) off = lex_from alnum f st s (off + Z.of_nat (length ws)).
Proof. exact lex_skip_whitespace. Qed.
Print Assumptions C08_whitespace.

(* positions are recomputed from the offset alone: line = 1 + line feeds before
   the token, column = 1 + characters since the last line feed *)
Theorem C08_positions : forall input off,
  linecol input off = (1 + Z.of_nat (count_lf (firstn (Z.to_nat off) input)),
                       1 + Z.of_nat (length (runes (last_line (firstn (Z.to_nat off) input) [])))).
Proof. reflexivity. Qed.
Print Assumptions C08_positions.

(* number prefixes and digits are read case-insensitively *)
Theorem C08_prefix_case : forall (p : byte) base n, 0 <= n ->
  (bz p = 120 \/ bz p = 88) /\ base = 16 \/ (bz p = 98 \/ bz p = 66) /\ base = 2 \/ (bz p = 111 \/ bz p = 79) /\ base = 8 ->
  parse_unsigned_base0 (x30 :: p :: fmt_unsigned base n) = Some n.
Proof. exact parse_unsigned_prefixed. Qed.
Print Assumptions C08_prefix_case.

(* a // comment with any content up to its line feed — any bytes, any script,
   any trailing blanks — contributes no token to what the parser sees; the
   tokens that follow are those of the rest of the text, lexed in the same
   state, every offset moved by exactly the bytes of the comment line *)
Theorem C08_comment : forall alnum body rest st F G,
  Forall (fun b => negb (byte_eqb b x0a) = true) body ->
  (length (x2f :: x2f :: body ++ x0a :: rest) < F)%nat -> (length rest < G)%nat ->
  drop_comments (lex_from alnum F st (x2f :: x2f :: body ++ x0a :: rest) 0) =
  map (shift (Z.of_nat (length body) + 3)) (drop_comments (lex_from alnum G st rest 0)).
Proof. exact comment_moves_offsets. Qed.
Print Assumptions C08_comment.

(* the token stream does not depend on where it starts counting: lexing at
   another offset gives the same tokens with every offset moved by the difference *)
Theorem C08_offsets : forall alnum f st s off,
  lex_from alnum f st s off = map (shift off) (lex_from alnum f st s 0).
Proof. exact lex_from_shift. Qed.
Print Assumptions C08_offsets.

(* the model's fuel is not part of the meaning *)
Theorem C08_fuel : forall alnum f g st s off, (length s < f)%nat -> (length s < g)%nat ->
  lex_from alnum f st s off = lex_from alnum g st s off.
Proof. exact lex_fuel_irrelevant. Qed.
Print Assumptions C08_fuel.

(* the parser never looks at where a token is: with every token offset
   replaced (any layout of the same tokens), the messages, the kinds of the
   diagnostics and their order are the same; each diagnostic carries the token
   it points at, so positions move with the tokens *)
Theorem C08_positions_irrelevant : forall g, g zero_tok = 0 -> forall floats f st,
  msgs (parse_loop floats f (R g st)) = msgs (parse_loop floats f st) /\
  kinds (errs (parse_loop floats f (R g st))) = kinds (errs (parse_loop floats f st)) /\
  kinds (warns (parse_loop floats f (R g st))) = kinds (warns (parse_loop floats f st)) /\
  crashed (parse_loop floats f (R g st)) = crashed (parse_loop floats f st).
Proof. exact parse_ignores_positions. Qed.
Print Assumptions C08_positions_irrelevant.

Theorem C08_diagnostics_follow_tokens : forall g, g zero_tok = 0 -> forall floats f st,
  parse_loop floats f (R g st) = R g (parse_loop floats f st).
Proof. exact parse_loop_R. Qed.
Print Assumptions C08_diagnostics_follow_tokens.

(* letter case of keywords.  [m] is what the matcher takes from the input, [m']
   the same letters in any other case, [r] whatever follows: the lexer emits the
   same token (its text is the upper-cased match) and goes on at the same place *)
Theorem C08_keyword_case : forall alnum m m' r off, to_upper m' = to_upper m ->
  match_ident (m ++ r) = Some (m, r) -> is_keyword (to_upper m) = true ->
  lex_step1 alnum LText (m' ++ r) off = lex_step1 alnum LText (m ++ r) off.
Proof. exact keyword_case. Qed.
Print Assumptions C08_keyword_case.

Theorem C08_stream_function_case : forall alnum m m' r off, to_upper m' = to_upper m -> match_sf (m ++ r) = Some (m, r) ->
  starts_with slashes (m ++ r) = false -> starts_with slashes (m' ++ r) = false ->
  lex_step1 alnum LHeader (m' ++ r) off = lex_step1 alnum LHeader (m ++ r) off.
Proof. exact sf_case. Qed.
Print Assumptions C08_stream_function_case.

Theorem C08_wait_bit_case : forall alnum m m' r off, to_upper m' = to_upper m -> match_wbit (m ++ r) = Some (m, r) ->
  starts_with slashes (m ++ r) = false -> starts_with slashes (m' ++ r) = false ->
  match_sf (m ++ r) = None -> match_sf (m' ++ r) = None ->
  lex_step1 alnum LHeader (m' ++ r) off = lex_step1 alnum LHeader (m ++ r) off.
Proof. exact wbit_case. Qed.
Print Assumptions C08_wait_bit_case.

Theorem C08_direction_case : forall alnum m m' r off, to_upper m' = to_upper m -> match_dir (m ++ r) = Some (m, r) ->
  starts_with slashes (m ++ r) = false -> starts_with slashes (m' ++ r) = false ->
  match_sf (m ++ r) = None -> match_sf (m' ++ r) = None -> match_wbit (m ++ r) = None -> match_wbit (m' ++ r) = None ->
  lex_step1 alnum LHeader (m' ++ r) off = lex_step1 alnum LHeader (m ++ r) off.
Proof. exact dir_case. Qed.
Print Assumptions C08_direction_case.

(* the premises hold: "boolean" / "BOOLEAN", "s12f3" / "S12F3", "[w]" / "[W]", "h<->e" / "H<->E" *)
Example C08_case_premises : forall alnum r off,
  lex_step1 alnum LText (B"boolean"%string ++ x5b :: r) off = LEmit (mk TItemType (B"BOOLEAN"%string) off) LText (x5b :: r) (off + 7) /\
  lex_step1 alnum LHeader (B"s12f3"%string ++ x20 :: r) off = LEmit (mk TStreamFunction (B"S12F3"%string) off) LHeader (x20 :: r) (off + 5) /\
  lex_step1 alnum LHeader (B"[w]"%string ++ x20 :: r) off = LEmit (mk TWaitBit (B"[W]"%string) off) LHeader (x20 :: r) (off + 3) /\
  lex_step1 alnum LHeader (B"h<->e"%string ++ x20 :: r) off = LEmit (mk TDirection (B"H<->E"%string) off) LHeader (x20 :: r) (off + 5).
Proof.
  intros alnum r off.
  destruct (keyword_case_example alnum r off) as [A1 A2]. destruct (sf_case_example alnum r off) as [B1 B2].
  destruct (wbit_case_example alnum r off) as [C1 C2]. destruct (dir_case_example alnum r off) as [D1 D2].
  repeat split; congruence.
Qed.

(* C08_gap_partial: gaps in front of the NEXT token are covered by
   C08_whitespace and C08_comment; that a gap after a token does not change
   that token (locality of the seven prefix matchers under what follows) is
   decided by the metamorphic pairs of suite C08 on the library and by the
   token-level correspondence with the lexer model (proved for printed texts: C04). *)
