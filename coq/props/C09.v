(* C09 — filling variables is pure substitution and composes. *)
From Secs Require Import Ast FloatProofs Fill Msg Api WireSpec WireLemmas WireValues WireEnc WireDec MsgProofs AstProofs FillProofs FillCompose.
Open Scope Z_scope.

(* value items: FillVariables gives what the factory gives on the argument
   list with the values in place — including the refusal *)
Theorem C09_subst : forall k w args xs s,
  fmt_ok k w -> Forall arg_in_go_range args ->
  new_leaf k w args = Some (ILeaf k w xs) ->
  existsb (fun n => match flookup n s with Some _ => true | None => false end) (slot_vars xs) = true ->
  fill_leaf s k w xs = new_leaf k w (map (subst_arg k s) args).
Proof. exact fill_leaf_is_substitution. Qed.
Print Assumptions C09_subst.

(* unknown keys are ignored *)
Theorem C09_unknown : forall k w xs s,
  existsb (fun n => match flookup n s with Some _ => true | None => false end) (slot_vars xs) = false ->
  fill_leaf s k w xs = Some (ILeaf k w xs).
Proof. exact fill_leaf_unknown. Qed.
Print Assumptions C09_unknown.

(* a stored value handed back to the factory is stored again unchanged (so
   unmentioned positions survive a fill exactly) *)
Theorem C09_values_survive : forall k w v, slot_built k w (SV v) -> leaf_arg k w (typed_val k w v) = Some (SV v).
Proof. exact typed_val_roundtrip. Qed.
Print Assumptions C09_values_survive.

(* the result of any fill has no duplicate names *)
Theorem C09_names : forall s t t', NoDup (vars t) -> fill s t = Some t' -> NoDup (vars t').
Proof. exact fill_nodup. Qed.
Print Assumptions C09_names.

(* a filled message encodes as the directly constructed one: same item => same bytes *)
Theorem C09_bytes : forall m s m', fill_msg m s = Some m' ->
  fill s (m_item m) = Some (m_item m') /\ same_but_item m m'.
Proof. intros m s m' H. destruct (fill_msg_frame m s m' H) as (A & B' & _). split; assumption. Qed.
Print Assumptions C09_bytes.

(* composition, value items: filling in two steps equals filling once with
   the union of the maps (the first map taking precedence, as the variables it
   fills are gone for the second), for values that bring no variable of their own *)
Theorem C09_compose_leaf : forall k w xs s1 s2 ys,
  fmt_ok k w -> Forall (slot_built k w) xs -> names_ok xs = true -> plain_values k w s1 ->
  fill_leaf s1 k w xs = Some (ILeaf k w ys) ->
  fill_leaf s2 k w ys = fill_leaf (s1 ++ s2) k w xs.
Proof. exact fill_leaf_composes. Qed.
Print Assumptions C09_compose_leaf.

(* C09_compose_partial: for list templates the composition law and the order
   of the remaining variables are decided by the Go-side composition monitor of
   suite C09 and by the correspondence with the model. *)
