(* C09 — filling variables is pure substitution and composes. *)
From Secs Require Import Ast FloatProofs Fill Msg Api WireSpec WireLemmas WireValues WireEnc WireDec MsgProofs AstProofs FillProofs FillCompose FillTrees.
Open Scope Z_scope.

(* value items: FillVariables gives what the factory gives on the argument
   list with the values in place — including the refusal *)
Theorem C09_subst : forall k w args xs s,
  fmt_ok k w -> Forall arg_in_go_range args ->
  new_leaf k w args = Some (ILeaf k w xs) ->
  existsb (fun n => match flookup n s with Some _ => true | None => false end) (slot_vars xs) = true ->
  fill_leaf s k w xs = new_leaf k w (map (subst_arg k s) args).
Proof. exact fill_leaf_is_substitution. Qed.
Print Assumptions C09_subst.

(* unknown keys are ignored *)
Theorem C09_unknown : forall k w xs s,
  existsb (fun n => match flookup n s with Some _ => true | None => false end) (slot_vars xs) = false ->
  fill_leaf s k w xs = Some (ILeaf k w xs).
Proof. exact fill_leaf_unknown. Qed.
Print Assumptions C09_unknown.

(* a stored value handed back to the factory is stored again unchanged (so
   unmentioned positions survive a fill exactly) *)
Theorem C09_values_survive : forall k w v, slot_built k w (SV v) -> leaf_arg k w (typed_val k w v) = Some (SV v).
Proof. exact typed_val_roundtrip. Qed.
Print Assumptions C09_values_survive.

(* the result of any fill has no duplicate names *)
Theorem C09_names : forall s t t', NoDup (vars t) -> fill s t = Some t' -> NoDup (vars t').
Proof. exact fill_nodup. Qed.
Print Assumptions C09_names.

(* a filled message encodes as the directly constructed one: same item => same bytes *)
Theorem C09_bytes : forall m s m', fill_msg m s = Some m' ->
  fill s (m_item m) = Some (m_item m') /\ same_but_item m m'.
Proof. intros m s m' H. destruct (fill_msg_frame m s m' H) as (A & B' & _). split; assumption. Qed.
Print Assumptions C09_bytes.

(* composition, value items: filling in two steps equals filling once with
   the union of the maps (the first map taking precedence, as the variables it
   fills are gone for the second), for values that bring no variable of their own *)
Theorem C09_compose_leaf : forall k w xs s1 s2 ys,
  fmt_ok k w -> Forall (slot_built k w) xs -> names_ok xs = true -> plain_values k w s1 ->
  fill_leaf s1 k w xs = Some (ILeaf k w ys) ->
  fill_leaf s2 k w ys = fill_leaf (s1 ++ s2) k w xs.
Proof. exact fill_leaf_composes. Qed.
Print Assumptions C09_compose_leaf.

(* composition, whole item trees (FillVariables itself: split of the map,
   ellipsis analysis, every node kind, any nesting and size): filling in two
   steps equals filling once with the union of the maps, refusals included,
   when the first map's values bring no variables of their own — a list
   variable receives a closed item, an element of a value item receives a value
   and not a name, an ASCII variable receives anything — and no key of either
   map names an ellipsis *)
Theorem C09_compose : forall s1 s2 t t',
  no_ellipsis_keys s1 -> no_ellipsis_keys s2 -> composable s1 t ->
  fill s1 t = Some t' -> fill s2 t' = fill (s1 ++ s2) t.
Proof. exact fill_composes. Qed.
Print Assumptions C09_compose.

(* items without variables are closed (what `composable` asks of a value for a list variable) *)
Theorem C09_ground_closed : forall t, ground t -> closed t.
Proof. exact ground_closed. Qed.
Print Assumptions C09_ground_closed.

(* the hypothesis is necessary: a value that brings a variable of its own is
   filled by the second step but not by the single one *)
Theorem C09_compose_needs_plain_values :
  let t := IList [IVar (B"a"%string)] in
  let s1 := [(B"a"%string, GItem (ILeaf KUint 1 [SX (B"b"%string)]))] in
  let s2 := [(B"b"%string, GInt Kint 5)] in
  exists t', fill s1 t = Some t' /\ fill s2 t' <> fill (s1 ++ s2) t.
Proof. exact two_steps_differ. Qed.

(* the hypotheses of C09_compose hold of a nested template, and both routes give the tree written out *)
Example C09_compose_premises :
  let t := IList [IVar (B"a"%string); ILeaf KUint 1 [SV 1; SX (B"x"%string)];
                  IList [IVar (B"b"%string); IAsciiVar (B"s"%string) 0 (-1)]] in
  let s1 := [(B"a"%string, GItem (IList [IAscii (B"hi"%string)])); (B"x"%string, GInt Kint 7)] in
  let s2 := [(B"b"%string, GItem (ILeaf KBool 1 [SV 1])); (B"s"%string, GStr (B"ok"%string))] in
  no_ellipsis_keys s1 /\ no_ellipsis_keys s2 /\ composable s1 t /\
  exists t', fill s1 t = Some t' /\ fill s2 t' = fill (s1 ++ s2) t /\
             fill s2 t' = Some (IList [IList [IAscii (B"hi"%string)]; ILeaf KUint 1 [SV 1; SV 7];
                                       IList [ILeaf KBool 1 [SV 1]; IAscii (B"ok"%string)]]).
Proof. exact compose_tree_example. Qed.

(* C09_compose_remaining: composition when a map expands an ellipsis (the
   expansion renames variables, so the second map's keys would have to follow
   the renaming) is decided by the Go-side composition monitor of suite C09 and
   by the correspondence with the model. *)
