(* C02 — encoded bytes conform to the SEMI E5 / E37 wire format. *)
From Secs Require Import Ast Fill Msg WireSpec WireLemmas HeaderProofs WireEnc WireDec MsgProofs.
Open Scope Z_scope.

(* ToBytes of any value item is its strict E5 encoding: format byte with the
   E5 format code and the number of length bytes, the shortest big-endian
   length (payload bytes; element count for a list), then the payload in
   big-endian two's complement / IEEE-754 pattern / 0-1 booleans / 7-bit ASCII
   with children in order.  [wire] is defined in WireSpec.v from the standard. *)
Theorem C02_item : forall t, value_item t -> wire true t (to_bytes t).
Proof. exact to_bytes_conforms. Qed.
Print Assumptions C02_item.

(* the strict encoding is unique: any other byte string is not the E5 encoding *)
Theorem C02_functional : forall t a b, wire true t a -> wire true t b -> a = b.
Proof. exact wire_strict_functional. Qed.
Print Assumptions C02_functional.

(* the format codes used are those of the code's own table *)
Theorem C02_codes : forall k w, fmt_ok k w -> lookup (tyname k w) format_code = e5_code k w.
Proof. exact code_lookup. Qed.
Print Assumptions C02_codes.

(* a complete message: 4-byte big-endian length, 10-byte header, the item *)
Theorem C02_frame : forall m, msg_complete m = true ->
  msg_to_bytes m =
    be_enc 4 (10 + Z.of_nat (length (to_bytes (m_item m)))) ++
    be_enc 2 (m_sid m) ++ [z2b (m_stream m + (if m_wbit m =? 1 then 128 else 0)); z2b (m_function m); x00; x00] ++
    firstn 4 (m_sys m) ++ to_bytes (m_item m).
Proof. exact msg_to_bytes_frame. Qed.
Print Assumptions C02_frame.

(* ... which is a well-formed E37 frame of that message (length exact, PType 0, SType 0, fields in place) *)
Theorem C02_frame_wf : forall m,
  msg_ok m = true -> msg_complete m = true -> encodable_item (m_item m) ->
  Z.of_nat (length (to_bytes (m_item m))) + 10 < 2 ^ 32 ->
  frame_wf (msg_to_bytes m) (HData (decoded_form m)).
Proof. exact msg_frame. Qed.
Print Assumptions C02_frame_wf.

(* not complete (optional wait bit, unfilled variable, no session id): the empty byte string *)
Theorem C02_incomplete : forall m, msg_complete m = false -> msg_to_bytes m = [].
Proof. exact msg_to_bytes_incomplete. Qed.
Print Assumptions C02_incomplete.

Example C02_example :
  value_item (IList [ILeaf KInt 2 [SV (-2)]; IAscii [x41]]) /\
  to_bytes (IList [ILeaf KInt 2 [SV (-2)]; IAscii [x41]]) = [x01; x02; x69; x02; xff; xfe; x41; x01; x41].
Proof.
  split; [|reflexivity]. apply value_item_list. split; [cbn; unfold MAX_BYTE_SIZE; lia|].
  constructor; [|constructor; [|constructor]].
  - cbn. split; [auto|]. exists [-2]. split; [reflexivity|]. split; [repeat constructor; cbn; lia|unfold MAX_BYTE_SIZE; cbn; lia].
  - cbn. split; [unfold MAX_BYTE_SIZE; lia|]. repeat constructor.
Qed.
