(* C01 — HSMS encode -> decode round trip preserves every data message. *)
From Secs Require Import Ast Fill Msg WireSpec WireLemmas HeaderProofs WireEnc WireDec MsgProofs.
Open Scope Z_scope.

(* items: any shape, any size, any values; the fuel |bytes|+1 always suffices *)
Theorem C01_item : forall t, value_item t -> forall rest,
  dec_item (S (length (to_bytes t))) (to_bytes t ++ rest) (Z.of_nat (length (to_bytes t ++ rest))) =
  Some (t, rest, Z.of_nat (length rest)).
Proof.
  intros t H rest. pose proof (wire_strict_lenient _ _ (to_bytes_conforms t H)) as W.
  apply dec_item_complete; [exact W|]. pose proof (need_le_length _ _ W). lia.
Qed.
Print Assumptions C01_item.

(* messages: decoding the encoding succeeds and returns the same stream,
   function, wait bit, session id, system bytes and the identical item tree
   (name and direction are not on the wire: the decoder returns "" and H<->E).
   The size hypothesis is the 4-byte HSMS length field (known finding K2). *)
Theorem C01_msg : forall m,
  msg_ok m = true -> msg_complete m = true -> encodable_item (m_item m) ->
  Z.of_nat (length (to_bytes (m_item m))) + 10 < 2 ^ 32 ->
  hsms_parse (msg_to_bytes m) = Some (HData (decoded_form m)).
Proof. exact roundtrip. Qed.
Print Assumptions C01_msg.

(* ... and encoding the decoded message gives the same bytes again *)
Theorem C01_reencode : forall m,
  msg_ok m = true -> msg_complete m = true -> encodable_item (m_item m) ->
  Z.of_nat (length (to_bytes (m_item m))) + 10 < 2 ^ 32 ->
  exists m', hsms_parse (msg_to_bytes m) = Some (HData m') /\ msg_to_bytes m' = msg_to_bytes m /\
             m_item m' = m_item m /\ m_stream m' = m_stream m /\ m_function m' = m_function m /\
             m_wbit m' = m_wbit m /\ m_sid m' = m_sid m /\ m_sys m' = m_sys m.
Proof. exact reencode. Qed.
Print Assumptions C01_reencode.

(* whatever the decoder returns is itself complete and valid, so the theorem applies to it again *)
Theorem C01_decoder_output : forall bs m, hsms_parse bs = Some (HData m) -> msg_ok m = true /\ msg_complete m = true.
Proof. exact hsms_parse_msg_ok. Qed.
Print Assumptions C01_decoder_output.
