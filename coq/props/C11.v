(* C11 — items and messages are immutable; no aliasing with caller data. *)
From Secs Require Import Ast Fill Msg Api EffectsTie Heap.
From Secs.gen Require Import Effects.
Open Scope Z_scope.

(* address-level model (Heap.v): whatever the caller does with the slices it
   passed in or got back, and whatever further calls are made, every object of
   the pool is observed as it was when it was created *)
Theorem C11_histories : forall ops1 ops2 i v,
  Heap.observe (Heap.run safe_policy ops1) i = Some v ->
  Heap.observe (Heap.run safe_policy (ops1 ++ ops2)) i = Some v.
Proof. exact objects_never_change. Qed.
Print Assumptions C11_histories.

(* the library follows that policy: the statements (EffectsTie.v) are about
   the effect summary regenerated from the source on every run:
     stmt_no_exposure       every exported function returns only freshly allocated slices/maps
     stmt_no_retention      no caller slice/map, no internal field stored in a new object (audited sites excepted)
     stmt_no_shared_writes  no package-level variable written, no goroutine, writes only through call-local work objects
     stmt_no_package_vars   there is no package-level variable
     stmt_work_types_hidden the work objects are unreachable from the exported API *)
Theorem C11_no_exposure : stmt_no_exposure.
Proof. exact no_exposure. Qed.
Print Assumptions C11_no_exposure.

Theorem C11_no_retention : stmt_no_retention.
Proof. exact no_retention. Qed.
Print Assumptions C11_no_retention.

Theorem C11_no_writes_to_shared : stmt_no_shared_writes /\ stmt_no_package_vars /\ stmt_work_types_hidden.
Proof. exact (conj no_shared_writes (conj no_package_vars work_types_hidden)). Qed.
Print Assumptions C11_no_writes_to_shared.

(* both ways of breaking the policy do break the property (the theorem is not vacuous) *)
Theorem C11_exposure_refuted :
  exists ops i v w, v <> w /\
    Heap.observe (Heap.run {| retains_argument := false; exposes_field := true |} ops) i = Some v /\
    exists more, Heap.observe (Heap.run {| retains_argument := false; exposes_field := true |} (ops ++ more)) i = Some w.
Proof.
  exists [OCallerAlloc [1; 2; 3; 4]%nat; ONew 0%nat; OGet 0%nat], 0%nat, [1; 2; 3; 4]%nat, [99]%nat.
  split; [discriminate|]. split; [reflexivity|]. exists [OCallerWrite 1%nat [99]%nat]. reflexivity.
Qed.
Print Assumptions C11_exposure_refuted.

(* the pure model: the pool only grows; an entry never depends on later steps *)
Theorem C11_pool_grows : forall s1 s2, exists rest, Api.run (s1 ++ s2) = Api.run s1 ++ rest.
Proof.
  intros s1 s2. unfold Api.run. rewrite fold_left_app. generalize (fold_left (fun p s => p ++ [eval_step p s]) s1 []).
  induction s2 as [|s s2 IH]; intro p; [exists []; rewrite app_nil_r; reflexivity|].
  cbn [fold_left]. destruct (IH (p ++ [eval_step p s])) as (rest & E). rewrite E, <- app_assoc. eauto.
Qed.
Print Assumptions C11_pool_grows.
