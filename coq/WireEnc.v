(* WireEnc.v — the encoder side: ToBytes of a value item is its strict E5
   encoding (C02), the strict encoding is unique, value items are what the
   factories build. *)
From Secs Require Import Ast Fill Msg WireSpec WireLemmas WireValues HeaderProofs.
Open Scope Z_scope.

(* ---- unfolding the nested definitions ---- *)

Lemma wire_list strict xs bs :
  wire strict (IList xs) bs <->
  exists fb lb encs, bs = fb :: lb ++ concat encs /\ fmt_byte_is fb e5_code_list lb /\
                     len_field strict lb (Z.of_nat (length xs)) /\ all2 (wire strict) xs encs.
Proof.
  cbn [wire]. split; intros (fb & lb & encs & H1 & H2 & H3 & H4); exists fb, lb, encs;
    (split; [assumption|]); (split; [assumption|]); (split; [assumption|]).
  - clear -H4. revert encs H4. induction xs as [|x xs IH]; intros [|e es] H; cbn in *; try tauto.
    split; [tauto|]. apply IH. tauto.
  - clear -H4. revert encs H4. induction xs as [|x xs IH]; intros [|e es] H; cbn in *; try tauto.
    split; [tauto|]. apply IH. tauto.
Qed.

Lemma value_item_list xs :
  value_item (IList xs) <-> Z.of_nat (length xs) <= MAX_BYTE_SIZE /\ Forall value_item xs.
Proof.
  cbn [value_item]. split; intros [H1 H2]; split; try assumption.
  - clear H1. induction xs as [|x xs IH]; constructor; [exact (proj1 H2)|]. apply IH. exact (proj2 H2).
  - clear H1. induction H2 as [|x xs Hx _ IH]; [exact I|]. split; assumption.
Qed.

Lemma wire_nonempty strict t bs : wire strict t bs -> bs <> [].
Proof.
  destruct t; cbn [wire]; try tauto.
  - intros (fb & lb & encs & -> & _). discriminate.
  - intros (fb & lb & vs & ch & -> & _). discriminate.
  - intros (fb & lb & -> & _). discriminate.
Qed.

Lemma len_field_bound strict lb n : len_field strict lb n -> 0 <= n <= MAX_BYTE_SIZE.
Proof.
  intros (Hk & Hd & _). pose proof (be_dec_range lb) as Hr. rewrite Hd in Hr.
  unfold MAX_BYTE_SIZE. destruct lb as [|a [|b [|c [|d r]]]]; cbn [length] in *; try lia; cbn in Hr; lia.
Qed.

(* L1: related items are value items *)
Lemma wire_value_item strict t : forall bs, wire strict t bs -> value_item t.
Proof.
  induction t as [xs IH| | | | | ] using item_ind'; intros bs H; try (cbn in H; tauto).
  - apply wire_list in H as (fb & lb & encs & _ & _ & Hl & Hc). apply value_item_list. split.
    + apply len_field_bound in Hl. lia.
    + clear -IH Hc. revert encs Hc. induction IH as [|x xs Hx _ IH2]; intros encs Hc; [constructor|].
      destruct encs as [|e es]; cbn in Hc; [tauto|]. constructor; [eapply Hx; apply Hc|eapply IH2; apply Hc].
  - cbn [wire] in H. destruct H as (fb & lb & vs & ch & _ & -> & Hf & _ & Hl & Hv & _).
    cbn [value_item]. split; [exact Hf|]. exists vs. repeat split; try assumption.
    apply len_field_bound in Hl. lia.
  - cbn [wire] in H. destruct H as (fb & lb & _ & _ & Hl & Ha). cbn [value_item]. split; [|exact Ha].
    apply len_field_bound in Hl. lia.
Qed.

(* L5 *)
Lemma len_field_lenient lb n : len_field true lb n -> len_field false lb n.
Proof. intros (A & C & _). split; [exact A|]. split; [exact C|]. discriminate. Qed.

Lemma wire_strict_lenient t : forall bs, wire true t bs -> wire false t bs.
Proof.
  induction t as [xs IH| | | | | ] using item_ind'; intros bs H; try (cbn in H; tauto).
  - apply wire_list in H as (fb & lb & encs & E & Hf & Hl & Hc). apply wire_list.
    exists fb, lb, encs. split; [exact E|]. split; [exact Hf|]. split; [apply len_field_lenient; exact Hl|].
    clear -IH Hc. revert encs Hc. induction IH as [|x xs Hx _ IH2]; intros [|e es] Hc; cbn in *; try tauto.
    split; [apply Hx; tauto|apply IH2; tauto].
  - cbn [wire] in *. destruct H as (fb & lb & vs & ch & E & Es & Hf & Hb & Hl & Hv & Hc).
    exists fb, lb, vs, ch. split; [exact E|]. split; [exact Es|]. split; [exact Hf|]. split; [exact Hb|].
    split; [apply len_field_lenient; exact Hl|]. split; [exact Hv|].
    clear -Hv Hc. revert ch Hc. induction Hv as [|v vs Hv1 _ IH]; intros [|c cs] Hc; cbn in *; try tauto.
    split; [apply elem_bytes_strict_lenient; tauto|apply IH; tauto].
  - cbn [wire] in *. destruct H as (fb & lb & E & Hb & Hl & Ha). exists fb, lb.
    split; [exact E|]. split; [exact Hb|]. split; [apply len_field_lenient; exact Hl|exact Ha].
Qed.

(* ---- the encoder ---- *)

Lemma slot_vals_SV vs : slot_vals (map SV vs) = Some vs.
Proof. induction vs as [|v vs IH]; cbn; [reflexivity|]. rewrite IH. reflexivity. Qed.

Lemma slot_vars_SV vs : slot_vars (map SV vs) = [].
Proof. induction vs as [|v vs IH]; cbn; [reflexivity|]. exact IH. Qed.

Lemma to_bytes_list xs :
  to_bytes (IList xs) =
  match header_bytes (B"list"%string) (Z.of_nat (length xs)) with
  | None => []
  | Some h => if forallb (fun c => negb (is_nil (to_bytes c))) xs then h ++ concat (map to_bytes xs) else []
  end.
Proof.
  cbn [to_bytes]. destruct (header_bytes _ _) as [h|]; [|reflexivity].
  match goal with |- match ?f xs with _ => _ end = _ =>
    assert (E : f xs = if forallb (fun c => negb (is_nil (to_bytes c))) xs then Some (concat (map to_bytes xs)) else None)
  end.
  { induction xs as [|x xs IH]; [reflexivity|]. cbn [forallb map concat].
    destruct (is_nil (to_bytes x)); cbn [negb andb]; [reflexivity|]. rewrite IH.
    destruct (forallb _ xs); reflexivity. }
  rewrite E. destruct (forallb _ xs); reflexivity.
Qed.

Lemma fmt_byte_ok code k : 0 <= code < 64 -> (1 <= k <= 3)%nat -> b2z (z2b (code * 4 + Z.of_nat k)) = code * 4 + Z.of_nat k.
Proof. intros. rewrite b2z_z2b. apply Z.mod_small. lia. Qed.

Lemma header_is_field typ n code :
  lookup typ format_code = code -> 0 <= code < 64 ->
  0 <= data_byte_length typ n <= MAX_BYTE_SIZE ->
  exists fb lb, header_bytes typ n = Some (fb :: lb) /\ fmt_byte_is fb code lb /\
                len_field true lb (data_byte_length typ n).
Proof.
  intros Hc Hr Hn. rewrite (header_bytes_exact typ n Hn). rewrite Hc.
  set (len := data_byte_length typ n) in *. pose proof (len_k_range len) as Hk.
  eexists _, _. split; [reflexivity|]. split.
  - unfold fmt_byte_is. rewrite be_enc_length. apply fmt_byte_ok; assumption.
  - unfold len_field. rewrite be_enc_length. split; [exact Hk|]. split; [apply header_readback; exact Hn|].
    intros _ k Hk1 Hlt. apply len_k_minimal; assumption.
Qed.

(* L4: C02 for items *)
Theorem to_bytes_conforms t : value_item t -> wire true t (to_bytes t).
Proof.
  induction t as [xs IH| | k w slots | s | | ] using item_ind'; intro Hv; try (cbn in Hv; tauto).
  - apply value_item_list in Hv as [Hn Hall]. rewrite to_bytes_list.
    destruct (header_is_field (B"list"%string) (Z.of_nat (length xs)) 0) as (fb & lb & Hh & Hf & Hl);
      [reflexivity|lia|unfold data_byte_length; cbn [lookup bytes_eqb]; cbn; lia|].
    rewrite Hh.
    assert (Hw : Forall (fun c => wire true c (to_bytes c)) xs).
    { clear -IH Hall. induction IH as [|x xs Hx _ IH2]; [constructor|]. inversion Hall; subst. constructor; auto. }
    assert (Hne : forallb (fun c => negb (is_nil (to_bytes c))) xs = true).
    { apply forallb_forall. intros c Hc. rewrite Forall_forall in Hw. apply Hw in Hc. apply wire_nonempty in Hc.
      destruct (to_bytes c); [congruence|reflexivity]. }
    rewrite Hne. apply wire_list. exists fb, lb, (map to_bytes xs).
    split; [reflexivity|]. split; [exact Hf|]. split.
    + unfold data_byte_length in Hl. cbn [lookup bytes_eqb] in Hl. cbn in Hl. rewrite Z.mul_1_r in Hl. exact Hl.
    + clear -Hw. induction Hw as [|x xs Hx _ IH2]; cbn; [exact I|]. split; assumption.
  - cbn [value_item] in Hv. destruct Hv as (Hf & vs & -> & Hvs & Hn).
    cbn [to_bytes]. rewrite slot_vals_SV, map_length.
    pose proof (e5_code_range k w Hf) as [Hcr _].
    destruct (header_is_field (tyname k w) (Z.of_nat (length vs)) (e5_code k w)) as (fb & lb & Hh & Hfb & Hl);
      [apply code_lookup; exact Hf | lia | unfold data_byte_length; rewrite width_lookup_tyname by exact Hf; lia |].
    rewrite Hh. cbn [wire]. exists fb, lb, vs, (map (enc_val k w) vs).
    split; [cbn [app]; f_equal; f_equal; apply flat_map_concat_map|]. split; [reflexivity|]. split; [exact Hf|].
    split; [exact Hfb|]. split; [|split; [exact Hvs|]].
    + unfold data_byte_length in Hl. rewrite width_lookup_tyname in Hl by exact Hf. rewrite Z.mul_comm. exact Hl.
    + clear -Hf Hvs. induction Hvs as [|v vs Hv _ IH]; cbn; [exact I|]. split; [apply enc_val_elem; assumption|exact IH].
  - cbn [value_item] in Hv. destruct Hv as [Hn Ha]. cbn [to_bytes].
    destruct (header_is_field (B"ascii"%string) (Z.of_nat (length s)) 16) as (fb & lb & Hh & Hfb & Hl);
      [reflexivity|lia|unfold data_byte_length; cbn [lookup bytes_eqb]; cbn; lia|].
    rewrite Hh. cbn [wire]. exists fb, lb. split; [reflexivity|]. split; [exact Hfb|]. split; [|exact Ha].
    unfold data_byte_length in Hl. cbn [lookup bytes_eqb] in Hl. cbn in Hl. rewrite Z.mul_1_r in Hl. exact Hl.
Qed.

(* L6: the strict encoding of an item is unique *)
Lemma len_field_strict_unique a b n : len_field true a n -> len_field true b n -> a = b.
Proof.
  intros (Ha1 & Ha2 & Ha3) (Hb1 & Hb2 & Hb3).
  assert (length a = length b).
  { pose proof (be_dec_range a) as Ra. pose proof (be_dec_range b) as Rb. rewrite Ha2 in Ra. rewrite Hb2 in Rb.
    pose proof (Ha3 eq_refl (length b)). pose proof (Hb3 eq_refl (length a)). lia. }
  apply be_dec_inj; congruence.
Qed.

Lemma fmt_byte_unique a b code la lb : fmt_byte_is a code la -> fmt_byte_is b code lb -> la = lb -> a = b.
Proof. unfold fmt_byte_is. intros Ha Hb ->. apply b2z_inj. congruence. Qed.

Theorem wire_strict_functional t : forall a b, wire true t a -> wire true t b -> a = b.
Proof.
  induction t as [xs IH| | k w slots | s | | ] using item_ind'; intros a b Ha Hb; try (cbn in Ha; tauto).
  - apply wire_list in Ha as (fa & la & ea & -> & Hfa & Hla & Hca).
    apply wire_list in Hb as (fb & lb & eb & -> & Hfb & Hlb & Hcb).
    assert (la = lb) by (eapply len_field_strict_unique; eassumption). subst lb.
    assert (fa = fb) by (eapply fmt_byte_unique; eauto). subst fb.
    f_equal. f_equal. f_equal.
    clear -IH Hca Hcb. revert ea eb Hca Hcb. induction IH as [|x xs Hx _ IH2]; intros [|a ea] [|b eb] Ha Hb; cbn in *; try tauto.
    f_equal; [apply Hx; tauto|apply IH2; tauto].
  - cbn [wire] in Ha, Hb. destruct Ha as (fa & la & va & ca & -> & Ea & _ & Hfa & Hla & _ & Hca).
    destruct Hb as (fb & lb & vb & cb & -> & Eb & _ & Hfb & Hlb & _ & Hcb).
    assert (va = vb).
    { rewrite Ea in Eb. clear -Eb. revert vb Eb. induction va as [|v va IH]; intros [|v' vb] E; cbn in *; try congruence.
      inversion E. f_equal. apply IH. assumption. }
    subst vb.
    assert (la = lb) by (eapply len_field_strict_unique; eassumption). subst lb.
    assert (fa = fb) by (eapply fmt_byte_unique; eauto). subst fb.
    f_equal. f_equal. f_equal.
    clear -Hca Hcb. revert ca cb Hca Hcb. induction va as [|v va IH]; intros [|a ca] [|b cb] Ha Hb; cbn in *; try tauto.
    f_equal; [eapply elem_bytes_strict_unique; [apply Ha|apply Hb]|apply IH; tauto].
  - cbn [wire] in Ha, Hb. destruct Ha as (fa & la & -> & Hfa & Hla & _). destruct Hb as (fb & lb & -> & Hfb & Hlb & _).
    assert (la = lb) by (eapply len_field_strict_unique; eassumption). subst lb.
    assert (fa = fb) by (eapply fmt_byte_unique; eauto). subst fb. reflexivity.
Qed.
