(* Api.v — histories of API calls over a growing pool, and the observation
   text the correspondence harness compares.  A case of every suite is a
   [list step]; the Go harness executes the same steps on the real library. *)
From Secs Require Export Msg Parser.
Open Scope Z_scope.
Open Scope string_scope.

Inductive arg :=
| AInt (k : ikind) (z : Z) | AF32 (b : Z) | AF64 (b : Z) | ABool (b : bool)
| AStr (s : bytes) | ARef (i : nat) | AOther
| ARep (n : Z) (a : arg).            (* n copies of a (not nested) *)

Inductive step :=
| SNewList (a : list arg)
| SNewInt (w : nat) (a : list arg)
| SNewUint (w : nat) (a : list arg)
| SNewFloat (w : nat) (a : list arg)
| SNewBinary (a : list arg)
| SNewBoolean (a : list arg)
| SNewAscii (s : bytes)
| SNewAsciiRep (b : byte) (n : Z)
| SNewAsciiVar (n : bytes) (mn mx : Z)
| SNewEmpty
| SFill (r : nat) (m : list (bytes * arg))
| SNewMsg (name : bytes) (s f w : Z) (dir : bytes) (it : nat)
| SNewHsmsMsg (name : bytes) (s f w : Z) (dir : bytes) (it : nat) (sid : Z) (sys : bytes)
| SSetWaitBit (r : nat) (b : bool)
| SSetSession (r : nat) (sid : Z) (sys : bytes)
| SFillMsg (r : nat) (m : list (bytes * arg))
| SHsmsParse (input : bytes)
| SReparse (r : nat)                           (* hsms.Parse(x.ToBytes()) *)
| SCtlNew (h : bytes)
| SCtlSelectReq (sid : Z) (sys : bytes)
| SCtlSelectRsp (r : nat) (status : byte)
| SCtlDeselectReq (sid : Z) (sys : bytes)
| SCtlDeselectRsp (r : nat) (status : byte)
| SCtlLinktestReq (sys : bytes)
| SCtlLinktestRsp (r : nat)
| SCtlRejectReq (sid : Z) (pt st : byte) (sys : bytes) (reason : byte)
| SCtlSeparateReq (sid : Z) (sys : bytes)
| SHeader (typ : bytes) (size : Z)           (* getHeaderBytes, through the verif hook *)
| SSml (input : bytes) (alnum : list Z) (floats : float_oracle)   (* sml.Parse *)
| SPick (r : nat) (i : nat)                  (* the i-th message of a parse result *)
| SLex (input : bytes) (alnum : list Z).     (* the token stream, through the verif hook *)

Inductive entry :=
| EItem (t : item) | EMsg (m : msg) | ECtl (h : bytes)
| EHeader (o : option bytes)
| EParse (r : presult)
| ETokens (input : bytes) (l : list token)
| EPanic            (* the call panicked *)
| EFail             (* a parser reported failure (ok = false) *)
| ESkip.            (* the step referred to something that is not there *)

Definition pool := list entry.

Fixpoint repeat_z {A} (fuel : nat) (n : Z) (a : A) : list A :=
  match fuel with
  | O => []
  | S f => if n <=? 0 then [] else a :: repeat_z f (n - 1) a
  end.

Definition conv_arg1 (p : pool) (a : arg) : option gval :=
  match a with
  | AInt k z => Some (GInt k z)
  | AF32 b => Some (GF32 b)
  | AF64 b => Some (GF64 b)
  | ABool b => Some (GBool b)
  | AStr s => Some (GStr s)
  | ARef i => match nth_error p i with Some (EItem t) => Some (GItem t) | _ => None end
  | AOther => Some GOther
  | ARep _ _ => None
  end.

Fixpoint conv_args (p : pool) (l : list arg) : option (list gval) :=
  match l with
  | [] => Some []
  | ARep n a :: r =>
    match conv_arg1 p a, conv_args p r with
    | Some g, Some gs => Some (repeat_z (Z.to_nat n) n g ++ gs)
    | _, _ => None
    end
  | a :: r =>
    match conv_arg1 p a, conv_args p r with
    | Some g, Some gs => Some (g :: gs)
    | _, _ => None
    end
  end.

Fixpoint conv_fmap (p : pool) (l : list (bytes * arg)) : option fmap :=
  match l with
  | [] => Some []
  | (k, a) :: r => match conv_arg1 p a, conv_fmap p r with
                   | Some g, Some m => Some ((k, g) :: m)
                   | _, _ => None
                   end
  end.

Definition of_item (o : option item) : entry := match o with Some t => EItem t | None => EPanic end.
Definition of_msg (o : option msg) : entry := match o with Some m => EMsg m | None => EPanic end.
Definition of_ctl (o : option bytes) : entry := match o with Some h => ECtl h | None => EPanic end.
Definition of_parse (o : option hmsg) : entry :=
  match o with Some (HData m) => EMsg m | Some (HCtl h) => ECtl h | None => EFail end.

Definition with_args (p : pool) (a : list arg) (f : list gval -> option item) : entry :=
  match conv_args p a with Some g => of_item (f g) | None => ESkip end.

Definition get_item (p : pool) (i : nat) : option item :=
  match nth_error p i with Some (EItem t) => Some t | _ => None end.
Definition get_msg (p : pool) (i : nat) : option msg :=
  match nth_error p i with Some (EMsg m) => Some m | _ => None end.
Definition get_ctl (p : pool) (i : nat) : option bytes :=
  match nth_error p i with Some (ECtl h) => Some h | _ => None end.

(* a response constructor applied to any HSMSMessage of the pool *)
Definition rsp_of (p : pool) (r : nat) (f : bytes -> option bytes) : entry :=
  match nth_error p r with
  | Some (ECtl h) => of_ctl (f h)
  | Some (EMsg _) => EPanic             (* Type() is "data message" *)
  | _ => ESkip
  end.

Definition eval_step (p : pool) (s : step) : entry :=
  match s with
  | SNewList a => with_args p a new_list
  | SNewInt w a => with_args p a (new_int w)
  | SNewUint w a => with_args p a (new_uint w)
  | SNewFloat w a => with_args p a (new_float w)
  | SNewBinary a => with_args p a new_binary
  | SNewBoolean a => with_args p a new_boolean
  | SNewAscii s => of_item (new_ascii s)
  | SNewAsciiRep b n => of_item (new_ascii (repeat_z (Z.to_nat n) n b))
  | SNewAsciiVar n mn mx => of_item (new_ascii_var n mn mx)
  | SNewEmpty => EItem IEmpty
  | SFill r m => match get_item p r, conv_fmap p m with
                 | Some t, Some fm => of_item (fill fm t)
                 | _, _ => ESkip
                 end
  | SNewMsg name s f w dir it =>
    match get_item p it with
    | Some t => of_msg (new_data_message name s f w dir t)
    | None => ESkip
    end
  | SNewHsmsMsg name s f w dir it sid sys =>
    match get_item p it with
    | Some t => of_msg (new_hsms_data_message name s f w dir t sid sys)
    | None => ESkip
    end
  | SSetWaitBit r b => match get_msg p r with Some m => of_msg (set_wait_bit m b) | None => ESkip end
  | SSetSession r sid sys => match get_msg p r with Some m => of_msg (set_session m sid sys) | None => ESkip end
  | SFillMsg r fm => match get_msg p r, conv_fmap p fm with
                     | Some m, Some f => of_msg (fill_msg m f)
                     | _, _ => ESkip
                     end
  | SHsmsParse input => of_parse (hsms_parse input)
  | SReparse r =>
    match nth_error p r with
    | Some (EMsg m) => of_parse (hsms_parse (msg_to_bytes m))
    | Some (ECtl h) => of_parse (hsms_parse (ctl_to_bytes h))
    | _ => ESkip
    end
  | SCtlNew h => of_ctl (new_control h)
  | SCtlSelectReq sid sys => of_ctl (spec_select_req sid sys)
  | SCtlSelectRsp r st => rsp_of p r (fun h => spec_select_rsp h st)
  | SCtlDeselectReq sid sys => of_ctl (spec_deselect_req sid sys)
  | SCtlDeselectRsp r st => rsp_of p r (fun h => spec_deselect_rsp h st)
  | SCtlLinktestReq sys => of_ctl (spec_linktest_req sys)
  | SCtlLinktestRsp r => rsp_of p r spec_linktest_rsp
  | SCtlRejectReq sid pt st sys reason => of_ctl (spec_reject_req sid pt st sys reason)
  | SCtlSeparateReq sid sys => of_ctl (spec_separate_req sid sys)
  | SHeader typ size => EHeader (header_bytes typ size)
  | SSml input alnum floats =>
    let r := sml_parse alnum floats input in if r_crashed r then EPanic else EParse r
  | SPick r i =>
    match nth_error p r with
    | Some (EParse res) => match nth_error (r_msgs res) i with Some m => EMsg m | None => ESkip end
    | _ => ESkip
    end
  | SLex input alnum => ETokens input (lex_all alnum input)
  end.

Definition run (steps : list step) : pool :=
  fold_left (fun p s => p ++ [eval_step p s]) steps [].

(* ---------- observation text ---------- *)

Definition hexd (z : Z) : byte := z2b (if z <? 10 then 48 + z else 87 + z).
Fixpoint hex (s : bytes) : bytes :=
  match s with
  | [] => []
  | b :: r => hexd (b2z b / 16) :: hexd (b2z b mod 16) :: hex r
  end.
Definition hexf (s : bytes) : bytes := match s with [] => [x2d] | _ => hex s end.   (* "-" when empty *)

Fixpoint join_with (sep : byte) (l : list bytes) : bytes :=
  match l with
  | [] => []
  | [x] => x
  | x :: r => x ++ sep :: join_with sep r
  end.

Definition names_field (l : list bytes) : bytes :=
  match l with [] => [x2d] | _ => join_with x2c (map hexf l) end.

(* adjacent text pieces are merged, so the text is canonical; the chunks of
   the current run are kept in reverse and concatenated once *)
Definition flush_run (acc : list bytes) : list piece :=
  match acc with [] => [] | _ => [PT (concat (rev_append acc []))] end.
Fixpoint merge_pieces (l : list piece) (acc : list bytes) : list piece :=
  match l with
  | [] => flush_run acc
  | PT s :: r => merge_pieces r (match s with [] => acc | _ => s :: acc end)
  | PF w b :: r => flush_run acc ++ PF w b :: merge_pieces r []
  end.

Definition piece_field (p : piece) : bytes :=
  match p with
  | PT s => x74 :: x3a :: hexf s                                       (* t:hex *)
  | PF w b => x66 :: fmt_int (Z.of_nat w) ++ x3a :: fmt_int b           (* f4:bits *)
  end.
Definition pieces_field (l : list piece) : bytes :=
  match merge_pieces l [] with
  | [] => [x2d]
  | ps => join_with x2c (map piece_field ps)
  end.

Definition kv (k : String.string) (v : bytes) : bytes := x20 :: B k ++ x3d :: v.

Definition obs_item (t : item) : bytes :=
  x49 :: kv "str" (pieces_field (print_item t)) ++ kv "vars" (names_field (vars t)) ++
  kv "size" (fmt_int (size t)) ++ kv "bytes" (hexf (to_bytes t)) ++
  match t with
  | IAsciiVar _ mn mx => kv "min" (fmt_int mn) ++ kv "max" (fmt_int mx)
  | IAscii _ => kv "min" (fmt_int (-2)) ++ kv "max" (fmt_int (-2))
  | _ => []
  end.

Definition obs_msg (m : msg) : bytes :=
  x4d :: kv "name" (hexf (m_name m)) ++ kv "stream" (fmt_int (m_stream m)) ++
  kv "function" (fmt_int (m_function m)) ++ kv "wbit" (hexf (wbit_string m)) ++
  kv "dir" (hexf (m_dir m)) ++ kv "sid" (fmt_int (m_sid m)) ++ kv "sys" (hexf (m_sys m)) ++
  kv "header" (hexf (msg_header m)) ++ kv "vars" (names_field (vars (m_item m))) ++
  kv "bytes" (hexf (msg_to_bytes m)) ++ kv "str" (pieces_field (msg_print m)).

Definition obs_ctl (h : bytes) : bytes :=
  x43 :: kv "type" (hexf (ctl_type h)) ++ kv "bytes" (hexf (ctl_to_bytes h)).

Definition diag_text (d : Z * Z * Z) : bytes :=
  let '(l, c, k) := d in fmt_int l ++ [x3a] ++ fmt_int c ++ [x3a] ++ fmt_int k.
Definition diags_field (l : list (Z * Z * Z)) : bytes :=
  match l with [] => [x2d] | _ => join_with x2c (map diag_text l) end.

Definition toktype_code (t : toktype) : Z :=
  match t with
  | TEOF => 0 | TError => 1 | TComment => 2 | TMsgEnd => 3 | TStreamFunction => 4 | TWaitBit => 5
  | TDirection => 6 | TMsgName => 7 | TLAB => 8 | TRAB => 9 | TItemType => 10 | TItemSize => 11
  | TNumber => 12 | TBool => 13 | TVariable => 14 | TQuoted => 15 | TEllipsis => 16
  end.
Definition lexerr_code (e : option lexerr) : bytes :=
  match e with
  | Some LEUnexpectedChar => B"e1" | Some LEBadSize => B"e2" | Some LEUnclosedString => B"e3" | Some LEBadNumber => B"e4"
  | None => []
  end.
Definition token_text (input : bytes) (t : token) : bytes :=
  let '(l, c) := linecol input (t_off t) in
  fmt_int (toktype_code (t_typ t)) ++ [x3a] ++
  (match t_err t with Some _ => lexerr_code (t_err t) | None => hexf (t_val t) end) ++ [x3a] ++ fmt_int l ++ [x3a] ++ fmt_int c.
Definition tokens_field (input : bytes) (l : list token) : bytes :=
  match l with [] => [x2d] | _ => join_with x3b (map (token_text input) l) end.

Definition obs_entry (e : entry) : bytes :=
  match e with
  | EItem t => obs_item t
  | EMsg m => obs_msg m
  | ECtl h => obs_ctl h
  | EHeader (Some b) => x48 :: kv "bytes" (hexf b)
  | EHeader None => x48 :: kv "bytes" (B"err")
  | EParse r => x53 :: kv "n" (fmt_int (Z.of_nat (length (r_msgs r)))) ++ kv "errs" (diags_field (r_errs r)) ++ kv "warns" (diags_field (r_warns r))
  | ETokens input l => x54 :: kv "toks" (tokens_field input l)
  | EPanic => [x50]
  | EFail => [x4e]
  | ESkip => [x58]
  end.

Definition observe (steps : list step) : list bytes := map obs_entry (run steps).
