(* LayoutProofs.v — comments and line structure (C08): a comment in front of
   the rest of a line contributes no token to what the parser sees, and the
   tokens that follow are those of the rest, moved by the comment's length. *)
From Secs Require Import Ast Fill Utf8 Msg Lexer Parser SmlNumbers SmlProofs LexProofs.
Open Scope Z_scope.

Definition drop_comments (l : list token) : list token := filter (fun t => negb (typ_is t TComment)) l.

Lemma span_stop p : forall a b r, Forall (fun x => p x = true) a -> p b = false -> span p (a ++ b :: r) = (a, b :: r).
Proof.
  induction a as [|x a IH]; intros b r Ha Hb; cbn [app span]; [rewrite Hb; reflexivity|].
  inversion Ha as [|? ? Hx Hr]; subst. rewrite Hx, (IH b r Hr Hb). reflexivity.
Qed.

Lemma nolf_ws b : is_ws_nolf b = true -> is_ws b = true.
Proof. unfold is_ws_nolf, is_ws. intro H. rewrite !orb_true_iff in *. tauto. Qed.

(* lexComment on "//" body LF rest: the comment is the line without its trailing blanks; the blanks and the line feed stay *)
Lemma lex_comment_line body rest : Forall (fun b => negb (byte_eqb b x0a) = true) body ->
  exists c ws, lex_comment (x2f :: x2f :: body ++ x0a :: rest) = (c, ws ++ x0a :: rest, false) /\
               c ++ ws = x2f :: x2f :: body /\ Forall (fun b => is_ws b = true) ws.
Proof.
  intro Hb. unfold lex_comment.
  assert (Hs : span (fun b => negb (byte_eqb b x0a)) (x2f :: x2f :: body ++ x0a :: rest) = (x2f :: x2f :: body, x0a :: rest)).
  { change (x2f :: x2f :: body ++ x0a :: rest) with ((x2f :: x2f :: body) ++ x0a :: rest).
    apply span_stop; [constructor; [reflexivity|constructor; [reflexivity|exact Hb]]|reflexivity]. }
  rewrite Hs. destruct (rtrim_ws (rev_append (x2f :: x2f :: body) [])) as [k t] eqn:Et.
  destruct (rtrim_ws_eq _ _ _ Et) as [E Hws].
  exists (rev_append k []), t. split; [reflexivity|]. split.
  - rewrite !rev_append_rev, !app_nil_r in *. apply (f_equal (@rev byte)) in E. rewrite rev_involutive, rev_app_distr, rev_involutive in E.
    symmetry. exact E.
  - apply Forall_impl with (P := fun b => is_ws_nolf b = true); [intros b H; apply nolf_ws; exact H|exact Hws].
Qed.

Section Layout.
Variable alnum : list Z.

(* a comment at the lexer's position, up to its line feed, is invisible to the
   parser: what follows is lexed in the same state, at offsets moved by exactly
   the bytes of the comment line *)
Theorem comment_transparent body rest st off F G :
  Forall (fun b => negb (byte_eqb b x0a) = true) body ->
  (length (x2f :: x2f :: body ++ x0a :: rest) < F)%nat -> (length rest < G)%nat ->
  drop_comments (lex_from alnum F st (x2f :: x2f :: body ++ x0a :: rest) off) =
  drop_comments (lex_from alnum G st rest (off + Z.of_nat (length body) + 3)).
Proof.
  intros Hb HF HG.
  destruct (lex_comment_line body rest Hb) as [c [ws [Ec [Ecw Hws]]]].
  (* enough fuel on the left for: the comment, the blanks, the line feed, the rest *)
  set (input := x2f :: x2f :: body ++ x0a :: rest) in *.
  assert (Hlen : (length rest < length input)%nat) by (subst input; cbn [length]; rewrite app_length; cbn [length]; lia).
  rewrite (lex_fuel_irrelevant alnum F (S (length (ws ++ [x0a]) + length input)) st input off HF) by lia.
  cbn [lex_from]. unfold lex_step1. subst input.
  change (starts_with slashes (x2f :: x2f :: body ++ x0a :: rest)) with true. cbn match.
  rewrite Ec. unfold drop_comments at 1. cbn [filter typ_is t_typ mk negb].
  match goal with |- filter _ ?l = _ => change (filter (fun t => negb (typ_is t TComment)) l) with (drop_comments l) end.
  change (ws ++ x0a :: rest) with (ws ++ [x0a] ++ rest). rewrite app_assoc.
  rewrite (lex_skip_whitespace alnum (ws ++ [x0a])) by (apply Forall_app; split; [exact Hws|constructor; [reflexivity|constructor]]).
  rewrite (lex_fuel_irrelevant alnum _ G st rest _ Hlen HG).
  f_equal. f_equal. apply (f_equal (@length byte)) in Ecw. rewrite app_length in Ecw. cbn [length] in Ecw.
  unfold zlen. rewrite app_length. cbn [length]. lia.
Qed.

(* together with lex_from_shift: the same tokens as the rest alone, every offset moved by the same amount *)
Corollary comment_moves_offsets body rest st F G :
  Forall (fun b => negb (byte_eqb b x0a) = true) body ->
  (length (x2f :: x2f :: body ++ x0a :: rest) < F)%nat -> (length rest < G)%nat ->
  drop_comments (lex_from alnum F st (x2f :: x2f :: body ++ x0a :: rest) 0) =
  map (shift (Z.of_nat (length body) + 3)) (drop_comments (lex_from alnum G st rest 0)).
Proof.
  intros Hb HF HG. rewrite (comment_transparent body rest st 0 F G Hb HF HG).
  rewrite (lex_from_shift alnum G st rest (0 + Z.of_nat (length body) + 3)).
  unfold drop_comments. generalize (lex_from alnum G st rest 0). intro l.
  induction l as [|t l IH]; [reflexivity|]. cbn [map filter].
  change (typ_is (shift (0 + Z.of_nat (length body) + 3) t) TComment) with (typ_is t TComment).
  destruct (negb (typ_is t TComment)); cbn [map]; rewrite IH; reflexivity.
Qed.
End Layout.
