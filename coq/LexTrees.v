(* LexTrees.v — the lexer reads the printed form of whole item trees back into
   their tokens, and the parser rebuilds the trees (C04, character level). *)
From Secs Require Import Ast FloatProofs FloatRound Fill Utf8 Msg WireSpec WireLemmas WireValues HeaderProofs WireEnc WireDec MsgProofs AstProofs FillProofs FillCompose PrintProofs.
From Secs Require Import Lexer Parser SmlNumbers SmlProofs LexProofs ParseProofs LayoutProofs OffsetProofs TokenProofs AsciiTokens TokenTrees LexPrinted AsciiLex.
Open Scope Z_scope.

(* ---------- whole item trees ---------- *)

Section LexTrees.
Variable alnum : list Z.
Variable fl : nat -> Z -> bytes.

Fixpoint lexable (t : item) : Prop :=
  match t with
  | IList xs =>
    (fix go (cs : list item) : Prop :=
       match cs with
       | [] => True
       | c :: r => match c with
                   | IVar n => is_ellipsis n = false -> sml_var n
                   | IList _ | ILeaf _ _ _ | IAscii _ | IAsciiVar _ _ _ => lexable c
                   | _ => False
                   end /\ go r
       end) xs
  | ILeaf k w ys => Forall (slot_lexable alnum fl k w) ys
  | IAscii _ => True
  | IAsciiVar n _ _ => sml_var n
  | _ => False
  end.

Definition child_lexable (c : item) : Prop :=
  match c with IVar n => is_ellipsis n = false -> sml_var n | IList _ | ILeaf _ _ _ | IAscii _ | IAsciiVar _ _ _ => lexable c | _ => False end.

Lemma lexable_children xs : lexable (IList xs) -> Forall child_lexable xs.
Proof.
  cbn [lexable]. induction xs as [|c r IH]; intro H; [constructor|]. destruct H as [Hc Hr].
  constructor; [exact Hc|apply IH; exact Hr].
Qed.

Lemma lexes_ws ws st s off : Forall (fun b => is_ws b = true) ws ->
  lexes alnum st (ws ++ s) off [] st s (off + Z.of_nat (length ws)).
Proof. intro H. exists (length ws). intro F. rewrite (lex_skip_whitespace alnum ws H). reflexivity. Qed.

Lemma indent_ws level : Forall (fun b => is_ws b = true) (indent level).
Proof. induction level; cbn [indent]; repeat constructor; assumption. Qed.

Lemma step_L d r off : is_word d = false ->
  lex_step1 alnum LText (x4c :: d :: r) off = LEmit (mk TItemType (B"L"%string) off) LText (d :: r) (off + 1).
Proof.
  intro Hd. unfold lex_step1. rewrite no_slashes, no_ellipsis by reflexivity.
  cbn [match_ident]. change (is_alpha_ x4c) with true. cbv iota. rewrite (span_head_stops is_word d r Hd). reflexivity.
Qed.

Definition item_lexes (t : item) : Prop := forall level r off,
  exists ts, lexes alnum LText (render fl (print_item_at level t) ++ r) off ts LText r
               (off + zlen (render fl (print_item_at level t))) /\
             map zoff ts = item_tokens fl t.

(* the children of a list, each on its own line *)
Definition child_pieces (level : nat) (c : item) : list piece :=
  match c with
  | IList _ => print_item_at (S level) c ++ [PT [x0a]]
  | IVar n => [PT (indent level ++ [x20; x20] ++ (if is_ellipsis n then [x2e; x2e; x2e] else n) ++ [x0a])]
  | _ => PT (indent level ++ [x20; x20]) :: print_item_at 0 c ++ [PT [x0a]]
  end.

(* an item that is not a list stands on its own line: indentation, the item at level 0, a line feed *)
Lemma other_child level c cs r off : item_lexes c ->
  child_pieces level c = PT (indent level ++ [x20; x20]) :: print_item_at 0 c ++ [PT [x0a]] -> child_tokens fl c = item_tokens fl c ->
  exists t1, lexes alnum LText (render fl (child_pieces level c) ++ (render fl (flat_map (child_pieces level) cs) ++ r)) off t1
               LText (render fl (flat_map (child_pieces level) cs) ++ r) (off + zlen (render fl (child_pieces level c))) /\
             map zoff t1 = child_tokens fl c.
Proof.
  intros Ic Ep Et. rewrite Ep, Et. rewrite render_cons, render_app, <- !app_assoc. rewrite (app_assoc (indent level) [x20; x20]).
  destruct (Ic 0%nat (render fl [PT [x0a]] ++ render fl (flat_map (child_pieces level) cs) ++ r)
              (off + Z.of_nat (length (indent level ++ [x20; x20])))) as [t1 [L1 Z1]].
  exists ([] ++ t1 ++ []). split; [|cbn [app]; rewrite app_nil_r; exact Z1].
  eapply lexes_trans; [apply lexes_ws; apply Forall_app; split; [apply indent_ws|repeat constructor]|].
  eapply lexes_trans; [exact L1|]. cbn [render flat_map app].
  match goal with |- lexes _ _ _ ?a _ _ _ ?b => replace b with (a + 1) end.
  - apply lexes_skip. apply step_blank. reflexivity.
  - unfold zlen. repeat (cbn [length render flat_map app]; rewrite ?app_length). cbn [length]. lia.
Qed.

Lemma lexes_children level : forall cs, Forall child_ok cs -> Forall child_lexable cs ->
  Forall (fun c => match c with IList _ | ILeaf _ _ _ | IAscii _ | IAsciiVar _ _ _ => item_lexes c | _ => True end) cs ->
  forall r off, exists ts, lexes alnum LText (render fl (flat_map (child_pieces level) cs) ++ r) off ts LText r
                             (off + zlen (render fl (flat_map (child_pieces level) cs))) /\
                           map zoff ts = flat_map (child_tokens fl) cs.
Proof.
  induction cs as [|c cs IH]; intros Hok Hlx Hih r off.
  - exists []. split; [|reflexivity]. cbn [flat_map render app]. replace (off + zlen []) with off by (unfold zlen; cbn; lia). apply lexes_refl.
  - inversion Hok as [|? ? Hc Hcs]; subst. inversion Hlx as [|? ? Lc Lcs]; subst. inversion Hih as [|? ? Ic Ics]; subst.
    cbn [flat_map]. rewrite render_app, <- app_assoc.
    assert (Hone : exists t1, lexes alnum LText (render fl (child_pieces level c) ++ (render fl (flat_map (child_pieces level) cs) ++ r)) off t1
                     LText (render fl (flat_map (child_pieces level) cs) ++ r) (off + zlen (render fl (child_pieces level c))) /\
                   map zoff t1 = child_tokens fl c).
    { destruct c as [xs|n|k w ys|v|n mn mx|]; cbn [child_ok child_lexable] in Hc, Lc; try contradiction.
      - (* a nested list, then the line feed *)
        cbn [child_pieces]. rewrite render_app, <- app_assoc.
        destruct (Ic (S level) (render fl [PT [x0a]] ++ render fl (flat_map (child_pieces level) cs) ++ r) off) as [t1 [L1 Z1]].
        exists (t1 ++ []). split; [|rewrite app_nil_r; exact Z1].
        eapply lexes_trans; [exact L1|]. cbn [render flat_map app].
        rewrite zlen_app. replace (off + (zlen (render fl (print_item_at (S level) (IList xs))) + zlen [x0a]))
          with (off + zlen (render fl (print_item_at (S level) (IList xs))) + 1) by (unfold zlen; cbn [length]; lia).
        apply lexes_skip. apply step_blank. reflexivity.
      - (* a list variable on its line: an ellipsis is printed as three dots, whatever its number *)
        cbn [child_pieces render flat_map child_tokens]. destruct (is_ellipsis n) eqn:Eell.
        + rewrite app_nil_r, <- !app_assoc. cbn [app].
          exists ([] ++ [mk TEllipsis [x2e; x2e; x2e] (off + Z.of_nat (length (indent level ++ [x20; x20])))] ++ []).
          split; [|reflexivity].
          change (indent level ++ x20 :: x20 :: x2e :: x2e :: x2e :: x0a :: render fl (flat_map (child_pieces level) cs) ++ r)
            with (indent level ++ [x20; x20] ++ [x2e; x2e; x2e] ++ x0a :: render fl (flat_map (child_pieces level) cs) ++ r).
          rewrite app_assoc.
          eapply lexes_trans; [apply lexes_ws; apply Forall_app; split; [apply indent_ws|repeat constructor]|].
          eapply lexes_trans; [apply lexes_emit; cbn [app]; reflexivity|].
          match goal with |- lexes _ _ _ ?a _ _ _ ?b => replace b with (a + 1) end.
          * apply lexes_skip. apply step_blank. reflexivity.
          * unfold zlen. rewrite ?app_length. cbn [length]. rewrite ?app_length. cbn [length]. lia.
        + specialize (Lc eq_refl). rewrite app_nil_r, <- !app_assoc. cbn [app].
          exists ([] ++ [mk TVariable n (off + Z.of_nat (length (indent level ++ [x20; x20])))] ++ []).
          split; [|reflexivity].
          change (indent level ++ x20 :: x20 :: n ++ x0a :: render fl (flat_map (child_pieces level) cs) ++ r)
            with (indent level ++ [x20; x20] ++ n ++ x0a :: render fl (flat_map (child_pieces level) cs) ++ r).
          rewrite app_assoc.
          eapply lexes_trans; [apply lexes_ws; apply Forall_app; split; [apply indent_ws|repeat constructor]|].
          eapply lexes_trans; [apply lexes_emit; apply (step_var alnum n x0a _ _ Lc); right; right; reflexivity|].
          match goal with |- lexes _ _ _ ?a _ _ _ ?b => replace b with (a + 1) end.
          * apply lexes_skip. apply step_blank. reflexivity.
          * unfold zlen. rewrite ?app_length. cbn [length]. rewrite ?app_length. cbn [length]. lia.
      - (* a value item on its line *)
        apply (other_child level (ILeaf k w ys) cs r off Ic); reflexivity.
      - apply (other_child level (IAscii v) cs r off Ic); reflexivity.
      - apply (other_child level (IAsciiVar n mn mx) cs r off Ic); reflexivity. }
    destruct Hone as [t1 [L1 Z1]].
    destruct (IH Hcs Lcs Ics r (off + zlen (render fl (child_pieces level c)))) as [t2 [L2 Z2]].
    exists (t1 ++ t2). split.
    + eapply lexes_trans; [exact L1|]. rewrite zlen_app, Z.add_assoc. exact L2.
    + rewrite map_app, Z1, Z2. reflexivity.
Qed.

Lemma fmt_int_nat (n : nat) : fmt_int (Z.of_nat n) = fmt_unsigned 10 (Z.of_nat n).
Proof. unfold fmt_int. destruct (Z.ltb_spec (Z.of_nat n) 0); [lia|reflexivity]. Qed.

Theorem lexes_item : forall t, printable t -> lexable t -> item_lexes t.
Proof.
  induction t as [xs IH|n|k w ys|v|n mn mx|] using item_ind'; intros Hp Hl; try (cbn [printable] in Hp; contradiction).
  - (* a list *)
    pose proof (printable_children xs Hp) as Hok. pose proof (lexable_children xs Hl) as Hlx.
    assert (Hih : Forall (fun c => match c with IList _ | ILeaf _ _ _ | IAscii _ | IAsciiVar _ _ _ => item_lexes c | _ => True end) xs).
    { clear Hp Hl. induction IH as [|c cs Hc _ IHcs]; [constructor|].
      inversion Hok; subst. inversion Hlx; subst. constructor; [|apply IHcs; assumption].
      destruct c; try exact I; apply Hc; assumption. }
    intros level r off. destruct xs as [|c0 cs0].
    + (* "<L[0]>" *)
      cbn [print_item_at item_tokens existsb app flat_map length]. cbn [render flat_map]. rewrite app_nil_r, <- app_assoc.
      replace (B"<L[0]>"%string) with (x3c :: x4c :: x5b :: fmt_unsigned 10 0 ++ x5d :: [x3e]) by reflexivity. cbn [app].
      eexists. split.
      * eapply lexes_trans; [apply lexes_ws; apply indent_ws|].
        eapply lexes_trans; [apply lexes_emit; apply step_lab|].
        eapply lexes_trans; [apply lexes_emit; apply step_L; reflexivity|].
        eapply lexes_trans; [apply lexes_emit; apply (step_size alnum 0); lia|].
        eapply lexes_trans; [apply lexes_emit; apply step_rab|].
        match goal with |- lexes _ _ _ ?a _ _ _ ?b => replace b with a; [apply lexes_refl|] end.
        unfold zlen. repeat (cbn [length]; rewrite ?app_length). cbn [length]. lia.
      * reflexivity.
    + remember (c0 :: cs0) as xs eqn:Exs.
      assert (E : print_item_at level (IList xs) =
        PT (indent level ++ [x3c; x4c] ++ (if existsb is_list_var xs then [] else [x5b] ++ fmt_int (Z.of_nat (length xs)) ++ [x5d]) ++ [x0a])
        :: flat_map (child_pieces level) xs ++ [PT (indent level ++ [x3e])]) by (subst xs; reflexivity).
      assert (Et : item_tokens fl (IList xs) =
        [mk TLAB [x3c] 0; mk TItemType (B"L"%string) 0] ++
        (if existsb is_list_var xs then [] else [mk TItemSize ([x5b] ++ fmt_unsigned 10 (Z.of_nat (length xs)) ++ [x5d]) 0]) ++
        flat_map (child_tokens fl) xs ++ [mk TRAB [x3e] 0]) by reflexivity.
      rewrite E, Et. clear E Et. rewrite render_cons, render_app. cbn [render flat_map]. rewrite app_nil_r.
      rewrite fmt_int_nat.
      set (body := render fl (flat_map (child_pieces level) xs)).
      destruct (existsb is_list_var xs).
      * (* no size: "<L" line feed *)
        repeat (progress (rewrite <- ?app_assoc; cbn [app])).
        destruct (lexes_children level xs Hok Hlx Hih (indent level ++ x3e :: r)
                    (off + Z.of_nat (length (indent level)) + 1 + 1 + 1)) as [tb [Lb Zb]].
        eexists. split.
        -- eapply lexes_trans; [apply lexes_ws; apply indent_ws|].
           eapply lexes_trans; [apply lexes_emit; apply step_lab|].
           eapply lexes_trans; [apply lexes_emit; apply step_L; reflexivity|].
           eapply lexes_trans; [apply lexes_skip; apply step_blank; reflexivity|].
           eapply lexes_trans; [exact Lb|].
           eapply lexes_trans; [apply lexes_ws; apply indent_ws|].
           eapply lexes_trans; [apply lexes_emit; apply step_rab|].
           match goal with |- lexes _ _ _ ?a _ _ _ ?b => replace b with a; [apply lexes_refl|] end.
           fold body. unfold zlen. repeat (cbn [length]; rewrite ?app_length). cbn [length]. lia.
        -- rewrite !map_app. cbn [map app]. rewrite Zb. reflexivity.
      * (* "<L[n]" line feed *)
        repeat (progress (rewrite <- ?app_assoc; cbn [app])).
        set (n := Z.of_nat (length xs)).
        destruct (lexes_children level xs Hok Hlx Hih (indent level ++ x3e :: r)
                    (off + Z.of_nat (length (indent level)) + 1 + 1 + zlen (x5b :: fmt_unsigned 10 n ++ [x5d]) + 1)) as [tb [Lb Zb]].
        eexists. split.
        -- eapply lexes_trans; [apply lexes_ws; apply indent_ws|].
           eapply lexes_trans; [apply lexes_emit; apply step_lab|].
           eapply lexes_trans; [apply lexes_emit; apply step_L; reflexivity|].
           eapply lexes_trans; [apply lexes_emit; apply (step_size alnum n); subst n; lia|].
           eapply lexes_trans; [apply lexes_skip; apply step_blank; reflexivity|].
           eapply lexes_trans; [exact Lb|].
           eapply lexes_trans; [apply lexes_ws; apply indent_ws|].
           eapply lexes_trans; [apply lexes_emit; apply step_rab|].
           match goal with |- lexes _ _ _ ?a _ _ _ ?b => replace b with a; [apply lexes_refl|] end.
           fold body. unfold zlen. repeat (cbn [length]; rewrite ?app_length). cbn [length]. lia.
        -- rewrite !map_app. cbn [map app]. rewrite Zb. reflexivity.
  - (* a value item *)
    intros level r off. cbn [printable] in Hp. destruct Hp as (Hf & _). cbn [lexable] in Hl.
    rewrite (print_leaf_text fl level k w ys). apply (lexes_leaf alnum fl k w ys r off Hf Hl).
  - (* an ASCII item *)
    intros level r off.
    assert (Et : render fl (print_item_at level (IAscii v)) = ascii_text v).
    { destruct v; cbn; rewrite ?app_nil_r; reflexivity. }
    rewrite Et. apply (lexes_ascii alnum v r off).
  - (* an ASCII variable *)
    intros level r off. cbn [printable] in Hp. destruct Hp as (Hnew & _ & _). cbn [lexable] in Hl.
    assert (Et : render fl (print_item_at level (IAsciiVar n mn mx)) = print_ascii_var n mn mx) by (cbn [print_item_at render flat_map]; apply app_nil_r).
    rewrite Et.
    unfold new_ascii_var in Hnew. destruct (is_valid_var_name n && (0 <=? mn) && (-1 <=? mx) && ((mx =? -1) || (mn <=? mx))) eqn:E; [|discriminate].
    repeat (apply andb_true_iff in E as [E ?]).
    apply (lexes_ascii_var alnum n mn mx r off Hl); try (apply Z.leb_le; assumption).
    match goal with H : (mx =? -1) || (mn <=? mx) = true |- _ => apply orb_true_iff in H as [H|H]; [left; apply Z.eqb_eq; exact H|right; apply Z.leb_le; exact H] end.
Qed.
End LexTrees.

(* ---------- lexer and parser together ---------- *)

(* tokens that differ from the printed item's tokens only in their offsets parse to the item *)
Theorem item_parses_back_at_any_offsets floats fl t st ts more :
  printable t -> scans floats fl t -> (forall n, In n (vars t) -> known_name st n = false) -> canon (ecount st) (vars t) ->
  toks st = ts ++ more -> map zoff ts = item_tokens fl t ->
  exists st', parse_item floats (S (length (toks st))) st = (Some t, st') /\ toks st' = more /\ errs st' = errs st.
Proof.
  intros Hp Hsc Hfresh Hcan Ht Hz.
  pose (g := fun _ : token => 0).
  assert (Hg : g zero_tok = 0) by reflexivity.
  assert (HtR : toks (R g st) = item_tokens fl t ++ map zoff more).
  { unfold R. cbn [toks]. rewrite Ht, map_app. change (map (re g) ts) with (map zoff ts). rewrite Hz. reflexivity. }
  destruct (item_parses_back floats fl t (R g st) (map zoff more) Hp Hsc Hfresh Hcan HtR) as [s1 [E1 [T1 [Ee1 _]]]].
  assert (Hlen : length (toks (R g st)) = length (toks st)) by (unfold R; cbn [toks]; apply map_length).
  rewrite Hlen in E1.
  rewrite (proj1 (parse_item_list_R g Hg floats (S (length (toks st)))) st) in E1.
  pose proof (proj1 (ext_parse_item_list floats (S (length (toks st)))) st) as Hext.
  destruct (parse_item floats (S (length (toks st))) st) as [o st'] eqn:Ep. cbn [fst snd] in *.
  inversion E1 as [[Ho Hs]]. subst o. exists st'. split; [reflexivity|].
  destruct Hext as [_ [[n Hn] [d Hd]]].
  assert (Hlt : length (toks st') = length more).
  { apply (f_equal toks) in Hs. rewrite T1 in Hs. unfold R in Hs. cbn [toks] in Hs.
    apply (f_equal (@length token)) in Hs. rewrite !map_length in Hs. exact Hs. }
  assert (Hle : length (errs st') = length (errs st)).
  { apply (f_equal errs) in Hs. rewrite Ee1 in Hs. unfold R in Hs. cbn [errs] in Hs.
    apply (f_equal (@length diag)) in Hs. rewrite !map_length in Hs. exact Hs. }
  split.
  - rewrite Hn, Ht in *. rewrite skipn_length, app_length in Hlt.
    destruct (Nat.le_gt_cases n (length ts)) as [Hle'|Hgt].
    + assert (n = length ts) by lia. subst n. rewrite skipn_app, skipn_all, Nat.sub_diag. reflexivity.
    + rewrite skipn_app. rewrite (skipn_all2 ts) by lia. cbn [app].
      assert (Hm : length more = 0%nat \/ (length more > 0)%nat) by lia.
      destruct more as [|m more']; [rewrite skipn_nil; reflexivity|cbn [length] in Hlt; lia].
  - rewrite Hd in Hle. rewrite app_length in Hle. destruct d; [rewrite app_nil_r in Hd; exact Hd|cbn [length] in Hle; lia].
Qed.

(* a printed value item: the lexer reads its text into tokens, whatever
   follows, and the parser rebuilds the item from them *)
Theorem print_lex_parse_leaf alnum floats fl level k w ys rest off :
  printable (ILeaf k w ys) -> Forall (slot_scans floats fl k w) ys -> Forall (slot_lexable alnum fl k w) ys ->
  exists ts, lexes alnum LText (render fl (print_item_at level (ILeaf k w ys)) ++ rest) off ts LText rest
               (off + zlen (render fl (print_item_at level (ILeaf k w ys)))) /\
    forall st more, toks st = ts ++ more -> (forall n, In n (slot_vars ys) -> known_name st n = false) ->
      exists st', parse_item floats (S (length (toks st))) st = (Some (ILeaf k w ys), st') /\ toks st' = more /\ errs st' = errs st.
Proof.
  intros Hp Hsc Hl. pose proof Hp as Hp'. cbn [printable] in Hp'. destruct Hp' as (Hf & _).
  rewrite (print_leaf_text fl level k w ys).
  destruct (lexes_leaf alnum fl k w ys rest off Hf Hl) as [ts [L Z0]].
  exists ts. split; [exact L|]. intros st more Ht Hfresh.
  apply (item_parses_back_at_any_offsets floats fl (ILeaf k w ys) st ts more Hp Hsc Hfresh); [|exact Ht|exact Z0].
  apply canon_no_ellipsis. cbn [printable] in Hp. destruct Hp as (_ & _ & _ & _ & _ & Hn). unfold names_ok in Hn.
  apply andb_true_iff in Hn as [Hn _]. exact (proj2 (valid_names_plain _ Hn)).
Qed.

(* the same for whole item trees — lists of any size and nesting, list
   variables, value items of every format, ASCII items and variables: the printed
   text, at any indentation and followed by anything, is lexed into tokens from
   which the parser rebuilds exactly the tree that was printed *)
Theorem print_lex_parse_item alnum floats fl level t rest off :
  printable t -> scans floats fl t -> lexable alnum fl t ->
  exists ts, lexes alnum LText (render fl (print_item_at level t) ++ rest) off ts LText rest
               (off + zlen (render fl (print_item_at level t))) /\
    forall st more, toks st = ts ++ more -> (forall n, In n (vars t) -> known_name st n = false) -> canon (ecount st) (vars t) ->
      exists st', parse_item floats (S (length (toks st))) st = (Some t, st') /\ toks st' = more /\ errs st' = errs st.
Proof.
  intros Hp Hsc Hl. destruct (lexes_item alnum fl t Hp Hl level rest off) as [ts [L Z0]].
  exists ts. split; [exact L|]. intros st more Ht Hfresh Hcan.
  apply (item_parses_back_at_any_offsets floats fl t st ts more Hp Hsc Hfresh Hcan Ht Z0).
Qed.

(* premises are satisfiable: a nested tree with values and variables *)
Example print_lex_parse_example :
  let t := IList [ILeaf KUint 1 [SV 1; SX (B"x"%string)]; IVar (B"v"%string); IList [ILeaf KBool 1 [SV 1; SV 0]; ILeaf KInt 2 [SV (-7)]]] in
  (forall alnum fl, printable t /\ lexable alnum fl t) /\
  render (fun _ _ => []) (print_item t) = (B"<L" ++ [x0a] ++ B"  <U1[2] 1 x>" ++ [x0a] ++ B"  v" ++ [x0a] ++ B"  <L[2]" ++ [x0a] ++
                                            B"    <BOOLEAN[2] T F>" ++ [x0a] ++ B"    <I2[1] -7>" ++ [x0a] ++ B"  >" ++ [x0a] ++ B">")%string.
Proof.
  split; [|reflexivity]. intros alnum fl. cbn [printable lexable]. split.
  - repeat split; try reflexivity; try discriminate; try (left; reflexivity); try (right; left; reflexivity); repeat constructor; cbn; lia.
  - repeat split; repeat constructor; try reflexivity; cbn; lia.
Qed.
