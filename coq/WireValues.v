(* WireValues.v — one element of a value item: what the decoder hands to the
   factory, and what the factory stores, against the E5 meaning of the bytes. *)
From Secs Require Import Ast Fill Msg WireSpec WireLemmas.
Open Scope Z_scope.

Ltac fmt_cases H :=
  match type of H with
  | fmt_ok ?k ?w => destruct k; cbn in H; repeat (destruct H as [H|H]); subst w
  end.

Lemma conv_int64_id z : - two63 <= z < two63 -> conv_int64 z = z.
Proof.
  unfold conv_int64, two63, two64. intro H.
  destruct (Z.ltb_spec (z mod 18446744073709551616) 9223372036854775808); lia.
Qed.

Lemma conv_uint64_id z : 0 <= z < two64 -> conv_uint64 z = z.
Proof. unfold conv_uint64, two64. intro H. apply Z.mod_small. lia. Qed.

Lemma f32_finite_spec v : f32_finite v = true <-> float_finite 4 v.
Proof.
  unfold f32_finite, f32_exp, float_finite. change (2 ^ 23) with 8388608. change (2 ^ 8) with 256.
  destruct (Z.eqb_spec ((v / 8388608) mod 256) 255); cbn; split; intro; try lia; try congruence.
Qed.
Lemma f64_finite_spec v : f64_finite v = true <-> float_finite 8 v.
Proof.
  unfold f64_finite, f64_exp, float_finite. change (2 ^ 52) with 4503599627370496. change (2 ^ 11) with 2048.
  destruct (Z.eqb_spec ((v / 4503599627370496) mod 2048) 2047); cbn; split; intro; try lia; try congruence.
Qed.

Lemma of_signed_cases w v : (0 < w)%nat ->
  - (256 ^ Z.of_nat w / 2) <= v < 256 ^ Z.of_nat w / 2 ->
  of_signed w v = if v <? 0 then v + 256 ^ Z.of_nat w else v.
Proof.
  intros Hw H. unfold of_signed. pose proof (pow256_even w Hw) as He. pose proof (pow256_pos w) as Hp.
  set (P := 256 ^ Z.of_nat w) in *.
  destruct (Z.ltb_spec v 0).
  - symmetry. apply (Z.mod_unique_pos v P (-1)); lia.
  - apply Z.mod_small; lia.
Qed.

Lemma int_bound w : fmt_ok KInt w -> 256 ^ Z.of_nat w / 2 <= two63.
Proof. cbn. intro H. repeat (destruct H as [H|H]); subst w; cbn; unfold two63; lia. Qed.
Lemma uint_bound w : fmt_ok KUint w -> 256 ^ Z.of_nat w <= two64.
Proof. cbn. intro H. repeat (destruct H as [H|H]); subst w; cbn; unfold two64; lia. Qed.

Lemma int_kind_signed w : is_unsigned_kind (int_kind w) = false.
Proof. unfold int_kind. destruct w as [|[|[|[|[|w]]]]]; reflexivity. Qed.

Lemma float_arg_32 w b : fmt_ok KFloat w -> w = 4%nat -> float_arg w (GF32 b) = if f32_finite b then Some (SV b) else None.
Proof. intros _ ->. reflexivity. Qed.

(* completeness direction *)
Lemma elem_decodes k w v chunk :
  fmt_ok k w -> val_wf k w v -> elem_bytes false k w v chunk ->
  leaf_arg k w (dec_arg k w (be_dec chunk)) = Some (SV v) /\ val_okb k w (SV v) = true.
Proof.
  intros Hf Hv [Hl Hb]. pose proof (fmt_ok_pos k w Hf) as Hw. destruct k; cbn [leaf_arg dec_arg val_okb val_wf] in *.
  - (* binary *) rewrite Hb. split; [reflexivity|]. cbn. lia.
  - (* boolean *) split; [|reflexivity].
    destruct (Z.eqb_spec (be_dec chunk) 0) as [E|E]; cbn.
    + assert (v = 0) by tauto. subst. reflexivity.
    + assert (v <> 0) by tauto. assert (v = 1) by lia. subst. reflexivity.
  - (* signed *) rewrite Hb, <- of_signed_cases by assumption. rewrite to_of_signed by assumption.
    pose proof (int_bound w Hf). cbn [int_arg]. rewrite int_kind_signed, conv_int64_id by lia.
    split; [reflexivity|]. cbn [int_val_ok]. apply andb_true_iff; split; [apply Z.leb_le|apply Z.ltb_lt]; lia.
  - (* unsigned *) rewrite Hb. pose proof (uint_bound w Hf). cbn [uint_arg].
    destruct (Z.ltb_spec v 0); [lia|]. rewrite conv_uint64_id by lia.
    split; [reflexivity|]. cbn [uint_val_ok]. apply andb_true_iff; split; [apply Z.leb_le|apply Z.ltb_lt]; lia.
  - (* float *) rewrite Hb. destruct Hv as [_ Hfin]. cbn in Hf. destruct Hf as [->| ->]; cbn.
    + apply f32_finite_spec in Hfin. rewrite Hfin. split; reflexivity.
    + apply f64_finite_spec in Hfin. rewrite Hfin. split; reflexivity.
Qed.

(* soundness direction *)
Lemma elem_decoded k w chunk s :
  fmt_ok k w -> length chunk = w ->
  leaf_arg k w (dec_arg k w (be_dec chunk)) = Some s -> val_okb k w s = true ->
  exists v, s = SV v /\ val_wf k w v /\ elem_bytes false k w v chunk.
Proof.
  intros Hf Hl Ha Hok. pose proof (be_dec_range chunk) as Hr. rewrite Hl in Hr.
  pose proof (fmt_ok_pos k w Hf) as Hw.
  unfold elem_bytes. destruct k; cbn [leaf_arg dec_arg val_okb val_wf] in *.
  - cbn in Ha. inversion Ha; subst s. eexists; split; [reflexivity|]. cbn in Hok. split; [lia|]. split; [exact Hl|reflexivity].
  - cbn in Ha. inversion Ha; subst s. eexists; split; [reflexivity|].
    destruct (Z.eqb_spec (be_dec chunk) 0); cbn; split; try tauto; split; try exact Hl; split; intro; try lia; try congruence.
  - cbn [int_arg] in Ha. rewrite int_kind_signed in Ha. inversion Ha; subst s. clear Ha.
    pose proof (int_bound w Hf). pose proof (to_signed_range w (be_dec chunk) Hw Hr) as Hs.
    rewrite conv_int64_id by lia. eexists; split; [reflexivity|]. split; [exact Hs|]. split; [exact Hl|].
    rewrite <- of_signed_cases by assumption. symmetry. apply of_to_signed. exact Hr.
  - cbn [uint_arg] in Ha. destruct (Z.ltb_spec (be_dec chunk) 0); [lia|]. inversion Ha; subst s.
    pose proof (uint_bound w Hf). rewrite conv_uint64_id by lia.
    eexists; split; [reflexivity|]. split; [exact Hr|]. split; [exact Hl|reflexivity].
  - cbn in Hf. destruct Hf as [->| ->]; cbn in Ha.
    + destruct (f32_finite (be_dec chunk)) eqn:E; [|discriminate]. inversion Ha; subst s.
      eexists; split; [reflexivity|]. split; [split; [exact Hr|apply f32_finite_spec; exact E]|]. split; [exact Hl|reflexivity].
    + destruct (f64_finite (be_dec chunk)) eqn:E; [|discriminate]. inversion Ha; subst s.
      eexists; split; [reflexivity|]. split; [split; [exact Hr|apply f64_finite_spec; exact E]|]. split; [exact Hl|reflexivity].
Qed.

(* the encoder's bytes of one element mean the element *)
Lemma enc_val_elem k w v :
  fmt_ok k w -> val_wf k w v -> elem_bytes true k w v (enc_val k w v).
Proof.
  intros Hf Hv. unfold elem_bytes. pose proof (fmt_ok_pos k w Hf) as Hw.
  assert (Hpos := pow256_pos w).
  destruct k; cbn [enc_val val_wf] in *.
  - cbn in Hf; subst w. split; [reflexivity|]. rewrite be_dec_single, b2z_z2b. apply Z.mod_small; lia.
  - cbn in Hf; subst w. split; [reflexivity|]. rewrite be_dec_single, b2z_z2b. apply Z.mod_small; lia.
  - split; [apply be_enc_length|]. rewrite be_dec_enc. rewrite <- of_signed_cases by assumption. reflexivity.
  - split; [apply be_enc_length|]. rewrite be_dec_enc. apply Z.mod_small; lia.
  - split; [apply be_enc_length|]. rewrite be_dec_enc. apply Z.mod_small; lia.
Qed.

(* strict element bytes are unique, and also lenient ones *)
Lemma elem_bytes_strict_lenient k w v bs : val_wf k w v -> elem_bytes true k w v bs -> elem_bytes false k w v bs.
Proof.
  intros Hv [Hl H]. split; [exact Hl|]. destruct k; try exact H. cbn in *. rewrite H. lia.
Qed.

Lemma be_dec_inj a b : length a = length b -> be_dec a = be_dec b -> a = b.
Proof.
  intros Hl H. rewrite <- (be_enc_dec a), <- (be_enc_dec b), Hl, H. reflexivity.
Qed.

Lemma elem_bytes_strict_unique k w v a b : elem_bytes true k w v a -> elem_bytes true k w v b -> a = b.
Proof.
  intros [La Ha] [Lb Hb]. apply be_dec_inj; [congruence|]. destruct k; cbn in *; congruence.
Qed.
