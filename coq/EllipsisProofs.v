(* EllipsisProofs.v — the ellipsis expander of list.go (C10) refines a
   declarative description: the items before a filled ellipsis appear n+1
   times, copy j under the index path extended by j, the items after it once
   under the enclosing path; a variable is renamed by appending the indices
   of its path, outermost first; remaining ellipses are renumbered by one
   counter in order of appearance.  The implementation's dimension stack and
   index vector (fillState) compute exactly these paths. *)
From Secs Require Import Ast Fill.
Open Scope Z_scope.

Section Spec.
Variable s : fmap.          (* the ellipsis values *)
Variable multi : bool.      (* more than one ellipsis remains: they are numbered *)

Definition sfx (path : list Z) : bytes := concat (map index_suffix path).

Definition rename_d (path : list Z) (cnt : Z) (n : bytes) : bytes * Z :=
  if is_ellipsis n then
    if multi then ([x2e; x2e; x2e] ++ index_suffix cnt, cnt + 1) else ([x2e; x2e; x2e], cnt)
  else (n ++ sfx path, cnt).

Fixpoint rename_all_d (path : list Z) (cnt : Z) (ns : list bytes) : fmap * Z :=
  match ns with
  | [] => ([], cnt)
  | n :: r => let '(n', c1) := rename_d path cnt n in
              let '(m, c2) := rename_all_d path c1 r in ((n, GStr n') :: m, c2)
  end.

Definition one_d (rec : list Z -> Z -> item -> option (item * Z))
           (path : list Z) (cnt : Z) (c : item) : option (gval * Z) :=
  match c with
  | IList _ => match rec path cnt c with Some (c', k) => Some (GItem c', k) | None => None end
  | IAscii _ => Some (GItem c, cnt)
  | IAsciiVar n mn mx =>
    let '(n', k) := rename_d path cnt n in
    match new_ascii_var n' mn mx with Some c' => Some (GItem c', k) | None => None end
  | IVar n => let '(n', k) := rename_d path cnt n in Some (GStr n', k)
  | IEmpty => let '(n', k) := rename_d path cnt [] in Some (GStr n', k)
  | ILeaf k w xs =>
    match slot_vars xs with
    | [] => Some (GItem c, cnt)
    | ns => let '(m, k') := rename_all_d path cnt ns in
            match fill_leaf m k w xs with Some c' => Some (GItem c', k') | None => None end
    end
  end.

Fixpoint seg_d (rec : list Z -> Z -> item -> option (item * Z))
         (path : list Z) (cnt : Z) (xs : list item) : option (list gval * Z) :=
  match xs with
  | [] => Some ([], cnt)
  | c :: r => match one_d rec path cnt c with
              | Some (a, k1) => match seg_d rec path k1 r with
                                | Some (rs, k2) => Some (a :: rs, k2)
                                | None => None
                                end
              | None => None
              end
  end.

(* [k] copies of the group, with indices j, j+1, ... *)
Fixpoint copies_d (rec : list Z -> Z -> item -> option (item * Z))
         (k : nat) (path : list Z) (j : Z) (cnt : Z) (pre : list item) : option (list gval * Z) :=
  match k with
  | O => Some ([], cnt)
  | S k' => match seg_d rec (path ++ [j]) cnt pre with
            | Some (out, c1) => match copies_d rec k' path (j + 1) c1 pre with
                                | Some (out', c2) => Some (out ++ out', c2)
                                | None => None
                                end
            | None => None
            end
  end.

Fixpoint expand_d (fuel : nat) (path : list Z) (cnt : Z) (t : item) : option (item * Z) :=
  match fuel with
  | O => None
  | S f =>
    match t with
    | IList xs =>
      let rec := expand_d f in
      match find_ellipsis s xs 0 with
      | Some (p, GInt Kint n) =>
        let pre := firstn p xs in
        let post := skipn (S p) xs in
        if n =? 0 then
          (* the ellipsis is removed *)
          match seg_d rec path cnt pre with
          | Some (out1, c1) =>
            match seg_d rec path c1 post with
            | Some (out3, c3) => match new_list (out1 ++ out3) with Some t' => Some (t', c3) | None => None end
            | None => None
            end
          | None => None
          end
        else
          (* n + 1 copies of the group, then the rest once *)
          match copies_d rec (S (Z.to_nat n)) path 0 cnt pre with
          | Some (out12, c2) =>
            match seg_d rec path c2 post with
            | Some (out3, c3) => match new_list (out12 ++ out3) with Some t' => Some (t', c3) | None => None end
            | None => None
            end
          | None => None
          end
      | Some (_, _) => None
      | None =>
        match seg_d rec path cnt xs with
        | Some (out, c1) => match new_list out with Some t' => Some (t', c1) | None => None end
        | None => None
        end
      end
    | _ => None
    end
  end.

(* ---------- the implementation's state represents (path, counter) ---------- *)

Definition rel (st : fstate) (path : list Z) (cnt : Z) : Prop :=
  fs_dim st = Z.of_nat (length path) /\ firstn (length path) (fs_idx st) = path /\
  fs_count st = cnt /\ fs_multi st = multi.

Lemma suffix_of_path : forall path idx, firstn (length path) idx = path -> suffix_of idx (length path) = Some (sfx path).
Proof.
  induction path as [|i path IH]; intros idx H; [destruct idx; reflexivity|].
  destruct idx as [|x idx]; [discriminate|]. cbn [length firstn] in H. injection H as Hx Hr. subst x.
  cbn [length]. change (suffix_of (i :: idx) (S (length path))) with
    (match suffix_of idx (length path) with Some s0 => Some (index_suffix i ++ s0) | None => None end).
  rewrite (IH idx Hr). reflexivity.
Qed.

Lemma new_var_name_rel st path cnt n : rel st path cnt ->
  exists st', new_var_name st n = Some (fst (rename_d path cnt n), st') /\ rel st' path (snd (rename_d path cnt n)).
Proof.
  intros [Hd [Hi [Hc Hm]]]. unfold new_var_name, rename_d. destruct (is_ellipsis n).
  - rewrite Hm. destruct multi eqn:Em.
    + rewrite Hc. eexists. split; [reflexivity|]. repeat split; cbn; try assumption; try reflexivity; congruence.
    + exists st. split; [reflexivity|]. repeat split; try assumption; congruence.
  - destruct (Z.ltb_spec (fs_dim st) 0); [lia|]. rewrite Hd, Nat2Z.id, (suffix_of_path path _ Hi).
    exists st. split; [reflexivity|]. repeat split; assumption.
Qed.

Lemma rename_all_rel : forall ns st path cnt, rel st path cnt ->
  exists st', rename_all st ns = Some (fst (rename_all_d path cnt ns), st') /\ rel st' path (snd (rename_all_d path cnt ns)).
Proof.
  induction ns as [|n r IH]; intros st path cnt H; [exists st; split; [reflexivity|exact H]|].
  cbn [rename_all rename_all_d]. destruct (new_var_name_rel st path cnt n H) as [st1 [E1 H1]].
  rewrite E1. destruct (rename_d path cnt n) as [n' c1]. cbn [fst snd] in *.
  destruct (IH st1 path c1 H1) as [st2 [E2 H2]]. rewrite E2.
  destruct (rename_all_d path c1 r) as [m c2]. cbn [fst snd] in *. exists st2. split; [reflexivity|exact H2].
Qed.

(* agreement of two partial results: same output, related states *)
Definition agree {A} (path : list Z) (x : option (A * fstate)) (y : option (A * Z)) : Prop :=
  match x, y with
  | Some (a, st), Some (b, c) => a = b /\ rel st path c
  | None, None => True
  | _, _ => False
  end.

Definition rec_agree (ri : fstate -> item -> option (item * fstate)) (rd : list Z -> Z -> item -> option (item * Z)) : Prop :=
  forall st path cnt t, rel st path cnt -> agree path (ri st t) (rd path cnt t).

Lemma one_agree ri rd : rec_agree ri rd -> forall st path cnt c, rel st path cnt ->
  agree path (process_one ri st c) (one_d rd path cnt c).
Proof.
  intros Hrec st path cnt c H. destruct c as [xs|n|k w xs|v|n mn mx|]; cbn [process_one one_d].
  - specialize (Hrec st path cnt (IList xs) H). unfold agree in *.
    destruct (ri st (IList xs)) as [[a st']|]; destruct (rd path cnt (IList xs)) as [[b c]|]; try contradiction; [|exact I].
    destruct Hrec as [-> Hr]. split; [reflexivity|exact Hr].
  - destruct (new_var_name_rel st path cnt n H) as [st' [E H']]. rewrite E.
    destruct (rename_d path cnt n) as [n' k]. cbn. split; [reflexivity|exact H'].
  - destruct (slot_vars xs) as [|n0 ns]; [cbn; split; [reflexivity|exact H]|].
    destruct (rename_all_rel (n0 :: ns) st path cnt H) as [st' [E H']]. rewrite E.
    destruct (rename_all_d path cnt (n0 :: ns)) as [m k']. cbn [fst snd] in *.
    destruct (fill_leaf m k w xs); cbn; [split; [reflexivity|exact H']|exact I].
  - cbn. split; [reflexivity|exact H].
  - destruct (new_var_name_rel st path cnt n H) as [st' [E H']]. rewrite E.
    destruct (rename_d path cnt n) as [n' k]. cbn [fst snd] in *.
    destruct (new_ascii_var n' mn mx); cbn; [split; [reflexivity|exact H']|exact I].
  - destruct (new_var_name_rel st path cnt [] H) as [st' [E H']]. rewrite E.
    destruct (rename_d path cnt []) as [n' k]. cbn. split; [reflexivity|exact H'].
Qed.

Lemma seg_agree ri rd : rec_agree ri rd -> forall xs st path cnt, rel st path cnt ->
  agree path (process_seg ri st xs) (seg_d rd path cnt xs).
Proof.
  intros Hrec. induction xs as [|c r IH]; intros st path cnt H; cbn [process_seg seg_d]; [cbn; split; [reflexivity|exact H]|].
  pose proof (one_agree ri rd Hrec st path cnt c H) as H1. unfold agree in H1.
  destruct (process_one ri st c) as [[a st1]|]; destruct (one_d rd path cnt c) as [[b k1]|]; try contradiction; [|exact I].
  destruct H1 as [-> H1]. specialize (IH st1 path k1 H1). unfold agree in *.
  destruct (process_seg ri st1 r) as [[rs st2]|]; destruct (seg_d rd path k1 r) as [[rs' k2]|]; try contradiction; [|exact I].
  destruct IH as [-> IH]. split; [reflexivity|exact IH].
Qed.

(* ---------- the dimension stack ---------- *)

Lemma rel_len st path cnt : rel st path cnt -> (length path <= length (fs_idx st))%nat.
Proof.
  intros [_ [Hi _]]. apply (f_equal (@length Z)) in Hi. rewrite firstn_length in Hi. lia.
Qed.

Lemma firstn_succ {A} (l : list A) n x : nth_error l n = Some x -> firstn (S n) l = firstn n l ++ [x].
Proof.
  revert l; induction n as [|n IH]; intros l H; destruct l as [|a l]; try discriminate.
  - cbn in H. inversion H. reflexivity.
  - cbn [nth_error] in H. change (a :: firstn (S n) l = a :: (firstn n l ++ [x])). f_equal. apply IH. exact H.
Qed.

Lemma set_nth_spec : forall (l : list Z) n v, (n < length l)%nat ->
  exists l', set_nth l n v = Some l' /\ firstn n l' = firstn n l /\ nth_error l' n = Some v.
Proof.
  induction l as [|a l IH]; intros n v H; [cbn in H; lia|].
  destruct n as [|n]; cbn [set_nth].
  - eexists. split; [reflexivity|]. split; reflexivity.
  - destruct (IH n v ltac:(cbn in H; lia)) as [l' [E [H1 H2]]]. rewrite E. eexists. split; [reflexivity|].
    cbn [firstn nth_error]. split; [f_equal; exact H1|exact H2].
Qed.

Lemma nth_of_firstn (l : list Z) p j : firstn (length (p ++ [j])) l = p ++ [j] -> nth_error l (length p) = Some j.
Proof.
  revert l; induction p as [|a p IH]; intros l H; destruct l as [|x l]; try discriminate.
  - cbn in H. inversion H. reflexivity.
  - cbn [length app firstn] in H. injection H as _ H. cbn [length nth_error]. apply IH. exact H.
Qed.

Lemma firstn_of_firstn (l : list Z) p j : firstn (length (p ++ [j])) l = p ++ [j] -> firstn (length p) l = p.
Proof.
  revert l; induction p as [|a p IH]; intros l H; [reflexivity|]. destruct l as [|x l]; [discriminate|].
  cbn [length app firstn] in H. injection H as Hx H. cbn [length firstn]. rewrite (IH l H), Hx. reflexivity.
Qed.

Lemma grow_dimension_rel st path cnt : rel st path cnt ->
  exists st0, grow_dimension st = Some st0 /\ rel st0 (path ++ [0]) cnt.
Proof.
  intro H. pose proof (rel_len _ _ _ H) as Hlen. destruct H as [Hd [Hi [Hc Hm]]]. unfold grow_dimension. rewrite Hd.
  destruct (Z.eqb_spec (Z.of_nat (length path)) (Z.of_nat (length (fs_idx st)))) as [E|E].
  - eexists. split; [reflexivity|]. unfold rel. cbn [fs_dim fs_idx fs_count fs_multi].
    apply Nat2Z.inj in E. rewrite E, firstn_all in Hi.
    repeat split; try assumption; [rewrite app_length; cbn [length]; lia|]. rewrite Hi. apply firstn_all.
  - destruct (Z.ltb_spec (Z.of_nat (length path)) 0); [lia|]. rewrite Nat2Z.id.
    destruct (set_nth_spec (fs_idx st) (length path) 0 ltac:(lia)) as [l [El [H1 H2]]]. rewrite El.
    eexists. split; [reflexivity|]. unfold rel. cbn [fs_dim fs_idx fs_count fs_multi]. rewrite app_length. cbn [length].
    repeat split; try assumption; [lia|]. rewrite Nat.add_1_r, (firstn_succ l _ 0 H2), H1, Hi. reflexivity.
Qed.

Lemma cur_index_rel st path j cnt : rel st (path ++ [j]) cnt -> cur_index st = Some j.
Proof.
  intros [Hd [Hi _]]. unfold cur_index, zidx. rewrite Hd, app_length. cbn [length].
  destruct (Z.ltb_spec (Z.of_nat (length path + 1) - 1) 0); [lia|].
  replace (Z.to_nat (Z.of_nat (length path + 1) - 1)) with (length path) by lia.
  apply nth_of_firstn. exact Hi.
Qed.

Lemma grow_index_rel st path j cnt : rel st (path ++ [j]) cnt ->
  exists st1, grow_index st = Some st1 /\ rel st1 (path ++ [j + 1]) cnt.
Proof.
  intro H. pose proof (rel_len _ _ _ H) as Hlen. pose proof (cur_index_rel _ _ _ _ H) as Hcur.
  destruct H as [Hd [Hi [Hc Hm]]]. unfold grow_index. rewrite Hcur, Hd.
  rewrite app_length in *. cbn [length] in *.
  replace (Z.to_nat (Z.of_nat (length path + 1) - 1)) with (length path) by lia.
  destruct (set_nth_spec (fs_idx st) (length path) (j + 1) ltac:(lia)) as [l [El [H1 H2]]]. rewrite El.
  eexists. split; [reflexivity|]. unfold rel. cbn [fs_dim fs_idx fs_count fs_multi]. rewrite app_length. cbn [length].
  repeat split; try assumption. rewrite Nat.add_1_r, (firstn_succ l _ (j + 1) H2), H1.
  f_equal. apply (firstn_of_firstn _ _ j). rewrite app_length. cbn [length]. exact Hi.
Qed.

Lemma exit_dimension_rel st path j cnt : rel st (path ++ [j]) cnt -> rel (exit_dimension st) path cnt.
Proof.
  intros [Hd [Hi [Hc Hm]]]. unfold rel, exit_dimension. cbn [fs_dim fs_idx fs_count fs_multi].
  rewrite app_length in Hd. cbn [length] in Hd. repeat split; try assumption; [lia|].
  apply (firstn_of_firstn _ _ j). exact Hi.
Qed.

(* the restart loop makes the remaining copies, with indices j+1 .. n *)
Lemma repeat_agree ri rd (pre : list item) (n : Z) (path : list Z) : rec_agree ri rd ->
  forall k fuel st j cnt, rel st (path ++ [j]) cnt -> j + Z.of_nat k = n -> (k <= fuel)%nat ->
  agree path (repeat_prefix fuel ri n st pre) (copies_d rd k path (j + 1) cnt pre).
Proof.
  intros Hrec. induction k as [|k IH]; intros fuel st j cnt H Hn Hf.
  - (* the index has reached n: the dimension is left *)
    assert (Hu : repeat_prefix fuel ri n st pre = Some ([], exit_dimension st)).
    { destruct fuel; cbn [repeat_prefix]; rewrite (cur_index_rel _ _ _ _ H); destruct (Z.ltb_spec j n); try lia; reflexivity. }
    rewrite Hu. cbn. split; [reflexivity|]. apply (exit_dimension_rel _ _ j). exact H.
  - destruct fuel as [|f]; [lia|]. cbn [repeat_prefix copies_d]. rewrite (cur_index_rel _ _ _ _ H).
    destruct (Z.ltb_spec j n); [|lia].
    destruct (grow_index_rel _ _ _ _ H) as [st1 [E1 H1]]. rewrite E1.
    pose proof (seg_agree ri rd Hrec pre st1 (path ++ [j + 1]) cnt H1) as Hs. unfold agree in Hs.
    destruct (process_seg ri st1 pre) as [[out st2]|]; destruct (seg_d rd (path ++ [j + 1]) cnt pre) as [[out' c1]|]; try contradiction; [|exact I].
    destruct Hs as [-> H2]. specialize (IH f st2 (j + 1) c1 H2 ltac:(lia) ltac:(lia)). unfold agree in *.
    destruct (repeat_prefix f ri n st2 pre) as [[o2 st3]|]; destruct (copies_d rd k path (j + 1 + 1) c1 pre) as [[o2' c2]|]; try contradiction; [|exact I].
    destruct IH as [-> IH]. split; [reflexivity|exact IH].
Qed.

Lemma find_ellipsis_from : forall xs pos p g, find_ellipsis s xs pos = Some (p, g) -> exists name, flookup name s = Some g.
Proof.
  induction xs as [|c r IH]; intros pos p g H; [discriminate|]. cbn [find_ellipsis] in H.
  destruct c; try (apply (IH _ _ _ H)).
  destruct (is_ellipsis n); [|apply (IH _ _ _ H)].
  destruct (flookup n s) as [g'|] eqn:E; [|apply (IH _ _ _ H)]. inversion H; subst. exists n. exact E.
Qed.

(* repeat counts are not negative *)
Definition counts_ok : Prop := forall name v, flookup name s = Some (GInt Kint v) -> 0 <= v.

Theorem fill_ell_refines : counts_ok -> forall fuel, rec_agree (fill_ell s fuel) (expand_d fuel).
Proof.
  intros Hcounts. induction fuel as [|f IH]; intros st path cnt t H; [exact I|].
  cbn [fill_ell expand_d]. destruct t as [xs| | | | |]; try exact I.
  destruct (find_ellipsis s xs 0) as [[p g]|] eqn:Ef.
  2:{ pose proof (seg_agree _ _ IH xs st path cnt H) as Hs. unfold agree in *.
      destruct (process_seg (fill_ell s f) st xs) as [[out st1]|]; destruct (seg_d (expand_d f) path cnt xs) as [[out' c1]|]; try contradiction; [|exact I].
      destruct Hs as [-> Hs]. destruct (new_list out'); [split; [reflexivity|exact Hs]|exact I]. }
  destruct g as [k n| | | | | |]; try exact I. destruct k; try exact I.
  destruct (find_ellipsis_from _ _ _ _ Ef) as [name Hname]. pose proof (Hcounts _ _ Hname) as Hn.
  destruct (Z.eqb_spec n 0) as [->|Hne].
  - (* n = 0: the ellipsis disappears, nothing is renamed *)
    cbn [Z.ltb Z.compare].
    pose proof (seg_agree _ _ IH (firstn p xs) st path cnt H) as Hs. unfold agree in Hs.
    destruct (process_seg (fill_ell s f) st (firstn p xs)) as [[out1 st1]|]; destruct (seg_d (expand_d f) path cnt (firstn p xs)) as [[out1' c1]|]; try contradiction; [|exact I].
    destruct Hs as [-> H1].
    pose proof (seg_agree _ _ IH (skipn (S p) xs) st1 path c1 H1) as Hs. unfold agree in *.
    destruct (process_seg (fill_ell s f) st1 (skipn (S p) xs)) as [[out3 st3]|]; destruct (seg_d (expand_d f) path c1 (skipn (S p) xs)) as [[out3' c3]|]; try contradiction; [|exact I].
    destruct Hs as [-> H3]. destruct (new_list _); [split; [reflexivity|exact H3]|exact I].
  - (* n > 0 *)
    destruct (Z.ltb_spec 0 n) as [Hpos|Hneg]; [|lia].
    destruct (grow_dimension_rel _ _ _ H) as [st0 [E0 H0]]. rewrite E0.
    cbn [copies_d].
    pose proof (seg_agree _ _ IH (firstn p xs) st0 (path ++ [0]) cnt H0) as Hs. unfold agree in Hs.
    destruct (process_seg (fill_ell s f) st0 (firstn p xs)) as [[out1 st1]|]; destruct (seg_d (expand_d f) (path ++ [0]) cnt (firstn p xs)) as [[out1' c1]|]; try contradiction; [|exact I].
    destruct Hs as [-> H1].
    pose proof (repeat_agree _ _ (firstn p xs) n path IH (Z.to_nat n) (Z.to_nat n + 1)%nat st1 0 c1 H1 ltac:(lia) ltac:(lia)) as Hr.
    unfold agree in Hr. change (0 + 1) with 1 in *.
    destruct (repeat_prefix (Z.to_nat n + 1) (fill_ell s f) n st1 (firstn p xs)) as [[out2 st2]|];
      destruct (copies_d (expand_d f) (Z.to_nat n) path 1 c1 (firstn p xs)) as [[out2' c2]|]; try contradiction; [|exact I].
    destruct Hr as [-> H2].
    pose proof (seg_agree _ _ IH (skipn (S p) xs) st2 path c2 H2) as Hs. unfold agree in *.
    destruct (process_seg (fill_ell s f) st2 (skipn (S p) xs)) as [[out3 st3]|]; destruct (seg_d (expand_d f) path c2 (skipn (S p) xs)) as [[out3' c3]|]; try contradiction; [|exact I].
    destruct Hs as [-> H3]. rewrite <- app_assoc. destruct (new_list _); [split; [reflexivity|exact H3]|exact I].
Qed.
End Spec.

(* ---------- what the description says, as corollaries ---------- *)

(* the suffix of copy j is appended after the suffixes of the enclosing expansions, outermost first *)
Lemma sfx_app path j : sfx (path ++ [j]) = sfx path ++ index_suffix j.
Proof. unfold sfx. rewrite map_app, concat_app. cbn. rewrite app_nil_r. reflexivity. Qed.

Lemma sfx_nil : sfx [] = [].
Proof. reflexivity. Qed.

(* a plain variable in copy j of a group expanded under [path] *)
Lemma renamed_variable multi rec path j cnt n : is_ellipsis n = false ->
  one_d multi rec (path ++ [j]) cnt (IVar n) = Some (GStr (n ++ sfx path ++ index_suffix j), cnt).
Proof. intro H. unfold one_d, rename_d. rewrite H, sfx_app. reflexivity. Qed.

(* an ellipsis that remains is numbered by the counter, in order of appearance, when more than one remains *)
Lemma renumbered_ellipsis rec path cnt n : is_ellipsis n = true ->
  one_d true rec path cnt (IVar n) = Some (GStr ([x2e; x2e; x2e] ++ index_suffix cnt), cnt + 1).
Proof. intro H. unfold one_d, rename_d. rewrite H. reflexivity. Qed.

Lemma single_ellipsis_unnumbered rec path cnt n : is_ellipsis n = true ->
  one_d false rec path cnt (IVar n) = Some (GStr [x2e; x2e; x2e], cnt).
Proof. intro H. unfold one_d, rename_d. rewrite H. reflexivity. Qed.

Lemma seg_d_length multi rec path : forall xs cnt out c, seg_d multi rec path cnt xs = Some (out, c) -> length out = length xs.
Proof.
  induction xs as [|x r IH]; intros cnt out c H; cbn [seg_d] in H; [inversion H; reflexivity|].
  destruct (one_d multi rec path cnt x) as [[a k1]|]; [|discriminate].
  destruct (seg_d multi rec path k1 r) as [[rs k2]|] eqn:E; [|discriminate]. inversion H; subst. cbn. f_equal. eapply IH. exact E.
Qed.

Lemma copies_d_length multi rec pre path : forall k j cnt out c,
  copies_d multi rec k path j cnt pre = Some (out, c) -> length out = (k * length pre)%nat.
Proof.
  induction k as [|k IH]; intros j cnt out c H; cbn [copies_d] in H; [inversion H; reflexivity|].
  destruct (seg_d multi rec (path ++ [j]) cnt pre) as [[o1 c1]|] eqn:E1; [|discriminate].
  destruct (copies_d multi rec k path (j + 1) c1 pre) as [[o2 c2]|] eqn:E2; [|discriminate].
  inversion H; subst. rewrite app_length, (seg_d_length _ _ _ _ _ _ _ E1), (IH _ _ _ _ E2). cbn. reflexivity.
Qed.

Lemma map_opt_length {X Y} (f : X -> option Y) : forall l l', map_opt f l = Some l' -> length l' = length l.
Proof.
  induction l as [|a l IH]; intros l' H; cbn in H; [inversion H; reflexivity|].
  destruct (f a); [|discriminate]. destruct (map_opt f l) eqn:E; [|discriminate]. inversion H. cbn. f_equal. apply IH. reflexivity.
Qed.

Lemma new_list_children args t : new_list args = Some t -> exists ys, t = IList ys /\ length ys = length args.
Proof.
  unfold new_list. destruct (negb _); [discriminate|]. destruct (map_opt list_arg args) as [xs|] eqn:E; [|discriminate].
  destruct (_ && _); [|discriminate]. intro H; inversion H. exists xs. split; [reflexivity|]. eapply map_opt_length. exact E.
Qed.

Lemma find_ellipsis_pos s : forall xs pos p g, find_ellipsis s xs pos = Some (p, g) -> (pos <= p < pos + length xs)%nat.
Proof.
  induction xs as [|c r IH]; intros pos p g H; [discriminate|]. cbn [find_ellipsis length] in *.
  assert (Hrec : find_ellipsis s r (S pos) = Some (p, g) -> (pos <= p < pos + S (length r))%nat).
  { intro H'. specialize (IH _ _ _ H'). lia. }
  destruct c; try (apply Hrec; exact H).
  destruct (is_ellipsis n); [|apply Hrec; exact H].
  destruct (flookup n s); [|apply Hrec; exact H]. inversion H; subst. lia.
Qed.

(* filling an ellipsis with n: the p items before it appear n + 1 times, the items after it once *)
Theorem expansion_count s multi f path cnt xs p n t' c :
  find_ellipsis s xs 0 = Some (p, GInt Kint n) -> 0 <= n ->
  expand_d s multi (S f) path cnt (IList xs) = Some (t', c) ->
  exists ys, t' = IList ys /\ length ys = ((Z.to_nat n + 1) * p + (length xs - S p))%nat.
Proof.
  intros Hf Hn H. cbn [expand_d] in H. rewrite Hf in H.
  pose proof (find_ellipsis_pos _ _ _ _ _ Hf) as Hp.
  assert (Hpre : length (firstn p xs) = p) by (rewrite firstn_length; lia).
  assert (Hpost : length (skipn (S p) xs) = (length xs - S p)%nat) by apply skipn_length.
  destruct (Z.eqb_spec n 0) as [->|Hne].
  - destruct (seg_d _ _ _ _ (firstn p xs)) as [[o1 c1]|] eqn:E1; [|discriminate].
    destruct (seg_d _ _ _ _ (skipn (S p) xs)) as [[o3 c3]|] eqn:E3; [|discriminate].
    destruct (new_list (o1 ++ o3)) as [t|] eqn:En; [|discriminate]. inversion H; subst.
    destruct (new_list_children _ _ En) as [ys [-> Hl]]. exists ys. split; [reflexivity|].
    rewrite Hl, app_length, (seg_d_length _ _ _ _ _ _ _ E1), (seg_d_length _ _ _ _ _ _ _ E3), Hpre, Hpost. cbn. lia.
  - destruct (copies_d _ _ _ _ _ _ (firstn p xs)) as [[o12 c2]|] eqn:E1; [|discriminate].
    destruct (seg_d _ _ _ _ (skipn (S p) xs)) as [[o3 c3]|] eqn:E3; [|discriminate].
    destruct (new_list (o12 ++ o3)) as [t|] eqn:En; [|discriminate]. inversion H; subst.
    destruct (new_list_children _ _ En) as [ys [-> Hl]]. exists ys. split; [reflexivity|].
    rewrite Hl, app_length, (copies_d_length _ _ _ _ _ _ _ _ _ E1), (seg_d_length _ _ _ _ _ _ _ E3), Hpre, Hpost. lia.
Qed.

(* ItemNode.FillVariables on a list whose ellipses are to be expanded: the
   declarative expansion under the empty path, then plain substitution *)
Theorem fill_expands s xs tf rem :
  counts_ok (fst (split_values s)) ->
  ellipsis_analysis (fst (split_values s)) (IList xs) = Ok (tf, rem) -> 0 < tf ->
  fill s (IList xs) =
  match expand_d (fst (split_values s)) (1 <? rem) (S (depth (IList xs))) [] 0 (IList xs) with
  | Some (t', _) => fill_plain (snd (split_values s)) t'
  | None => None
  end.
Proof.
  intros Hc Ha Htf. unfold fill. destruct (split_values s) as [es os]. cbn [fst snd] in *.
  rewrite Ha. destruct (Z.ltb_spec 0 tf); [|lia].
  assert (Hrel : rel (1 <? rem) (new_fill_state rem) [] 0) by (repeat split).
  pose proof (fill_ell_refines es (1 <? rem) Hc (S (depth (IList xs))) _ _ _ (IList xs) Hrel) as Hag. unfold agree in Hag.
  destruct (fill_ell es (S (depth (IList xs))) (new_fill_state rem) (IList xs)) as [[t1 st1]|];
    destruct (expand_d es (1 <? rem) (S (depth (IList xs))) [] 0 (IList xs)) as [[t2 c2]|]; try contradiction; [|reflexivity].
  destruct Hag as [-> _]. reflexivity.
Qed.
