(* Conc.v — interleavings of calls whose footprints are known (C17, the part a
   Gallina model can carry).  A call is a sequence of atomic accesses: reads of
   shared locations, and reads/writes of locations it allocated itself.  If no
   call writes a shared location, then in every interleaving (a) no two
   accesses of different threads conflict, and (b) every read returns what it
   returns when the call runs alone, so every call computes its sequential
   result.  The premise is the summary EffectsTie.v establishes on the source. *)
From Coq Require Import List Arith Lia Bool.
Import ListNotations.

Inductive loc := Shared (n : nat) | Private (tid n : nat).   (* Private: allocated by thread tid *)
Inductive access := Rd (l : loc) | Wr (l : loc) (v : nat).

Definition thread := list access.                 (* the accesses of one call, in program order *)
Definition well_scoped (tid : nat) (t : thread) : Prop :=
  forall a, In a t ->
    match a with
    | Rd (Shared _) => True
    | Rd (Private t' _) => t' = tid
    | Wr (Shared _) _ => False                    (* no write to anything another thread can reach *)
    | Wr (Private t' _) _ => t' = tid
    end.

(* an interleaving: a list of (thread id, access) respecting each thread's order *)
Definition event := (nat * access)%type.

Definition loc_of (a : access) : loc := match a with Rd l => l | Wr l _ => l end.
Definition is_write (a : access) : bool := match a with Wr _ _ => true | Rd _ => false end.

Definition conflict (e1 e2 : event) : Prop :=
  fst e1 <> fst e2 /\ loc_of (snd e1) = loc_of (snd e2) /\ (is_write (snd e1) = true \/ is_write (snd e2) = true).

Definition scoped_trace (tr : list event) : Prop :=
  forall e, In e tr ->
    match snd e with
    | Rd (Shared _) => True
    | Rd (Private t' _) => t' = fst e
    | Wr (Shared _) _ => False
    | Wr (Private t' _) _ => t' = fst e
    end.

(* (a) data-race freedom of every such trace *)
Theorem no_conflicts tr : scoped_trace tr -> forall e1 e2, In e1 tr -> In e2 tr -> ~ conflict e1 e2.
Proof.
  intros Hs [t1 a1] [t2 a2] H1 H2 (Hne & Hloc & Hw). cbn in *.
  pose proof (Hs _ H1) as S1. pose proof (Hs _ H2) as S2. cbn in S1, S2.
  destruct a1 as [[n1|p1 n1]|[n1|p1 n1] v1]; destruct a2 as [[n2|p2 n2]|[n2|p2 n2] v2]; cbn in *;
    try tauto; try (destruct Hw; discriminate); try (inversion Hloc; subst; congruence); try discriminate.
Qed.

(* memory: shared part is fixed, private part per thread *)
Definition memory := loc -> nat.
Definition apply (m : memory) (a : access) : memory :=
  match a with
  | Rd _ => m
  | Wr l v => fun l' => match l, l' with
                        | Shared a, Shared b => if Nat.eqb a b then v else m l'
                        | Private t a, Private t' b => if Nat.eqb t t' && Nat.eqb a b then v else m l'
                        | _, _ => m l'
                        end
  end.

Definition read (m : memory) (a : access) : option nat := match a with Rd l => Some (m l) | Wr _ _ => None end.

(* the values thread tid reads while the trace runs *)
Fixpoint reads_of (tid : nat) (m : memory) (tr : list event) : list nat :=
  match tr with
  | [] => []
  | (t, a) :: r =>
    (if Nat.eqb t tid then match read m a with Some v => [v] | None => [] end else []) ++
    reads_of tid (apply m a) r
  end.

Definition project (tid : nat) (tr : list event) : list event := filter (fun e => Nat.eqb (fst e) tid) tr.

(* memories that agree on everything thread tid can see *)
Definition agree (tid : nat) (m1 m2 : memory) : Prop :=
  (forall n, m1 (Shared n) = m2 (Shared n)) /\ (forall n, m1 (Private tid n) = m2 (Private tid n)).

Lemma apply_other tid t a m : t <> tid ->
  match a with Wr (Shared _) _ => False | Wr (Private t' _) _ => t' = t | Rd _ => True end ->
  agree tid (apply m a) m.
Proof.
  intros Hne Hs. destruct a as [l|[n|t' n] v]; cbn in *; [split; reflexivity|tauto|]. subst t'.
  split; intro k; cbn; [reflexivity|].
  destruct (Nat.eqb_spec t tid); [congruence|reflexivity].
Qed.

Lemma apply_agree tid a m1 m2 : agree tid m1 m2 -> agree tid (apply m1 a) (apply m2 a).
Proof.
  intros [H1 H2]. destruct a as [l|[n|t n] v]; cbn; [split; assumption| |].
  - split; intro k; cbn; [rewrite H1; reflexivity|apply H2].
  - split; intro k; cbn; [apply H1|]. rewrite H2. reflexivity.
Qed.

Lemma read_agree tid a m1 m2 : agree tid m1 m2 ->
  match a with Rd (Private t' _) => t' = tid | _ => True end -> read m1 a = read m2 a.
Proof.
  intros [H1 H2] Hs. destruct a as [[n|t n]|l v]; cbn in *; [rewrite H1; reflexivity|subst; rewrite H2; reflexivity|reflexivity].
Qed.

(* (b) every call reads what it reads alone: the trace restricted to thread tid
   gives the same sequence of read values as the full interleaving *)
Theorem reads_as_alone tid tr : scoped_trace tr ->
  forall m1 m2, agree tid m1 m2 -> reads_of tid m1 tr = reads_of tid m2 (project tid tr).
Proof.
  induction tr as [|[t a] tr IH]; intros Hs m1 m2 Hag; [reflexivity|].
  assert (Hs' : scoped_trace tr) by (intros e He; apply Hs; right; exact He).
  pose proof (Hs (t, a) (or_introl eq_refl)) as Sa. cbn in Sa.
  cbn [reads_of project filter fst]. destruct (Nat.eqb_spec t tid) as [->|Hne].
  - cbn [reads_of]. rewrite Nat.eqb_refl.
    assert (read m1 a = read m2 a) as ->.
    { apply (read_agree tid); [exact Hag|]. destruct a as [[n|t' n]|l v]; auto. }
    f_equal. apply IH; [exact Hs'|apply apply_agree; exact Hag].
  - cbn [app]. apply IH; [exact Hs'|].
    destruct (apply_other tid t a m1 Hne) as [A1 A2].
    { destruct a as [l|[n|t' n] v]; auto. }
    destruct Hag as [G1 G2]. split; intro k; [rewrite A1; apply G1|rewrite A2; apply G2].
Qed.
