(* WireDec.v — the decoder side: dec_item accepts exactly the lenient E5
   encodings of value items and returns the item they denote (C03), hence the
   round trip (C01). *)
From Secs Require Import Ast Fill Msg WireSpec WireLemmas WireValues HeaderProofs WireEnc.
Open Scope Z_scope.

(* ---- factories on decoded arguments ---- *)

Lemma vars_value_item t : value_item t -> vars t = [].
Proof.
  induction t as [xs IH| | k w slots | s | | ] using item_ind'; intro H; try (cbn in H; tauto).
  - apply value_item_list in H as [_ Hall]. cbn [vars].
    induction IH as [|x xs Hx _ IH2]; [reflexivity|]. inversion Hall; subst. cbn [flat_map].
    rewrite IH2 by assumption. rewrite app_nil_r.
    destruct x; try (cbn in H1; tauto); apply Hx; assumption.
  - cbn in H. destruct H as (_ & vs & -> & _). cbn. apply slot_vars_SV.
Qed.

Lemma map_opt_list_arg xs : Forall value_item xs -> map_opt list_arg (map GItem xs) = Some xs.
Proof.
  induction 1 as [|x xs Hx _ IH]; [reflexivity|]. cbn [map map_opt]. rewrite IH.
  destruct x; try (cbn in Hx; tauto); reflexivity.
Qed.

Lemma direct_vars_value xs : Forall value_item xs -> direct_vars xs = [].
Proof.
  induction 1 as [|x xs Hx _ IH]; [reflexivity|]. cbn [direct_vars flat_map].
  fold (direct_vars xs). rewrite IH. destruct x; try (cbn in Hx; tauto); reflexivity.
Qed.

Lemma list_vars_ok_value xs : Forall value_item xs -> list_vars_ok xs = true.
Proof.
  intro H. unfold list_vars_ok. rewrite direct_vars_value by assumption. cbn.
  destruct xs as [|x xs]; [reflexivity|]. inversion H; subst. destruct x; try (cbn in H2; tauto); reflexivity.
Qed.

Lemma size_ok_iff typ n : size_ok typ n = true <-> data_byte_length typ (Z.of_nat n) <= MAX_BYTE_SIZE.
Proof. unfold size_ok. destruct (Z.gtb_spec (data_byte_length typ (Z.of_nat n)) MAX_BYTE_SIZE); cbn; split; intro; try lia; congruence. Qed.

Lemma new_list_value xs :
  Z.of_nat (length xs) <= MAX_BYTE_SIZE -> Forall value_item xs -> new_list (map GItem xs) = Some (IList xs).
Proof.
  intros Hn Hall. unfold new_list. rewrite map_length.
  assert (Hs : size_ok (B"list"%string) (length xs) = true).
  { apply size_ok_iff. unfold data_byte_length. cbn [lookup bytes_eqb]. cbn. lia. }
  rewrite Hs. cbn [negb]. rewrite map_opt_list_arg by assumption.
  rewrite direct_vars_value, list_vars_ok_value by assumption.
  assert (Hv : vars (IList xs) = []) by (apply vars_value_item, value_item_list; split; assumption).
  rewrite Hv. reflexivity.
Qed.

Lemma new_list_GItem_inv xs t :
  new_list (map GItem xs) = Some t -> t = IList xs /\ Z.of_nat (length xs) <= MAX_BYTE_SIZE.
Proof.
  unfold new_list. rewrite map_length. destruct (size_ok _ (length xs)) eqn:Hs; cbn [negb]; [|discriminate].
  apply size_ok_iff in Hs. unfold data_byte_length in Hs. cbn [lookup bytes_eqb] in Hs. cbn in Hs.
  destruct (map_opt list_arg (map GItem xs)) as [ys|] eqn:E; [|discriminate].
  assert (ys = xs).
  { clear -E. revert ys E. induction xs as [|x xs IH]; intros ys E; cbn in E; [congruence|].
    destruct x; cbn in E; try discriminate;
      (destruct (map_opt list_arg (map GItem xs)) as [zs|] eqn:E2; [|discriminate]; inversion E; f_equal; apply IH; reflexivity). }
  subst ys. destruct (_ && _ && _); [|discriminate]. intro H; inversion H. split; [reflexivity|lia].
Qed.

Lemma new_ascii_value s :
  Z.of_nat (length s) <= MAX_BYTE_SIZE -> Forall (fun b => b2z b < 128) s -> new_ascii s = Some (IAscii s).
Proof.
  intros Hn Ha. unfold new_ascii.
  assert (Hs : size_ok (B"ascii"%string) (length s) = true).
  { apply size_ok_iff. unfold data_byte_length. cbn [lookup bytes_eqb]. cbn. lia. }
  rewrite Hs. cbn [negb].
  assert (is_ascii_bytes s = true).
  { unfold is_ascii_bytes. apply forallb_forall. intros b Hb. rewrite Forall_forall in Ha. apply Z.ltb_lt. auto. }
  rewrite H. reflexivity.
Qed.

Lemma new_ascii_inv s t :
  new_ascii s = Some t -> t = IAscii s /\ Z.of_nat (length s) <= MAX_BYTE_SIZE /\ Forall (fun b => b2z b < 128) s.
Proof.
  unfold new_ascii. destruct (size_ok _ (length s)) eqn:Hs; cbn [negb]; [|discriminate].
  destruct (is_ascii_bytes s) eqn:Ha; [|discriminate]. intro H; inversion H. split; [reflexivity|]. split.
  - apply size_ok_iff in Hs. unfold data_byte_length in Hs. cbn [lookup bytes_eqb] in Hs. cbn in Hs. lia.
  - unfold is_ascii_bytes in Ha. rewrite forallb_forall in Ha. apply Forall_forall. intros b Hb. apply Z.ltb_lt. auto.
Qed.

Lemma names_ok_SV vs : names_ok (map SV vs) = true.
Proof. unfold names_ok. rewrite slot_vars_SV. reflexivity. Qed.

Lemma new_leaf_decoded k w vs chunks :
  fmt_ok k w -> Forall (val_wf k w) vs -> all2 (elem_bytes false k w) vs chunks ->
  Z.of_nat w * Z.of_nat (length vs) <= MAX_BYTE_SIZE ->
  new_leaf k w (map (dec_arg k w) (map be_dec chunks)) = Some (ILeaf k w (map SV vs)).
Proof.
  intros Hf Hv Hc Hn. unfold new_leaf. rewrite !map_length.
  pose proof (all2_length _ _ _ Hc) as Hlen.
  assert (Hs : size_ok (size_typ k w) (length chunks) = true).
  { apply size_ok_iff. unfold data_byte_length. rewrite width_lookup by exact Hf. rewrite <- Hlen. lia. }
  rewrite Hs. cbn [negb].
  assert (Hm : map_opt (leaf_arg k w) (map (dec_arg k w) (map be_dec chunks)) = Some (map SV vs) /\
               forallb (val_okb k w) (map SV vs) = true).
  { clear Hn Hs Hlen. revert chunks Hc. induction Hv as [|v vs Hv1 _ IH]; intros [|c cs] Hc; cbn in Hc; try tauto;
      try (split; reflexivity).
    - destruct Hc as [Hc1 Hc2]. destruct (IH cs Hc2) as [E1 E2].
      destruct (elem_decodes k w v c Hf Hv1 Hc1) as [A1 A2].
      cbn [map map_opt forallb]. rewrite A1, E1, A2, E2. split; reflexivity. }
  destruct Hm as [Hm1 Hm2]. rewrite Hm1, Hm2, width_okb_of, names_ok_SV by exact Hf. reflexivity.
Qed.

Lemma new_leaf_decoded_inv k w chunks t :
  fmt_ok k w -> Forall (fun c => length c = w) chunks ->
  new_leaf k w (map (dec_arg k w) (map be_dec chunks)) = Some t ->
  exists vs, t = ILeaf k w (map SV vs) /\ Forall (val_wf k w) vs /\ all2 (elem_bytes false k w) vs chunks /\
             Z.of_nat w * Z.of_nat (length vs) <= MAX_BYTE_SIZE.
Proof.
  intros Hf Hl. unfold new_leaf. rewrite !map_length.
  match goal with |- context [negb ?c] => destruct c eqn:Hs end; cbn [negb]; [|discriminate].
  apply size_ok_iff in Hs. unfold data_byte_length in Hs. rewrite width_lookup in Hs by exact Hf.
  destruct (map_opt _ _) as [xs|] eqn:E; [|discriminate].
  destruct (width_okb k w && forallb (val_okb k w) xs && names_ok xs) eqn:Hc; [|discriminate].
  apply andb_true_iff in Hc as [Hc _]. apply andb_true_iff in Hc as [_ Hok].
  intro H; inversion H; subst t; clear H.
  assert (exists vs, xs = map SV vs /\ Forall (val_wf k w) vs /\ all2 (elem_bytes false k w) vs chunks) as (vs & -> & Hv & Ha).
  { clear Hs. revert xs E Hok. induction Hl as [|c cs Hc1 _ IH]; intros xs E Hok.
    - cbn in E. inversion E. exists []. repeat split; constructor.
    - cbn [map map_opt] in E. destruct (leaf_arg k w (dec_arg k w (be_dec c))) as [s|] eqn:Ea; [|discriminate].
      destruct (map_opt _ _) as [ys|] eqn:E2; [|discriminate]. inversion E; subst xs. cbn [forallb] in Hok.
      apply andb_true_iff in Hok as [Hok1 Hok2].
      destruct (IH ys eq_refl Hok2) as (vs & -> & Hv & Ha).
      destruct (elem_decoded k w c s Hf Hc1 Ea Hok1) as (v & -> & Hv1 & Hb1).
      exists (v :: vs). split; [reflexivity|]. split; [constructor; assumption|]. cbn. split; assumption. }
  exists vs. split; [reflexivity|]. split; [exact Hv|]. split; [exact Ha|].
  rewrite (all2_length _ _ _ Ha). lia.
Qed.

(* ---- fuel ---- *)

Fixpoint need_item (t : item) : nat :=
  match t with
  | IList xs => S ((fix ni (xs : list item) : nat :=
                      match xs with [] => 1%nat | x :: r => S (Nat.max (need_item x) (ni r)) end) xs)
  | _ => 1%nat
  end.
Fixpoint need_items (xs : list item) : nat :=
  match xs with [] => 1%nat | x :: r => S (Nat.max (need_item x) (need_items r)) end.
Lemma need_item_list xs : need_item (IList xs) = S (need_items xs).
Proof. reflexivity. Qed.

(* ---- L2: completeness ---- *)

Lemma fmt_byte_read fb code lb :
  fmt_byte_is fb code lb -> (1 <= length lb <= 3)%nat -> 0 <= code ->
  b2z fb / 4 = code /\ b2z fb mod 4 = Z.of_nat (length lb).
Proof. unfold fmt_byte_is. intros H Hk Hc. rewrite H. lia. Qed.

Lemma zlen_app (a b : bytes) : Z.of_nat (length (a ++ b)) = Z.of_nat (length a) + Z.of_nat (length b).
Proof. rewrite app_length. lia. Qed.

Lemma zlen_cons (x : byte) (l : bytes) : Z.of_nat (length (x :: l)) = 1 + Z.of_nat (length l).
Proof. change (length (x :: l)) with (S (length l)). lia. Qed.

Lemma wire_length_pos strict t bs : wire strict t bs -> (1 <= length bs)%nat.
Proof. intro H. apply wire_nonempty in H. destruct bs; [congruence|cbn; lia]. Qed.

Lemma concat_length_ge xs (encs : list bytes) :
  all2 (fun (_ : item) e => (1 <= length e)%nat) xs encs -> (length xs <= length (concat encs))%nat.
Proof.
  revert encs; induction xs as [|x xs IH]; intros [|e es] H; cbn in *; try tauto; [lia|].
  rewrite app_length. destruct H as [H1 H2]. apply IH in H2. lia.
Qed.

Theorem dec_item_complete t :
  forall bs, wire false t bs ->
  forall fuel rest, (need_item t <= fuel)%nat ->
  dec_item fuel (bs ++ rest) (Z.of_nat (length (bs ++ rest))) = Some (t, rest, Z.of_nat (length rest)).
Proof.
  induction t as [xs IH| | k w slots | s | | ] using item_ind'; intros bs H fuel rest Hfuel; try (cbn in H; tauto).
  - (* list *)
    pose proof (wire_value_item _ _ _ H) as Hval. apply value_item_list in Hval as [Hmax Hvals].
    apply wire_list in H as (fb & lb & encs & -> & Hfb & Hl & Hc).
    destruct Hl as (Hk & Hd & _).
    destruct (fmt_byte_read fb e5_code_list lb Hfb Hk) as [Hcode Hkk]; [unfold e5_code_list; lia|].
    rewrite need_item_list in Hfuel. destruct fuel as [|f]; [lia|].
    cbn [app dec_item]. rewrite Hcode, Hkk. unfold e5_code_list.
    destruct (Z.eqb_spec (Z.of_nat (length lb)) 0) as [E|_]; [lia|].
    rewrite <- app_assoc. rewrite ztake_app. rewrite Hd.
    rewrite zlen_cons, !zlen_app.
    assert (Hge : (length xs <= length (concat encs))%nat).
    { apply concat_length_ge. eapply all2_impl; [|exact Hc]. intros x e Hw. eapply wire_length_pos; exact Hw. }
    match goal with |- context [if ?c then None else _] => destruct c eqn:Echk end; [apply Z.ltb_lt in Echk; lia|].
    cbn [Z.eqb].
    (* the elements *)
    assert (Hitems : forall f' rest', (need_items xs <= f')%nat ->
               dec_items f' (Z.of_nat (length xs)) (concat encs ++ rest') (Z.of_nat (length (concat encs ++ rest'))) =
               Some (xs, rest', Z.of_nat (length rest'))).
    { clear -IH Hc. revert encs Hc. induction IH as [|x xs Hx _ IH2]; intros encs Hc f' rest' Hf'.
      - destruct encs; [|cbn in Hc; tauto]. cbn in Hf'. destruct f'; [lia|]. reflexivity.
      - destruct encs as [|e es]; cbn in Hc; [tauto|]. destruct Hc as [Hc1 Hc2].
        cbn [need_items] in Hf'. destruct f' as [|f']; [lia|].
        cbn [dec_items length]. destruct (Z.leb_spec (Z.of_nat (S (length xs))) 0); [lia|].
        cbn [concat]. rewrite <- app_assoc.
        rewrite (Hx e Hc1 f' (concat es ++ rest')) by lia.
        replace (Z.of_nat (S (length xs)) - 1) with (Z.of_nat (length xs)) by lia.
        rewrite (IH2 es Hc2 f' rest') by lia. reflexivity. }
    replace (Z.of_nat (length (concat encs)) + Z.of_nat (length rest)) with (Z.of_nat (length (concat encs ++ rest))) by (rewrite app_length; lia).
    replace (1 + (Z.of_nat (length lb) + Z.of_nat (length (concat encs ++ rest))) - 1 - Z.of_nat (length lb)) with (Z.of_nat (length (concat encs ++ rest))) by lia.
    rewrite Hitems by lia. rewrite new_list_value by assumption. reflexivity.
  - (* leaf *)
    cbn [wire] in H. destruct H as (fb & lb & vs & chunks & -> & -> & Hf & Hfb & Hl & Hv & Hc).
    destruct Hl as (Hk & Hd & _).
    pose proof (e5_code_range k w Hf) as [Hcr Hne16].
    destruct (fmt_byte_read fb (e5_code k w) lb Hfb Hk) as [Hcode Hkk]; [lia|].
    destruct fuel as [|f]; [cbn in Hfuel; lia|].
    cbn [app dec_item]. rewrite Hcode, Hkk.
    destruct (Z.eqb_spec (Z.of_nat (length lb)) 0) as [E|_]; [lia|].
    rewrite <- app_assoc. rewrite ztake_app. rewrite Hd.
    assert (Hchunks : Forall (fun c => length c = w) chunks).
    { clear -Hc. revert chunks Hc. induction vs as [|v vs IH]; intros [|c cs] Hc; cbn in Hc; try tauto; constructor; [apply Hc|apply IH; apply Hc]. }
    pose proof (all2_length _ _ _ Hc) as Hlen.
    assert (Hpl : Z.of_nat (length (concat chunks)) = Z.of_nat w * Z.of_nat (length vs)).
    { rewrite (concat_length_uniform w) by assumption. rewrite Hlen. lia. }
    rewrite zlen_cons, !zlen_app.
    match goal with |- context [if ?c then None else _] => destruct c eqn:Echk end; [apply Z.ltb_lt in Echk; lia|].
    destruct (Z.eqb_spec (e5_code k w) 0) as [E|_]; [lia|].
    rewrite <- Hpl. rewrite ztake_app.
    unfold dec_leaf. destruct (Z.eqb_spec (e5_code k w) 16) as [E|_]; [lia|].
    rewrite kind_of_e5_code by exact Hf.
    pose proof (fmt_ok_pos k w Hf) as Hw.
    rewrite Hpl. rewrite Z.mul_comm, Z.mod_mul by lia. cbn [Z.eqb].
    rewrite be_groups_concat by assumption.
    pose proof (wire_value_item false (ILeaf k w (map SV vs)) (fb :: lb ++ concat chunks)) as Hval.
    assert (Hmax : Z.of_nat w * Z.of_nat (length vs) <= MAX_BYTE_SIZE).
    { pose proof (be_dec_range lb) as Hr. rewrite Hd in Hr. unfold MAX_BYTE_SIZE.
      destruct lb as [|a [|b [|c [|d r]]]]; cbn [length] in *; try lia; cbn in Hr; lia. }
    rewrite (new_leaf_decoded k w vs chunks Hf Hv Hc Hmax).
    f_equal. f_equal. lia.
  - (* ascii *)
    cbn [wire] in H. destruct H as (fb & lb & -> & Hfb & Hl & Ha).
    destruct Hl as (Hk & Hd & _).
    destruct (fmt_byte_read fb e5_code_ascii lb Hfb Hk) as [Hcode Hkk]; [unfold e5_code_ascii; lia|].
    destruct fuel as [|f]; [cbn in Hfuel; lia|].
    cbn [app dec_item]. rewrite Hcode, Hkk. unfold e5_code_ascii.
    destruct (Z.eqb_spec (Z.of_nat (length lb)) 0) as [E|_]; [lia|].
    rewrite <- app_assoc. rewrite ztake_app. rewrite Hd.
    rewrite zlen_cons, !zlen_app.
    match goal with |- context [if ?c then None else _] => destruct c eqn:Echk end; [apply Z.ltb_lt in Echk; lia|].
    change (16 =? 0) with false. cbn iota. rewrite ztake_app. unfold dec_leaf. change (16 =? 16) with true. cbn iota.
    assert (Hmax : Z.of_nat (length s) <= MAX_BYTE_SIZE).
    { pose proof (be_dec_range lb) as Hr. rewrite Hd in Hr. unfold MAX_BYTE_SIZE.
      destruct lb as [|a [|b [|c [|d r]]]]; cbn [length] in *; try lia; cbn in Hr; lia. }
    rewrite new_ascii_value by assumption. f_equal. f_equal. lia.
Qed.

(* ---- L3: soundness ---- *)

Lemma fmt_byte_from fb lb : b2z fb mod 4 = Z.of_nat (length lb) -> fmt_byte_is fb (b2z fb / 4) lb.
Proof. unfold fmt_byte_is. intro H. rewrite <- H. pose proof (Z.div_mod (b2z fb) 4). lia. Qed.

Lemma len_field_lenient_intro lb n : (1 <= length lb <= 3)%nat -> be_dec lb = n -> len_field false lb n.
Proof. intros. split; [assumption|]. split; [assumption|]. discriminate. Qed.

Theorem dec_sound fuel :
  (forall bs rem t rest rem',
      dec_item fuel bs rem = Some (t, rest, rem') -> rem = Z.of_nat (length bs) ->
      exists enc, bs = enc ++ rest /\ wire false t enc /\ rem' = Z.of_nat (length rest)) /\
  (forall n bs rem ts rest rem',
      dec_items fuel n bs rem = Some (ts, rest, rem') -> rem = Z.of_nat (length bs) -> 0 <= n ->
      exists encs, bs = concat encs ++ rest /\ all2 (wire false) ts encs /\ Z.of_nat (length ts) = n /\
                   rem' = Z.of_nat (length rest)).
Proof.
  induction fuel as [|f [IHi IHs]]; [split; intros; discriminate|]. split.
  - intros bs rem t rest rem' H Hrem. cbn [dec_item] in H.
    destruct bs as [|fb r1]; [discriminate|].
    destruct (Z.eqb_spec (b2z fb mod 4) 0) as [|Hk0]; [discriminate|].
    pose proof (b2z_range fb) as Hfb.
    assert (Hkr : 1 <= b2z fb mod 4 <= 3) by lia.
    destruct (ztake r1 (b2z fb mod 4)) as [[lb r2]|] eqn:Et; [|discriminate].
    apply ztake_spec in Et as [-> Hlb]; [|lia].
    set (len := be_dec lb) in *.
    pose proof (be_dec_range lb) as Hlen. fold len in Hlen.
    rewrite zlen_cons, zlen_app in Hrem.
    destruct (Z.ltb_spec (rem - 1 - b2z fb mod 4) len) as [|Hfit]; [discriminate|].
    assert (Hrem2 : rem - 1 - b2z fb mod 4 = Z.of_nat (length r2)) by lia.
    assert (Hk : (1 <= length lb <= 3)%nat) by lia.
    assert (Hfmt : fmt_byte_is fb (b2z fb / 4) lb) by (apply fmt_byte_from; lia).
    destruct (Z.eqb_spec (b2z fb / 4) 0) as [Hc0|Hc0].
    + (* list *)
      destruct (dec_items f len r2 (rem - 1 - b2z fb mod 4)) as [[[xs r3] rem3]|] eqn:Ed; [|discriminate].
      destruct (new_list (map GItem xs)) as [t'|] eqn:En; [|discriminate].
      inversion H; subst t' r3 rem3. clear H.
      apply new_list_GItem_inv in En as [-> _].
      destruct (IHs _ _ _ _ _ _ Ed Hrem2 (proj1 Hlen)) as (encs & -> & Hall & Hcount & Hr').
      exists (fb :: lb ++ concat encs). split; [cbn [app]; rewrite <- app_assoc; reflexivity|]. split; [|exact Hr'].
      apply wire_list. exists fb, lb, encs. split; [reflexivity|]. split; [rewrite Hc0 in Hfmt; exact Hfmt|].
      split; [apply len_field_lenient_intro; [exact Hk|unfold len in Hcount; lia]|exact Hall].
    + (* value items *)
      destruct (ztake r2 len) as [[payload r3]|] eqn:Ep; [|discriminate].
      apply ztake_spec in Ep as [-> Hpl]; [|lia].
      destruct (dec_leaf (b2z fb / 4) payload len) as [t'|] eqn:El; [|discriminate].
      inversion H; subst t' r3 rem'. clear H.
      exists (fb :: lb ++ payload). split; [cbn [app]; rewrite <- app_assoc; reflexivity|].
      split; [|rewrite app_length in Hrem2; lia].
      unfold dec_leaf in El. destruct (Z.eqb_spec (b2z fb / 4) 16) as [Hc16|Hc16].
      * apply new_ascii_inv in El as (-> & _ & Ha). cbn [wire]. exists fb, lb.
        split; [reflexivity|]. split; [rewrite Hc16 in Hfmt; exact Hfmt|].
        split; [apply len_field_lenient_intro; [exact Hk|unfold len in Hpl; lia]|exact Ha].
      * destruct (kind_of_code (b2z fb / 4)) as [[k w]|] eqn:Ek; [|discriminate].
        apply kind_of_code_sound in Ek as [Hf Hcode].
        pose proof (fmt_ok_pos k w Hf) as Hw.
        destruct (Z.eqb_spec (len mod Z.of_nat w) 0) as [Hmod|]; [|discriminate].
        assert (Hmul : length payload = (Z.to_nat (len / Z.of_nat w) * w)%nat).
        { apply Nat2Z.inj. rewrite Hpl, Nat2Z.inj_mul, Z2Nat.id by (apply Z.div_pos; lia).
          pose proof (Z.div_mod len (Z.of_nat w)). lia. }
        destruct (chunks_exist w _ payload Hmul) as (chunks & -> & Hch & Hnch).
        rewrite be_groups_concat in El by assumption.
        destruct (new_leaf_decoded_inv k w chunks t Hf Hch El) as (vs & -> & Hv & Ha & _).
        cbn [wire]. exists fb, lb, vs, chunks. split; [reflexivity|]. split; [reflexivity|]. split; [exact Hf|].
        split; [rewrite Hcode in Hfmt; exact Hfmt|]. split; [|split; [exact Hv|exact Ha]].
        apply len_field_lenient_intro; [exact Hk|].
        fold len. rewrite <- Hpl. rewrite (concat_length_uniform w) by assumption.
        rewrite (all2_length _ _ _ Ha). lia.
  - intros n bs rem ts rest rem' H Hrem Hn. cbn [dec_items] in H.
    destruct (Z.leb_spec n 0).
    + inversion H; subst. exists []. split; [reflexivity|]. split; [exact I|]. split; [cbn; lia|reflexivity].
    + destruct (dec_item f bs rem) as [[[t r] rem1]|] eqn:E1; [|discriminate].
      destruct (dec_items f (n - 1) r rem1) as [[[ts' r'] rem2]|] eqn:E2; [|discriminate].
      inversion H; subst ts r' rem2. clear H.
      destruct (IHi _ _ _ _ _ E1 Hrem) as (enc & -> & Hw & Hr1).
      destruct (IHs _ _ _ _ _ _ E2 Hr1) as (encs & -> & Hall & Hcnt & Hr2); [lia|].
      exists (enc :: encs). split; [cbn [concat]; rewrite <- app_assoc; reflexivity|].
      split; [cbn; split; assumption|]. split; [cbn [length]; lia|exact Hr2].
Qed.

Corollary dec_item_sound fuel bs t rest rem' :
  dec_item fuel bs (Z.of_nat (length bs)) = Some (t, rest, rem') ->
  exists enc, bs = enc ++ rest /\ wire false t enc.
Proof.
  intro H. destruct (proj1 (dec_sound fuel) _ _ _ _ _ H eq_refl) as (enc & E & W & _). eauto.
Qed.

(* ---- the fuel S (length bs) always suffices ---- *)

Lemma need_le_length t : forall bs, wire false t bs -> (need_item t <= length bs)%nat.
Proof.
  induction t as [xs IH| | k w slots | s | | ] using item_ind'; intros bs H; try (cbn in H; tauto).
  - apply wire_list in H as (fb & lb & encs & -> & _ & (Hk & _) & Hc).
    rewrite need_item_list. cbn [length]. rewrite app_length.
    assert (need_items xs <= S (length (concat encs)))%nat; [|lia].
    clear -IH Hc. revert encs Hc. induction IH as [|x xs Hx _ IH2]; intros [|e es] Hc; cbn in Hc; try tauto.
    + cbn. lia.
    + destruct Hc as [Hc1 Hc2]. cbn [need_items concat]. rewrite app_length.
      specialize (Hx e Hc1). specialize (IH2 es Hc2).
      pose proof (wire_length_pos _ _ _ Hc1).
      destruct (Nat.max_spec (need_item x) (need_items xs)) as [[_ ->]|[_ ->]]; lia.
  - cbn [wire] in H. destruct H as (fb & lb & vs & ch & -> & _). cbn. lia.
  - cbn [wire] in H. destruct H as (fb & lb & -> & _). cbn. lia.
Qed.
