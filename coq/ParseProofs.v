(* ParseProofs.v — invariants of the parser (C06): nothing but the token list
   shrinks and diagnostics grow; the one place where the Go code can panic
   outside parseDataItem's recover (creating the message) is never reached
   with arguments the message constructor refuses. *)
From Secs Require Import Ast Fill Utf8 Msg Lexer Parser SmlNumbers LexProofs.
Open Scope Z_scope.

Lemma skipn_skipn' {A} (n m : nat) (l : list A) : skipn n (skipn m l) = skipn (m + n) l.
Proof.
  revert l; induction m as [|m IH]; intro l; [reflexivity|].
  destruct l as [|a l]; [rewrite !skipn_nil; reflexivity|]. cbn [skipn Nat.add]. apply IH.
Qed.

(* the later state has a suffix of the earlier state's tokens, the same crash
   flag, and the earlier state's errors followed by zero or more new ones *)
Definition ext (st st' : pstate) : Prop :=
  crashed st' = crashed st /\ (exists n, toks st' = skipn n (toks st)) /\ (exists d, errs st' = errs st ++ d).

Lemma ext_refl st : ext st st.
Proof. split; [reflexivity|]. split; [exists 0%nat; reflexivity|exists []; rewrite app_nil_r; reflexivity]. Qed.
Lemma ext_trans a b c : ext a b -> ext b c -> ext a c.
Proof.
  intros [H1 [[n Hn] [d Hd]]] [H2 [[m Hm] [e He]]]. split; [congruence|]. split.
  - exists (n + m)%nat. rewrite Hm, Hn. apply skipn_skipn'.
  - exists (d ++ e). rewrite He, Hd, app_assoc. reflexivity.
Qed.
Lemma ext_same a b : crashed b = crashed a -> toks b = toks a -> errs b = errs a -> ext a b.
Proof. intros H1 H2 H3. split; [exact H1|]. split; [exists 0%nat; exact H2|exists []; rewrite app_nil_r; exact H3]. Qed.

Lemma ext_advance st : ext st (advance st).
Proof.
  split; [reflexivity|]. split; [|exists []; rewrite app_nil_r; reflexivity].
  exists 1%nat. cbn. destruct (toks st); reflexivity.
Qed.
Lemma ext_err st t k : ext st (err st t k).
Proof. split; [reflexivity|]. split; [exists 0%nat; reflexivity|eexists; reflexivity]. Qed.
Lemma ext_warn st t k : ext st (warn st t k).          Proof. apply ext_same; reflexivity. Qed.
Lemma ext_add_name st n : ext st (add_name st n).      Proof. apply ext_same; reflexivity. Qed.
Lemma ext_with_ecount st e : ext st (with_ecount st e). Proof. apply ext_same; reflexivity. Qed.
Lemma ext_reset st : ext st (reset_msg_scope st).      Proof. apply ext_same; reflexivity. Qed.
Lemma ext_add_msg st m : ext st (add_msg st m).        Proof. apply ext_same; reflexivity. Qed.

Lemma value_tokens_suffix l : exists n, snd (value_tokens l) = skipn n l.
Proof.
  induction l as [|t r [n IH]]; [exists 0%nat; reflexivity|]. cbn [value_tokens].
  destruct (t_typ t); try (exists 1%nat; reflexivity); try (exists 0%nat; reflexivity);
    destruct (value_tokens r) as [a b]; exists (S n); exact IH.
Qed.

Lemma ext_take_values st : ext st (snd (take_values st)).
Proof.
  unfold take_values. destruct (value_tokens_suffix (toks st)) as [n Hn].
  destruct (value_tokens (toks st)) as [vs rest]. cbn [snd] in *.
  split; [reflexivity|]. split; [exists n; exact Hn|exists []; rewrite app_nil_r; reflexivity].
Qed.

Ltac ext_step :=
  match goal with
  | |- ext ?a ?a => apply ext_refl
  | H : ext ?a ?b |- ext ?a ?b => exact H
  | |- ext _ (err _ _ _) => eapply ext_trans; [|apply ext_err]
  | |- ext _ (warn _ _ _) => eapply ext_trans; [|apply ext_warn]
  | |- ext _ (advance _) => eapply ext_trans; [|apply ext_advance]
  | |- ext _ (add_name _ _) => eapply ext_trans; [|apply ext_add_name]
  | |- ext _ (with_ecount _ _) => eapply ext_trans; [|apply ext_with_ecount]
  | |- ext _ (reset_msg_scope _) => eapply ext_trans; [|apply ext_reset]
  | |- ext _ (add_msg _ _) => eapply ext_trans; [|apply ext_add_msg]
  end.
Ltac ext_ops := repeat ext_step.

Section WithFloats.
Variable floats : float_oracle.

Lemma ext_value_arg nk st t g st' : value_arg floats nk st t = Some (g, st') -> ext st st'.
Proof.
  unfold value_arg. destruct (t_typ t); try discriminate.
  - destruct nk; try discriminate.
    + destruct (parse_int _ _) as [v e]. intro H; inversion H; subst. destruct e; [apply ext_refl|apply ext_err|apply ext_err].
    + destruct (parse_uint _ _) as [v e]. intro H; inversion H; subst. destruct e; [apply ext_refl|apply ext_err|apply ext_err].
    + destruct (scan_float _ _ _) as [b e]. destruct e; intro H; inversion H; subst; [apply ext_refl|apply ext_err|apply ext_err].
    + destruct (parse_int _ _) as [v e].
      destruct ((0 <=? v) && (v <? 256)); intro H; inversion H; subst; destruct e;
        repeat first [apply ext_refl | apply ext_err | eapply ext_trans; [|apply ext_err]].
  - destruct nk; try discriminate. intro H; inversion H; subst. apply ext_refl.
  - destruct (known_name st (t_val t)); intro H; inversion H; subst; [apply ext_err|apply ext_add_name].
Qed.

Lemma ext_value_args nk : forall ts st, ext st (snd (value_args floats nk st ts)).
Proof.
  induction ts as [|t r IH]; intro st; cbn [value_args]; [apply ext_refl|].
  destruct (value_arg floats nk st t) as [[g st1]|] eqn:E.
  - specialize (IH st1). destruct (value_args floats nk st1 r) as [o st2]. cbn [snd] in *.
    eapply ext_trans; [apply (ext_value_arg _ _ _ _ _ E)|exact IH].
  - cbn [snd]. destruct (t_typ t); apply ext_err.
Qed.

Lemma ext_parse_numeric nk st : ext st (snd (parse_numeric floats nk st)).
Proof.
  unfold parse_numeric. pose proof (ext_take_values st) as H1.
  destruct (take_values st) as [vs st0]. cbn [snd] in H1.
  pose proof (ext_value_args nk vs st0) as H2. destruct (value_args floats nk st0 vs) as [o st1]. cbn [snd] in H2.
  destruct o as [args|]; [destruct (build nk args)|]; cbn [snd]; eapply ext_trans; eassumption.
Qed.

Lemma ext_ascii_literal : forall ts st n acc mn mx, ext st (snd (ascii_literal st ts n acc mn mx)).
Proof.
  induction ts as [|t r IH]; intros st n acc mn mx; cbn [ascii_literal]; [apply ext_refl|].
  destruct (t_typ t); try (cbn [snd]; apply ext_err).
  - destruct (parse_uint (t_val t) 64) as [v e].
    destruct (127 <? v); (eapply ext_trans; [|apply IH]); destruct e;
      repeat first [apply ext_refl | apply ext_err | eapply ext_trans; [|apply ext_err]].
  - destruct (negb (n =? 1)%nat); [cbn [snd]; apply ext_err|].
    destruct (known_name st (t_val t)); cbn [snd]; [apply ext_err|apply ext_add_name].
  - destruct (existsb _ _); (eapply ext_trans; [|apply IH]); [apply ext_err|apply ext_refl].
Qed.

Definition list_pres (rec_list : pstate -> list gval -> Z -> ires * pstate) : Prop :=
  forall st acc c, ext st (snd (rec_list st acc c)).
Definition item_pres (rec_item : pstate -> option item * pstate) : Prop :=
  forall st, ext st (snd (rec_item st)).

Lemma ext_parse_item_body rec_list : list_pres rec_list -> item_pres (parse_item_body floats rec_list).
Proof.
  intros Hrec st. unfold parse_item_body.
  destruct (negb (typ_is (peek st) TLAB)); [cbn [snd]; ext_ops|].
  destruct (negb (typ_is (peek (advance st)) TItemType)); [cbn [snd]; ext_ops|].
  set (st2 := advance (advance st)).
  assert (H2 : ext st st2) by (subst st2; ext_ops).
  set (szt := peek st2).
  set (S4 := if typ_is szt TItemSize then _ else _).
  assert (HS : let '(sized, lo, hi, s) := S4 in ext st s).
  { subst S4. destruct (typ_is szt TItemSize); [destruct (parse_size (t_val szt)); ext_ops|exact H2]. }
  destruct S4 as [[[sized lo] hi] st3].
  destruct (negb sized && typ_is szt TError); [cbn [snd]; ext_ops|].
  set (V := if bytes_eqb _ _ then _ else _).
  assert (HV : let '(res, placeholder, s) := V in ext st s).
  { subst V. destruct (bytes_eqb (t_val (peek (advance st))) (B"L"%string)).
    { pose proof (Hrec st3 [] 0) as H. destruct (rec_list st3 [] 0) as [r s]. cbn [snd] in H. eapply ext_trans; eassumption. }
    destruct (bytes_eqb (t_val (peek (advance st))) (B"A"%string)).
    { pose proof (ext_take_values st3) as H. destruct (take_values st3) as [vs st0]. cbn [snd] in H.
      pose proof (ext_ascii_literal vs st0 (length vs) [] lo hi) as H'.
      destruct (ascii_literal st0 vs (length vs) [] lo hi) as [r s]. cbn [snd] in H'.
      eapply ext_trans; [exact HS|]. eapply ext_trans; eassumption. }
    destruct (nk_of_type _) as [nk|]; [|exact HS].
    pose proof (ext_parse_numeric nk st3) as H. destruct (parse_numeric floats nk st3) as [r s]. cbn [snd] in H.
    eapply ext_trans; eassumption. }
  destruct V as [[res placeholder] st4].
  destruct res as [it| |]; cbn [snd]; [|exact HV|ext_ops].
  match goal with |- context [if ?c then err st4 szt 10 else st4] => destruct c end.
  - destruct (typ_is (peek (err st4 szt 10)) TRAB); cbn [snd]; ext_ops.
  - destruct (typ_is (peek st4) TRAB); cbn [snd]; ext_ops.
Qed.

Lemma ext_parse_list_body rec_item rec_list : item_pres rec_item -> list_pres rec_list ->
  list_pres (parse_list_body rec_item rec_list).
Proof.
  intros Hi Hl st acc c. unfold parse_list_body.
  destruct (t_typ (peek st)); try (cbn [snd]; ext_ops).
  - (* '<' *)
    pose proof (Hi st) as H. destruct (rec_item st) as [[ch|] st1]; cbn [snd] in H; [|exact H].
    eapply ext_trans; [exact H|apply Hl].
  - (* variable *)
    destruct (known_name (advance st) (t_val (peek st))); (eapply ext_trans; [|apply Hl]); ext_ops.
  - (* ellipsis *)
    destruct (c =? 0); [cbn [snd]; ext_ops|].
    eapply ext_trans; [|apply Hl].
    match goal with |- context [if ?x then _ else _] => destruct x end; ext_ops.
Qed.

Lemma ext_parse_item_list : forall f, item_pres (parse_item floats f) /\ list_pres (parse_list floats f).
Proof.
  induction f as [|f [IHi IHl]].
  - split; [intro st|intros st acc c]; apply ext_refl.
  - split.
    + change (parse_item floats (S f)) with (parse_item_body floats (parse_list floats f)).
      apply ext_parse_item_body. exact IHl.
    + change (parse_list floats (S f)) with (parse_list_body (parse_item floats f) (parse_list floats f)).
      apply ext_parse_list_body; assumption.
Qed.

(* ---------- the message level ---------- *)

Definition pinv (st : pstate) : Prop := crashed st = false /\ Forall tok_ok (toks st).

Lemma Forall_skipn {A} (P : A -> Prop) n : forall l, Forall P l -> Forall P (skipn n l).
Proof.
  induction n as [|n IH]; intros l H; [exact H|]. destruct l as [|a l]; [constructor|]. inversion H; subst. apply IH. assumption.
Qed.

Lemma pinv_ext st st' : pinv st -> ext st st' -> pinv st'.
Proof.
  intros [Hc Ht] [Hc' [[n Hn] _]]. split; [congruence|]. rewrite Hn. apply Forall_skipn. exact Ht.
Qed.

Lemma zero_tok_ok : tok_ok zero_tok.
Proof. repeat split; cbn; intro H; discriminate. Qed.

Lemma peek_ok st : pinv st -> tok_ok (peek st).
Proof.
  intros [_ H]. unfold peek. destruct (toks st) as [|t r]; [apply zero_tok_ok|]. inversion H; assumption.
Qed.

Lemma typ_is_eq t ty : typ_is t ty = true -> t_typ t = ty.
Proof. unfold typ_is. destruct (t_typ t), ty; try discriminate; reflexivity. Qed.

Lemma new_data_message_some name stream function wbit dir it :
  has_space_rune name = false -> 0 <= stream < 128 -> 0 <= function < 256 ->
  (wbit = 0 \/ (wbit = 1 /\ function mod 2 <> 0) \/ wbit = 2) -> dir_ok dir = true ->
  exists m, new_data_message name stream function wbit dir it = Some m.
Proof.
  intros Hn Hs Hf Hw Hd. unfold new_data_message, check.
  match goal with |- context [msg_ok ?m] => assert (E : msg_ok m = true) end.
  { unfold msg_ok. cbn [m_name m_stream m_function m_wbit m_sid m_sys m_dir length]. rewrite Hn, Hd.
    assert (Hwb : negb ((wbit =? 1) && (function mod 2 =? 0)) = true).
    { destruct (Z.eqb_spec wbit 1); destruct (Z.eqb_spec (function mod 2) 0); try reflexivity. exfalso. lia. }
    rewrite Hwb. cbn [negb andb].
    repeat (apply andb_true_iff; split); try reflexivity; try (apply Z.leb_le; lia); try (apply Z.ltb_lt; lia). }
  rewrite E. eexists. reflexivity.
Qed.

Theorem parse_message_pinv st : pinv st -> pinv (snd (parse_message floats st)).
Proof.
  intro Hinv. unfold parse_message.
  set (st1 := reset_msg_scope st).
  assert (H1 : ext st st1) by (subst st1; ext_ops).
  destruct (negb (typ_is (peek st1) TStreamFunction)); [cbn [snd]; apply (pinv_ext st); [exact Hinv|ext_ops]|].
  set (t := peek st1). set (st2 := advance st1).
  assert (H2 : ext st st2) by (subst st2; ext_ops).
  destruct (split_sf (t_val t)) as [sd fd]. destruct (atoi sd) as [stream0 e1]. destruct (atoi fd) as [function0 e2].
  set (A := if (0 <=? stream0) && (stream0 <? 128) then _ else _).
  assert (HA : let '(stream, s) := A in 0 <= stream < 128 /\ ext st s).
  { subst A. destruct ((0 <=? stream0) && (stream0 <? 128)) eqn:E; [|split; [lia|ext_ops]].
    apply andb_true_iff in E as [Ea Eb]. apply Z.leb_le in Ea. apply Z.ltb_lt in Eb. split; [lia|exact H2]. }
  destruct A as [stream st3]. destruct HA as [Hstream H3].
  set (Bf := if (0 <=? function0) && (function0 <? 256) then _ else _).
  assert (HB : let '(function, s) := Bf in 0 <= function < 256 /\ ext st s).
  { subst Bf. destruct ((0 <=? function0) && (function0 <? 256)) eqn:E; [|split; [lia|ext_ops]].
    apply andb_true_iff in E as [Ea Eb]. apply Z.leb_le in Ea. apply Z.ltb_lt in Eb. split; [lia|exact H3]. }
  destruct Bf as [function st4]. destruct HB as [Hfunction H4].
  set (w := peek st4).
  set (W := if typ_is w TWaitBit then _ else _).
  assert (HW : let '(wbit, s) := W in (wbit = 0 \/ (wbit = 1 /\ function mod 2 <> 0) \/ wbit = 2) /\ ext st s).
  { subst W. destruct (typ_is w TWaitBit); [|split; [left; reflexivity|exact H4]].
    destruct (bytes_eqb (t_val w) [x57]).
    - destruct (Z.eqb_spec (function mod 2) 0); (split; [|ext_ops]); [left; reflexivity|right; left; split; [reflexivity|assumption]].
    - destruct (bytes_eqb (t_val w) (B"[W]"%string)); (split; [|ext_ops]); [right; right; reflexivity|left; reflexivity]. }
  destruct W as [wbit st5]. destruct HW as [Hwbit H5].
  set (D := if typ_is (peek st5) TDirection then _ else _).
  assert (HD : let '(dir, s) := D in dir_ok dir = true /\ ext st s).
  { subst D. destruct (typ_is (peek st5) TDirection) eqn:E; [|split; [reflexivity|ext_ops]].
    split; [|ext_ops]. apply typ_is_eq in E. apply (proj1 (peek_ok st5 ltac:(apply (pinv_ext st); assumption))). exact E. }
  destruct D as [dir st6]. destruct HD as [Hdir H6].
  set (N := if typ_is (peek st6) TMsgName then _ else _).
  assert (HN : let '(name, s) := N in has_space_rune name = false /\ ext st s).
  { subst N. destruct (typ_is (peek st6) TMsgName) eqn:E; [|split; [reflexivity|exact H6]].
    split; [|ext_ops]. apply typ_is_eq in E. apply (proj1 (proj2 (peek_ok st6 ltac:(apply (pinv_ext st); assumption)))). exact E. }
  destruct N as [name st7]. destruct HN as [Hname H7].
  set (I := if typ_is (peek st7) TMsgEnd then _ else _).
  assert (HI : let '(it, s) := I in ext st s).
  { subst I. destruct (typ_is (peek st7) TMsgEnd); [exact H7|].
    destruct (typ_is (peek st7) TLAB); [|ext_ops].
    pose proof (proj1 (ext_parse_item_list (S (length (toks st7)))) st7) as H.
    destruct (parse_item floats (S (length (toks st7))) st7) as [it s]. cbn [snd] in H. eapply ext_trans; eassumption. }
  destruct I as [it st8].
  destruct it as [item|]; [|cbn [snd]; apply (pinv_ext st); assumption].
  destruct (negb (typ_is (peek st8) TMsgEnd)); [cbn [snd]; apply (pinv_ext st); [exact Hinv|ext_ops]|].
  destruct (new_data_message_some name stream function wbit dir item Hname Hstream Hfunction Hwbit Hdir) as [m Em].
  rewrite Em. cbn [snd]. apply (pinv_ext st); [exact Hinv|ext_ops].
Qed.

Lemma parse_loop_pinv : forall f st, pinv st -> pinv (parse_loop floats f st).
Proof.
  induction f as [|f IH]; intros st H; [exact H|]. cbn [parse_loop].
  destruct (typ_is (peek st) TEOF); [exact H|].
  pose proof (parse_message_pinv st H) as H'. destruct (parse_message floats st) as [ok st1]. cbn [snd] in H'.
  destruct ok; [apply IH|]; exact H'.
Qed.

End WithFloats.

(* ---------- failure is never silent; the fuel is never used up ---------- *)

Definition nerrs (st : pstate) : nat := length (errs st).
Definition ntoks (st : pstate) : nat := length (toks st).
Definition toks_ok (st : pstate) : Prop := Forall tok_ok (toks st).

Lemma ext_nerrs a b : ext a b -> (nerrs a <= nerrs b)%nat.
Proof. intros [_ [_ [d Hd]]]. unfold nerrs. rewrite Hd, app_length. lia. Qed.
Lemma ext_ntoks a b : ext a b -> (ntoks b <= ntoks a)%nat.
Proof. intros [_ [[n Hn] _]]. unfold ntoks. rewrite Hn, skipn_length. lia. Qed.
Lemma ext_toks_ok a b : ext a b -> toks_ok a -> toks_ok b.
Proof. intros [_ [[n Hn] _]] H. unfold toks_ok. rewrite Hn. apply Forall_skipn. exact H. Qed.

Definition grew (a b : pstate) : Prop := ext a b /\ (nerrs a < nerrs b)%nat.
Lemma grew_err st t k : grew st (err st t k).
Proof. split; [apply ext_err|]. unfold nerrs. cbn. rewrite app_length. cbn. lia. Qed.
Lemma ext_grew a b c : ext a b -> grew b c -> grew a c.
Proof. intros H [H1 H2]. split; [eapply ext_trans; eassumption|]. pose proof (ext_nerrs _ _ H). lia. Qed.
Lemma grew_ext a b c : grew a b -> ext b c -> grew a c.
Proof. intros [H1 H2] H. split; [eapply ext_trans; eassumption|]. pose proof (ext_nerrs _ _ H). lia. Qed.

Lemma advance_ntoks st : t_typ (peek st) <> TEOF -> (ntoks (advance st) + 1 = ntoks st)%nat.
Proof.
  unfold peek, ntoks, advance. cbn [toks]. destruct (toks st) as [|t r]; [intro H; exfalso; apply H; reflexivity|].
  intros _. cbn. lia.
Qed.

Section Loud.
Variable floats : float_oracle.

Lemma value_args_loud nk : forall ts st, fst (value_args floats nk st ts) = None -> grew st (snd (value_args floats nk st ts)).
Proof.
  induction ts as [|t r IH]; intro st; cbn [value_args]; [discriminate|].
  destruct (value_arg floats nk st t) as [[g st1]|] eqn:E.
  - specialize (IH st1). destruct (value_args floats nk st1 r) as [o st2]. cbn [fst snd] in *.
    destruct o; [discriminate|]. intros _. eapply ext_grew; [apply (ext_value_arg _ _ _ _ _ _ E)|apply IH; reflexivity].
  - intros _. cbn [snd]. destruct (t_typ t); apply grew_err.
Qed.

Lemma parse_numeric_loud nk st : fst (parse_numeric floats nk st) = IStop -> grew st (snd (parse_numeric floats nk st)).
Proof.
  unfold parse_numeric. pose proof (ext_take_values st) as H1.
  destruct (take_values st) as [vs st0]. cbn [snd] in H1.
  pose proof (value_args_loud nk vs st0) as H2. destruct (value_args floats nk st0 vs) as [o st1]. cbn [fst snd] in H2.
  destruct o as [args|]; [destruct (build nk args); discriminate|].
  intros _. cbn [snd]. eapply ext_grew; [exact H1|apply H2; reflexivity].
Qed.

Lemma ascii_literal_loud : forall ts st n acc mn mx,
  fst (ascii_literal st ts n acc mn mx) = IStop -> grew st (snd (ascii_literal st ts n acc mn mx)).
Proof.
  induction ts as [|t r IH]; intros st n acc mn mx; cbn [ascii_literal].
  { destruct (new_ascii acc); discriminate. }
  destruct (t_typ t); try (intros _; cbn [snd]; apply grew_err).
  - destruct (parse_uint (t_val t) 64) as [v e].
    destruct (127 <? v); intro H; (eapply ext_grew; [|apply IH; exact H]); destruct e;
      repeat first [apply ext_refl | apply ext_err | eapply ext_trans; [|apply ext_err]].
  - destruct (negb (n =? 1)%nat); [intros _; cbn [snd]; apply grew_err|].
    destruct (known_name st (t_val t)); [discriminate|]. destruct (new_ascii_var _ _ _); discriminate.
  - destruct (existsb _ _); intro H; (eapply ext_grew; [|apply IH; exact H]); [apply ext_err|apply ext_refl].
Qed.

Lemma nk_of_item_type v : mem_bytes v item_types = true -> bytes_eqb v (B"L"%string) = false ->
  bytes_eqb v (B"A"%string) = false -> nk_of_type v <> None.
Proof.
  unfold mem_bytes, item_types. cbn [existsb]. intros H HL HA. rewrite HL, HA in H. cbn [orb] in H.
  unfold nk_of_type.
  repeat match goal with
         | |- context [if bytes_eqb v ?k then _ else _] => destruct (bytes_eqb v k); [discriminate|]
         end.
  cbn [orb] in H. discriminate.
Qed.

(* the recursive calls, as the two bodies see them *)
Definition list_loud_below (rec_list : pstate -> list gval -> Z -> ires * pstate) (bound : nat) : Prop :=
  forall st acc c, toks_ok st -> (ntoks st + 1 <= bound)%nat ->
    fst (rec_list st acc c) = IStop -> grew st (snd (rec_list st acc c)).

(* once '<' and the item type are read, everything later extends that state *)
Lemma item_body_inner rec_list : list_pres rec_list -> forall st,
  typ_is (peek st) TLAB = true -> typ_is (peek (advance st)) TItemType = true ->
  ext (advance (advance st)) (snd (parse_item_body floats rec_list st)).
Proof.
  intros Hrec st Ha Hb. unfold parse_item_body. rewrite Ha, Hb. cbn [negb].
  set (st2 := advance (advance st)).
  set (szt := peek st2).
  set (S4 := if typ_is szt TItemSize then _ else _).
  assert (HS : let '(sized, lo, hi, s) := S4 in ext st2 s).
  { subst S4. destruct (typ_is szt TItemSize); [destruct (parse_size (t_val szt)); ext_ops|apply ext_refl]. }
  destruct S4 as [[[sized lo] hi] st3].
  destruct (negb sized && typ_is szt TError); [cbn [snd]; ext_ops|].
  set (V := if bytes_eqb _ _ then _ else _).
  assert (HV : let '(res, placeholder, s) := V in ext st2 s).
  { subst V. destruct (bytes_eqb (t_val (peek (advance st))) (B"L"%string)).
    { pose proof (Hrec st3 [] 0) as H. destruct (rec_list st3 [] 0) as [r s]. cbn [snd] in H. eapply ext_trans; eassumption. }
    destruct (bytes_eqb (t_val (peek (advance st))) (B"A"%string)).
    { pose proof (ext_take_values st3) as H. destruct (take_values st3) as [vs st0]. cbn [snd] in H.
      pose proof (ext_ascii_literal vs st0 (length vs) [] lo hi) as H'.
      destruct (ascii_literal st0 vs (length vs) [] lo hi) as [r s]. cbn [snd] in H'.
      eapply ext_trans; [exact HS|]. eapply ext_trans; eassumption. }
    destruct (nk_of_type _) as [nk|]; [|exact HS].
    pose proof (ext_parse_numeric floats nk st3) as H. destruct (parse_numeric floats nk st3) as [r s]. cbn [snd] in H.
    eapply ext_trans; eassumption. }
  destruct V as [[res placeholder] st4].
  destruct res as [it| |]; cbn [snd]; [|exact HV|].
  - match goal with |- context [if ?c then err st4 szt 10 else st4] => destruct c end.
    + destruct (typ_is (peek (err st4 szt 10)) TRAB); cbn [snd]; ext_ops.
    + destruct (typ_is (peek st4) TRAB); cbn [snd]; ext_ops.
  - (* recovered: the diagnostics are added to the state the panic left behind *)
    ext_ops.
Qed.

Lemma typ_is_not_eof t ty : typ_is t ty = true -> ty <> TEOF -> t_typ t <> TEOF.
Proof. intros H Hne E. apply typ_is_eq in H. congruence. Qed.

(* an item that is returned has consumed at least its '<' and its type *)
Lemma item_body_consumes rec_list : list_pres rec_list -> forall st,
  fst (parse_item_body floats rec_list st) <> None ->
  (ntoks (snd (parse_item_body floats rec_list st)) + 2 <= ntoks st)%nat.
Proof.
  intros Hrec st Hsome.
  destruct (typ_is (peek st) TLAB) eqn:Ha.
  2:{ exfalso. apply Hsome. unfold parse_item_body. rewrite Ha. reflexivity. }
  destruct (typ_is (peek (advance st)) TItemType) eqn:Hb.
  2:{ exfalso. apply Hsome. unfold parse_item_body. rewrite Ha, Hb. reflexivity. }
  pose proof (ext_ntoks _ _ (item_body_inner rec_list Hrec st Ha Hb)) as H.
  pose proof (advance_ntoks st (typ_is_not_eof _ _ Ha ltac:(discriminate))).
  pose proof (advance_ntoks (advance st) (typ_is_not_eof _ _ Hb ltac:(discriminate))). lia.
Qed.

Lemma item_body_loud rec_list : list_pres rec_list -> forall st,
  list_loud_below rec_list (ntoks st - 1) -> toks_ok st ->
  fst (parse_item_body floats rec_list st) = None -> grew st (snd (parse_item_body floats rec_list st)).
Proof.
  intros Hrec st Hloud Hok. unfold parse_item_body.
  destruct (typ_is (peek st) TLAB) eqn:Ha; cbn [negb]; [|intros _; cbn [snd]; apply grew_err].
  destruct (typ_is (peek (advance st)) TItemType) eqn:Hb; cbn [negb]; [|intros _; cbn [snd]; eapply ext_grew; [apply ext_advance|apply grew_err]].
  pose proof (advance_ntoks st (typ_is_not_eof _ _ Ha ltac:(discriminate))) as Hn1.
  pose proof (advance_ntoks (advance st) (typ_is_not_eof _ _ Hb ltac:(discriminate))) as Hn2.
  assert (Hty : mem_bytes (t_val (peek (advance st))) item_types = true).
  { assert (Hok1 : toks_ok (advance st)) by (apply (ext_toks_ok st); [apply ext_advance|exact Hok]).
    apply typ_is_eq in Hb. unfold peek in *. unfold toks_ok in Hok1. destruct (toks (advance st)) as [|t r]; [discriminate|].
    inversion Hok1 as [|? ? Ht _]; subst. apply (proj2 (proj2 Ht)). exact Hb. }
  set (st2 := advance (advance st)) in *.
  assert (H2 : ext st st2) by (subst st2; ext_ops).
  set (szt := peek st2).
  set (S4 := if typ_is szt TItemSize then _ else _).
  assert (HS : let '(sized, lo, hi, s) := S4 in ext st2 s).
  { subst S4. destruct (typ_is szt TItemSize); [destruct (parse_size (t_val szt)); ext_ops|apply ext_refl]. }
  destruct S4 as [[[sized lo] hi] st3].
  destruct (negb sized && typ_is szt TError); [intros _; cbn [snd]; eapply ext_grew; [exact H2|]; eapply ext_grew; [exact HS|apply grew_err]|].
  assert (H3 : ext st st3) by (eapply ext_trans; eassumption).
  set (V := if bytes_eqb _ _ then _ else _).
  assert (HV : let '(res, placeholder, s) := V in ext st s /\ (res = IStop -> grew st s)).
  { subst V. destruct (bytes_eqb (t_val (peek (advance st))) (B"L"%string)) eqn:EL.
    { pose proof (Hrec st3 [] 0) as H. pose proof (Hloud st3 [] 0) as H'.
      destruct (rec_list st3 [] 0) as [r s]. cbn [fst snd] in *. split; [eapply ext_trans; eassumption|].
      intro Hr. eapply ext_grew; [exact H3|]. apply H'; [apply (ext_toks_ok st); assumption| |exact Hr].
      pose proof (ext_ntoks _ _ HS). lia. }
    destruct (bytes_eqb (t_val (peek (advance st))) (B"A"%string)) eqn:EA.
    { pose proof (ext_take_values st3) as H. destruct (take_values st3) as [vs st0]. cbn [snd] in H.
      pose proof (ext_ascii_literal vs st0 (length vs) [] lo hi) as H'.
      pose proof (ascii_literal_loud vs st0 (length vs) [] lo hi) as H''.
      destruct (ascii_literal st0 vs (length vs) [] lo hi) as [r s]. cbn [fst snd] in *.
      split; [eapply ext_trans; [exact H3|]; eapply ext_trans; eassumption|].
      intro Hr. eapply ext_grew; [exact H3|]. eapply ext_grew; [exact H|]. apply H''.
      destruct r as [it| |]; try discriminate; [destruct it; try discriminate; destruct n; discriminate|reflexivity]. }
    pose proof (nk_of_item_type _ Hty EL EA) as Hnk.
    destruct (nk_of_type _) as [nk|]; [|congruence].
    pose proof (ext_parse_numeric floats nk st3) as H. pose proof (parse_numeric_loud nk st3) as H'.
    destruct (parse_numeric floats nk st3) as [r s]. cbn [fst snd] in *.
    split; [eapply ext_trans; eassumption|]. intro Hr. eapply ext_grew; [exact H3|]. apply H'. exact Hr. }
  destruct V as [[res placeholder] st4]. destruct HV as [H4 H4'].
  destruct res as [it| |]; cbn [fst snd].
  - match goal with |- context [if ?c then err st4 szt 10 else st4] => destruct c end.
    + destruct (typ_is (peek (err st4 szt 10)) TRAB); cbn [fst snd]; [discriminate|]. intros _.
      eapply ext_grew; [exact H4|]. eapply ext_grew; [apply ext_err|apply grew_err].
    + destruct (typ_is (peek st4) TRAB); cbn [fst snd]; [discriminate|]. intros _.
      eapply ext_grew; [exact H4|apply grew_err].
  - intros _. apply H4'. reflexivity.
  - intros _. eapply ext_grew; [exact H4|]. eapply grew_ext; [apply grew_err|apply ext_warn].
Qed.

Lemma list_body_loud rec_item rec_list : item_pres rec_item -> list_pres rec_list ->
  forall st acc c, toks_ok st ->
  (typ_is (peek st) TLAB = true ->
     (fst (rec_item st) = None -> grew st (snd (rec_item st))) /\
     (fst (rec_item st) <> None -> (ntoks (snd (rec_item st)) + 2 <= ntoks st)%nat)) ->
  list_loud_below rec_list (ntoks st) ->
  fst (parse_list_body rec_item rec_list st acc c) = IStop -> grew st (snd (parse_list_body rec_item rec_list st acc c)).
Proof.
  intros Hi Hl st acc c Hok Hitem Hloud. unfold parse_list_body.
  destruct (t_typ (peek st)) eqn:Et; try (intros _; cbn [snd]; apply grew_err).
  - (* '<' *)
    assert (Ha : typ_is (peek st) TLAB = true) by (unfold typ_is; rewrite Et; reflexivity).
    destruct (Hitem Ha) as [Hn Hs]. pose proof (Hi st) as He.
    destruct (rec_item st) as [[ch|] st1]; cbn [fst snd] in *; [|intros _; apply Hn; reflexivity].
    intro Hr. eapply ext_grew; [exact He|]. apply Hloud; [apply (ext_toks_ok st); assumption| |exact Hr].
    specialize (Hs ltac:(discriminate)). lia.
  - (* '>' *) destruct (new_list acc); discriminate.
  - (* a variable *)
    pose proof (advance_ntoks st ltac:(rewrite Et; discriminate)) as Hn.
    assert (Hok' : toks_ok (advance st)) by (apply (ext_toks_ok st); [apply ext_advance|exact Hok]).
    destruct (known_name (advance st) (t_val (peek st))); intro Hr.
    + eapply ext_grew; [|apply Hloud; [| |exact Hr]]; [ext_ops|apply (ext_toks_ok (advance st)); [apply ext_err|exact Hok']|].
      change (ntoks (err (advance st) (peek st) 12)) with (ntoks (advance st)). lia.
    + eapply ext_grew; [|apply Hloud; [| |exact Hr]]; [ext_ops|apply (ext_toks_ok (advance st)); [apply ext_add_name|exact Hok']|].
      change (ntoks (add_name (advance st) (t_val (peek st)))) with (ntoks (advance st)). lia.
  - (* an ellipsis *)
    pose proof (advance_ntoks st ltac:(rewrite Et; discriminate)) as Hn.
    assert (Hok' : toks_ok (advance st)) by (apply (ext_toks_ok st); [apply ext_advance|exact Hok]).
    destruct (c =? 0); [intros _; cbn [snd]; eapply ext_grew; [apply ext_advance|apply grew_err]|].
    match goal with |- context [if ?x then _ else _] => destruct x end; intro Hr.
    + eapply ext_grew; [|apply Hloud; [| |exact Hr]]; [ext_ops|apply (ext_toks_ok (advance st)); [apply ext_with_ecount|exact Hok']|].
      change (ntoks (with_ecount (advance st) (ecount (advance st) + 1))) with (ntoks (advance st)). lia.
    + eapply ext_grew; [|apply Hloud; [| |exact Hr]]; [ext_ops| |].
      * apply (ext_toks_ok (advance st)); [ext_ops|exact Hok'].
      * change (ntoks (warn (with_ecount (advance st) (ecount (advance st) + 1)) (peek st) 41)) with (ntoks (advance st)). lia.
Qed.

Lemma list_loud_below_mono rec_list a b : (a <= b)%nat -> list_loud_below rec_list b -> list_loud_below rec_list a.
Proof. intros Hab H st acc c Hok Hn. apply H; [exact Hok|lia]. Qed.

(* with at least as much fuel as tokens, a refusal always comes with a new error *)
Lemma item_list_loud : forall f,
  (forall st, toks_ok st -> (ntoks st <= f)%nat -> (1 <= f)%nat ->
     fst (parse_item floats f st) = None -> grew st (snd (parse_item floats f st))) /\
  list_loud_below (parse_list floats f) f.
Proof.
  induction f as [|f [IHi IHl]].
  - split; [intros st _ _ H; lia|intros st acc c _ H; lia].
  - split.
    + intros st Hok Hn _.
      change (parse_item floats (S f)) with (parse_item_body floats (parse_list floats f)).
      apply item_body_loud; [apply ext_parse_item_list| |exact Hok].
      apply (list_loud_below_mono _ _ f); [lia|exact IHl].
    + intros st acc c Hok Hn.
      change (parse_list floats (S f)) with (parse_list_body (parse_item floats f) (parse_list floats f)).
      apply list_body_loud; [apply ext_parse_item_list|apply ext_parse_item_list|exact Hok| |].
      * intro Ha. pose proof (advance_ntoks st (typ_is_not_eof _ _ Ha ltac:(discriminate))) as Hpos.
        split; [apply IHi; [exact Hok|lia|lia]|].
        destruct f as [|f']; [lia|].
        change (parse_item floats (S f')) with (parse_item_body floats (parse_list floats f')).
        apply item_body_consumes. apply ext_parse_item_list.
      * apply (list_loud_below_mono _ _ f); [lia|exact IHl].
Qed.

(* one message: a refusal adds an error; an acceptance consumes at least the stream/function token *)
Definition msg_outcome (st : pstate) (r : bool * pstate) : Prop :=
  ext st (snd r) /\ (fst r = false -> (nerrs st < nerrs (snd r))%nat) /\ (fst r = true -> (ntoks (snd r) + 1 <= ntoks st)%nat).

Lemma fail_case st st' : grew st st' -> msg_outcome st (false, st').
Proof. intros [H1 H2]. split; [exact H1|]. split; [intros _; exact H2|discriminate]. Qed.
Lemma ok_case st st' : ext st st' -> (ntoks st' + 1 <= ntoks st)%nat -> msg_outcome st (true, st').
Proof. intros H1 H2. split; [exact H1|]. split; [discriminate|intros _; exact H2]. Qed.

Theorem parse_message_progress st : pinv st -> msg_outcome st (parse_message floats st).
Proof.
  intro Hinv. unfold parse_message.
  set (st1 := reset_msg_scope st).
  destruct (typ_is (peek st1) TStreamFunction) eqn:Esf; cbn [negb].
  2:{ apply fail_case. eapply ext_grew; [apply ext_reset|apply grew_err]. }
  set (t := peek st1). set (st2 := advance st1).
  assert (Hn2 : (ntoks st2 + 1 = ntoks st)%nat).
  { subst st2. rewrite (advance_ntoks st1 (typ_is_not_eof _ _ Esf ltac:(discriminate))). reflexivity. }
  assert (H2 : ext st st2) by (subst st2 st1; ext_ops).
  destruct (split_sf (t_val t)) as [sd fd]. destruct (atoi sd) as [stream0 e1]. destruct (atoi fd) as [function0 e2].
  set (A := if (0 <=? stream0) && (stream0 <? 128) then _ else _).
  assert (HA : let '(stream, s) := A in 0 <= stream < 128 /\ ext st2 s).
  { subst A. destruct ((0 <=? stream0) && (stream0 <? 128)) eqn:E; [|split; [lia|ext_ops]].
    apply andb_true_iff in E as [Ea Eb]. apply Z.leb_le in Ea. apply Z.ltb_lt in Eb. split; [lia|apply ext_refl]. }
  destruct A as [stream st3]. destruct HA as [Hstream H3].
  set (Bf := if (0 <=? function0) && (function0 <? 256) then _ else _).
  assert (HB : let '(function, s) := Bf in 0 <= function < 256 /\ ext st2 s).
  { subst Bf. destruct ((0 <=? function0) && (function0 <? 256)) eqn:E; [|split; [lia|ext_ops]].
    apply andb_true_iff in E as [Ea Eb]. apply Z.leb_le in Ea. apply Z.ltb_lt in Eb. split; [lia|exact H3]. }
  destruct Bf as [function st4]. destruct HB as [Hfunction H4].
  set (w := peek st4).
  set (W := if typ_is w TWaitBit then _ else _).
  assert (HW : let '(wbit, s) := W in (wbit = 0 \/ (wbit = 1 /\ function mod 2 <> 0) \/ wbit = 2) /\ ext st2 s).
  { subst W. destruct (typ_is w TWaitBit); [|split; [left; reflexivity|exact H4]].
    destruct (bytes_eqb (t_val w) [x57]).
    - destruct (Z.eqb_spec (function mod 2) 0); (split; [|ext_ops]); [left; reflexivity|right; left; split; [reflexivity|assumption]].
    - destruct (bytes_eqb (t_val w) (B"[W]"%string)); (split; [|ext_ops]); [right; right; reflexivity|left; reflexivity]. }
  destruct W as [wbit st5]. destruct HW as [Hwbit H5].
  assert (Hp5 : pinv st5) by (apply (pinv_ext st); [exact Hinv|eapply ext_trans; eassumption]).
  set (D := if typ_is (peek st5) TDirection then _ else _).
  assert (HD : let '(dir, s) := D in dir_ok dir = true /\ ext st2 s).
  { subst D. destruct (typ_is (peek st5) TDirection) eqn:E; [|split; [reflexivity|ext_ops]].
    split; [|ext_ops]. apply typ_is_eq in E. apply (proj1 (peek_ok st5 Hp5)). exact E. }
  destruct D as [dir st6]. destruct HD as [Hdir H6].
  assert (Hp6 : pinv st6) by (apply (pinv_ext st); [exact Hinv|eapply ext_trans; eassumption]).
  set (N := if typ_is (peek st6) TMsgName then _ else _).
  assert (HN : let '(name, s) := N in has_space_rune name = false /\ ext st2 s).
  { subst N. destruct (typ_is (peek st6) TMsgName) eqn:E; [|split; [reflexivity|exact H6]].
    split; [|ext_ops]. apply typ_is_eq in E. apply (proj1 (proj2 (peek_ok st6 Hp6))). exact E. }
  destruct N as [name st7]. destruct HN as [Hname H7].
  assert (Hp7 : pinv st7) by (apply (pinv_ext st); [exact Hinv|eapply ext_trans; eassumption]).
  set (I := if typ_is (peek st7) TMsgEnd then _ else _).
  assert (HI : let '(it, s) := I in ext st2 s /\ (it = None -> grew st s)).
  { subst I. destruct (typ_is (peek st7) TMsgEnd); [split; [exact H7|discriminate]|].
    destruct (typ_is (peek st7) TLAB).
    2:{ split; [ext_ops|]. intros _. eapply ext_grew; [eapply ext_trans; [exact H2|exact H7]|apply grew_err]. }
    pose proof (proj1 (ext_parse_item_list floats (S (length (toks st7)))) st7) as H.
    pose proof (proj1 (item_list_loud (S (length (toks st7)))) st7 (proj2 Hp7) ltac:(unfold ntoks; lia) ltac:(lia)) as H'.
    destruct (parse_item floats (S (length (toks st7))) st7) as [it s]. cbn [fst snd] in *.
    split; [eapply ext_trans; eassumption|]. intros ->. eapply ext_grew; [eapply ext_trans; [exact H2|exact H7]|apply H'; reflexivity]. }
  destruct I as [it st8]. destruct HI as [H8 H8'].
  destruct it as [item|]; [|apply fail_case; apply H8'; reflexivity].
  destruct (typ_is (peek st8) TMsgEnd); cbn [negb].
  2:{ apply fail_case. eapply ext_grew; [eapply ext_trans; [exact H2|exact H8]|apply grew_err]. }
  destruct (new_data_message_some name stream function wbit dir item Hname Hstream Hfunction Hwbit Hdir) as [m Em].
  rewrite Em.
  assert (Hx : ext st2 (add_msg (advance st8) m)) by ext_ops.
  apply ok_case; [eapply ext_trans; eassumption|]. pose proof (ext_ntoks _ _ Hx). lia.
Qed.

Lemma parse_loop_ext : forall f st, pinv st -> ext st (parse_loop floats f st).
Proof.
  induction f as [|f IH]; intros st Hinv; [apply ext_refl|]. cbn [parse_loop].
  destruct (typ_is (peek st) TEOF); [apply ext_refl|].
  pose proof (parse_message_pinv floats st Hinv) as Hp. destruct (parse_message_progress st Hinv) as [He _].
  destruct (parse_message floats st) as [ok st1]. cbn [fst snd] in *.
  destruct ok; [eapply ext_trans; [exact He|apply IH; exact Hp]|exact He].
Qed.

(* the loop: if no error has been added, everything up to EOF has been consumed *)
Theorem parse_loop_complete : forall f st, pinv st -> (ntoks st < f)%nat ->
  nerrs (parse_loop floats f st) = nerrs st -> typ_is (peek (parse_loop floats f st)) TEOF = true.
Proof.
  induction f as [|f IH]; intros st Hinv Hf; [lia|]. cbn [parse_loop].
  destruct (typ_is (peek st) TEOF) eqn:E; [intros _; exact E|].
  pose proof (parse_message_pinv floats st Hinv) as Hp. destruct (parse_message_progress st Hinv) as [He [Hfail Hok]].
  destruct (parse_message floats st) as [ok st1]. cbn [fst snd] in *. destruct ok.
  - specialize (Hok eq_refl). intro Hn. apply IH; [exact Hp|lia|].
    pose proof (ext_nerrs _ _ He). pose proof (ext_nerrs _ _ (parse_loop_ext f st1 Hp)). lia.
  - intro Hn. specialize (Hfail eq_refl). lia.
Qed.

End Loud.

(* the state sml.Parse ends in *)
Definition sml_final (alnum : list Z) (floats : float_oracle) (input : bytes) : pstate :=
  let ts := filter (fun t => negb (typ_is t TComment)) (lex_all alnum input) in
  parse_loop floats (S (length ts))
    {| toks := ts; names := []; ecount := 0; errs := []; warns := []; msgs := []; crashed := false |}.

Lemma sml_start_pinv alnum input :
  pinv {| toks := filter (fun t => negb (typ_is t TComment)) (lex_all alnum input);
          names := []; ecount := 0; errs := []; warns := []; msgs := []; crashed := false |}.
Proof.
  split; [reflexivity|]. cbn [toks].
  pose proof (lex_all_tokens_ok alnum input) as H. induction H as [|t l Ht _ IH]; [constructor|].
  cbn [filter]. destruct (negb (typ_is t TComment)); [constructor; assumption|exact IH].
Qed.

(* no error reported: the parser has read every token up to EOF, so every
   message of the input is among the returned ones *)
Theorem no_silent_stop alnum floats input :
  r_errs (sml_parse alnum floats input) = [] -> typ_is (peek (sml_final alnum floats input)) TEOF = true.
Proof.
  intro H. unfold sml_final. apply parse_loop_complete; [apply sml_start_pinv|unfold ntoks; cbn [toks]; lia|].
  unfold sml_parse in H. cbn [r_errs] in H. apply map_eq_nil in H. unfold nerrs. cbn [errs].
  unfold sml_final in *. rewrite H. reflexivity.
Qed.

(* sml.Parse never reaches the panic outside parseDataItem's recover *)
Theorem no_crash alnum floats input : r_crashed (sml_parse alnum floats input) = false.
Proof.
  unfold sml_parse. cbn [r_crashed].
  match goal with |- crashed (parse_loop _ ?f ?s) = false => apply (parse_loop_pinv floats f s) end.
  split; [reflexivity|]. cbn [toks].
  pose proof (lex_all_tokens_ok alnum input) as H. induction H as [|t l Ht _ IH]; [constructor|].
  cbn [filter]. destruct (negb (typ_is t TComment)); [constructor; assumption|exact IH].
Qed.
