(* FloatProofs.v — the modelled float conversions keep finite values finite:
   what NewFloatNode accepts is a finite pattern of the item's width. *)
From Secs Require Import Ast.
Open Scope Z_scope.

Lemma round_shift_bounds m sh : 0 <= m -> 1 <= sh ->
  m / 2 ^ sh <= round_shift m sh <= m / 2 ^ sh + 1 /\
  (m mod 2 ^ sh = 0 -> round_shift m sh = m / 2 ^ sh).
Proof.
  intros Hm Hsh. unfold round_shift.
  assert (Hp : 0 < 2 ^ (sh - 1)) by (apply Z.pow_pos_nonneg; lia).
  assert (E : 2 ^ sh = 2 * 2 ^ (sh - 1)) by (rewrite <- Z.pow_succ_r by lia; f_equal; lia).
  set (q := m / 2 ^ sh). set (r := m mod 2 ^ sh). set (h := 2 ^ (sh - 1)) in *.
  destruct (Z.ltb_spec r h); [split; [lia|reflexivity]|].
  destruct (Z.ltb_spec h r); [split; [lia|intro; lia]|].
  destruct (Z.even q); split; try lia; intro; lia.
Qed.

Definition is_u64 (b : Z) : Prop := 0 <= b < 18446744073709551616.
Definition is_u32 (b : Z) : Prop := 0 <= b < 4294967296.

Lemma f32_finite_of_small x : 0 <= x < 2139095040 -> f32_finite x = true.   (* < 255 * 2^23 *)
Proof. intro H. unfold f32_finite, f32_exp. destruct (Z.eqb_spec ((x / 8388608) mod 256) 255); [lia|reflexivity]. Qed.

Lemma f32_finite_signed s mag : (s = 0 \/ s = 1) -> 0 <= mag < 2139095040 -> f32_finite (s * 2147483648 + mag) = true.
Proof.
  intros Hs H. unfold f32_finite, f32_exp.
  destruct (Z.eqb_spec (((s * 2147483648 + mag) / 8388608) mod 256) 255) as [E|]; [|reflexivity].
  exfalso. destruct Hs; subst s; lia.
Qed.

(* float32(v) of a finite float64 v with |v| <= MaxFloat32 is finite *)
Theorem f64_to_f32_finite b : is_u64 b -> f64_finite b = true -> abs_le_maxf32 b = true -> f32_finite (f64_to_f32 b) = true.
Proof.
  unfold is_u64, f64_finite, abs_le_maxf32, max_f32_as_f64, f64_to_f32, f64_exp, f64_frac.
  intros Hb Hfin Habs. apply Z.leb_le in Habs.
  set (s := b / 9223372036854775808). set (e := (b / 4503599627370496) mod 2048) in *.
  set (f := b mod 4503599627370496).
  assert (Hs : s = 0 \/ s = 1) by (unfold s; lia).
  assert (Hf : 0 <= f < 4503599627370496) by (unfold f; lia).
  assert (He : 0 <= e <= 1150) by (unfold e; lia).
  assert (Hef : e = 1150 -> f <= 4503599090499584) by (unfold e, f; lia).
  destruct (Z.eqb_spec e 2047); [lia|].
  destruct (Z.ltb_spec 0 (e - 1023 + 127)).
  - destruct (round_shift_bounds (4503599627370496 + f) 29) as [[Hlo Hhi] Hex]; [lia|lia|].
    change (2 ^ 29) with 536870912 in *.
    set (m := round_shift (4503599627370496 + f) 29) in *.
    assert (Hm : 8388608 <= m <= 16777216) by lia.
    assert (Hmag : (e - 1023 + 127 - 1) * 8388608 + m < 2139095040).
    { destruct (Z.eq_dec e 1150) as [E|E].
      - specialize (Hef E). assert (m <= 16777215); [|lia].
        destruct (Z.eq_dec ((4503599627370496 + f) / 536870912) 16777215) as [Eq|Eq].
        + assert ((4503599627370496 + f) mod 536870912 = 0) by lia. rewrite Hex by assumption. lia.
        + lia.
      - lia. }
    destruct (Z.leb_spec (255 * 8388608) ((e - 1023 + 127 - 1) * 8388608 + m)); [lia|].
    apply f32_finite_signed; [exact Hs|lia].
  - destruct (Z.eqb_spec e 0).
    + replace (s * 2147483648) with (s * 2147483648 + 0) by lia. apply f32_finite_signed; [exact Hs|lia].
    + destruct (Z.ltb_spec 80 (29 + (1 - (e - 1023 + 127)))).
      * replace (s * 2147483648) with (s * 2147483648 + 0) by lia. apply f32_finite_signed; [exact Hs|lia].
      * set (sh := 29 + (1 - (e - 1023 + 127))) in *.
        destruct (round_shift_bounds (4503599627370496 + f) sh) as [[Hlo Hhi] _]; [lia|lia|].
        assert (Hq : (4503599627370496 + f) / 2 ^ sh <= 8388608).
        { assert (30 <= sh) by lia.
          assert (2 ^ 30 <= 2 ^ sh) by (apply Z.pow_le_mono_r; lia).
          change (2 ^ 30) with 1073741824 in *.
          assert (0 < 2 ^ sh) by lia.
          apply Z.div_le_upper_bound; [lia|]. nia. }
        assert (0 <= (4503599627370496 + f) / 2 ^ sh) by (apply Z.div_pos; [lia|apply Z.pow_pos_nonneg; lia]).
        apply f32_finite_signed; [exact Hs|lia].
Qed.

Theorem f32_to_f64_finite b : is_u32 b -> f32_finite b = true -> f64_finite (f32_to_f64 b) = true.
Proof.
  unfold is_u32, f32_finite, f64_finite, f32_to_f64, f32_exp, f32_frac, f64_exp. intros Hb Hfin.
  set (s := b / 2147483648). set (e := (b / 8388608) mod 256) in *. set (f := b mod 8388608).
  assert (Hs : s = 0 \/ s = 1) by (unfold s; lia).
  assert (Hf : 0 <= f < 8388608) by (unfold f; lia).
  assert (He : 0 <= e < 255) by (unfold e in *; destruct (Z.eqb_spec ((b / 8388608) mod 256) 255); [discriminate|lia]).
  destruct (Z.eqb_spec e 255); [lia|].
  destruct (Z.eqb_spec e 0).
  - destruct (Z.eqb_spec f 0).
    + destruct Hs; subst s; rewrite H; reflexivity.
    + assert (Hl : 0 <= Z.log2 f <= 22).
      { split; [apply Z.log2_nonneg|]. assert (Z.log2 f < 23); [|lia]. apply Z.log2_lt_pow2; lia. }
      assert (Hpow : 2 ^ Z.log2 f <= f < 2 ^ (Z.log2 f + 1)) by (apply Z.log2_spec; lia).
      set (l := Z.log2 f) in *.
      assert (Hm : 0 <= (f - 2 ^ l) * 2 ^ (52 - l) < 4503599627370496).
      { assert (0 < 2 ^ (52 - l)) by (apply Z.pow_pos_nonneg; lia).
        assert (2 ^ (l + 1) = 2 * 2 ^ l) by (replace (l + 1) with (Z.succ l) by lia; rewrite Z.pow_succ_r by lia; reflexivity).
        assert (2 ^ l * 2 ^ (52 - l) = 4503599627370496) by (rewrite <- Z.pow_add_r by lia; replace (l + (52 - l)) with 52 by lia; reflexivity).
        split; [nia|nia]. }
      destruct (Z.eqb_spec (((s * 9223372036854775808 + (l - 149 + 1023) * 4503599627370496 + (f - 2 ^ l) * 2 ^ (52 - l)) / 4503599627370496) mod 2048) 2047) as [E|]; [|reflexivity].
      exfalso. destruct Hs; subst s; lia.
  - destruct (Z.eqb_spec (((s * 9223372036854775808 + (e - 127 + 1023) * 4503599627370496 + f * 536870912) / 4503599627370496) mod 2048) 2047) as [E|]; [|reflexivity].
    exfalso. destruct Hs; subst s; lia.
Qed.

Theorem int_to_f64_finite z : - 18446744073709551616 < z < 18446744073709551616 -> f64_finite (int_to_f64 z) = true.
Proof.
  intro Hz. unfold int_to_f64. destruct (Z.eqb_spec z 0); [reflexivity|].
  set (s := if z <? 0 then 9223372036854775808 else 0).
  assert (Hs : s = 0 \/ s = 9223372036854775808) by (unfold s; destruct (z <? 0); auto).
  set (a := Z.abs z). assert (Ha : 0 < a < 18446744073709551616) by (unfold a; lia).
  assert (Hl : 0 <= Z.log2 a <= 63).
  { split; [apply Z.log2_nonneg|]. assert (Z.log2 a < 64); [|lia]. apply Z.log2_lt_pow2; [lia|]. change (2 ^ 64) with 18446744073709551616. lia. }
  assert (Hpow : 2 ^ Z.log2 a <= a < 2 ^ (Z.log2 a + 1)) by (apply Z.log2_spec; lia).
  set (l := Z.log2 a) in *.
  assert (H2l : 2 ^ (l + 1) = 2 * 2 ^ l) by (replace (l + 1) with (Z.succ l) by lia; rewrite Z.pow_succ_r by lia; reflexivity).
  unfold f64_finite, f64_exp.
  destruct (Z.leb_spec l 52).
  - assert (Hm : 0 <= (a - 2 ^ l) * 2 ^ (52 - l) < 4503599627370496).
    { assert (0 < 2 ^ (52 - l)) by (apply Z.pow_pos_nonneg; lia).
      assert (2 ^ l * 2 ^ (52 - l) = 4503599627370496) by (rewrite <- Z.pow_add_r by lia; replace (l + (52 - l)) with 52 by lia; reflexivity).
      split; nia. }
    destruct (Z.eqb_spec (((s + (l + 1023) * 4503599627370496 + (a - 2 ^ l) * 2 ^ (52 - l)) / 4503599627370496) mod 2048) 2047) as [E|]; [|reflexivity].
    exfalso. destruct Hs as [->| ->]; lia.
  - destruct (round_shift_bounds a (l - 52)) as [[Hlo Hhi] _]; [lia|lia|].
    assert (Hq : 4503599627370496 <= a / 2 ^ (l - 52) <= 9007199254740991).
    { assert (0 < 2 ^ (l - 52)) by (apply Z.pow_pos_nonneg; lia).
      assert (2 ^ 52 * 2 ^ (l - 52) = 2 ^ l) by (rewrite <- Z.pow_add_r by lia; f_equal; lia).
      change (2 ^ 52) with 4503599627370496 in *.
      split; [apply Z.div_le_lower_bound; lia|].
      assert (a / 2 ^ (l - 52) < 9007199254740992); [|lia]. apply Z.div_lt_upper_bound; [lia|]. nia. }
    set (m := round_shift a (l - 52)) in *.
    destruct (Z.eqb_spec (((s + (l + 1023 - 1) * 4503599627370496 + m) / 4503599627370496) mod 2048) 2047) as [E|]; [|reflexivity].
    exfalso. destruct Hs as [->| ->]; lia.
Qed.

Lemma int_to_f64_u64 z : - 18446744073709551616 < z < 18446744073709551616 -> is_u64 (int_to_f64 z).
Proof.
  intro Hz. unfold is_u64, int_to_f64. destruct (Z.eqb_spec z 0); [lia|].
  set (s := if z <? 0 then 9223372036854775808 else 0).
  assert (Hs : s = 0 \/ s = 9223372036854775808) by (unfold s; destruct (z <? 0); auto).
  set (a := Z.abs z). assert (Ha : 0 < a < 18446744073709551616) by (unfold a; lia).
  assert (Hl : 0 <= Z.log2 a <= 63).
  { split; [apply Z.log2_nonneg|]. assert (Z.log2 a < 64); [|lia]. apply Z.log2_lt_pow2; [lia|]. change (2 ^ 64) with 18446744073709551616. lia. }
  assert (Hpow : 2 ^ Z.log2 a <= a < 2 ^ (Z.log2 a + 1)) by (apply Z.log2_spec; lia).
  set (l := Z.log2 a) in *.
  assert (H2l : 2 ^ (l + 1) = 2 * 2 ^ l) by (replace (l + 1) with (Z.succ l) by lia; rewrite Z.pow_succ_r by lia; reflexivity).
  destruct (Z.leb_spec l 52).
  - assert (Hm : 0 <= (a - 2 ^ l) * 2 ^ (52 - l) < 4503599627370496).
    { assert (0 < 2 ^ (52 - l)) by (apply Z.pow_pos_nonneg; lia).
      assert (2 ^ l * 2 ^ (52 - l) = 4503599627370496) by (rewrite <- Z.pow_add_r by lia; replace (l + (52 - l)) with 52 by lia; reflexivity).
      split; nia. }
    destruct Hs as [->| ->]; lia.
  - destruct (round_shift_bounds a (l - 52)) as [[Hlo Hhi] _]; [lia|lia|].
    assert (Hq : 4503599627370496 <= a / 2 ^ (l - 52) <= 9007199254740991).
    { assert (0 < 2 ^ (l - 52)) by (apply Z.pow_pos_nonneg; lia).
      assert (2 ^ 52 * 2 ^ (l - 52) = 2 ^ l) by (rewrite <- Z.pow_add_r by lia; f_equal; lia).
      change (2 ^ 52) with 4503599627370496 in *.
      split; [apply Z.div_le_lower_bound; lia|].
      assert (a / 2 ^ (l - 52) < 9007199254740992); [|lia]. apply Z.div_lt_upper_bound; [lia|]. nia. }
    destruct Hs as [->| ->]; lia.
Qed.
