(* TokenTrees.v — the parser rebuilds whole item trees from the tokens of their
   printed form (C04, token level): lists, list variables, value items of the
   integer / unsigned / binary / boolean formats, ASCII items and ASCII variables. *)
From Secs Require Import Ast FloatProofs Fill Msg WireSpec WireLemmas WireValues HeaderProofs WireEnc WireDec MsgProofs AstProofs FillProofs FillCompose.
From Secs Require Import Utf8 Lexer Parser SmlNumbers SmlProofs TokenProofs AsciiTokens.
Open Scope Z_scope.

Section Trees.
Variable floats : float_oracle.

(* ---------- whole item trees ---------- *)

Definition gv (c : item) : gval := match c with IVar n => GStr n | _ => GItem c end.
Definition cvars (c : item) : list bytes := match c with IVar n => [n] | IEmpty => [[]] | _ => vars c end.

(* the tokens of the printed form of an item tree *)
Fixpoint item_tokens (t : item) : list token :=
  match t with
  | IList xs =>
    [mk TLAB [x3c] 0; mk TItemType (B"L"%string) 0] ++
    (if existsb is_list_var xs then []
     else [mk TItemSize ([x5b] ++ fmt_unsigned 10 (Z.of_nat (length xs)) ++ [x5d]) 0]) ++
    flat_map (fun c => match c with IVar n => [mk TVariable n 0] | _ => item_tokens c end) xs ++
    [mk TRAB [x3e] 0]
  | ILeaf k w ys => leaf_tokens k w ys
  | IAscii v => ascii_tokens v
  | IAsciiVar n mn mx => ascii_var_tokens n mn mx
  | _ => []
  end.
Definition child_tokens (c : item) : list token := match c with IVar n => [mk TVariable n 0] | _ => item_tokens c end.

(* item trees made of lists, plain list variables, integer / unsigned / binary /
   boolean value items, ASCII items and ASCII variables, every node as its
   constructor accepts it *)
Fixpoint printable (t : item) : Prop :=
  match t with
  | IList xs =>
    new_list (map gv xs) = Some (IList xs) /\
    (fix go (cs : list item) : Prop :=
       match cs with
       | [] => True
       | c :: r => match c with
                   | IVar n => is_ellipsis n = false
                   | IList _ | ILeaf _ _ _ | IAscii _ | IAsciiVar _ _ _ => printable c
                   | _ => False
                   end /\ go r
       end) xs
  | ILeaf k w ys =>
    k <> KFloat /\ fmt_ok k w /\ Forall (slot_built k w) ys /\ size_ok (size_typ k w) (length ys) = true /\
    width_okb k w = true /\ forallb (val_okb k w) ys = true /\ names_ok ys = true
  | IAscii v => new_ascii v = Some (IAscii v)
  | IAsciiVar n mn mx => new_ascii_var n mn mx = Some (IAsciiVar n mn mx) /\ mn < two63 /\ mx < two63
  | _ => False
  end.

Definition child_ok (c : item) : Prop :=
  match c with
  | IVar n => is_ellipsis n = false
  | IList _ | ILeaf _ _ _ | IAscii _ | IAsciiVar _ _ _ => printable c
  | _ => False
  end.

Lemma printable_children xs : printable (IList xs) -> Forall child_ok xs.
Proof.
  cbn [printable]. intros [_ H]. induction xs as [|c r IH]; [constructor|]. destruct H as [Hc Hr].
  constructor; [exact Hc|apply IH; exact Hr].
Qed.

Lemma new_list_nodupb args xs : new_list args = Some (IList xs) -> nodupb (vars (IList xs)) = true.
Proof.
  unfold new_list. destruct (negb _); [discriminate|]. destruct (map_opt list_arg args) as [ys|]; [|discriminate].
  destruct (nodupb (direct_vars ys) && list_vars_ok ys && nodupb (vars (IList ys))) eqn:E; [|discriminate].
  intro H; inversion H; subst. apply andb_true_iff in E as [_ E]. exact E.
Qed.

Lemma nodupb_app a : forall b, nodupb (a ++ b) = true ->
  nodupb b = true /\ forall n, In n b -> existsb (bytes_eqb n) a = false.
Proof.
  induction a as [|x a IH]; intros b H; [split; [exact H|reflexivity]|].
  cbn [app nodupb] in H. apply andb_true_iff in H as [Hx Hr]. apply negb_true_iff in Hx.
  destruct (IH b Hr) as [Hb Hd]. split; [exact Hb|]. intros n Hn. cbn [existsb]. rewrite (Hd n Hn), orb_false_r.
  destruct (bytes_eqb n x) eqn:E; [|reflexivity]. apply bytes_eqb_spec in E. subst x. exfalso.
  rewrite <- not_true_iff_false in Hx. apply Hx. apply existsb_exists. exists n. split; [apply in_or_app; right; exact Hn|apply bytes_eqb_refl].
Qed.

Lemma names_char_trans a b c x y : names_char a b x -> names_char b c y -> names_char a c (x ++ y).
Proof. intros H1 H2 m. rewrite (H2 m), (H1 m), existsb_app, orb_assoc. reflexivity. Qed.

Lemma child_first_token c : child_ok c -> (forall n, c <> IVar n) -> exists tl, item_tokens c = mk TLAB [x3c] 0 :: tl.
Proof.
  destruct c as [xs|n|k w ys|v|n mn mx|]; cbn [child_ok]; intros H Hn; try contradiction; try (eexists; reflexivity).
  exfalso. apply (Hn n). reflexivity.
Qed.

Definition item_goal (f : nat) : Prop := forall t st rest,
  printable t -> (length (item_tokens t) <= f)%nat ->
  (forall n, In n (vars t) -> known_name st n = false) ->
  toks st = item_tokens t ++ rest ->
  exists st', parse_item floats f st = (Some t, st') /\ toks st' = rest /\ errs st' = errs st /\ warns st' = warns st /\
              msgs st' = msgs st /\ names_char st st' (vars t).

Definition list_goal (f : nat) : Prop := forall cs st acc count rest,
  Forall child_ok cs -> nodupb (flat_map cvars cs) = true ->
  (length (flat_map child_tokens cs) + 1 <= f)%nat ->
  (forall n, In n (flat_map cvars cs) -> known_name st n = false) ->
  toks st = flat_map child_tokens cs ++ mk TRAB [x3e] 0 :: rest ->
  exists st', parse_list floats f st acc count =
                (match new_list (acc ++ map gv cs) with Some l => IOk l | None => IPanic end, st') /\
              toks st' = mk TRAB [x3e] 0 :: rest /\ errs st' = errs st /\ warns st' = warns st /\
              msgs st' = msgs st /\ names_char st st' (flat_map cvars cs).

Lemma list_step f : item_goal f -> list_goal f -> list_goal (S f).
Proof.
  intros HI HL cs st acc count rest Hok Hnd Hlen Hfresh Ht.
  change (parse_list floats (S f)) with (parse_list_body (parse_item floats f) (parse_list floats f)).
  destruct cs as [|c cs].
  - (* '>' *)
    cbn [flat_map app] in Ht. unfold parse_list_body, peek. rewrite Ht. cbn [t_typ mk]. rewrite app_nil_r.
    exists st. repeat split; try assumption. apply names_char_refl.
  - inversion Hok as [|? ? Hc Hcs]; subst. cbn [flat_map] in Ht, Hnd, Hlen, Hfresh. rewrite app_length in Hlen.
    destruct (nodupb_app _ _ Hnd) as [Hnd' Hdisj].
    destruct (match c with IVar n => true | _ => false end) eqn:Eisvar.
    + (* a list variable *)
      destruct c as [xs|n|k w ys|v|n mn mx|]; try discriminate Eisvar. cbn [child_ok] in Hc.
      cbn [child_tokens app] in Ht, Hlen. unfold parse_list_body, peek. rewrite Ht. cbn [t_typ t_val mk].
      unfold advance at 1 2 3. cbn [toks]. rewrite Ht. cbn [tl].
      set (st0 := {| toks := flat_map child_tokens cs ++ mk TRAB [x3e] 0 :: rest; names := names st; ecount := ecount st;
                     errs := errs st; warns := warns st; msgs := msgs st; crashed := crashed st |}).
      assert (Hk : known_name st0 n = false) by (apply (Hfresh n); left; reflexivity).
      rewrite Hk.
      destruct (HL cs (add_name st0 n) (acc ++ [GStr n]) (count + 1) rest Hcs Hnd' ltac:(cbn [length] in Hlen; lia)) as [st' [E2 [T2 [E2e [E2w [E2m N2]]]]]].
      { intros m Hm. subst st0. unfold known_name, add_name. cbn [names existsb].
        pose proof (Hfresh m (or_intror Hm)) as Hf. unfold known_name in Hf. rewrite Hf, orb_false_r.
        pose proof (Hdisj m Hm) as Hd. cbn [cvars existsb] in Hd. rewrite orb_false_r in Hd. exact Hd. }
      { reflexivity. }
      rewrite E2. rewrite <- app_assoc. cbn [app map gv]. exists st'. repeat split; try assumption.
      intro m. rewrite (N2 m). subst st0. unfold known_name, add_name. cbn [names existsb flat_map cvars app].
      destruct (bytes_eqb m n); destruct (existsb (bytes_eqb m) (names st)); destruct (existsb (bytes_eqb m) (flat_map cvars cs)); reflexivity.
    + (* an item: a nested list, a value item, an ASCII item or variable *)
      assert (Hnv : forall n, c <> IVar n) by (intros n E; subst c; discriminate Eisvar).
      assert (Hp : printable c) by (destruct c; cbn [child_ok] in Hc; try contradiction; try discriminate Eisvar; exact Hc).
      assert (Ect : child_tokens c = item_tokens c) by (destruct c; try reflexivity; discriminate Eisvar).
      assert (Egv : gv c = GItem c) by (destruct c; try reflexivity; discriminate Eisvar).
      assert (Ecv : cvars c = vars c) by (destruct c; try reflexivity; try discriminate Eisvar; cbn [child_ok] in Hc; contradiction).
      rewrite Ect in Ht, Hlen. cbn [flat_map]. rewrite Ecv in *. rewrite <- app_assoc in Ht.
      destruct (HI c st (flat_map child_tokens cs ++ mk TRAB [x3e] 0 :: rest) Hp ltac:(lia)
                  ltac:(intros n Hn; apply Hfresh; apply in_or_app; left; exact Hn) Ht) as [st1 [E1 [T1 [E1e [E1w [E1m N1]]]]]].
      destruct (child_first_token c Hc Hnv) as [tl0 Etl].
      unfold parse_list_body, peek. rewrite Ht, Etl. cbn [app t_typ mk]. rewrite E1.
      assert (Hlen' : (length (flat_map child_tokens cs) + 1 <= f)%nat) by (rewrite Etl in Hlen; cbn [length] in Hlen; lia).
      destruct (HL cs st1 (acc ++ [GItem c]) (count + 1) rest Hcs Hnd' Hlen') as [st' [E2 [T2 [E2e [E2w [E2m N2]]]]]].
      { intros n Hn. rewrite (N1 n), (Hfresh n) by (apply in_or_app; right; exact Hn). cbn [orb]. apply Hdisj. exact Hn. }
      { exact T1. }
      rewrite E2. rewrite <- app_assoc. cbn [app map]. rewrite Egv. exists st'. repeat split; try congruence.
      apply (names_char_trans st st1 st'); assumption.
Qed.

Lemma new_list_length args xs : new_list args = Some (IList xs) -> 0 <= Z.of_nat (length args) < two63.
Proof.
  unfold new_list. destruct (negb (size_ok (B"list"%string) (length args))) eqn:E; [discriminate|]. intros _.
  apply negb_false_iff in E. unfold size_ok in E. apply negb_true_iff in E. unfold data_byte_length, MAX_BYTE_SIZE in E.
  change (lookup (B"list"%string) byte_per_value) with 1 in E. rewrite Z.gtb_ltb in E. apply Z.ltb_ge in E.
  unfold two63. lia.
Qed.

Lemma first_child_token cs rest : Forall child_ok cs -> cs <> [] ->
  exists t tl, flat_map child_tokens cs ++ rest = t :: tl /\ (t_typ t = TVariable \/ t_typ t = TLAB).
Proof.
  intros H Hne. destruct cs as [|c cs]; [congruence|]. inversion H as [|? ? Hc _]; subst.
  destruct c as [xs|n|k w ys|v|n mn mx|]; cbn [child_ok] in Hc; try contradiction;
    cbn [flat_map child_tokens item_tokens leaf_tokens ascii_tokens ascii_var_tokens app];
    eexists; eexists; (split; [reflexivity|]); first [right; reflexivity|left; reflexivity].
Qed.

Lemma item_step f : list_goal f -> item_goal (S f).
Proof.
  intros HL t st rest Hp Hlen Hfresh Ht.
  change (parse_item floats (S f)) with (parse_item_body floats (parse_list floats f)).
  destruct t as [xs|n|k w ys|v|n mn mx|]; cbn [printable] in Hp; try contradiction.
  2:{ destruct Hp as (Hk & Hf & Hb & Hs & Hw & Hv & Hn).
      apply (leaf_item_parses_back floats (parse_list floats f) k w ys st rest Hk Hf Hb Hs Hw Hv Hn Hfresh Ht). }
  2:{ apply (ascii_item_parses_back floats (parse_list floats f) v st rest Hp Ht). }
  2:{ destruct Hp as (Hnew & Hmn & Hmx).
      apply (ascii_var_parses_back floats (parse_list floats f) n mn mx st rest Hnew Hmn Hmx); [apply Hfresh; left; reflexivity|exact Ht]. }
  pose proof (printable_children xs Hp) as Hch. destruct Hp as [Hnew _].
  pose proof (new_list_nodupb _ _ Hnew) as Hnd. change (vars (IList xs)) with (flat_map cvars xs) in Hnd, Hfresh |- *.
  pose proof (new_list_length _ _ Hnew) as Hll. rewrite map_length in Hll.
  cbn [item_tokens] in Ht, Hlen.
  change (flat_map (fun c => match c with IVar n => [mk TVariable n 0] | _ => item_tokens c end) xs) with (flat_map child_tokens xs) in Ht, Hlen.
  assert (Hcl : (length (flat_map child_tokens xs) + 1 <= f)%nat).
  { rewrite !app_length in Hlen. cbn [length] in Hlen. lia. }
  unfold parse_item_body. unfold advance, peek.
  destruct (existsb is_list_var xs) eqn:Ev; cbn [app] in Ht.
  - (* a list with variables is printed without a size *)
    assert (Hne : xs <> []) by (intro E; subst xs; discriminate Ev).
    rewrite <- app_assoc in Ht. cbn [app] in Ht.
    destruct (first_child_token xs (mk TRAB [x3e] 0 :: rest) Hch Hne) as [t0 [tl0 [E0 Ht0]]].
    repeat (cbn [toks tl names ecount errs warns msgs crashed]; rewrite ?Ht).
    cbn [tl typ_is t_typ t_val mk negb andb]. rewrite E0.
    assert (Hsz : typ_is t0 TItemSize = false /\ typ_is t0 TError = false).
    { unfold typ_is. destruct Ht0 as [-> | ->]; split; reflexivity. }
    destruct Hsz as [Hs1 Hs2]. rewrite Hs1, Hs2. cbn [negb andb]. rewrite <- E0.
    change (bytes_eqb (B"L"%string) (B"L"%string)) with true. cbv iota.
    set (st3 := {| toks := flat_map child_tokens xs ++ mk TRAB [x3e] 0 :: rest; names := names st; ecount := ecount st;
                   errs := errs st; warns := warns st; msgs := msgs st; crashed := crashed st |}).
    destruct (HL xs st3 [] 0 rest Hch Hnd Hcl Hfresh eq_refl)
      as [st' [E [T [Ee [Ew [Em N]]]]]].
    rewrite E. cbn [app]. rewrite Hnew. cbv beta iota zeta. cbn [item_size_for_check size].
    assert (Hse : size_error (Z.of_nat (length xs)) 0 (-1) = false).
    { unfold size_error. cbn [Z.eqb]. destruct (Z.ltb_spec (Z.of_nat (length xs)) 0); [lia|reflexivity]. }
    rewrite Hse. destruct (0 <=? Z.of_nat (length xs)); cbn [andb]; rewrite T; cbn [typ_is t_typ mk];
      (eexists; split; [reflexivity|]; cbn [toks errs warns]; rewrite ?T; cbn [tl]; repeat split; try assumption; exact N).
  - (* a list of items only carries its size *)
    rewrite <- app_assoc in Ht. cbn [app] in Ht.
    repeat (cbn [toks tl names ecount errs warns msgs crashed]; rewrite ?Ht).
    cbn [tl typ_is t_typ t_val mk negb andb].
    assert (Hps : parse_size (x5b :: fmt_unsigned 10 (Z.of_nat (length xs)) ++ [x5d]) = (Z.of_nat (length xs), Z.of_nat (length xs)))
      by exact (parse_size_exact (Z.of_nat (length xs)) Hll).
    rewrite Hps. change (bytes_eqb (B"L"%string) (B"L"%string)) with true. cbv iota.
    set (st3 := {| toks := flat_map child_tokens xs ++ mk TRAB [x3e] 0 :: rest; names := names st; ecount := ecount st;
                   errs := errs st; warns := warns st; msgs := msgs st; crashed := crashed st |}).
    destruct (HL xs st3 [] 0 rest Hch Hnd Hcl Hfresh eq_refl)
      as [st' [E [T [Ee [Ew [Em N]]]]]].
    rewrite E. cbn [app]. rewrite Hnew. cbv beta iota zeta. cbn [item_size_for_check size].
    assert (Hse : size_error (Z.of_nat (length xs)) (Z.of_nat (length xs)) (Z.of_nat (length xs)) = false).
    { unfold size_error. destruct (Z.eqb_spec (Z.of_nat (length xs)) (-1)); [lia|].
      destruct (Z.leb_spec (Z.of_nat (length xs)) (Z.of_nat (length xs))); [reflexivity|lia]. }
    rewrite Hse. destruct (0 <=? Z.of_nat (length xs)); cbn [andb]; rewrite T; cbn [typ_is t_typ mk];
      (eexists; split; [reflexivity|]; cbn [toks errs warns]; rewrite ?T; cbn [tl]; repeat split; try assumption; exact N).
Qed.

Lemma printable_tokens_nonempty t : printable t -> (1 <= length (item_tokens t))%nat.
Proof. destruct t; cbn [printable]; try contradiction; intros _; cbn; lia. Qed.

Lemma goals : forall f, item_goal f /\ list_goal f.
Proof.
  induction f as [|f [IHi IHl]].
  - split.
    + intros t st rest Hp Hlen. pose proof (printable_tokens_nonempty t Hp). lia.
    + intros cs st acc count rest _ _ Hlen. lia.
  - split; [apply item_step; exact IHl|apply list_step; assumption].
Qed.

(* the parser rebuilds every item tree of lists, list variables and integer /
   unsigned / binary / boolean value items from the tokens of its printed form:
   the same tree, nothing reported, exactly its tokens consumed, its variables recorded *)
Theorem item_parses_back t st rest :
  printable t -> (forall n, In n (vars t) -> known_name st n = false) ->
  toks st = item_tokens t ++ rest ->
  exists st', parse_item floats (S (length (toks st))) st = (Some t, st') /\ toks st' = rest /\
              errs st' = errs st /\ warns st' = warns st /\ msgs st' = msgs st /\ names_char st st' (vars t).
Proof.
  intros Hp Hfresh Ht. apply (proj1 (goals (S (length (toks st)))) t st rest Hp); [|exact Hfresh|exact Ht].
  rewrite Ht, app_length. lia.
Qed.

(* premises are satisfiable *)
Example tree_example :
  let t := IList [ILeaf KUint 1 [SV 1; SX (B"x"%string)]; IVar (B"v"%string); IList [ILeaf KBool 1 [SV 1; SV 0]]] in
  printable t /\
  map (fun k => t_val k) (item_tokens t) =
    [B"<"; B"L"; B"<"; B"U1"; B"[2]"; B"1"; B"x"; B">"; B"v"; B"<"; B"L"; B"[1]"; B"<"; B"BOOLEAN"; B"[2]"; B"T"; B"F"; B">"; B">"; B">"]%string.
Proof.
  cbn [printable]. split; [|reflexivity].
  repeat split; try reflexivity; try discriminate; try (left; reflexivity); repeat constructor; cbn; lia.
Qed.

Example leaf_example :
  let xs := [SV (-128); SX (B"x"%string); SV 127] in
  Forall (slot_built KInt 1) xs /\ size_ok (size_typ KInt 1) (length xs) = true /\ width_okb KInt 1 = true /\
  forallb (val_okb KInt 1) xs = true /\ names_ok xs = true /\
  map (fun t => t_val t) (leaf_tokens KInt 1 xs) = [B"<"; B"I1"; B"[3]"; B"-128"; B"x"; B"127"; B">"]%string.
Proof. cbn. repeat split; repeat constructor; cbn; lia. Qed.
End Trees.
