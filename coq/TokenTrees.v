(* TokenTrees.v — the parser rebuilds whole item trees from the tokens of their
   printed form (C04, token level): lists, list variables, value items of the
   integer / unsigned / binary / boolean / float formats, ASCII items and ASCII variables. *)
From Secs Require Import Ast FloatProofs FloatRound Fill Msg WireSpec WireLemmas WireValues HeaderProofs WireEnc WireDec MsgProofs AstProofs FillProofs FillCompose.
From Secs Require Import Utf8 Lexer Parser SmlNumbers SmlProofs TokenProofs AsciiTokens.
Open Scope Z_scope.

(* ---------- ellipsis variables: numbering and the parser's counter ---------- *)

Definition ell_name (e : Z) : bytes := [x2e; x2e; x2e] ++ [x5b] ++ fmt_int e ++ [x5d].
Definition ells (ns : list bytes) : list bytes := filter is_ellipsis ns.
Definition named (ns : list bytes) : list bytes := filter (fun n => negb (is_ellipsis n)) ns.
Fixpoint zseq (e : Z) (n : nat) : list Z := match n with O => [] | S k => e :: zseq (e + 1) k end.

(* the ellipsis names among [ns] are "...[e]", "...[e+1]", ... in this order:
   what the parser calls them when its counter stands at [e] *)
Definition canon (e : Z) (ns : list bytes) : Prop := ells ns = map ell_name (zseq e (length (ells ns))).

Lemma ells_app a b : ells (a ++ b) = ells a ++ ells b. Proof. apply filter_app. Qed.
Lemma named_app a b : named (a ++ b) = named a ++ named b. Proof. apply filter_app. Qed.

Lemma zseq_app e a b : zseq e (a + b) = zseq e a ++ zseq (e + Z.of_nat a) b.
Proof.
  revert e. induction a as [|a IH]; intro e; [cbn; rewrite Z.add_0_r; reflexivity|].
  cbn [Nat.add zseq app]. rewrite IH. f_equal. f_equal. f_equal. lia.
Qed.

Lemma zseq_length e n : length (zseq e n) = n.
Proof. revert e. induction n as [|n IH]; intro e; [reflexivity|]. cbn. rewrite IH. reflexivity. Qed.

Lemma app_eq_len {X} (a a' b b' : list X) : length a = length a' -> a ++ b = a' ++ b' -> a = a' /\ b = b'.
Proof.
  revert a'. induction a as [|x a IH]; intros [|x' a'] Hl H; try discriminate; [split; [reflexivity|exact H]|].
  cbn in Hl, H. inversion H; subst. destruct (IH a' ltac:(lia) H2) as [-> ->]. split; reflexivity.
Qed.

Lemma canon_app e a b : canon e (a ++ b) -> canon e a /\ canon (e + Z.of_nat (length (ells a))) b.
Proof.
  unfold canon. rewrite ells_app, app_length, zseq_app, map_app. intro H.
  apply app_eq_len in H; [exact H|]. rewrite map_length, zseq_length. reflexivity.
Qed.

Lemma valid_not_ellipsis n : is_valid_var_name n = true -> is_ellipsis n = false.
Proof.
  destruct n as [|a r]; [reflexivity|]. cbn [is_valid_var_name]. intro H. apply andb_true_iff in H as [Ha _].
  destruct r as [|b [|c r]]; try reflexivity. cbn [is_ellipsis].
  destruct (byte_eqb a x2e) eqn:E; [|reflexivity]. apply byte_eqb_spec in E. subst a. discriminate.
Qed.

Lemma valid_names_plain ns : forallb is_valid_var_name ns = true -> named ns = ns /\ ells ns = [].
Proof.
  induction ns as [|n ns IH]; [split; reflexivity|]. cbn [forallb]. intro H. apply andb_true_iff in H as [Hn Hr].
  destruct (IH Hr) as [E1 E2]. unfold named, ells in *. cbn [filter]. rewrite (valid_not_ellipsis n Hn). cbn [negb].
  rewrite E1, E2. split; reflexivity.
Qed.

(* only an ellipsis in a list moves the parser's counter *)
Lemma ecount_err st t k : ecount (err st t k) = ecount st. Proof. reflexivity. Qed.
Lemma ecount_warn st t k : ecount (warn st t k) = ecount st. Proof. reflexivity. Qed.
Lemma ecount_advance st : ecount (advance st) = ecount st. Proof. reflexivity. Qed.
Lemma ecount_add_name st n : ecount (add_name st n) = ecount st. Proof. reflexivity. Qed.
Lemma ecount_crash st : ecount (crash st) = ecount st. Proof. reflexivity. Qed.
#[export] Hint Rewrite ecount_err ecount_warn ecount_advance ecount_add_name ecount_crash : ecount_db.

Lemma take_values_ecount st vs st' : take_values st = (vs, st') -> ecount st' = ecount st.
Proof. unfold take_values. destruct (value_tokens (toks st)). intro H; inversion H; reflexivity. Qed.

Lemma value_arg_ecount floats nk st t g st1 : value_arg floats nk st t = Some (g, st1) -> ecount st1 = ecount st.
Proof.
  unfold value_arg. intro E.
  repeat match type of E with
         | (let '(_, _) := ?x in _) = _ => destruct x eqn:?
         | (if ?c then _ else _) = _ => destruct c eqn:?
         | match ?x with _ => _ end = _ => destruct x eqn:?
         end; try discriminate; inversion E; subst;
  repeat match goal with |- context [match ?x with _ => _ end] => destruct x end; reflexivity.
Qed.

Lemma value_args_ecount floats nk ts : forall st o st', value_args floats nk st ts = (o, st') -> ecount st' = ecount st.
Proof.
  induction ts as [|t ts IH]; intros st o st' H; cbn [value_args] in H; [inversion H; reflexivity|].
  destruct (value_arg floats nk st t) as [[g st1]|] eqn:E.
  - destruct (value_args floats nk st1 ts) as [o2 st2] eqn:E2. inversion H; subst. rewrite (IH _ _ _ E2).
    eapply value_arg_ecount; exact E.
  - inversion H; subst. destruct (t_typ t); reflexivity.
Qed.

Lemma parse_numeric_ecount floats nk st r st' : parse_numeric floats nk st = (r, st') -> ecount st' = ecount st.
Proof.
  unfold parse_numeric. destruct (take_values st) as [vs st0] eqn:E0. destruct (value_args floats nk st0 vs) as [o st1] eqn:E1.
  intro H. apply take_values_ecount in E0. apply value_args_ecount in E1.
  destruct o; [destruct (build nk l)|]; inversion H; subst; congruence.
Qed.

Lemma ascii_literal_ecount ts : forall st n acc mn mx r st', ascii_literal st ts n acc mn mx = (r, st') -> ecount st' = ecount st.
Proof.
  induction ts as [|t ts IH]; intros st n acc mn mx r st' H; cbn [ascii_literal] in H; [inversion H; reflexivity|].
  destruct (t_typ t);
    repeat match type of H with
           | (let '(_, _) := ?x in _) = _ => destruct x eqn:?
           | (if ?c then _ else _) = _ => destruct c eqn:?
           end;
    try (apply IH in H; rewrite H; repeat match goal with |- context [match ?x with _ => _ end] => destruct x end; reflexivity);
    try (inversion H; subst; reflexivity).
Qed.

(* an item that is not a list leaves the counter alone *)
Lemma parse_item_body_ecount floats rec_list st o st' :
  parse_item_body floats rec_list st = (o, st') ->
  bytes_eqb (t_val (peek (advance st))) (B"L"%string) = false -> ecount st' = ecount st.
Proof.
  intros H HL. unfold parse_item_body in H.
  repeat match type of H with
         | (let '(_, _) := ?x in _) = _ => destruct x eqn:?
         | (if ?c then _ else _) = _ => destruct c eqn:?
         | match ?x with _ => _ end = _ => destruct x eqn:?
         end; inversion H; subst; clear H;
  repeat match goal with
         | H : (let '(_, _) := ?x in _) = _ |- _ => destruct x eqn:?
         | H : (if ?c then _ else _) = (_, _, _) |- _ => destruct c eqn:?
         | H : (if ?c then _ else _) = (_, _, _, _) |- _ => destruct c eqn:?
         | H : match ?x with _ => _ end = (_, _, _) |- _ => destruct x eqn:?
         end;
  repeat match goal with
         | H : (_, _, _, _) = (_, _, _, _) |- _ => inversion H; subst; clear H
         | H : (_, _, _) = (_, _, _) |- _ => inversion H; subst; clear H
         end;
  try congruence;
  repeat match goal with
         | H : parse_numeric _ _ _ = _ |- _ => apply parse_numeric_ecount in H
         | H : ascii_literal _ _ _ _ _ _ = _ |- _ => apply ascii_literal_ecount in H
         | H : take_values _ = _ |- _ => apply take_values_ecount in H
         end;
  repeat match goal with |- context [if ?c then _ else _] => destruct c end;
  autorewrite with ecount_db in *; congruence.
Qed.

Section Trees.
Variable floats : float_oracle.
Variable fl : nat -> Z -> bytes.

(* ---------- whole item trees ---------- *)

Definition gv (c : item) : gval := match c with IVar n => GStr n | _ => GItem c end.
Definition cvars (c : item) : list bytes := match c with IVar n => [n] | IEmpty => [[]] | _ => vars c end.

(* the tokens of the printed form of an item tree *)
Fixpoint item_tokens (t : item) : list token :=
  match t with
  | IList xs =>
    [mk TLAB [x3c] 0; mk TItemType (B"L"%string) 0] ++
    (if existsb is_list_var xs then []
     else [mk TItemSize ([x5b] ++ fmt_unsigned 10 (Z.of_nat (length xs)) ++ [x5d]) 0]) ++
    flat_map (fun c => match c with IVar n => [if is_ellipsis n then mk TEllipsis [x2e; x2e; x2e] 0 else mk TVariable n 0] | _ => item_tokens c end) xs ++
    [mk TRAB [x3e] 0]
  | ILeaf k w ys => leaf_tokens fl k w ys
  | IAscii v => ascii_tokens v
  | IAsciiVar n mn mx => ascii_var_tokens n mn mx
  | _ => []
  end.
Definition child_tokens (c : item) : list token :=
  match c with IVar n => [if is_ellipsis n then mk TEllipsis [x2e; x2e; x2e] 0 else mk TVariable n 0] | _ => item_tokens c end.

(* item trees made of lists, plain list variables, integer / unsigned / binary /
   boolean value items, ASCII items and ASCII variables, every node as its
   constructor accepts it *)
Fixpoint printable (t : item) : Prop :=
  match t with
  | IList xs =>
    new_list (map gv xs) = Some (IList xs) /\
    (fix go (cs : list item) : Prop :=
       match cs with
       | [] => True
       | c :: r => match c with
                   | IVar n => True
                   | IList _ | ILeaf _ _ _ | IAscii _ | IAsciiVar _ _ _ => printable c
                   | _ => False
                   end /\ go r
       end) xs
  | ILeaf k w ys =>
    fmt_ok k w /\ Forall (slot_built k w) ys /\ size_ok (size_typ k w) (length ys) = true /\
    width_okb k w = true /\ forallb (val_okb k w) ys = true /\ names_ok ys = true
  | IAscii v => new_ascii v = Some (IAscii v)
  | IAsciiVar n mn mx => new_ascii_var n mn mx = Some (IAsciiVar n mn mx) /\ mn < two63 /\ mx < two63
  | _ => False
  end.

Definition child_ok (c : item) : Prop :=
  match c with
  | IVar n => True
  | IList _ | ILeaf _ _ _ | IAscii _ | IAsciiVar _ _ _ => printable c
  | _ => False
  end.

(* the float oracles are consistent on every float value of the tree (see [slot_scans]) *)
Fixpoint scans (t : item) : Prop :=
  match t with
  | IList xs => (fix go (cs : list item) : Prop := match cs with [] => True | c :: r => scans c /\ go r end) xs
  | ILeaf k w ys => Forall (slot_scans floats fl k w) ys
  | _ => True
  end.

Lemma scans_children xs : scans (IList xs) -> Forall scans xs.
Proof. cbn [scans]. induction xs as [|c r IH]; intro H; [constructor|]. destruct H as [Hc Hr]. constructor; [exact Hc|apply IH; exact Hr]. Qed.

Lemma printable_children xs : printable (IList xs) -> Forall child_ok xs.
Proof.
  cbn [printable]. intros [_ H]. induction xs as [|c r IH]; [constructor|]. destruct H as [Hc Hr].
  constructor; [exact Hc|apply IH; exact Hr].
Qed.

Lemma new_list_nodupb args xs : new_list args = Some (IList xs) -> nodupb (vars (IList xs)) = true.
Proof.
  unfold new_list. destruct (negb _); [discriminate|]. destruct (map_opt list_arg args) as [ys|]; [|discriminate].
  destruct (nodupb (direct_vars ys) && list_vars_ok ys && nodupb (vars (IList ys))) eqn:E; [|discriminate].
  intro H; inversion H; subst. apply andb_true_iff in E as [_ E]. exact E.
Qed.

Lemma nodupb_app a : forall b, nodupb (a ++ b) = true ->
  nodupb b = true /\ forall n, In n b -> existsb (bytes_eqb n) a = false.
Proof.
  induction a as [|x a IH]; intros b H; [split; [exact H|reflexivity]|].
  cbn [app nodupb] in H. apply andb_true_iff in H as [Hx Hr]. apply negb_true_iff in Hx.
  destruct (IH b Hr) as [Hb Hd]. split; [exact Hb|]. intros n Hn. cbn [existsb]. rewrite (Hd n Hn), orb_false_r.
  destruct (bytes_eqb n x) eqn:E; [|reflexivity]. apply bytes_eqb_spec in E. subst x. exfalso.
  rewrite <- not_true_iff_false in Hx. apply Hx. apply existsb_exists. exists n. split; [apply in_or_app; right; exact Hn|apply bytes_eqb_refl].
Qed.

Lemma names_char_trans a b c x y : names_char a b x -> names_char b c y -> names_char a c (x ++ y).
Proof. intros H1 H2 m. rewrite (H2 m), (H1 m), existsb_app, orb_assoc. reflexivity. Qed.

Lemma child_first_token c : child_ok c -> (forall n, c <> IVar n) -> exists tl, item_tokens c = mk TLAB [x3c] 0 :: tl.
Proof.
  destruct c as [xs|n|k w ys|v|n mn mx|]; cbn [child_ok]; intros H Hn; try contradiction; try (eexists; reflexivity).
  exfalso. apply (Hn n). reflexivity.
Qed.

Definition item_goal (f : nat) : Prop := forall t st rest,
  printable t -> scans t -> (length (item_tokens t) <= f)%nat ->
  (forall n, In n (vars t) -> known_name st n = false) -> canon (ecount st) (vars t) ->
  toks st = item_tokens t ++ rest ->
  exists st', parse_item floats f st = (Some t, st') /\ toks st' = rest /\ errs st' = errs st /\ warns st' = warns st /\
              msgs st' = msgs st /\ names_char st st' (named (vars t)) /\
              ecount st' = ecount st + Z.of_nat (length (ells (vars t))).

Definition head_plain (cs : list item) : Prop := match cs with IVar n :: _ => is_ellipsis n = false | _ => True end.

Definition list_goal (f : nat) : Prop := forall cs st acc count rest,
  Forall child_ok cs -> Forall scans cs -> nodupb (flat_map cvars cs) = true ->
  (length (flat_map child_tokens cs) + 1 <= f)%nat ->
  (forall n, In n (flat_map cvars cs) -> known_name st n = false) -> canon (ecount st) (flat_map cvars cs) ->
  0 <= count -> (count = 0 -> head_plain cs) ->
  toks st = flat_map child_tokens cs ++ mk TRAB [x3e] 0 :: rest ->
  exists st', parse_list floats f st acc count =
                (match new_list (acc ++ map gv cs) with Some l => IOk l | None => IPanic end, st') /\
              toks st' = mk TRAB [x3e] 0 :: rest /\ errs st' = errs st /\ warns st' = warns st /\
              msgs st' = msgs st /\ names_char st st' (named (flat_map cvars cs)) /\
              ecount st' = ecount st + Z.of_nat (length (ells (flat_map cvars cs))).

Lemma list_step f : item_goal f -> list_goal f -> list_goal (S f).
Proof.
  intros HI HL cs st acc count rest Hok Hscs Hnd Hlen Hfresh Hcan Hc0 Hhead Ht.
  change (parse_list floats (S f)) with (parse_list_body (parse_item floats f) (parse_list floats f)).
  destruct cs as [|c cs].
  - (* '>' *)
    cbn [flat_map app] in Ht. unfold parse_list_body, peek. rewrite Ht. cbn [t_typ mk]. rewrite app_nil_r.
    exists st. repeat split; try assumption; [apply names_char_refl|cbn; lia].
  - inversion Hok as [|? ? Hc Hcs]; subst. inversion Hscs as [|? ? Hsc Hscr]; subst. cbn [flat_map] in Ht, Hnd, Hlen, Hfresh, Hcan. rewrite app_length in Hlen.
    destruct (nodupb_app _ _ Hnd) as [Hnd' Hdisj].
    destruct (canon_app _ _ _ Hcan) as [Hcan1 Hcan2].
    destruct (match c with IVar n => true | _ => false end) eqn:Eisvar.
    + (* a list variable *)
      destruct c as [xs|n|k w ys|v|n mn mx|]; try discriminate Eisvar. cbn [child_ok] in Hc.
      cbn [child_tokens app] in Ht, Hlen. cbn [cvars] in Hcan1, Hcan2.
      set (st0 := {| toks := flat_map child_tokens cs ++ mk TRAB [x3e] 0 :: rest; names := names st; ecount := ecount st;
                     errs := errs st; warns := warns st; msgs := msgs st; crashed := crashed st |}).
      assert (Eadv : advance st = st0) by (unfold advance, st0; rewrite Ht; reflexivity).
      destruct (is_ellipsis n) eqn:Eell.
      * (* an ellipsis: the parser names it after its counter *)
        unfold parse_list_body, peek. rewrite Ht. cbn [t_typ t_val mk]. rewrite Eadv.
        assert (Hcnt : (count =? 0) = false).
        { apply Z.eqb_neq. intro E0. specialize (Hhead E0). cbn [head_plain] in Hhead. congruence. }
        rewrite Hcnt.
        assert (En : n = ell_name (ecount st)).
        { unfold canon, ells in Hcan1. cbn [filter] in Hcan1. rewrite Eell in Hcan1. cbn [length zseq map] in Hcan1. inversion Hcan1. reflexivity. }
        assert (Ename : [x2e; x2e; x2e] ++ [x5b] ++ fmt_int (ecount st0) ++ [x5d] = n) by (rewrite En; reflexivity).
        rewrite Ename. change (bytes_eqb [x2e; x2e; x2e] [x2e; x2e; x2e]) with true. cbn [orb].
        assert (Hl1 : Z.of_nat (length (ells [n])) = 1) by (unfold ells; cbn [filter]; rewrite Eell; reflexivity).
        destruct (HL cs (with_ecount st0 (ecount st0 + 1)) (acc ++ [GStr n]) (count + 1) rest Hcs Hscr Hnd' ltac:(cbn [length] in Hlen; lia))
          as [st' [E2 [T2 [E2e [E2w [E2m [N2 C2]]]]]]].
        { intros m Hm. exact (Hfresh m (or_intror Hm)). }
        { cbn [with_ecount ecount st0]. rewrite Hl1 in Hcan2. exact Hcan2. }
        { lia. }
        { intro E0. lia. }
        { reflexivity. }
        rewrite E2. rewrite <- app_assoc. cbn [app map gv]. exists st'. repeat split; try assumption.
        -- intro m. rewrite (N2 m). cbn [flat_map]. rewrite named_app. unfold named at 2. cbn [cvars filter]. rewrite Eell. cbn [negb app]. reflexivity.
        -- rewrite C2. cbn [with_ecount ecount st0 flat_map]. rewrite ells_app, app_length, Nat2Z.inj_add. cbn [cvars]. rewrite Hl1. lia.
      * (* a named variable *)
        unfold parse_list_body, peek. rewrite Ht. cbn [t_typ t_val mk]. rewrite Eadv.
        assert (Hk : known_name st0 n = false) by (apply (Hfresh n); left; reflexivity).
        rewrite Hk.
        assert (Hl0 : ells [n] = []) by (unfold ells; cbn [filter]; rewrite Eell; reflexivity).
        destruct (HL cs (add_name st0 n) (acc ++ [GStr n]) (count + 1) rest Hcs Hscr Hnd' ltac:(cbn [length] in Hlen; lia)) as [st' [E2 [T2 [E2e [E2w [E2m [N2 C2]]]]]]].
        { intros m Hm. subst st0. unfold known_name, add_name. cbn [names existsb].
          pose proof (Hfresh m (or_intror Hm)) as Hf. unfold known_name in Hf. rewrite Hf, orb_false_r.
          pose proof (Hdisj m Hm) as Hd. cbn [cvars existsb] in Hd. rewrite orb_false_r in Hd. exact Hd. }
        { cbn [add_name ecount st0]. rewrite Hl0 in Hcan2. cbn [length] in Hcan2. rewrite Z.add_0_r in Hcan2. exact Hcan2. }
        { lia. }
        { intro E0. lia. }
        { reflexivity. }
        rewrite E2. rewrite <- app_assoc. cbn [app map gv]. exists st'. repeat split; try assumption.
        -- intro m. rewrite (N2 m). subst st0. unfold known_name, add_name. cbn [flat_map]. rewrite named_app. unfold named at 2. cbn [names existsb cvars filter].
           rewrite Eell. cbn [negb app existsb].
           destruct (bytes_eqb m n); destruct (existsb (bytes_eqb m) (names st)); destruct (existsb (bytes_eqb m) (named (flat_map cvars cs))); reflexivity.
        -- rewrite C2. cbn [add_name ecount st0 flat_map]. rewrite ells_app, app_length. cbn [cvars]. rewrite Hl0. cbn [length]. lia.
    + (* an item: a nested list, a value item, an ASCII item or variable *)
      assert (Hnv : forall n, c <> IVar n) by (intros n E; subst c; discriminate Eisvar).
      assert (Hp : printable c) by (destruct c; cbn [child_ok] in Hc; try contradiction; try discriminate Eisvar; exact Hc).
      assert (Ect : child_tokens c = item_tokens c) by (destruct c; try reflexivity; discriminate Eisvar).
      assert (Egv : gv c = GItem c) by (destruct c; try reflexivity; discriminate Eisvar).
      assert (Ecv : cvars c = vars c) by (destruct c; try reflexivity; try discriminate Eisvar; cbn [child_ok] in Hc; contradiction).
      rewrite Ect in Ht, Hlen. cbn [flat_map]. rewrite Ecv in *. rewrite <- app_assoc in Ht.
      destruct (HI c st (flat_map child_tokens cs ++ mk TRAB [x3e] 0 :: rest) Hp Hsc ltac:(lia)
                  ltac:(intros n Hn; apply Hfresh; apply in_or_app; left; exact Hn) Hcan1 Ht) as [st1 [E1 [T1 [E1e [E1w [E1m [N1 C1]]]]]]].
      destruct (child_first_token c Hc Hnv) as [tl0 Etl].
      unfold parse_list_body, peek. rewrite Ht, Etl. cbn [app t_typ mk]. rewrite E1.
      assert (Hlen' : (length (flat_map child_tokens cs) + 1 <= f)%nat) by (rewrite Etl in Hlen; cbn [length] in Hlen; lia).
      destruct (HL cs st1 (acc ++ [GItem c]) (count + 1) rest Hcs Hscr Hnd' Hlen') as [st' [E2 [T2 [E2e [E2w [E2m [N2 C2]]]]]]].
      { intros n Hn. rewrite (N1 n), (Hfresh n) by (apply in_or_app; right; exact Hn). cbn [orb].
        pose proof (Hdisj n Hn) as Hd. clear -Hd. induction (vars c) as [|a l IH]; [reflexivity|]. cbn [existsb] in Hd. apply orb_false_iff in Hd as [Ha Hl].
        unfold named. cbn [filter]. destruct (negb (is_ellipsis a)); [cbn [existsb]; rewrite Ha; exact (IH Hl)|exact (IH Hl)]. }
      { rewrite C1. exact Hcan2. }
      { lia. }
      { intro E0. lia. }
      { exact T1. }
      rewrite E2. rewrite <- app_assoc. cbn [app map]. rewrite Egv. exists st'. repeat split; try congruence.
      * rewrite named_app. apply (names_char_trans st st1 st'); assumption.
      * rewrite C2, C1, ells_app, app_length, Nat2Z.inj_add. lia.
Qed.

Lemma new_list_length args xs : new_list args = Some (IList xs) -> 0 <= Z.of_nat (length args) < two63.
Proof.
  unfold new_list. destruct (negb (size_ok (B"list"%string) (length args))) eqn:E; [discriminate|]. intros _.
  apply negb_false_iff in E. unfold size_ok in E. apply negb_true_iff in E. unfold data_byte_length, MAX_BYTE_SIZE in E.
  change (lookup (B"list"%string) byte_per_value) with 1 in E. rewrite Z.gtb_ltb in E. apply Z.ltb_ge in E.
  unfold two63. lia.
Qed.

Lemma first_child_token cs rest : Forall child_ok cs -> cs <> [] ->
  exists t tl, flat_map child_tokens cs ++ rest = t :: tl /\ (t_typ t = TVariable \/ t_typ t = TLAB \/ t_typ t = TEllipsis).
Proof.
  intros H Hne. destruct cs as [|c cs]; [congruence|]. inversion H as [|? ? Hc _]; subst.
  destruct c as [xs|n|k w ys|v|n mn mx|]; cbn [child_ok] in Hc; try contradiction;
    cbn [flat_map child_tokens item_tokens leaf_tokens ascii_tokens ascii_var_tokens app];
    eexists; eexists; (split; [reflexivity|]); try destruct (is_ellipsis n); cbn [t_typ mk]; first [right; left; reflexivity|left; reflexivity|right; right; reflexivity].
Qed.

Lemma new_list_head xs : new_list (map gv xs) = Some (IList xs) -> head_plain xs.
Proof.
  unfold new_list. destruct (negb _); [discriminate|]. destruct (map_opt list_arg (map gv xs)) as [ys|]; [|discriminate].
  destruct (nodupb (direct_vars ys) && list_vars_ok ys && nodupb (vars (IList ys))) eqn:E; [|discriminate].
  intro H; inversion H; subst ys. apply andb_true_iff in E as [E _]. apply andb_true_iff in E as [_ E].
  unfold list_vars_ok in E. apply andb_true_iff in E as [_ E]. destruct xs as [|[ | n | | | | ] r]; cbn [head_plain]; try exact I.
  apply valid_not_ellipsis. exact E.
Qed.

Lemma leaf_second_not_L st k w ys rest : fmt_ok k w -> toks st = leaf_tokens fl k w ys ++ rest ->
  bytes_eqb (t_val (peek (advance st))) (B"L"%string) = false.
Proof.
  intros Hf Ht. unfold peek, advance. cbn [toks]. rewrite Ht. unfold leaf_tokens. cbn [app tl t_val mk].
  apply (nk_of_leaf_tag k w Hf).
Qed.

Lemma item_step f : list_goal f -> item_goal (S f).
Proof.
  intros HL t st rest Hp Hsc Hlen Hfresh Hcan Ht.
  change (parse_item floats (S f)) with (parse_item_body floats (parse_list floats f)).
  destruct t as [xs|n|k w ys|v|n mn mx|]; cbn [printable] in Hp; try contradiction.
  2:{ destruct Hp as (Hf & Hb & Hs & Hw & Hv & Hn). cbn [scans] in Hsc.
      destruct (leaf_item_parses_back floats fl (parse_list floats f) k w ys st rest Hf Hb Hsc Hs Hw Hv Hn Hfresh Ht)
        as [st' [E [T [Ee [Ew [Em N]]]]]].
      assert (Hvalid : forallb is_valid_var_name (slot_vars ys) = true) by (unfold names_ok in Hn; apply andb_true_iff in Hn as [Hn _]; exact Hn).
      destruct (valid_names_plain _ Hvalid) as [En El].
      exists st'. cbn [vars]. rewrite En, El. repeat split; try assumption.
      cbn [length]. rewrite Z.add_0_r. apply (parse_item_body_ecount _ _ _ _ _ E). eapply leaf_second_not_L; eassumption. }
  2:{ destruct (ascii_item_parses_back floats (parse_list floats f) v st rest Hp Ht) as [st' [E [T [Ee [Ew [Em N]]]]]].
      exists st'. cbn [vars named ells filter length]. repeat split; try assumption.
      rewrite Z.add_0_r. apply (parse_item_body_ecount _ _ _ _ _ E).
      unfold peek, advance. cbn [toks]. rewrite Ht. unfold ascii_tokens. cbn [app tl t_val mk]. reflexivity. }
  2:{ destruct Hp as (Hnew & Hmn & Hmx).
      destruct (ascii_var_parses_back floats (parse_list floats f) n mn mx st rest Hnew Hmn Hmx ltac:(apply Hfresh; left; reflexivity) Ht)
        as [st' [E [T [Ee [Ew [Em N]]]]]].
      assert (Hvalid : forallb is_valid_var_name [n] = true).
      { unfold new_ascii_var in Hnew. cbn [forallb]. destruct (is_valid_var_name n) eqn:Ev; [reflexivity|discriminate]. }
      destruct (valid_names_plain _ Hvalid) as [En El].
      exists st'. cbn [vars]. rewrite En, El. repeat split; try assumption.
      cbn [length]. rewrite Z.add_0_r. apply (parse_item_body_ecount _ _ _ _ _ E).
      unfold peek, advance. cbn [toks]. rewrite Ht. unfold ascii_var_tokens. cbn [app tl t_val mk]. reflexivity. }
  pose proof (new_list_head xs (proj1 Hp)) as Hhead.
  pose proof (printable_children xs Hp) as Hch. destruct Hp as [Hnew _].
  pose proof (new_list_nodupb _ _ Hnew) as Hnd. change (vars (IList xs)) with (flat_map cvars xs) in Hnd, Hfresh, Hcan |- *.
  pose proof (new_list_length _ _ Hnew) as Hll. rewrite map_length in Hll.
  cbn [item_tokens] in Ht, Hlen.
  change (flat_map (fun c => match c with IVar n => [if is_ellipsis n then mk TEllipsis [x2e; x2e; x2e] 0 else mk TVariable n 0] | _ => item_tokens c end) xs) with (flat_map child_tokens xs) in Ht, Hlen.
  assert (Hcl : (length (flat_map child_tokens xs) + 1 <= f)%nat).
  { rewrite !app_length in Hlen. cbn [length] in Hlen. lia. }
  unfold parse_item_body. unfold advance, peek.
  destruct (existsb is_list_var xs) eqn:Ev; cbn [app] in Ht.
  - (* a list with variables is printed without a size *)
    assert (Hne : xs <> []) by (intro E; subst xs; discriminate Ev).
    rewrite <- app_assoc in Ht. cbn [app] in Ht.
    destruct (first_child_token xs (mk TRAB [x3e] 0 :: rest) Hch Hne) as [t0 [tl0 [E0 Ht0]]].
    repeat (cbn [toks tl names ecount errs warns msgs crashed]; rewrite ?Ht).
    cbn [tl typ_is t_typ t_val mk negb andb]. rewrite E0.
    assert (Hsz : typ_is t0 TItemSize = false /\ typ_is t0 TError = false).
    { unfold typ_is. destruct Ht0 as [-> | [-> | ->]]; split; reflexivity. }
    destruct Hsz as [Hs1 Hs2]. rewrite Hs1, Hs2. cbn [negb andb]. rewrite <- E0.
    change (bytes_eqb (B"L"%string) (B"L"%string)) with true. cbv iota.
    set (st3 := {| toks := flat_map child_tokens xs ++ mk TRAB [x3e] 0 :: rest; names := names st; ecount := ecount st;
                   errs := errs st; warns := warns st; msgs := msgs st; crashed := crashed st |}).
    destruct (HL xs st3 [] 0 rest Hch (scans_children xs Hsc) Hnd Hcl Hfresh Hcan ltac:(lia) (fun _ => Hhead) eq_refl)
      as [st' [E [T [Ee [Ew [Em [N C]]]]]]].
    rewrite E. cbn [app]. rewrite Hnew. cbv beta iota zeta. cbn [item_size_for_check size].
    assert (Hse : size_error (Z.of_nat (length xs)) 0 (-1) = false).
    { unfold size_error. cbn [Z.eqb]. destruct (Z.ltb_spec (Z.of_nat (length xs)) 0); [lia|reflexivity]. }
    rewrite Hse. destruct (0 <=? Z.of_nat (length xs)); cbn [andb]; rewrite T; cbn [typ_is t_typ mk];
      (eexists; split; [reflexivity|]; cbn [toks errs warns ecount]; rewrite ?T; cbn [tl]; repeat split; try assumption; try exact N; try exact C).
  - (* a list of items only carries its size *)
    rewrite <- app_assoc in Ht. cbn [app] in Ht.
    repeat (cbn [toks tl names ecount errs warns msgs crashed]; rewrite ?Ht).
    cbn [tl typ_is t_typ t_val mk negb andb].
    assert (Hps : parse_size (x5b :: fmt_unsigned 10 (Z.of_nat (length xs)) ++ [x5d]) = (Z.of_nat (length xs), Z.of_nat (length xs)))
      by exact (parse_size_exact (Z.of_nat (length xs)) Hll).
    rewrite Hps. change (bytes_eqb (B"L"%string) (B"L"%string)) with true. cbv iota.
    set (st3 := {| toks := flat_map child_tokens xs ++ mk TRAB [x3e] 0 :: rest; names := names st; ecount := ecount st;
                   errs := errs st; warns := warns st; msgs := msgs st; crashed := crashed st |}).
    destruct (HL xs st3 [] 0 rest Hch (scans_children xs Hsc) Hnd Hcl Hfresh Hcan ltac:(lia) (fun _ => Hhead) eq_refl)
      as [st' [E [T [Ee [Ew [Em [N C]]]]]]].
    rewrite E. cbn [app]. rewrite Hnew. cbv beta iota zeta. cbn [item_size_for_check size].
    assert (Hse : size_error (Z.of_nat (length xs)) (Z.of_nat (length xs)) (Z.of_nat (length xs)) = false).
    { unfold size_error. destruct (Z.eqb_spec (Z.of_nat (length xs)) (-1)); [lia|].
      destruct (Z.leb_spec (Z.of_nat (length xs)) (Z.of_nat (length xs))); [reflexivity|lia]. }
    rewrite Hse. destruct (0 <=? Z.of_nat (length xs)); cbn [andb]; rewrite T; cbn [typ_is t_typ mk];
      (eexists; split; [reflexivity|]; cbn [toks errs warns ecount]; rewrite ?T; cbn [tl]; repeat split; try assumption; try exact N; try exact C).
Qed.

Lemma printable_tokens_nonempty t : printable t -> (1 <= length (item_tokens t))%nat.
Proof. destruct t; cbn [printable]; try contradiction; intros _; cbn; lia. Qed.

Lemma goals : forall f, item_goal f /\ list_goal f.
Proof.
  induction f as [|f [IHi IHl]].
  - split.
    + intros t st rest Hp _ Hlen. pose proof (printable_tokens_nonempty t Hp). lia.
    + intros cs st acc count rest _ _ _ Hlen. lia.
  - split; [apply item_step; exact IHl|apply list_step; assumption].
Qed.

(* the parser rebuilds every item tree of lists, list variables — named ones and
   ellipses, the latter numbered as the parser numbers them (`canon`) — and
   value, ASCII items and ASCII variables from the tokens of its printed form:
   the same tree, nothing reported, exactly its tokens consumed, its named
   variables recorded, its ellipses counted *)
Theorem item_parses_back t st rest :
  printable t -> scans t -> (forall n, In n (vars t) -> known_name st n = false) -> canon (ecount st) (vars t) ->
  toks st = item_tokens t ++ rest ->
  exists st', parse_item floats (S (length (toks st))) st = (Some t, st') /\ toks st' = rest /\
              errs st' = errs st /\ warns st' = warns st /\ msgs st' = msgs st /\ names_char st st' (named (vars t)) /\
              ecount st' = ecount st + Z.of_nat (length (ells (vars t))).
Proof.
  intros Hp Hsc Hfresh Hcan Ht. apply (proj1 (goals (S (length (toks st)))) t st rest Hp Hsc); [|exact Hfresh|exact Hcan|exact Ht].
  rewrite Ht, app_length. lia.
Qed.

(* a tree without ellipses is numbered canonically from any counter *)
Lemma canon_no_ellipsis e ns : ells ns = [] -> canon e ns.
Proof. unfold canon. intros ->. reflexivity. Qed.

(* premises are satisfiable *)
Example tree_example :
  let t := IList [ILeaf KUint 1 [SV 1; SX (B"x"%string)]; IVar (B"v"%string); IList [ILeaf KBool 1 [SV 1; SV 0]]] in
  printable t /\
  map (fun k => t_val k) (item_tokens t) =
    [B"<"; B"L"; B"<"; B"U1"; B"[2]"; B"1"; B"x"; B">"; B"v"; B"<"; B"L"; B"[1]"; B"<"; B"BOOLEAN"; B"[2]"; B"T"; B"F"; B">"; B">"; B">"]%string.
Proof.
  cbn [printable]. split; [|reflexivity].
  repeat split; try reflexivity; try discriminate; try (left; reflexivity); repeat constructor; cbn; lia.
Qed.

Example leaf_example :
  let xs := [SV (-128); SX (B"x"%string); SV 127] in
  Forall (slot_built KInt 1) xs /\ size_ok (size_typ KInt 1) (length xs) = true /\ width_okb KInt 1 = true /\
  forallb (val_okb KInt 1) xs = true /\ names_ok xs = true /\
  map (fun t => t_val t) (leaf_tokens fl KInt 1 xs) = [B"<"; B"I1"; B"[3]"; B"-128"; B"x"; B"127"; B">"]%string.
Proof. cbn. repeat split; repeat constructor; cbn; lia. Qed.
End Trees.
