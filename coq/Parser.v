(* Parser.v — pkg/parser/sml/parser.go: recursive descent over the token list
   (comments dropped), accumulating errors and warnings; constructor panics
   inside a data item become the error + warning pair that the deferred
   recover of parseDataItem produces; the one constructor call outside any
   recover (NewDataMessage) yields the explicit outcome [Crashed]. *)
From Secs Require Export Lexer Msg.
Open Scope Z_scope.

(* ---- strconv, restricted to the token language ---- *)

Inductive numerr := NumOk | NumSyntax | NumRange.

Definition digit_val (b : byte) : Z :=
  let z := bz b in
  if (48 <=? z) && (z <=? 57) then z - 48
  else if (97 <=? z) && (z <=? 122) then z - 87
  else if (65 <=? z) && (z <=? 90) then z - 55
  else 99.

(* digits in the given base; None on a character that is not a digit of the base *)
Fixpoint digits_val (base : Z) (s : bytes) (acc : Z) : option Z :=
  match s with
  | [] => Some acc
  | b :: r => let d := digit_val b in if d <? base then digits_val base r (acc * base + d) else None
  end.

Definition lower_is (b : byte) (c : Z) : bool := bz b =? c.

(* the unsigned part of strconv.ParseUint(s, 0, _): base detection as in strconv
   (a prefix needs at least one more character; a lone leading 0 means octal) *)
Definition parse_unsigned_base0 (s : bytes) : option Z :=
  match s with
  | [] => None
  | z :: r =>
    if byte_eqb z x30 then
      match r with
      | p :: ((_ :: _) as ds) =>
        let pz := bz p in
        if (pz =? 98) || (pz =? 66) then digits_val 2 ds 0
        else if (pz =? 111) || (pz =? 79) then digits_val 8 ds 0
        else if (pz =? 120) || (pz =? 88) then digits_val 16 ds 0
        else digits_val 8 r 0
      | _ => digits_val 8 r 0
      end
    else digits_val 10 s 0
  end.

(* strconv.ParseUint gives up at the first character at which something is wrong:
   a character that is not a digit of the base is a syntax error, unless the
   digits before it already exceed the largest value — then it is a range error *)
Fixpoint range_first (base : Z) (s : bytes) (acc mx : Z) : bool :=
  match s with
  | [] => false
  | b :: r =>
    let d := digit_val b in
    if d <? base then (let a := acc * base + d in if mx <? a then true else range_first base r a mx) else false
  end.

Definition range_first_base0 (s : bytes) (mx : Z) : bool :=
  match s with
  | [] => false
  | z :: r =>
    if byte_eqb z x30 then
      match r with
      | p :: ((_ :: _) as ds) =>
        let pz := bz p in
        if (pz =? 98) || (pz =? 66) then range_first 2 ds 0 mx
        else if (pz =? 111) || (pz =? 79) then range_first 8 ds 0 mx
        else if (pz =? 120) || (pz =? 88) then range_first 16 ds 0 mx
        else range_first 8 r 0 mx
      | _ => range_first 8 r 0 mx
      end
    else range_first 10 s 0 mx
  end.

Definition parse_uint (s : bytes) (bits : Z) : Z * numerr :=
  match s with
  | [] => (0, NumSyntax)
  | _ =>
    match parse_unsigned_base0 s with
    | None => if range_first_base0 s (2 ^ bits - 1) then (2 ^ bits - 1, NumRange) else (0, NumSyntax)
    | Some v => let mx := 2 ^ bits - 1 in if mx <? v then (mx, NumRange) else (v, NumOk)
    end
  end.

Definition parse_int (s : bytes) (bits : Z) : Z * numerr :=
  match s with
  | [] => (0, NumSyntax)
  | c :: r =>
    let neg := byte_eqb c x2d in
    let body := if byte_eqb c x2b || neg then r else s in
    match body with
    | [] => (0, NumSyntax)
    | _ =>
      match parse_unsigned_base0 body with
      | None =>
        if range_first_base0 body (2 ^ bits - 1)
        then (if neg then (- 2 ^ (bits - 1), NumRange) else (2 ^ (bits - 1) - 1, NumRange))
        else (0, NumSyntax)
      | Some un =>
        let cutoff := 2 ^ (bits - 1) in
        if negb neg && (cutoff <=? un) then (cutoff - 1, NumRange)
        else if neg && (cutoff <? un) then (- cutoff, NumRange)
        else ((if neg then - un else un), NumOk)
      end
    end
  end.

(* strconv.Atoi on a string of decimal digits (possibly empty) *)
Definition atoi (s : bytes) : Z * numerr :=
  match s with
  | [] => (0, NumSyntax)
  | _ => match digits_val 10 s 0 with
         | Some v => if two63 <=? v then (two63 - 1, NumRange) else (v, NumOk)
         | None => (0, NumSyntax)
         end
  end.

(* ---- diagnostics ---- *)

Record diag := { d_tok : token; d_kind : Z }.

Definition zero_tok : token := {| t_typ := TEOF; t_val := []; t_off := 0; t_err := None |}.

Inductive outcome_p := Finished | Crashed.

Record pstate := {
  toks : list token; names : list bytes; ecount : Z;
  errs : list diag; warns : list diag; msgs : list msg; crashed : bool }.

Definition peek (st : pstate) : token := match toks st with t :: _ => t | [] => zero_tok end.
Definition advance (st : pstate) : pstate :=
  {| toks := tl (toks st); names := names st; ecount := ecount st; errs := errs st; warns := warns st; msgs := msgs st; crashed := crashed st |}.
Definition err (st : pstate) (t : token) (k : Z) : pstate :=
  {| toks := toks st; names := names st; ecount := ecount st; errs := errs st ++ [{| d_tok := t; d_kind := k |}];
     warns := warns st; msgs := msgs st; crashed := crashed st |}.
Definition warn (st : pstate) (t : token) (k : Z) : pstate :=
  {| toks := toks st; names := names st; ecount := ecount st; errs := errs st;
     warns := warns st ++ [{| d_tok := t; d_kind := k |}]; msgs := msgs st; crashed := crashed st |}.
Definition add_name (st : pstate) (n : bytes) : pstate :=
  {| toks := toks st; names := n :: names st; ecount := ecount st; errs := errs st; warns := warns st; msgs := msgs st; crashed := crashed st |}.
Definition with_ecount (st : pstate) (e : Z) : pstate :=
  {| toks := toks st; names := names st; ecount := e; errs := errs st; warns := warns st; msgs := msgs st; crashed := crashed st |}.
Definition reset_msg_scope (st : pstate) : pstate :=
  {| toks := toks st; names := []; ecount := 0; errs := errs st; warns := warns st; msgs := msgs st; crashed := crashed st |}.
Definition add_msg (st : pstate) (m : msg) : pstate :=
  {| toks := toks st; names := names st; ecount := ecount st; errs := errs st; warns := warns st; msgs := msgs st ++ [m]; crashed := crashed st |}.
Definition crash (st : pstate) : pstate :=
  {| toks := toks st; names := names st; ecount := ecount st; errs := errs st; warns := warns st; msgs := msgs st; crashed := true |}.

Definition typ_is (t : token) (ty : toktype) : bool :=
  match t_typ t, ty with
  | TEOF, TEOF | TError, TError | TComment, TComment | TMsgEnd, TMsgEnd | TStreamFunction, TStreamFunction
  | TWaitBit, TWaitBit | TDirection, TDirection | TMsgName, TMsgName | TLAB, TLAB | TRAB, TRAB
  | TItemType, TItemType | TItemSize, TItemSize | TNumber, TNumber | TBool, TBool | TVariable, TVariable
  | TQuoted, TQuoted | TEllipsis, TEllipsis => true
  | _, _ => false
  end.

Definition known_name (st : pstate) (n : bytes) : bool := existsb (bytes_eqb n) (names st).

(* ---- float text: an oracle (strconv.ParseFloat), answered per case ---- *)
(* for a token text: (status32, bits32, status64, bits64); status 0 ok, 1 range, 2 syntax *)
Definition float_oracle := list (bytes * (Z * Z * Z * Z)).

Section WithFloats.
Variable floats : float_oracle.

Definition scan_float (s : bytes) (w : nat) : Z * numerr :=
  match (fix find (l : float_oracle) : option (Z * Z * Z * Z) :=
           match l with
           | [] => None
           | (k, v) :: r => if bytes_eqb k s then Some v else find r
           end) floats with
  | None => (0, NumSyntax)
  | Some (s32, b32, s64, b64) =>
    let '(st, b) := match w with 4%nat => (s32, b32) | _ => (s64, b64) end in
    (b, if st =? 0 then NumOk else if st =? 1 then NumRange else NumSyntax)
  end.

(* getDataItemValueTokens: value tokens up to '>' (not consumed), or up to and
   including the first token of another kind *)
Fixpoint value_tokens (l : list token) : list token * list token :=
  match l with
  | [] => ([zero_tok], [])
  | t :: r =>
    match t_typ t with
    | TNumber | TBool | TQuoted | TVariable => let '(a, b) := value_tokens r in (t :: a, b)
    | TRAB => ([], l)
    | _ => ([t], r)
    end
  end.

Definition take_values (st : pstate) : list token * pstate :=
  let '(vs, rest) := value_tokens (toks st) in
  (vs, {| toks := rest; names := names st; ecount := ecount st; errs := errs st; warns := warns st; msgs := msgs st; crashed := crashed st |}).

(* the item kinds of the numeric parse functions *)
Inductive numkind := NKInt (w : nat) | NKUint (w : nat) | NKFloat (w : nat) | NKBin | NKBool.

(* one value token of a numeric / binary / boolean item: the factory argument, and diagnostics.
   None = stop parsing this item (ok = false) *)
Definition value_arg (nk : numkind) (st : pstate) (t : token) : option (gval * pstate) :=
  match t_typ t with
  | TVariable =>
    if known_name st (t_val t) then
      Some ((match nk with NKBool => GBool false | _ => GInt Kint 0 end), err st t 12)
    else Some (GStr (t_val t), add_name st (t_val t))
  | TError => None
  | TNumber =>
    match nk with
    | NKInt w =>
      let '(v, e) := parse_int (t_val t) (8 * Z.of_nat w) in
      Some (GInt Kint64 v, match e with NumOk => st | NumRange => err st t 26 | NumSyntax => err st t 27 end)
    | NKUint w =>
      let '(v, e) := parse_uint (t_val t) (8 * Z.of_nat w) in
      Some (GInt Kuint64 v, match e with NumOk => st | NumRange => err st t 29 | NumSyntax => err st t 30 end)
    | NKFloat w =>
      let '(b, e) := scan_float (t_val t) w in
      match e with
      | NumOk => Some ((match w with 4%nat => GF64 (f32_to_f64 b) | _ => GF64 b end), st)
      | NumRange => Some (GF64 0, err st t 23)
      | NumSyntax => Some (GF64 0, err st t 24)
      end
    | NKBin =>
      let '(v, e) := parse_int (t_val t) 64 in
      let st1 := match e with NumSyntax => err st t 27 | _ => st end in
      if (0 <=? v) && (v <? 256) then Some (GInt Kint v, st1) else Some (GInt Kint 0, err st1 t 20)
    | NKBool => None
    end
  | TBool =>
    match nk with
    | NKBool => Some (GBool (bytes_eqb (t_val t) [x54]), st)
    | _ => None
    end
  | _ => None
  end.

Definition wrong_token_kind (nk : numkind) : Z :=
  match nk with NKInt _ => 28 | NKUint _ => 31 | NKFloat _ => 25 | NKBin => 21 | NKBool => 22 end.

(* the loop over the value tokens; a token the item cannot hold ends it *)
Fixpoint value_args (nk : numkind) (st : pstate) (ts : list token) : option (list gval) * pstate :=
  match ts with
  | [] => (Some [], st)
  | t :: r =>
    match value_arg nk st t with
    | Some (g, st1) =>
      let '(o, st2) := value_args nk st1 r in
      (match o with Some gs => Some (g :: gs) | None => None end, st2)
    | None =>
      (None, match t_typ t with TError => err st t 9 | _ => err st t (wrong_token_kind nk) end)
    end
  end.

Definition build (nk : numkind) (args : list gval) : option item :=
  match nk with
  | NKInt w => new_int w args
  | NKUint w => new_uint w args
  | NKFloat w => new_float w args
  | NKBin => new_binary args
  | NKBool => new_boolean args
  end.

(* results of the item parsers: the item (None = the constructor panicked), ok *)
Inductive ires := IOk (t : item) | IStop | IPanic.

Definition parse_numeric (nk : numkind) (st : pstate) : ires * pstate :=
  let '(vs, st0) := take_values st in
  let '(o, st1) := value_args nk st0 vs in
  match o with
  | None => (IStop, st1)
  | Some args => match build nk args with Some t => (IOk t, st1) | None => (IPanic, st1) end
  end.

(* parseASCII *)
Fixpoint ascii_literal (st : pstate) (ts : list token) (n : nat) (acc : bytes) (mn mx : Z) : ires * pstate :=
  match ts with
  | [] => (match new_ascii acc with Some t => IOk t | None => IPanic end, st)
  | t :: r =>
    match t_typ t with
    | TQuoted =>
      let body := removelast (tl (t_val t)) in
      if existsb (fun rn => 127 <? rn) (runes body)
      then ascii_literal (err st t 15) r n acc mn mx
      else ascii_literal st r n (acc ++ body) mn mx
    | TNumber =>
      let '(v, e) := parse_uint (t_val t) 64 in
      let st1 := match e with NumSyntax => err st t 16 | _ => st end in
      if 127 <? v then ascii_literal (err st1 t 17) r n (acc ++ [x00]) mn mx
      else ascii_literal st1 r n (acc ++ [z2b v]) mn mx
    | TVariable =>
      if negb (n =? 1)%nat then (IStop, err st t 18)
      else if known_name st (t_val t) then (IOk (IAsciiVar [] mn mn), err st t 12)   (* marks the sized placeholder, see parse_item *)
      else (match new_ascii_var (t_val t) mn mx with Some it => IOk it | None => IPanic end, add_name st (t_val t))
    | TError => (IStop, err st t 9)
    | _ => (IStop, err st t 19)
    end
  end.

(* ---- sizes ---- *)

Fixpoint split_dots_go (pre s : bytes) : option (bytes * bytes) :=
  match s with
  | a :: t =>
    match t with
    | b :: r => if byte_eqb a x2e && byte_eqb b x2e then Some (rev_append pre [], r) else split_dots_go (a :: pre) t
    | [] => None
    end
  | [] => None
  end.
Definition split_dots (s : bytes) : option (bytes * bytes) := split_dots_go [] s.     (* around the first ".." *)

(* parseDataItemSize on the token text "[x]", "[x..]", "[..y]", "[x..y]" *)
Definition parse_size (v : bytes) : Z * Z :=
  let inner := removelast (tl v) in
  match split_dots inner with
  | None => let '(n, _) := atoi inner in (n, n)
  | Some (a, b) =>
    let '(lo, _) := atoi a in
    let '(hi, e) := atoi b in
    (lo, match e with NumSyntax => -1 | _ => hi end)
  end.

Definition size_error (sz lo hi : Z) : bool :=
  if hi =? -1 then sz <? lo else negb ((lo <=? sz) && (sz <=? hi)).

(* ---- data items ---- *)

Definition nk_of_type (ty : bytes) : option numkind :=
  if bytes_eqb ty (B"B"%string) then Some NKBin
  else if bytes_eqb ty (B"BOOLEAN"%string) then Some NKBool
  else if bytes_eqb ty (B"F4"%string) then Some (NKFloat 4)
  else if bytes_eqb ty (B"F8"%string) then Some (NKFloat 8)
  else if bytes_eqb ty (B"I1"%string) then Some (NKInt 1)
  else if bytes_eqb ty (B"I2"%string) then Some (NKInt 2)
  else if bytes_eqb ty (B"I4"%string) then Some (NKInt 4)
  else if bytes_eqb ty (B"I8"%string) then Some (NKInt 8)
  else if bytes_eqb ty (B"U1"%string) then Some (NKUint 1)
  else if bytes_eqb ty (B"U2"%string) then Some (NKUint 2)
  else if bytes_eqb ty (B"U4"%string) then Some (NKUint 4)
  else if bytes_eqb ty (B"U8"%string) then Some (NKUint 8)
  else None.

(* what the size check sees of an item: Size() *)
Definition item_size_for_check (t : item) (placeholder : option Z) : Z :=
  match placeholder with Some n => n | None => size t end.

(* parseDataItem and parseList call each other; the bodies are written with
   the recursive calls as parameters (so that they unfold by name), and the
   knot is tied on a fuel argument below *)
Definition parse_item_body (rec_list : pstate -> list gval -> Z -> ires * pstate)
           (st : pstate) : option item * pstate :=   (* None = ok false *)
    let lab := peek st in
    if negb (typ_is lab TLAB) then (None, err st lab 7) else
    let st := advance st in
    let recovered (s : pstate) := (None, warn (err s lab 32) lab 42) in
    let ty := peek st in
    if negb (typ_is ty TItemType) then (None, err st ty 8) else
    let st := advance st in
    let szt := peek st in
    let '(sized, lo, hi, st) :=
        if typ_is szt TItemSize then let '(a, b) := parse_size (t_val szt) in (true, a, b, advance st)
        else (false, 0, -1, st) in
    if negb sized && typ_is szt TError then (None, err st szt 9) else
    (* the value part *)
    let '(res, placeholder, st) :=
        if bytes_eqb (t_val ty) (B"L"%string) then
          let '(r, s) := rec_list st [] 0 in (r, None, s)
        else if bytes_eqb (t_val ty) (B"A"%string) then
          let '(vs, st0) := take_values st in
          let '(r, s) := ascii_literal st0 vs (length vs) [] lo hi in
          (* the duplicate-variable placeholder reports the declared lower bound as its size *)
          (match r with IOk (IAsciiVar [] _ _) => IOk (IAscii []) | _ => r end,
           match r with IOk (IAsciiVar [] _ _) => Some lo | _ => None end, s)
        else
          match nk_of_type (t_val ty) with
          | Some nk => let '(r, s) := parse_numeric nk st in (r, None, s)
          | None => (IStop, None, st)
          end in
    match res with
    | IPanic => recovered st
    | IStop => (None, st)
    | IOk it =>
      let sz := item_size_for_check it placeholder in
      let st := if (0 <=? sz) && size_error sz lo hi then err st szt 10 else st in
      let rab := peek st in
      if typ_is rab TRAB then (Some it, advance st) else (None, err st rab 11)
    end.

Definition parse_list_body (rec_item : pstate -> option item * pstate)
           (rec_list : pstate -> list gval -> Z -> ires * pstate)
           (st : pstate) (acc : list gval) (count : Z) : ires * pstate :=
    let t := peek st in
    match t_typ t with
    | TLAB =>
      match rec_item st with
      | (Some c, st1) => rec_list st1 (acc ++ [GItem c]) (count + 1)
      | (None, st1) => (IStop, st1)
      end
    | TVariable =>
      let st := advance st in
      if known_name st (t_val t) then rec_list (err st t 12) (acc ++ [GItem IEmpty]) (count + 1)
      else rec_list (add_name st (t_val t)) (acc ++ [GStr (t_val t)]) (count + 1)
    | TEllipsis =>
      let st := advance st in
      if count =? 0 then (IStop, err st t 13) else
      let name := [x2e; x2e; x2e] ++ [x5b] ++ fmt_int (ecount st) ++ [x5d] in
      let st1 := with_ecount st (ecount st + 1) in
      let st2 := if bytes_eqb (t_val t) [x2e; x2e; x2e] || bytes_eqb (t_val t) name then st1 else warn st1 t 41 in
      rec_list st2 (acc ++ [GStr name]) (count + 1)
    | TRAB => (match new_list acc with Some l => IOk l | None => IPanic end, st)
    | TError => (IStop, err st t 9)
    | _ => (IStop, err st t 14)
    end.

Fixpoint parse_item (fuel : nat) (st : pstate) : option item * pstate :=
  match fuel with
  | O => (None, st)
  | S f => parse_item_body (parse_list f) st
  end
with parse_list (fuel : nat) (st : pstate) (acc : list gval) (count : Z) : ires * pstate :=
  match fuel with
  | O => (IStop, st)
  | S f => parse_list_body (parse_item f) (parse_list f) st acc count
  end.

(* ---- messages ---- *)

Definition split_sf (v : bytes) : bytes * bytes :=      (* "S<digits>F<digits>", upper case *)
  let body := tl v in
  let '(a, r) := span is_digit body in (a, tl r).

Definition dir_default : bytes := B"H<->E"%string.

Definition parse_message (st : pstate) : bool * pstate :=
  let st := reset_msg_scope st in
  let t := peek st in
  if negb (typ_is t TStreamFunction) then (false, err st t 1) else
  let st := advance st in
  let '(sd, fd) := split_sf (t_val t) in
  let '(stream0, _) := atoi sd in
  let '(function0, _) := atoi fd in
  let '(stream, st) := if (0 <=? stream0) && (stream0 <? 128) then (stream0, st) else (0, err st t 2) in
  let '(function, st) := if (0 <=? function0) && (function0 <? 256) then (function0, st) else (0, err st t 3) in
  let w := peek st in
  let '(wbit, st) :=
      if typ_is w TWaitBit then
        let st := advance st in
        if bytes_eqb (t_val w) [x57] then
          (if function mod 2 =? 0 then (0, err st w 4) else (1, st))
        else if bytes_eqb (t_val w) (B"[W]"%string) then (2, st) else (0, st)
      else (0, st) in
  let d := peek st in
  let '(dir, st) := if typ_is d TDirection then (t_val d, advance st) else (dir_default, warn st d 40) in
  let n := peek st in
  let '(name, st) := if typ_is n TMsgName then (t_val n, advance st) else ([], st) in
  let x := peek st in
  let '(it, st) :=
      if typ_is x TMsgEnd then (Some IEmpty, st)
      else if typ_is x TLAB then parse_item (S (length (toks st))) st
      else (None, err st x 6) in
  match it with
  | None => (false, st)
  | Some item =>
    let e := peek st in
    if negb (typ_is e TMsgEnd) then (false, err st e 5) else
    let st := advance st in
    match new_data_message name stream function wbit dir item with
    | Some m => (true, add_msg st m)
    | None => (false, crash st)
    end
  end.

Fixpoint parse_loop (fuel : nat) (st : pstate) : pstate :=
  match fuel with
  | O => st
  | S f =>
    if typ_is (peek st) TEOF then st
    else let '(ok, st1) := parse_message st in if ok then parse_loop f st1 else st1
  end.

End WithFloats.

Record presult := { r_msgs : list msg; r_errs : list (Z * Z * Z); r_warns : list (Z * Z * Z); r_crashed : bool }.

Definition diag_pos (input : bytes) (d : diag) : Z * Z * Z :=
  let t := d_tok d in
  if typ_is t TEOF && is_nil (t_val t) then (0, 0, d_kind d)
  else let '(l, c) := linecol input (t_off t) in (l, c, d_kind d).

(* sml.Parse *)
Definition sml_parse (alnum : list Z) (floats : float_oracle) (input : bytes) : presult :=
  let ts := filter (fun t => negb (typ_is t TComment)) (lex_all alnum input) in
  let st0 := {| toks := ts; names := []; ecount := 0; errs := []; warns := []; msgs := []; crashed := false |} in
  let st := parse_loop floats (S (length ts)) st0 in
  {| r_msgs := match errs st with [] => msgs st | _ => [] end;
     r_errs := map (diag_pos input) (errs st);
     r_warns := map (diag_pos input) (warns st);
     r_crashed := crashed st |}.
