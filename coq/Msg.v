(* Msg.v — DataMessage (ast.go), ControlMessage (hsms.go; hand-written
   specification, proved equal to the generated gen/Ctrl.v in CtrlTie.v),
   and the HSMS decoder (pkg/parser/hsms/parser.go). *)
From Secs Require Export Fill Utf8.
Open Scope Z_scope.

Record msg := {
  m_name : bytes; m_stream : Z; m_function : Z; m_wbit : Z; m_dir : bytes;
  m_item : item; m_sid : Z; m_sys : bytes }.

Definition dir_ok (d : bytes) : bool :=
  bytes_eqb d (B"H->E"%string) || bytes_eqb d (B"H<-E"%string) || bytes_eqb d (B"H<->E"%string).

(* DataMessage.checkRep *)
Definition msg_ok (m : msg) : bool :=
  negb (has_space_rune (m_name m)) &&
  (0 <=? m_stream m) && (m_stream m <? 128) &&
  (0 <=? m_function m) && (m_function m <? 256) &&
  negb ((m_wbit m =? 1) && (m_function m mod 2 =? 0)) &&
  (0 <=? m_wbit m) && (m_wbit m <=? 2) &&
  (-1 <=? m_sid m) && (m_sid m <? 65536) &&
  (length (m_sys m) =? 4)%nat &&
  dir_ok (m_dir m).

Definition check (m : msg) : option msg := if msg_ok m then Some m else None.

Fixpoint pad4 (n : nat) (s : bytes) : bytes :=     (* first n bytes, zero padded *)
  match n with
  | O => []
  | S n' => match s with
            | [] => x00 :: pad4 n' []
            | b :: r => b :: pad4 n' r
            end
  end.

Definition new_data_message (name : bytes) (stream function wbit : Z) (dir : bytes) (it : item) : option msg :=
  check {| m_name := name; m_stream := stream; m_function := function; m_wbit := wbit;
           m_dir := dir; m_item := it; m_sid := -1; m_sys := [x00; x00; x00; x00] |}.

Definition new_hsms_data_message (name : bytes) (stream function wbit : Z) (dir : bytes)
           (it : item) (sid : Z) (sys : bytes) : option msg :=
  if negb ((wbit =? 0) || (wbit =? 1)) then None
  else if sid =? -1 then None
  else if negb (is_nil (vars it)) then None
  else check {| m_name := name; m_stream := stream; m_function := function; m_wbit := wbit;
                m_dir := dir; m_item := it; m_sid := sid; m_sys := pad4 4 sys |}.

Definition with_wbit (m : msg) (w : Z) : msg :=
  {| m_name := m_name m; m_stream := m_stream m; m_function := m_function m; m_wbit := w;
     m_dir := m_dir m; m_item := m_item m; m_sid := m_sid m; m_sys := m_sys m |}.
Definition with_session (m : msg) (sid : Z) (sys : bytes) : msg :=
  {| m_name := m_name m; m_stream := m_stream m; m_function := m_function m; m_wbit := m_wbit m;
     m_dir := m_dir m; m_item := m_item m; m_sid := sid; m_sys := sys |}.
Definition with_item (m : msg) (it : item) : msg :=
  {| m_name := m_name m; m_stream := m_stream m; m_function := m_function m; m_wbit := m_wbit m;
     m_dir := m_dir m; m_item := it; m_sid := m_sid m; m_sys := m_sys m |}.

Definition set_wait_bit (m : msg) (b : bool) : option msg :=
  if negb (m_wbit m =? 2) then Some m else check (with_wbit m (if b then 1 else 0)).

Definition set_session (m : msg) (sid : Z) (sys : bytes) : option msg :=
  check (with_session m sid (pad4 4 sys)).

Definition fill_msg (m : msg) (s : fmap) : option msg :=
  match fill s (m_item m) with
  | Some it => check (with_item m it)
  | None => None
  end.

Definition msg_complete (m : msg) : bool :=
  negb (m_wbit m =? 2) && is_nil (vars (m_item m)) && negb (m_sid m =? -1).

Definition msg_to_bytes (m : msg) : bytes :=
  if negb (msg_complete m) then [] else
  let ib := to_bytes (m_item m) in
  be_enc 4 (Z.of_nat (length ib) + 10) ++ be_enc 2 (m_sid m) ++
  [z2b (m_stream m + (if m_wbit m =? 1 then 128 else 0)); z2b (m_function m); x00; x00] ++
  firstn 4 (m_sys m) ++ ib.

Definition msg_header (m : msg) : bytes :=
  [x53] ++ fmt_int (m_stream m) ++ [x46] ++ fmt_int (m_function m) ++
  (if m_wbit m =? 1 then B" W"%string else if m_wbit m =? 2 then B" [W]"%string else []) ++
  [x20] ++ m_dir m ++
  (match m_name m with [] => [] | n => x20 :: n end).

Definition msg_print (m : msg) : list piece :=
  match m_item m with
  | IEmpty => [PT (msg_header m ++ [x0a; x2e])]
  | it => PT (msg_header m ++ [x0a]) :: print_item it ++ [PT [x0a; x2e]]
  end.

Definition wbit_string (m : msg) : bytes :=
  if m_wbit m =? 0 then B"false"%string else if m_wbit m =? 1 then B"true"%string else B"optional"%string.

(* ---------- control messages: the specification ---------- *)

Definition hi (z : Z) : byte := z2b (z / 256).
Definition lo (z : Z) : byte := z2b z.

Definition sys4 (sys : bytes) : option bytes :=    (* systemBytes[0..3]; shorter slices panic *)
  match sys with a :: b :: c :: d :: _ => Some [a; b; c; d] | _ => None end.

Definition ctl_req (sid : Z) (stype : byte) (sys : bytes) : option bytes :=
  match sys4 sys with
  | Some s => Some ([hi sid; lo sid; x00; x00; x00; stype] ++ s)
  | None => None
  end.

Definition spec_select_req (sid : Z) (sys : bytes) := ctl_req sid x01 sys.
Definition spec_deselect_req (sid : Z) (sys : bytes) := ctl_req sid x03 sys.
Definition spec_separate_req (sid : Z) (sys : bytes) := ctl_req sid x09 sys.
Definition spec_linktest_req (sys : bytes) := ctl_req 65535 x05 sys.
Definition spec_reject_req (sid : Z) (ptype stype : byte) (sys : bytes) (reason : byte) : option bytes :=
  match sys4 sys with
  | Some s => Some ([hi sid; lo sid; (if byte_eqb reason x02 then ptype else stype); reason; x00; x07] ++ s)
  | None => None
  end.

Definition bnth (h : bytes) (i : nat) : byte := nth i h x00.

Definition ctl_type (h : bytes) : bytes :=
  if negb (byte_eqb (bnth h 4) x00) then B"undefined"%string else
  match b2z (bnth h 5) with
  | 1 => B"select.req"%string
  | 2 => B"select.rsp"%string
  | 3 => B"deselect.req"%string
  | 4 => B"deselect.rsp"%string
  | 5 => B"linktest.req"%string
  | 6 => B"linktest.rsp"%string
  | 7 => B"reject.req"%string
  | 9 => B"separate.req"%string
  | _ => B"undefined"%string
  end.

(* a response: [req] is the header of a control message *)
Definition ctl_rsp (expect : bytes) (stype : byte) (status : byte) (linktest : bool) (req : bytes) : option bytes :=
  if bytes_eqb (ctl_type req) expect then
    Some ([if linktest then xff else bnth req 0; if linktest then xff else bnth req 1; x00; status; x00; stype;
           bnth req 6; bnth req 7; bnth req 8; bnth req 9])
  else None.

Definition spec_select_rsp (req : bytes) (status : byte) := ctl_rsp (B"select.req"%string) x02 status false req.
Definition spec_deselect_rsp (req : bytes) (status : byte) := ctl_rsp (B"deselect.req"%string) x04 status false req.
Definition spec_linktest_rsp (req : bytes) := ctl_rsp (B"linktest.req"%string) x06 x00 true req.

(* NewHSMSControlMessage: copies up to 10 bytes; index 10 is written when present *)
Definition new_control (h : bytes) : option bytes :=
  if (10 <? length h)%nat then None else Some (pad4 10 h).

Definition ctl_to_bytes (h : bytes) : bytes := [x00; x00; x00; x0a] ++ h.

(* ---------- the HSMS decoder ---------- *)

Fixpoint zlength {A} (l : list A) (acc : Z) : Z :=
  match l with [] => acc | _ :: r => zlength r (acc + 1) end.

(* first n elements (n : Z), or None when there are fewer *)
Fixpoint ztake {A} (l : list A) (n : Z) : option (list A * list A) :=
  if n <=? 0 then Some ([], l) else
  match l with
  | [] => None
  | x :: r => match ztake r (n - 1) with
              | Some (a, b) => Some (x :: a, b)
              | None => None
              end
  end.

(* values of consecutive w-byte big-endian groups *)
Fixpoint be_groups_aux (w : nat) (bs : bytes) (acc : Z) (k : nat) : list Z :=
  match bs with
  | [] => []
  | b :: r =>
    let acc' := acc * 256 + b2z b in
    match k with
    | O => []
    | S O => acc' :: be_groups_aux w r 0 w
    | S k' => be_groups_aux w r acc' k'
    end
  end.
Definition be_groups (w : nat) (bs : bytes) : list Z := be_groups_aux w bs 0 w.

Definition kind_of_code (c : Z) : option (kind * nat) :=
  match c with
  | 8 => Some (KBin, 1%nat) | 9 => Some (KBool, 1%nat)
  | 36 => Some (KFloat, 4%nat) | 32 => Some (KFloat, 8%nat)
  | 25 => Some (KInt, 1%nat) | 26 => Some (KInt, 2%nat) | 28 => Some (KInt, 4%nat) | 24 => Some (KInt, 8%nat)
  | 41 => Some (KUint, 1%nat) | 42 => Some (KUint, 2%nat) | 44 => Some (KUint, 4%nat) | 40 => Some (KUint, 8%nat)
  | _ => None
  end.

Definition int_kind (w : nat) : ikind :=
  match w with 1%nat => Kint8 | 2%nat => Kint16 | 4%nat => Kint32 | _ => Kint64 end.
Definition uint_kind (w : nat) : ikind :=
  match w with 1%nat => Kuint8 | 2%nat => Kuint16 | 4%nat => Kuint32 | _ => Kuint64 end.

(* the Go value the decoder hands to the factory for one element pattern *)
Definition dec_arg (k : kind) (w : nat) (p : Z) : gval :=
  match k with
  | KBin => GInt Kint p
  | KBool => GBool (negb (p =? 0))
  | KFloat => match w with 4%nat => GF32 p | _ => GF64 p end
  | KInt => GInt (int_kind w) (to_signed w p)
  | KUint => GInt (uint_kind w) p
  end.

Definition dec_leaf (code : Z) (payload : bytes) (len : Z) : option item :=
  if code =? 16 then new_ascii payload else
  match kind_of_code code with
  | None => None
  | Some (k, w) =>
    if len mod Z.of_nat w =? 0
    then new_leaf k w (map (dec_arg k w) (be_groups w payload))
    else None
  end.

(* parseMessageText below the message level.  [rem] is the number of bytes in
   [bs]; threading it keeps the extracted decoder linear. *)
Fixpoint dec_item (fuel : nat) (bs : bytes) (rem : Z) : option (item * bytes * Z) :=
  match fuel with
  | O => None
  | S f =>
    match bs with
    | [] => None                               (* p.input[p.pos] out of range *)
    | fb :: r1 =>
      let code := b2z fb / 4 in
      let k := b2z fb mod 4 in
      if k =? 0 then None else
      match ztake r1 k with
      | None => None                           (* slice bounds *)
      | Some (lb, r2) =>
        let len := be_dec lb in
        let rem2 := rem - 1 - k in
        if rem2 <? len then None else          (* declared length exceeds what follows *)
        if code =? 0 then
          match dec_items f len r2 rem2 with
          | Some (xs, r3, rem3) =>
            match new_list (map GItem xs) with
            | Some t => Some (t, r3, rem3)
            | None => None
            end
          | None => None
          end
        else
          match ztake r2 len with
          | None => None
          | Some (payload, r3) =>
            match dec_leaf code payload len with
            | Some t => Some (t, r3, rem2 - len)
            | None => None
            end
          end
      end
    end
  end
with dec_items (fuel : nat) (n : Z) (bs : bytes) (rem : Z) : option (list item * bytes * Z) :=
  match fuel with
  | O => None
  | S f =>
    if n <=? 0 then Some ([], bs, rem) else
    match dec_item f bs rem with
    | Some (t, r, rem') =>
      match dec_items f (n - 1) r rem' with
      | Some (ts, r', rem'') => Some (t :: ts, r', rem'')
      | None => None
      end
    | None => None
    end
  end.

Inductive hmsg := HData (m : msg) | HCtl (h : bytes).

Definition stype_defined (s : Z) : bool := ((1 <=? s) && (s <=? 7)) || (s =? 9).

Definition hsms_parse (input : bytes) : option hmsg :=
  let n := zlength input 0 in
  if n <? 14 then None else
  match ztake input 4 with
  | None => None
  | Some (lb, r1) =>
    let mlen := be_dec lb in
    if negb (n - 4 =? mlen) then None else
    match ztake r1 10 with
    | None => None
    | Some (h, text) =>
      if negb (byte_eqb (bnth h 4) x00) then None else
      let st := b2z (bnth h 5) in
      if st =? 0 then
        let stream := b2z (bnth h 2) mod 128 in
        let function := b2z (bnth h 3) in
        let wbit := b2z (bnth h 2) / 128 in
        let sid := be_dec (firstn 2 h) in
        let sys := skipn 6 h in
        let it :=
            if mlen =? 10 then Some IEmpty
            else match dec_item (S (length text)) text (mlen - 10) with
                 | Some (t, [], _) => Some t
                 | _ => None
                 end in
        match it with
        | Some t => match new_hsms_data_message [] stream function wbit (B"H<->E"%string) t sid sys with
                    | Some m => Some (HData m)
                    | None => None
                    end
        | None => None
        end
      else if stype_defined st then
        if mlen =? 10 then match new_control h with Some h' => Some (HCtl h') | None => None end
        else None
      else None
    end
  end.
