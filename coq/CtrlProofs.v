(* CtrlProofs.v — control messages: Type() is a total function of
   (PType, SType) (finite sweep, lifted), decoding inverts ToBytes. *)
From Secs Require Import Ast Fill Msg WireSpec WireLemmas HeaderProofs WireEnc WireDec MsgProofs.
Open Scope Z_scope.

(* the E37 table of session types *)
Definition stype_name (s : Z) : bytes :=
  match s with
  | 1 => B"select.req" | 2 => B"select.rsp" | 3 => B"deselect.req" | 4 => B"deselect.rsp"
  | 5 => B"linktest.req" | 6 => B"linktest.rsp" | 7 => B"reject.req" | 9 => B"separate.req"
  | _ => B"undefined"
  end%string.

Definition type_of (ptype stype : byte) : bytes :=
  if byte_eqb ptype x00 then stype_name (b2z stype) else B"undefined"%string.

Lemma ctl_type_is h : ctl_type h = type_of (bnth h 4) (bnth h 5).
Proof.
  unfold ctl_type, type_of. destruct (byte_eqb (bnth h 4) x00); [|reflexivity]. cbn [negb].
  unfold stype_name. reflexivity.
Qed.

Definition all_bytes : list byte := map (fun n => z2b (Z.of_nat n)) (seq 0 256).

Lemma all_bytes_complete b : In b all_bytes.
Proof.
  unfold all_bytes. apply in_map_iff. exists (Z.to_nat (b2z b)). pose proof (b2z_range b). split.
  - rewrite Z2Nat.id by lia. apply z2b_b2z.
  - apply in_seq. lia.
Qed.

(* the check run on all 65,536 pairs *)
Definition type_pair_ok (p s : byte) : bool :=
  let t := type_of p s in
  let defined := byte_eqb p x00 && stype_defined (b2z s) in
  (* defined pairs name their kind, every other pair is "undefined", and the
     eight names are pairwise different *)
  (if defined then negb (bytes_eqb t (B"undefined"%string)) else bytes_eqb t (B"undefined"%string)) &&
  forallb (fun s' => if byte_eqb s s' then true
                     else if defined && stype_defined (b2z s') then negb (bytes_eqb t (type_of p s')) else true) all_bytes.

Lemma type_sweep : forallb (fun p => forallb (fun s => type_pair_ok p s) all_bytes) all_bytes = true.
Proof. vm_compute. reflexivity. Qed.

Lemma type_pair_all p s : type_pair_ok p s = true.
Proof.
  pose proof type_sweep as H. rewrite forallb_forall in H. specialize (H p (all_bytes_complete p)).
  rewrite forallb_forall in H. exact (H s (all_bytes_complete s)).
Qed.

Lemma ctl_decodes h :
  length h = 10%nat -> bnth h 4 = x00 -> stype_defined (b2z (bnth h 5)) = true ->
  hsms_parse (ctl_to_bytes h) = Some (HCtl h).
Proof.
  intros Hl Hp Hs. apply hsms_parse_complete. exists [x00; x00; x00; x0a], h, [].
  split; [unfold ctl_to_bytes; rewrite app_nil_r; reflexivity|]. split; [reflexivity|]. split; [exact Hl|].
  split; [reflexivity|]. split; [exact Hp|]. split; [reflexivity|]. split; [reflexivity|exact Hs].
Qed.

Lemma ctl_req_shape sid st sys h :
  ctl_req sid st sys = Some h ->
  exists a b c d r, sys = a :: b :: c :: d :: r /\ h = [hi sid; lo sid; x00; x00; x00; st; a; b; c; d].
Proof.
  unfold ctl_req, sys4. destruct sys as [|a [|b [|c [|d r]]]]; try discriminate.
  intro H; inversion H. exists a, b, c, d, r. split; reflexivity.
Qed.
