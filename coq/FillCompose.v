(* FillCompose.v — filling a value item in two steps equals filling it once
   with the union of the maps (C09), for fill-in values that bring no variable
   of their own. *)
From Secs Require Import Ast FloatProofs Fill Msg WireSpec WireLemmas WireValues HeaderProofs WireEnc WireDec MsgProofs AstProofs FillProofs.
Open Scope Z_scope.

Lemma flookup_app n a b : flookup n (a ++ b) = match flookup n a with Some g => Some g | None => flookup n b end.
Proof.
  induction a as [|[k v] a IH]; [reflexivity|]. cbn [app flookup]. destruct (bytes_eqb n k); [reflexivity|exact IH].
Qed.

Definition conv (k : kind) (w : nat) (s : fmap) (x : slot) : option slot := leaf_arg k w (slot_arg k w s x).

Lemma valid_no_0b n : is_valid_var_name n = true -> has_prefix_0b n = false.
Proof.
  destruct n as [|a r]; [reflexivity|]. cbn [is_valid_var_name]. intro H. apply andb_true_iff in H as [Ha _].
  unfold has_prefix_0b. destruct r as [|b r]; [reflexivity|].
  destruct (byte_eqb a x30) eqn:E; [|reflexivity]. apply byte_eqb_spec in E. subst a. discriminate.
Qed.

Lemma conv_sv k w s v : slot_built k w (SV v) -> conv k w s (SV v) = Some (SV v).
Proof. intro H. unfold conv. cbn [slot_arg]. apply typed_val_roundtrip. exact H. Qed.

Lemma conv_sx_miss k w s n : is_valid_var_name n = true -> flookup n s = None -> conv k w s (SX n) = Some (SX n).
Proof.
  intros Hv Hm. unfold conv. cbn [slot_arg]. rewrite Hm. apply leaf_arg_str.
  destruct k; try reflexivity. apply valid_no_0b. exact Hv.
Qed.

Lemma conv_sx_hit k w s n g : flookup n s = Some g -> conv k w s (SX n) = leaf_arg k w g.
Proof. intro H. unfold conv. cbn [slot_arg]. rewrite H. reflexivity. Qed.

Lemma map_opt_map {X Y Z'} (f : X -> Y) (g : Y -> option Z') l : map_opt g (map f l) = map_opt (fun x => g (f x)) l.
Proof. induction l as [|a l IH]; [reflexivity|]. cbn. rewrite IH. reflexivity. Qed.

Lemma map_opt_ext_in {X Y} (f g : X -> option Y) l : (forall x, In x l -> f x = g x) -> map_opt f l = map_opt g l.
Proof.
  induction l as [|a l IH]; intro H; [reflexivity|]. cbn. rewrite (H a (or_introl eq_refl)), IH; [reflexivity|].
  intros x Hx. apply H. right. exact Hx.
Qed.

(* a map's values bring no variable of their own into an item of this kind *)
Definition plain_values (k : kind) (w : nat) (s : fmap) : Prop :=
  forall n g, flookup n s = Some g -> arg_in_go_range g /\ forall m, leaf_arg k w g <> Some (SX m).

Definition plain_on (k : kind) (w : nat) (s : fmap) (xs : list slot) : Prop :=
  forall n g, In (SX n) xs -> flookup n s = Some g -> arg_in_go_range g /\ forall m, leaf_arg k w g <> Some (SX m).

Definition hits (s : fmap) (xs : list slot) : bool :=
  existsb (fun n => match flookup n s with Some _ => true | None => false end) (slot_vars xs).

Lemma hits_false s xs n : hits s xs = false -> In (SX n) xs -> flookup n s = None.
Proof.
  unfold hits. intros H Hin.
  assert (Hn : In n (slot_vars xs)).
  { unfold slot_vars. apply in_flat_map. exists (SX n). split; [exact Hin|left; reflexivity]. }
  destruct (flookup n s) eqn:E; [|reflexivity].
  exfalso. rewrite <- not_true_iff_false in H. apply H. apply existsb_exists. exists n. split; [exact Hn|]. rewrite E. reflexivity.
Qed.

Lemma names_ok_valid xs n : names_ok xs = true -> In (SX n) xs -> is_valid_var_name n = true.
Proof.
  unfold names_ok. intros H Hin. apply andb_true_iff in H as [H _]. rewrite forallb_forall in H. apply H.
  unfold slot_vars. apply in_flat_map. exists (SX n). split; [exact Hin|left; reflexivity].
Qed.

(* converting a built item with a map that hits none of its variables gives the item back *)
Lemma conv_identity k w s xs : Forall (slot_built k w) xs -> names_ok xs = true -> hits s xs = false ->
  map_opt (conv k w s) xs = Some xs.
Proof.
  intros Hb Hn Hh.
  assert (G : forall x, In x xs -> conv k w s x = Some x).
  { intros [v|n] Hin.
    - apply conv_sv. rewrite Forall_forall in Hb. apply (Hb _ Hin).
    - apply conv_sx_miss; [eapply names_ok_valid; eassumption|eapply hits_false; eassumption]. }
  clear Hb Hn Hh. induction xs as [|x r IH]; [reflexivity|]. cbn.
  rewrite (G x (or_introl eq_refl)), IH; [reflexivity|]. intros y Hy. apply G. right. exact Hy.
Qed.

Lemma existsb_ext_in' {X} (f g : X -> bool) l : (forall x, In x l -> f x = g x) -> existsb f l = existsb g l.
Proof.
  induction l as [|a l IH]; intro H; [reflexivity|]. cbn. rewrite (H a (or_introl eq_refl)), IH; [reflexivity|].
  intros x Hx. apply H. right. exact Hx.
Qed.

Lemma fill_leaf_conv s k w xs : fill_leaf s k w xs =
  if hits s xs then
    (if negb (size_ok (size_typ k w) (length xs)) then None else
     match map_opt (conv k w s) xs with
     | None => None
     | Some ys => if width_okb k w && forallb (val_okb k w) ys && names_ok ys then Some (ILeaf k w ys) else None
     end)
  else Some (ILeaf k w xs).
Proof. unfold fill_leaf, new_leaf, hits. rewrite map_length, map_opt_map. reflexivity. Qed.

Lemma map_opt_forall2 {X Y} (f : X -> option Y) : forall l l', map_opt f l = Some l' -> Forall2 (fun x y => f x = Some y) l l'.
Proof.
  induction l as [|a l IH]; intros l' H; cbn in H; [inversion H; constructor|].
  destruct (f a) eqn:E; [|discriminate]. destruct (map_opt f l) eqn:E2; [|discriminate]. inversion H; subst.
  constructor; [exact E|apply IH; reflexivity].
Qed.

Lemma forall2_length {X Y} (R : X -> Y -> Prop) l l' : Forall2 R l l' -> length l' = length l.
Proof. induction 1; [reflexivity|]. cbn. f_equal. assumption. Qed.

Lemma slot_vars_in xs n : In n (slot_vars xs) <-> In (SX n) xs.
Proof.
  unfold slot_vars. rewrite in_flat_map. split.
  - intros [[v|m] [Hin Hn]]; [destruct Hn|]. destruct Hn as [->|[]]. exact Hin.
  - intro H. exists (SX n). split; [exact H|left; reflexivity].
Qed.

Lemma names_ok_tail x xs : names_ok (x :: xs) = true -> names_ok xs = true.
Proof.
  unfold names_ok.
  change (slot_vars (x :: xs)) with ((match x with SX n => [n] | SV _ => [] end) ++ slot_vars xs).
  destruct x as [v|n]; cbn [app]; [intro H; exact H|].
  cbn [forallb nodupb]. intro H. apply andb_true_iff in H as [Hva Hnd].
  apply andb_true_iff in Hva as [_ Hva]. apply andb_true_iff in Hnd as [_ Hnd]. rewrite Hva, Hnd. reflexivity.
Qed.

Theorem fill_leaf_composes_on k w xs s1 s2 ys :
  fmt_ok k w -> Forall (slot_built k w) xs -> names_ok xs = true -> plain_on k w s1 xs ->
  fill_leaf s1 k w xs = Some (ILeaf k w ys) ->
  fill_leaf s2 k w ys = fill_leaf (s1 ++ s2) k w xs.
Proof.
  intros Hf Hb Hn Hp H1. rewrite fill_leaf_conv in H1. rewrite !fill_leaf_conv.
  destruct (hits s1 xs) eqn:Hh1.
  2:{ (* the first map touches nothing *)
    inversion H1; subst ys. clear H1.
    assert (Hl : forall n, In n (slot_vars xs) -> flookup n (s1 ++ s2) = flookup n s2).
    { intros n Hin. rewrite flookup_app, (hits_false s1 xs n Hh1); [reflexivity|]. apply slot_vars_in. exact Hin. }
    assert (Hh : hits (s1 ++ s2) xs = hits s2 xs).
    { unfold hits. apply existsb_ext_in'. intros n Hin. rewrite (Hl n Hin). reflexivity. }
    assert (Hm : map_opt (conv k w (s1 ++ s2)) xs = map_opt (conv k w s2) xs).
    { apply map_opt_ext_in. intros [v|n] Hin; [reflexivity|]. unfold conv. cbn [slot_arg].
      rewrite (Hl n); [reflexivity|]. apply slot_vars_in. exact Hin. }
    rewrite Hh, Hm. reflexivity. }
  destruct (negb (size_ok (size_typ k w) (length xs))) eqn:Hs; [discriminate|].
  destruct (map_opt (conv k w s1) xs) as [ys'|] eqn:Em; [|discriminate].
  destruct (width_okb k w && forallb (val_okb k w) ys' && names_ok ys') eqn:Hc; [|discriminate].
  inversion H1; subst ys'. clear H1.
  pose proof (map_opt_forall2 _ _ _ Em) as F2.
  pose proof (forall2_length _ _ _ F2) as Hlen.
  apply andb_true_iff in Hc as [Hc Hny]. apply andb_true_iff in Hc as [Hw Hv].
  (* position by position: the second step on the result = the union on the original *)
  assert (K : Forall2 (fun x y => conv k w s2 y = conv k w (s1 ++ s2) x /\ slot_built k w y) xs ys).
  { clear Em Hlen Hs Hh1 Hny. revert Hb Hv Hn Hp. induction F2 as [|x y xs' ys' Hxy _ IH]; intros Hb Hv Hn Hp; [constructor|].
    inversion Hb as [|? ? Hbx Hbr]; subst. cbn [forallb] in Hv. apply andb_true_iff in Hv as [Hvy Hvr].
    assert (Hn' : names_ok xs' = true) by (eapply names_ok_tail; exact Hn).
    constructor; [|apply IH; try assumption; intros n0 g0 Hin0; apply Hp; right; exact Hin0].
    destruct x as [v|n].
    - rewrite (conv_sv k w s1 v Hbx) in Hxy. inversion Hxy; subst y. split; [reflexivity|exact Hbx].
    - destruct (flookup n s1) as [g|] eqn:El.
      + rewrite (conv_sx_hit k w s1 n g El) in Hxy. destruct (Hp n g (or_introl eq_refl) El) as [Hr Hnx].
        destruct y as [v'|m]; [|exfalso; apply (Hnx m); exact Hxy].
        assert (Hby : slot_built k w (SV v')) by (eapply leaf_arg_built; eassumption).
        split; [|exact Hby]. rewrite (conv_sv k w s2 v' Hby).
        rewrite (conv_sx_hit k w (s1 ++ s2) n g); [symmetry; exact Hxy|]. rewrite flookup_app, El. reflexivity.
      + assert (Hvn : is_valid_var_name n = true) by (eapply names_ok_valid; [exact Hn|left; reflexivity]).
        rewrite (conv_sx_miss k w s1 n Hvn El) in Hxy. inversion Hxy; subst y. split; [|exact I].
        unfold conv. cbn [slot_arg]. rewrite flookup_app, El. reflexivity. }
  assert (Hm : map_opt (conv k w s2) ys = map_opt (conv k w (s1 ++ s2)) xs).
  { clear -K. induction K as [|x y xs' ys' [Hxy _] _ IH]; [reflexivity|]. cbn. rewrite Hxy, IH. reflexivity. }
  assert (Hby : Forall (slot_built k w) ys).
  { clear -K. induction K as [|x y xs' ys' [_ Hy] _ IH]; constructor; assumption. }
  assert (Hh12 : hits (s1 ++ s2) xs = true).
  { unfold hits in *. apply existsb_exists in Hh1 as [n [Hin Hl]]. apply existsb_exists. exists n. split; [exact Hin|].
    rewrite flookup_app. destruct (flookup n s1); [reflexivity|discriminate]. }
  rewrite Hh12, <- Hm, Hlen, ?Hs.
  destruct (hits s2 ys) eqn:Hh2; [reflexivity|].
  rewrite (conv_identity k w s2 ys Hby Hny Hh2), Hw, Hv, Hny. reflexivity.
Qed.

Theorem fill_leaf_composes k w xs s1 s2 ys :
  fmt_ok k w -> Forall (slot_built k w) xs -> names_ok xs = true -> plain_values k w s1 ->
  fill_leaf s1 k w xs = Some (ILeaf k w ys) ->
  fill_leaf s2 k w ys = fill_leaf (s1 ++ s2) k w xs.
Proof.
  intros Hf Hb Hn Hp. apply fill_leaf_composes_on; try assumption. intros n g _ Hl. exact (Hp n g Hl).
Qed.

Example compose_example :
  let xs := [SV 1; SX (B"a"%string); SX (B"b"%string)] in
  names_ok xs = true /\
  fill_leaf [(B"a"%string, GInt Kint 7)] KUint 1 xs = Some (ILeaf KUint 1 [SV 1; SV 7; SX (B"b"%string)]) /\
  fill_leaf [(B"b"%string, GInt Kint 9)] KUint 1 [SV 1; SV 7; SX (B"b"%string)] = Some (ILeaf KUint 1 [SV 1; SV 7; SV 9]).
Proof. vm_compute. repeat split. Qed.
