(* Lexer.v — pkg/parser/sml/lexer.go as a total function from a byte string to
   the token stream the parser sees.  The two main states and the comment /
   size / quoted-string / number states are mirrored one to one; the seven
   regular expressions are re-implemented as prefix matchers.  Tokens carry the
   byte offset of their start; line and column are recomputed from the input
   exactly as lexer.lineColumn does. *)
From Secs Require Export Ast Utf8.
Open Scope Z_scope.

Inductive toktype :=
| TEOF | TError | TComment | TMsgEnd
| TStreamFunction | TWaitBit | TDirection | TMsgName
| TLAB | TRAB | TItemType | TItemSize | TNumber | TBool | TVariable | TQuoted | TEllipsis.

(* error tokens carry a kind instead of the formatted text *)
Inductive lexerr := LEUnexpectedChar | LEBadSize | LEUnclosedString | LEBadNumber.

Record token := { t_typ : toktype; t_val : bytes; t_off : Z; t_err : option lexerr }.   (* t_off: byte offset (binary: a unary offset per token makes the extracted lexer quadratic) *)

Definition mk (ty : toktype) (v : bytes) (off : Z) : token := {| t_typ := ty; t_val := v; t_off := off; t_err := None |}.
Definition mkerr (e : lexerr) (v : bytes) (off : Z) : token := {| t_typ := TError; t_val := v; t_off := off; t_err := Some e |}.

(* ---- character classes ---- *)
Definition bz (b : byte) : Z := b2z b.
Definition is_ws (b : byte) : bool := let z := bz b in (z =? 32) || (z =? 9) || (z =? 13) || (z =? 10).
Definition is_ws_nolf (b : byte) : bool := let z := bz b in (z =? 32) || (z =? 9) || (z =? 13).
Definition is_hexdigit (b : byte) : bool :=
  let z := bz b in is_digit b || ((65 <=? z) && (z <=? 70)) || ((97 <=? z) && (z <=? 102)).
Definition is_bindigit (b : byte) : bool := let z := bz b in (z =? 48) || (z =? 49).
Definition is_octdigit (b : byte) : bool := let z := bz b in (48 <=? z) && (z <=? 55).

Definition upper (b : byte) : byte := let z := bz b in if (97 <=? z) && (z <=? 122) then z2b (z - 32) else b.
Definition to_upper (s : bytes) : bytes := map upper s.     (* strings.ToUpper on ASCII-only token text *)

Fixpoint span (p : byte -> bool) (s : bytes) : bytes * bytes :=
  match s with
  | [] => ([], [])
  | b :: r => if p b then let '(a, c) := span p r in (b :: a, c) else ([], s)
  end.

Definition starts_with (pre s : bytes) : bool :=
  (fix go (a b : bytes) : bool :=
     match a, b with
     | [], _ => true
     | x :: a', y :: b' => byte_eqb x y && go a' b'
     | _, [] => false
     end) pre s.

Definition slashes : bytes := [x2f; x2f].

(* ---- the regular expressions, as prefix matchers returning (match, rest) ---- *)

(* ^[Ss]\d+[Ff]\d+ *)
Definition match_sf (s : bytes) : option (bytes * bytes) :=
  match s with
  | c :: r =>
    if byte_eqb (upper c) x53 then
      let '(d1, r1) := span is_digit r in
      match d1, r1 with
      | _ :: _, f :: r2 =>
        if byte_eqb (upper f) x46 then
          let '(d2, r3) := span is_digit r2 in
          match d2 with
          | _ :: _ => Some (c :: d1 ++ f :: d2, r3)
          | [] => None
          end
        else None
      | _, _ => None
      end
    else None
  | [] => None
  end.

(* ^([Ww]|\[[Ww]\]) *)
Definition match_wbit (s : bytes) : option (bytes * bytes) :=
  match s with
  | c :: r =>
    if byte_eqb (upper c) x57 then Some ([c], r)
    else if byte_eqb c x5b then
      match r with
      | w :: e :: r' => if byte_eqb (upper w) x57 && byte_eqb e x5d then Some ([c; w; e], r') else None
      | _ => None
      end
    else None
  | [] => None
  end.

(* ^[Hh](->|<->|<-)[Ee] *)
Definition match_dir (s : bytes) : option (bytes * bytes) :=
  match s with
  | h :: r =>
    if byte_eqb (upper h) x48 then
      match r with
      | a :: b :: c :: r' =>
        if byte_eqb a x2d && byte_eqb b x3e && byte_eqb (upper c) x45 then Some ([h; a; b; c], r')        (* ->E *)
        else if byte_eqb a x3c && byte_eqb b x2d && byte_eqb (upper c) x45 then Some ([h; a; b; c], r')   (* <-E *)
        else if byte_eqb a x3c && byte_eqb b x2d && byte_eqb c x3e then
          match r' with
          | e :: r'' => if byte_eqb (upper e) x45 then Some ([h; a; b; c; e], r'') else None           (* <->E *)
          | [] => None
          end
        else None
      | _ => None
      end
    else None
  | [] => None
  end.

(* (\[\d+\])  one group *)
Definition match_index (s : bytes) : option (bytes * bytes) :=
  match s with
  | o :: r =>
    if byte_eqb o x5b then
      let '(d, r1) := span is_digit r in
      match d, r1 with
      | _ :: _, c :: r2 => if byte_eqb c x5d then Some (o :: d ++ [c], r2) else None
      | _, _ => None
      end
    else None
  | [] => None
  end.

Fixpoint match_indices (fuel : nat) (s : bytes) : bytes * bytes :=   (* (\[\d+\])* greedy *)
  match fuel with
  | O => ([], s)
  | S f => match match_index s with
           | Some (m, r) => let '(m', r') := match_indices f r in (m ++ m', r')
           | None => ([], s)
           end
  end.

(* ^\.\.\.(\[\d+\])? *)
Definition match_ellipsis (s : bytes) : option (bytes * bytes) :=
  match s with
  | a :: b :: c :: r =>
    if byte_eqb a x2e && byte_eqb b x2e && byte_eqb c x2e then
      match match_index r with
      | Some (m, r') => Some ([a; b; c] ++ m, r')
      | None => Some ([a; b; c], r)
      end
    else None
  | _ => None
  end.

(* ^[A-Za-z_]\w* *)
Definition match_ident (s : bytes) : option (bytes * bytes) :=
  match s with
  | c :: r => if is_alpha_ c then let '(w, r') := span is_word r in Some (c :: w, r') else None
  | [] => None
  end.

Definition item_types : list bytes :=
  [B"L"; B"A"; B"B"; B"BOOLEAN"; B"F4"; B"F8"; B"I1"; B"I2"; B"I4"; B"I8"; B"U1"; B"U2"; B"U4"; B"U8"]%string.
Definition mem_bytes (x : bytes) (l : list bytes) : bool := existsb (bytes_eqb x) l.

(* ---- the sub-states ---- *)

(* lexComment: [s] starts with "//".  Returns the comment text and the rest;
   trailing blanks, tabs and CR before the line feed stay in the rest. *)
Fixpoint rtrim_ws (rev_s : bytes) : bytes * bytes :=     (* on the reversed line: (kept reversed, trimmed) *)
  match rev_s with
  | b :: r => if is_ws_nolf b then let '(k, t) := rtrim_ws r in (k, t ++ [b]) else (rev_s, [])
  | [] => ([], [])
  end.

Definition lex_comment (s : bytes) : bytes * bytes * bool :=   (* (comment, rest, reached end of input) *)
  let '(line, rest) := span (fun b => negb (byte_eqb b x0a)) s in
  match rest with
  | [] => (line, [], true)
  | _ => let '(k, t) := rtrim_ws (rev_append line []) in (rev_append k [], t ++ rest, false)
  end.

(* runes that satisfy unicode.IsLetter or unicode.IsDigit beyond ASCII: an
   oracle, answered per case by the harness *)
Section WithOracle.
Variable alnum_runes : list Z.

Definition is_alnum_rune (r : Z) : bool :=
  if r <? 128 then ((48 <=? r) && (r <=? 57)) || ((65 <=? r) && (r <=? 90)) || ((97 <=? r) && (r <=? 122)) || (r =? 95)
  else existsb (Z.eqb r) alnum_runes.

(* lexNumber: [s] starts with a sign, a digit, or '.' digit *)
Definition accept1 (p : byte -> bool) (s : bytes) : bytes * bytes :=
  match s with b :: r => if p b then ([b], r) else ([], s) | [] => ([], s) end.

Definition lex_number (s : bytes) : bytes * bytes * bool :=    (* (text, rest, ok) *)
  let '(sg, r0) := accept1 (fun b => byte_eqb b x2b || byte_eqb b x2d) s in
  let '(z, r1) := accept1 (fun b => byte_eqb b x30) r0 in
  let '(pre, digits, r2) :=
      match z with
      | [] => ([], is_digit, r1)
      | _ =>
        match r1 with
        | c :: r' =>
          if byte_eqb (upper c) x58 then ([c], is_hexdigit, r')
          else if byte_eqb (upper c) x42 then ([c], is_bindigit, r')
          else if byte_eqb (upper c) x4f then ([c], is_octdigit, r')
          else ([], is_digit, r1)
        | [] => ([], is_digit, r1)
        end
      end in
  let '(ds, r3) := span digits r2 in
  let '(dot, r4) := accept1 (fun b => byte_eqb b x2e) r3 in
  let '(fr, r5) := match dot with [] => ([], r4) | _ => span digits r4 end in
  let '(e, r6) := accept1 (fun b => byte_eqb (upper b) x45) r5 in
  let '(esg, r7) := match e with [] => ([], r6) | _ => accept1 (fun b => byte_eqb b x2b || byte_eqb b x2d) r6 end in
  let '(eds, r8) := match e with [] => ([], r7) | _ => span is_digit r7 end in
  let text := sg ++ z ++ pre ++ ds ++ dot ++ fr ++ e ++ esg ++ eds in
  match r8 with
  | [] => (text, r8, true)
  | _ => let '(rn, w) := decode_rune r8 in
         if is_alnum_rune rn then (text ++ firstn w r8, skipn w r8, false) else (text, r8, true)
  end.

(* lexDataItemSize: [s] starts with '[' *)
Definition lex_size (s : bytes) : option (bytes * bytes) :=   (* raw text (spaces included), rest; None = error *)
  match s with
  | o :: r =>
    let '(w1, r1) := span is_ws r in
    let '(d1, r2) := span is_digit r1 in
    let '(w2, r3) := match d1 with [] => ([], r2) | _ => span is_ws r2 end in
    let '(dd, w3, d2, w4, r4) :=
        if starts_with [x2e; x2e] r3 then
          let r3' := skipn 2 r3 in
          let '(w3, r5) := span is_ws r3' in
          let '(d2, r6) := span is_digit r5 in
          let '(w4, r7) := match d2 with [] => ([], r6) | _ => span is_ws r6 end in
          ([x2e; x2e], w3, d2, w4, r7)
        else ([], [], [], [], r3) in
    match r4 with
    | c :: r5 =>
      if byte_eqb c x5d && negb (is_nil d1 && is_nil d2)
      then Some (o :: w1 ++ d1 ++ w2 ++ dd ++ w3 ++ d2 ++ w4 ++ [c], r5)
      else None
    | [] => None
    end
  | [] => None
  end.

(* emitSpaceRemoved: the runes for which unicode.IsSpace holds are dropped; the
   size token only contains ASCII *)
Definition remove_spaces (s : bytes) : bytes := filter (fun b => negb (is_space_rune (bz b))) s.

(* lexQuotedString: [s] starts with a double quote *)
Definition lex_quoted (s : bytes) : option (bytes * bytes) :=
  match s with
  | q :: r =>
    let '(body, r1) := span (fun b => negb (byte_eqb b x22)) r in
    match r1 with
    | [] => None                                         (* no closing quote *)
    | c :: r2 => if existsb (fun b => byte_eqb b x0d || byte_eqb b x0a) body then None
                 else Some (q :: body ++ [c], r2)
    end
  | [] => None
  end.

(* ---- the two main states ---- *)

(* the rest of a message name: up to a Unicode space, "//" or the end *)
Fixpoint scan_name (fuel : nat) (t : bytes) : bytes :=
  match fuel with
  | O => []
  | S g =>
    match t with
    | [] => []
    | _ => if starts_with slashes t then []
           else let '(rn, w) := decode_rune t in
                if is_space_rune rn then [] else firstn w t ++ scan_name g (skipn w t)
    end
  end.

Inductive lstate := LHeader | LText.

Definition zlen (s : bytes) : Z := Z.of_nat (length s).

(* one step of the lexer at a position: a token and where to go on, nothing but
   where to go on (white space), or the end of the stream *)
Inductive lstep :=
| LEmit (tok : token) (st : lstate) (rest : bytes) (off : Z)
| LSkip (st : lstate) (rest : bytes) (off : Z)
| LStop (last : list token).

Definition lex_step1 (st : lstate) (s : bytes) (off : Z) : lstep :=
    if starts_with slashes s then
      let '(c, r, at_end) := lex_comment s in
      if at_end then LStop [mk TComment c off; mk TEOF (B"EOF"%string) (off + zlen c)]
      else LEmit (mk TComment c off) st r (off + zlen c)
    else
    match st with
    | LHeader =>
      match match_sf s with
      | Some (m, r) => LEmit (mk TStreamFunction (to_upper m) off) LHeader r (off + zlen m)
      | None =>
      match match_wbit s with
      | Some (m, r) => LEmit (mk TWaitBit (to_upper m) off) LHeader r (off + zlen m)
      | None =>
      match match_dir s with
      | Some (m, r) => LEmit (mk TDirection (to_upper m) off) LHeader r (off + zlen m)
      | None =>
        match s with
        | [] => LStop [mk TEOF (B"EOF"%string) off]
        | b :: r =>
          if is_ws b then LSkip st r (off + 1)
          else if byte_eqb b x2e then LEmit (mk TMsgEnd [b] off) LHeader r (off + 1)
          else if byte_eqb b x3c then LEmit (mk TLAB [b] off) LText r (off + 1)
          else
            let '(r0, w0) := decode_rune s in
            if is_space_rune r0 then LSkip st (skipn w0 s) (off + Z.of_nat w0)
            else
              (* a message name: up to a Unicode space, "//" or the end *)
              let name := scan_name (length s) (skipn w0 s) in
              let full := firstn w0 s ++ name in
              LEmit (mk TMsgName full off) LHeader (skipn (length full) s) (off + zlen full)
        end
      end end end
    | LText =>
      match match_ellipsis s with
      | Some (m, r) => LEmit (mk TEllipsis m off) LText r (off + zlen m)
      | None =>
      match match_ident s with
      | Some (m, r) =>
        let u := to_upper m in
        if mem_bytes u item_types then LEmit (mk TItemType u off) LText r (off + zlen m)
        else if bytes_eqb u [x54] || bytes_eqb u [x46] then LEmit (mk TBool u off) LText r (off + zlen m)
        else let '(ix, r') := match_indices (length r) r in
             LEmit (mk TVariable (m ++ ix) off) LText r' (off + zlen m + zlen ix)
      | None =>
        match s with
        | [] => LStop [mk TEOF (B"EOF"%string) off]
        | b :: r =>
          let numstart := byte_eqb b x2b || byte_eqb b x2d || is_digit b ||
                          (byte_eqb b x2e && match r with d :: _ => is_digit d | [] => false end) in
          if numstart then
            let '(txt, r', ok) := lex_number s in
            if ok then LEmit (mk TNumber txt off) LText r' (off + zlen txt)
            else LStop [mkerr LEBadNumber txt off]
          else if byte_eqb b x3c then LEmit (mk TLAB [b] off) LText r (off + 1)
          else if byte_eqb b x3e then LEmit (mk TRAB [b] off) LText r (off + 1)
          else if byte_eqb b x2e then LEmit (mk TMsgEnd [b] off) LHeader r (off + 1)
          else if byte_eqb b x5b then
            match lex_size s with
            | Some (raw, r') => LEmit (mk TItemSize (remove_spaces raw) off) LText r' (off + zlen raw)
            | None => LStop [mkerr LEBadSize [] off]
            end
          else if byte_eqb b x22 then
            match lex_quoted s with
            | Some (q, r') => LEmit (mk TQuoted q off) LText r' (off + zlen q)
            | None => LStop [mkerr LEUnclosedString [] off]
            end
          else if is_ws b then LSkip st r (off + 1)
          else let '(rn, w) := decode_rune s in LStop [mkerr LEUnexpectedChar (firstn w s) off]
        end
      end end
    end.

Fixpoint lex_from (fuel : nat) (st : lstate) (s : bytes) (off : Z) : list token :=
  match fuel with
  | O => []
  | S f =>
    match lex_step1 st s off with
    | LEmit tok st' r off' => tok :: lex_from f st' r off'
    | LSkip st' r off' => lex_from f st' r off'
    | LStop l => l
    end
  end.

Definition lex_all (s : bytes) : list token := lex_from (S (S (length s))) LHeader s 0.

End WithOracle.

(* lexer.lineColumn *)
Fixpoint count_lf (s : bytes) : nat := match s with [] => O | b :: r => (if byte_eqb b x0a then 1 else 0) + count_lf r end%nat.

Fixpoint last_line (s : bytes) (cur : bytes) : bytes :=      (* the text after the last line feed *)
  match s with
  | [] => rev_append cur []
  | b :: r => if byte_eqb b x0a then last_line r [] else last_line r (b :: cur)
  end.

Definition linecol (input : bytes) (off : Z) : Z * Z :=
  let pre := firstn (Z.to_nat off) input in
  (1 + Z.of_nat (count_lf pre), 1 + Z.of_nat (length (runes (last_line pre [])))).
