(* FloatRound.v — widening a float32 to float64 and narrowing it again gives the
   same bit pattern (C12 / C04: an F4 value survives the float64 detour every
   factory and the parser take). *)
From Secs Require Import Ast FloatProofs.
Open Scope Z_scope.

(* decomposition of a float32 bit pattern *)
Lemma f32_fields b : is_u32 b ->
  exists s e f, b = s * 2147483648 + e * 8388608 + f /\ (s = 0 \/ s = 1) /\ 0 <= e < 256 /\ 0 <= f < 8388608 /\
                b / 2147483648 = s /\ f32_exp b = e /\ f32_frac b = f.
Proof.
  intros [H0 H1]. exists (b / 2147483648), ((b / 8388608) mod 256), (b mod 8388608).
  unfold f32_exp, f32_frac. repeat split; try lia.
Qed.

Lemma round_shift_exact m sh : 0 <= m -> 1 <= sh -> round_shift (m * 2 ^ sh) sh = m.
Proof.
  intros Hm Hs. unfold round_shift.
  assert (Hp : 0 < 2 ^ sh) by (apply Z.pow_pos_nonneg; lia).
  assert (Hh : 0 < 2 ^ (sh - 1)) by (apply Z.pow_pos_nonneg; lia).
  rewrite Z.div_mul by lia. rewrite Z.mod_mul by lia.
  destruct (Z.ltb_spec 0 (2 ^ (sh - 1))); [reflexivity|lia].
Qed.

(* normal numbers and zeros *)
Lemma roundtrip_normal s e f : (s = 0 \/ s = 1) -> 1 <= e < 255 -> 0 <= f < 8388608 ->
  f64_to_f32 (s * 9223372036854775808 + (e - 127 + 1023) * 4503599627370496 + f * 536870912) =
  s * 2147483648 + e * 8388608 + f.
Proof.
  intros Hs He Hf. unfold f64_to_f32, f64_exp, f64_frac.
  set (b := s * 9223372036854775808 + (e - 127 + 1023) * 4503599627370496 + f * 536870912).
  assert (E1 : b / 9223372036854775808 = s) by (subst b; destruct Hs as [->| ->]; lia).
  assert (E2 : (b / 4503599627370496) mod 2048 = e + 896) by (subst b; destruct Hs as [->| ->]; lia).
  assert (E3 : b mod 4503599627370496 = f * 536870912) by (subst b; destruct Hs as [->| ->]; lia).
  rewrite E1, E2, E3.
  destruct (Z.eqb_spec (e + 896) 2047); [lia|].
  replace (e + 896 - 1023 + 127) with e by lia.
  destruct (Z.ltb_spec 0 e); [|lia].
  replace (4503599627370496 + f * 536870912) with ((8388608 + f) * 2 ^ 29) by (change (2 ^ 29) with 536870912; lia).
  rewrite round_shift_exact by lia.
  destruct (Z.leb_spec (255 * 8388608) ((e - 1) * 8388608 + (8388608 + f))); lia.
Qed.

Lemma roundtrip_zero s : (s = 0 \/ s = 1) -> f64_to_f32 (s * 9223372036854775808) = s * 2147483648.
Proof. intros [->| ->]; reflexivity. Qed.

Lemma div_mod_witness a d q r : 0 <= r < d -> a = q * d + r -> a / d = q /\ a mod d = r.
Proof.
  intros Hr E. split; [symmetry; apply (Z.div_unique a d q r); [left; exact Hr|lia]|symmetry; apply (Z.mod_unique a d q r); [left; exact Hr|lia]].
Qed.

(* subnormal numbers: f * 2^-149, normalised on the way up, denormalised again on the way down *)
Lemma roundtrip_subnormal_at l s f : (s = 0 \/ s = 1) -> 0 <= l <= 22 -> 2 ^ l <= f < 2 ^ (l + 1) ->
  f64_to_f32 (s * 9223372036854775808 + (l - 149 + 1023) * 4503599627370496 + (f - 2 ^ l) * 2 ^ (52 - l)) =
  s * 2147483648 + f.
Proof.
  intros Hs Hl Hf.
  set (P := 2 ^ l) in *. set (Q := 2 ^ (52 - l)).
  assert (HPQ : P * Q = 4503599627370496).
  { subst P Q. rewrite <- Z.pow_add_r by lia. replace (l + (52 - l)) with 52 by lia. reflexivity. }
  assert (HP : 0 < P) by (subst P; apply Z.pow_pos_nonneg; lia).
  assert (HQ : 0 < Q) by (subst Q; apply Z.pow_pos_nonneg; lia).
  assert (Hf2 : f < 2 * P) by (replace (2 ^ (l + 1)) with (2 * 2 ^ l) in Hf by (rewrite Z.pow_add_r by lia; lia); lia).
  set (g := (f - P) * Q).
  assert (Hg : 0 <= g < 4503599627370496) by (subst g; nia).
  set (b := s * 9223372036854775808 + (l - 149 + 1023) * 4503599627370496 + g).
  assert (E1 : b / 9223372036854775808 = s).
  { exact (proj1 (div_mod_witness b 9223372036854775808 s ((l - 149 + 1023) * 4503599627370496 + g) ltac:(lia) ltac:(subst b; lia))). }
  assert (E2 : (b / 4503599627370496) mod 2048 = l + 874).
  { destruct (div_mod_witness b 4503599627370496 (s * 2048 + l + 874) g Hg ltac:(subst b; lia)) as [Ed _]. rewrite Ed.
    exact (proj2 (div_mod_witness (s * 2048 + l + 874) 2048 s (l + 874) ltac:(lia) ltac:(lia))). }
  assert (E3 : b mod 4503599627370496 = g).
  { exact (proj2 (div_mod_witness b 4503599627370496 (s * 2048 + l + 874) g Hg ltac:(subst b; lia))). }
  unfold f64_to_f32, f64_exp, f64_frac. fold b. rewrite E1, E2, E3.
  destruct (Z.eqb_spec (l + 874) 2047); [lia|].
  destruct (Z.ltb_spec 0 (l + 874 - 1023 + 127)); [lia|].
  destruct (Z.eqb_spec (l + 874) 0); [lia|].
  replace (29 + (1 - (l + 874 - 1023 + 127))) with (52 - l) by lia.
  destruct (Z.ltb_spec 80 (52 - l)); [lia|].
  replace (4503599627370496 + g) with (f * 2 ^ (52 - l)) by (subst g; fold Q; nia).
  rewrite round_shift_exact by lia. reflexivity.
Qed.

Theorem f32_roundtrip b : is_u32 b -> f32_finite b = true -> f64_to_f32 (f32_to_f64 b) = b.
Proof.
  intros Hu Hfin. destruct (f32_fields b Hu) as (s & e & f & Eb & Hs & He & Hf & Es & Ee & Ef).
  unfold f32_finite in Hfin. rewrite Ee in Hfin. apply negb_true_iff in Hfin. apply Z.eqb_neq in Hfin.
  unfold f32_to_f64. rewrite Es, Ee, Ef.
  destruct (Z.eqb_spec e 255); [lia|].
  destruct (Z.eqb_spec e 0) as [E0|E0].
  - destruct (Z.eqb_spec f 0) as [F0|F0].
    + subst e f. rewrite roundtrip_zero by exact Hs. lia.
    + assert (Hfp : 0 < f) by lia.
      pose proof (Z.log2_spec f Hfp) as Hl. pose proof (Z.log2_nonneg f) as Hl0.
      assert (Hl22 : Z.log2 f <= 22).
      { assert (Z.log2 f < 23); [|lia]. apply Z.log2_lt_pow2; [exact Hfp|]. change (2 ^ 23) with 8388608. lia. }
      rewrite (roundtrip_subnormal_at (Z.log2 f) s f Hs ltac:(lia)).
      * subst e. lia.
      * replace (Z.log2 f + 1) with (Z.succ (Z.log2 f)) by lia. exact Hl.
  - rewrite (roundtrip_normal s e f Hs ltac:(lia) Hf). lia.
Qed.
