(* FillProofs.v — filling variables is substitution into the factory's
   argument list (C09), at the level of one value item; the list level reuses
   it child by child. *)
From Secs Require Import Ast FloatProofs Fill Msg WireSpec WireLemmas WireValues HeaderProofs WireEnc WireDec MsgProofs AstProofs.
Open Scope Z_scope.

(* what checkRep has established about a stored value *)
Definition slot_built (k : kind) (w : nat) (x : slot) : Prop :=
  match x with
  | SX _ => True
  | SV v => match k with
            | KInt => - two63 <= v < two63
            | KUint => 0 <= v < two64
            | KBin => True
            | KBool => v = 0 \/ v = 1
            | KFloat => match w with 4%nat => f32_finite v = true | _ => f64_finite v = true end
            end
  end.

(* handing a stored value back to the factory stores it again, unchanged *)
Lemma typed_val_roundtrip k w v : slot_built k w (SV v) -> leaf_arg k w (typed_val k w v) = Some (SV v).
Proof.
  intro H. destruct k; cbn [leaf_arg typed_val slot_built] in *.
  - reflexivity.
  - destruct H as [->| ->]; reflexivity.
  - cbn. rewrite conv_int64_id by exact H. reflexivity.
  - cbn. destruct (Z.ltb_spec v 0); [lia|]. rewrite conv_uint64_id by exact H. reflexivity.
  - destruct w as [|[|[|[|[|w]]]]]; cbn; rewrite H; reflexivity.
Qed.

(* the argument list FillVariables builds, position by position *)
Lemma slot_arg_converts k w s x :
  slot_built k w x ->
  leaf_arg k w (slot_arg k w s x) =
  match x with
  | SV v => Some (SV v)
  | SX n => match flookup n s with Some g => leaf_arg k w g | None => leaf_arg k w (GStr n) end
  end.
Proof.
  intro H. destruct x as [v|n]; cbn [slot_arg].
  - apply typed_val_roundtrip; exact H.
  - destruct (flookup n s); reflexivity.
Qed.

(* substitution into the original argument list *)
Definition subst_arg (k : kind) (s : fmap) (a : gval) : gval :=
  match a with
  | GStr n => if match k with KBin => has_prefix_0b n | _ => false end then a
              else match flookup n s with Some g => g | None => a end
  | _ => a
  end.

Lemma leaf_arg_str k w n : (match k with KBin => has_prefix_0b n | _ => false end) = false ->
  leaf_arg k w (GStr n) = Some (SX n).
Proof. destruct k; cbn; intro H; try reflexivity. rewrite H. reflexivity. Qed.

Lemma leaf_arg_sx k w a n : leaf_arg k w a = Some (SX n) ->
  a = GStr n /\ (match k with KBin => has_prefix_0b n | _ => false end) = false.
Proof.
  destruct k; cbn [leaf_arg]; destruct a; cbn; try discriminate;
    repeat match goal with |- context [if ?c then _ else _] => destruct c eqn:? end;
    repeat match goal with |- context [match ?c with _ => _ end] => destruct c eqn:? end;
    try discriminate; intro H; inversion H; subst; auto.
Qed.

(* a stored value came from an argument the factory accepted: it is built *)
Lemma leaf_arg_built k w a x : arg_in_go_range a -> leaf_arg k w a = Some x -> val_okb k w x = true ->
  fmt_ok k w -> slot_built k w x.
Proof.
  intros Hr Ha Hok Hf. destruct x as [v|n]; [|exact I].
  destruct k; cbn [slot_built].
  - exact I.
  - cbn in Ha. destruct a; try discriminate; cbn in Ha; inversion Ha; destruct b; auto.
  - cbn in Hok. pose proof (int_bound w Hf). lia.
  - cbn in Hok. pose proof (uint_bound w Hf). lia.
  - cbn in Hf. destruct Hf as [->| ->]; cbn [leaf_arg] in Ha.
    + destruct a; cbn [float_arg] in Ha; try discriminate.
      * destruct (abs_le_maxf32 _) eqn:E; [|discriminate]. inversion Ha; subst v. clear Ha.
        apply f64_to_f32_finite; [|apply int_to_f64_finite|exact E].
        -- apply int_to_f64_u64. cbn in Hr. destruct k; cbn in Hr; unfold two63, two64 in Hr; lia.
        -- cbn in Hr. destruct k; cbn in Hr; unfold two63, two64 in Hr; lia.
      * destruct (f32_finite bits) eqn:E; [|discriminate]. inversion Ha; subst. exact E.
      * destruct (f64_finite bits) eqn:E1; [|discriminate]. destruct (abs_le_maxf32 bits) eqn:E; [|discriminate].
        inversion Ha; subst v. apply f64_to_f32_finite; assumption.
    + destruct a; cbn [float_arg] in Ha; try discriminate.
      * inversion Ha; subst v. apply int_to_f64_finite.
        cbn in Hr. destruct k; cbn in Hr; unfold two63, two64 in Hr; lia.
      * destruct (f32_finite bits) eqn:E; [|discriminate]. inversion Ha; subst. apply f32_to_f64_finite; assumption.
      * destruct (f64_finite bits) eqn:E1; [|discriminate]. inversion Ha; subst. exact E1.
Qed.

(* FillVariables of a value item = the factory on the substituted arguments *)
Theorem fill_leaf_is_substitution k w args xs s :
  fmt_ok k w -> Forall arg_in_go_range args ->
  new_leaf k w args = Some (ILeaf k w xs) ->
  existsb (fun n => match flookup n s with Some _ => true | None => false end) (slot_vars xs) = true ->
  fill_leaf s k w xs = new_leaf k w (map (subst_arg k s) args).
Proof.
  intros Hf Hr Hnew Hhit. unfold fill_leaf. rewrite Hhit.
  unfold new_leaf in *. rewrite !map_length.
  destruct (size_ok (size_typ k w) (length args)) eqn:Hs; cbn [negb] in Hnew; [|discriminate].
  destruct (map_opt (leaf_arg k w) args) as [xs'|] eqn:Em; [|discriminate].
  destruct (width_okb k w && forallb (val_okb k w) xs' && names_ok xs') eqn:Hc; [|discriminate].
  inversion Hnew; subst xs'. clear Hnew.
  apply andb_true_iff in Hc as [Hc _]. apply andb_true_iff in Hc as [_ Hv].
  assert (Hlen : length xs = length args).
  { clear -Em. revert xs Em. induction args as [|a args IH]; intros xs Em; cbn in Em; [inversion Em; reflexivity|].
    destruct (leaf_arg k w a); [|discriminate]. destruct (map_opt _ args); [|discriminate]. inversion Em. cbn. f_equal. apply IH. reflexivity. }
  rewrite Hlen, Hs. cbn [negb].
  assert (E : map_opt (leaf_arg k w) (map (slot_arg k w s) xs) = map_opt (leaf_arg k w) (map (subst_arg k s) args)).
  { clear Hs Hhit Hlen. revert xs Em Hv. induction Hr as [|a args Ha _ IH]; intros xs Em Hv; cbn in Em.
    - inversion Em. reflexivity.
    - destruct (leaf_arg k w a) as [x|] eqn:Ea; [|discriminate].
      destruct (map_opt (leaf_arg k w) args) as [ys|] eqn:Ey; [|discriminate]. inversion Em; subst xs.
      cbn [forallb] in Hv. apply andb_true_iff in Hv as [Hv1 Hv2].
      cbn [map map_opt]. rewrite (IH ys eq_refl Hv2).
      rewrite (slot_arg_converts k w s x (leaf_arg_built k w a x Ha Ea Hv1 Hf)).
      destruct x as [v|n].
      + (* a value: the original argument converts to the same value; it is not substituted *)
        assert (Hsub : leaf_arg k w (subst_arg k s a) = Some (SV v)).
        { destruct a; cbn [subst_arg]; try exact Ea.
          destruct k; try (cbn in Ea; discriminate).
          cbn [leaf_arg bin_arg] in Ea. destruct (has_prefix_0b s0) eqn:Ep; [|discriminate].
          cbn [leaf_arg bin_arg]. rewrite Ep. exact Ea. }
        rewrite Hsub. reflexivity.
      + apply leaf_arg_sx in Ea as [-> Hp]. cbn [subst_arg]. rewrite Hp.
        destruct (flookup n s); [reflexivity|]. reflexivity. }
  rewrite E. reflexivity.
Qed.

(* unknown keys are ignored: the very same item comes back *)
Theorem fill_leaf_unknown k w xs s :
  existsb (fun n => match flookup n s with Some _ => true | None => false end) (slot_vars xs) = false ->
  fill_leaf s k w xs = Some (ILeaf k w xs).
Proof. intro H. unfold fill_leaf. rewrite H. reflexivity. Qed.
