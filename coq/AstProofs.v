(* AstProofs.v — constructors store exactly what was passed or refuse (C12),
   variable listing (C16), message producers (C18). *)
From Secs Require Import Ast FloatProofs Fill Msg Api WireSpec WireLemmas WireValues HeaderProofs WireEnc WireDec MsgProofs.
Open Scope Z_scope.

(* ---------- the ranges of Go's integer types ---------- *)

Definition go_range (k : ikind) (z : Z) : Prop :=
  match k with
  | Kint8 => -128 <= z < 128
  | Kint16 => -32768 <= z < 32768
  | Kint32 => -2147483648 <= z < 2147483648
  | Kint | Kint64 => - two63 <= z < two63
  | Kuint8 => 0 <= z < 256
  | Kuint16 => 0 <= z < 65536
  | Kuint32 => 0 <= z < 4294967296
  | Kuint | Kuint64 => 0 <= z < two64
  end.

(* NewIntNode: an integer argument is stored as the number passed, or refused *)
Lemma int_arg_exact k z : go_range k z ->
  (int_arg (GInt k z) = Some (SV z) /\ z < two63) \/ (int_arg (GInt k z) = None /\ two63 <= z).
Proof.
  unfold int_arg, go_range, two63, two64. intro H.
  destruct k; cbn [is_unsigned_kind];
    try (left; split; [rewrite conv_int64_id by (unfold two63; lia); reflexivity|lia]);
    (destruct (Z.leb_spec 9223372036854775808 z); [right; split; [reflexivity|assumption] | left; split; [reflexivity|lia]]).
Qed.

(* NewUintNode *)
Lemma uint_arg_exact k z : go_range k z ->
  (uint_arg (GInt k z) = Some (SV z) /\ 0 <= z) \/ (uint_arg (GInt k z) = None /\ z < 0).
Proof.
  unfold uint_arg, go_range, two63, two64. intro H.
  destruct (Z.ltb_spec z 0); [right; split; [reflexivity|assumption]|].
  left. split; [|assumption]. rewrite conv_uint64_id by (unfold two64; destruct k; lia). reflexivity.
Qed.

(* what the factory stores for one argument, stated on mathematical values *)
Definition stored (k : kind) (w : nat) (a : gval) (x : slot) : Prop :=
  match a with
  | GStr s =>
    match k with
    | KBin => if has_prefix_0b s
              then exists v, parse_0b s = Some v /\ x = SV v /\ 0 <= v < 256
              else x = SX s
    | _ => x = SX s
    end
  | GInt kd z =>
    match k with
    | KInt => x = SV z /\ - (256 ^ Z.of_nat w / 2) <= z < 256 ^ Z.of_nat w / 2
    | KUint => x = SV z /\ 0 <= z < 256 ^ Z.of_nat w
    | KBin => kd = Kint /\ x = SV z /\ 0 <= z < 256
    | KFloat => x = SV (match w with 4%nat => f64_to_f32 (int_to_f64 z) | _ => int_to_f64 z end)
    | KBool => False
    end
  | GBool b => k = KBool /\ x = SV (if b then 1 else 0)
  | GF32 b => k = KFloat /\ f32_finite b = true /\ x = SV (match w with 4%nat => b | _ => f32_to_f64 b end)
  | GF64 b => k = KFloat /\ f64_finite b = true /\
              match w with
              | 4%nat => abs_le_maxf32 b = true /\ x = SV (f64_to_f32 b)
              | _ => x = SV b
              end
  | GItem _ | GOther => False
  end.

Definition arg_in_go_range (a : gval) : Prop :=
  match a with
  | GInt k z => go_range k z
  | GF32 b => is_u32 b
  | GF64 b => is_u64 b
  | _ => True
  end.

Lemma leaf_arg_stored k w a x :
  arg_in_go_range a -> leaf_arg k w a = Some x -> val_okb k w x = true -> stored k w a x.
Proof.
  intros Hr Ha Hok. destruct k; cbn [leaf_arg] in Ha.
  - (* binary *) destruct a; cbn in Ha; try discriminate.
    + destruct k; try discriminate. inversion Ha; subst x. cbn in Hok |- *. split; [reflexivity|]. split; [reflexivity|lia].
    + cbn [stored]. destruct (has_prefix_0b s).
      * destruct (parse_0b s) as [v|]; [|discriminate]. destruct (v <? two63); [|discriminate].
        inversion Ha; subst x. cbn in Hok. exists v. split; [reflexivity|]. split; [reflexivity|lia].
      * inversion Ha; reflexivity.
  - (* boolean *) destruct a; cbn in Ha; try discriminate; inversion Ha; subst x; cbn; auto.
  - (* int *) destruct a; try discriminate.
    + cbn [arg_in_go_range] in Hr. destruct (int_arg_exact k z Hr) as [[E _]|[E _]]; rewrite E in Ha; [|discriminate].
      inversion Ha; subst x. cbn in Hok |- *. split; [reflexivity|lia].
    + cbn in Ha. inversion Ha. reflexivity.
  - (* uint *) destruct a; try discriminate.
    + cbn [arg_in_go_range] in Hr. destruct (uint_arg_exact k z Hr) as [[E _]|[E _]]; rewrite E in Ha; [|discriminate].
      inversion Ha; subst x. cbn in Hok |- *. split; [reflexivity|lia].
    + cbn in Ha. inversion Ha. reflexivity.
  - (* float *) destruct a; cbn [float_arg] in Ha; try discriminate.
    + cbn [stored]. destruct w as [|[|[|[|[|w]]]]]; cbn in Ha;
        repeat match type of Ha with (if ?c then _ else _) = _ => destruct c eqn:?; try discriminate end;
        inversion Ha; reflexivity.
    + destruct (f32_finite bits) eqn:E; [|discriminate]. cbn [stored]. split; [reflexivity|]. split; [exact E|].
      destruct w as [|[|[|[|[|w]]]]]; inversion Ha; reflexivity.
    + destruct (f64_finite bits) eqn:E; [|discriminate]. cbn [stored]. split; [reflexivity|]. split; [exact E|].
      destruct w as [|[|[|[|[|w]]]]]; try (inversion Ha; reflexivity).
      destruct (abs_le_maxf32 bits); [|discriminate]. inversion Ha. split; reflexivity.
    + inversion Ha. reflexivity.
Qed.

(* NewIntNode / NewUintNode / NewFloatNode / NewBinaryNode / NewBooleanNode *)
Theorem new_leaf_exact k w args t :
  Forall arg_in_go_range args -> new_leaf k w args = Some t ->
  exists xs, t = ILeaf k w xs /\ Forall2 (stored k w) args xs /\
             width_okb k w = true /\ names_ok xs = true /\
             Z.of_nat (length args) * lookup (size_typ k w) byte_per_value <= MAX_BYTE_SIZE.
Proof.
  intros Hr. unfold new_leaf. destruct (size_ok (size_typ k w) (length args)) eqn:Hs; cbn [negb]; [|discriminate].
  destruct (map_opt (leaf_arg k w) args) as [xs|] eqn:Em; [|discriminate].
  destruct (width_okb k w) eqn:Hw; cbn [andb]; [|discriminate].
  destruct (forallb (val_okb k w) xs) eqn:Hv; cbn [andb]; [|discriminate].
  destruct (names_ok xs) eqn:Hn; [|discriminate]. intro H; inversion H; subst t.
  exists xs. split; [reflexivity|]. split.
  - clear Hs H. clear Hn. revert xs Em Hv. induction Hr as [|a args Ha _ IH]; intros xs Em Hv; cbn in Em.
    + inversion Em. constructor.
    + destruct (leaf_arg k w a) as [x|] eqn:Ea; [|discriminate].
      destruct (map_opt (leaf_arg k w) args) as [ys|]; [|discriminate]. inversion Em; subst xs.
      cbn [forallb] in Hv. apply andb_true_iff in Hv as [Hv1 Hv2].
      constructor; [eapply leaf_arg_stored; eassumption|apply IH; [reflexivity|assumption]].
  - split; [reflexivity|]. split; [exact Hn|]. apply size_ok_iff in Hs. unfold data_byte_length in Hs. exact Hs.
Qed.

(* a refusal has a reason: some argument is not admissible, the width is wrong,
   a name is malformed or duplicated, or the item is too large *)
Theorem new_leaf_refused k w args :
  new_leaf k w args = None ->
  MAX_BYTE_SIZE < Z.of_nat (length args) * lookup (size_typ k w) byte_per_value \/
  (exists a, In a args /\ leaf_arg k w a = None) \/
  width_okb k w = false \/
  (exists xs, map_opt (leaf_arg k w) args = Some xs /\ (forallb (val_okb k w) xs = false \/ names_ok xs = false)).
Proof.
  unfold new_leaf. destruct (size_ok (size_typ k w) (length args)) eqn:Hs; cbn [negb].
  - destruct (map_opt (leaf_arg k w) args) as [xs|] eqn:Em.
    + destruct (width_okb k w); [|intros _; right; right; left; reflexivity]. cbn [andb].
      destruct (forallb (val_okb k w) xs) eqn:Hv; cbn [andb].
      * destruct (names_ok xs) eqn:Hn; [discriminate|]. intros _. right; right; right. exists xs. auto.
      * intros _. right; right; right. exists xs. auto.
    + intros _. right; left. clear Hs. induction args as [|a args IH]; cbn in Em; [discriminate|].
      destruct (leaf_arg k w a) eqn:Ea; [|exists a; split; [left; reflexivity|assumption]].
      destruct (map_opt (leaf_arg k w) args); [discriminate|]. destruct (IH eq_refl) as (b & Hb & Eb).
      exists b. split; [right; assumption|assumption].
  - intros _. left. destruct (Z.gtb_spec (data_byte_length (size_typ k w) (Z.of_nat (length args))) MAX_BYTE_SIZE) as [H|H].
    + unfold data_byte_length in H. lia.
    + unfold size_ok in Hs. destruct (Z.gtb_spec (data_byte_length (size_typ k w) (Z.of_nat (length args))) MAX_BYTE_SIZE); [lia|discriminate].
Qed.

Theorem new_ascii_exact s : 
  (new_ascii s = Some (IAscii s) /\ Z.of_nat (length s) <= MAX_BYTE_SIZE /\ Forall (fun b => b2z b < 128) s) \/
  (new_ascii s = None /\ (MAX_BYTE_SIZE < Z.of_nat (length s) \/ exists b, In b s /\ 128 <= b2z b)).
Proof.
  destruct (new_ascii s) as [t|] eqn:E.
  - left. apply new_ascii_inv in E as (-> & H1 & H2). auto.
  - right. split; [reflexivity|]. unfold new_ascii in E.
    destruct (size_ok _ (length s)) eqn:Hs; cbn [negb] in E.
    + destruct (is_ascii_bytes s) eqn:Ha; [discriminate|]. right.
      unfold is_ascii_bytes in Ha. clear -Ha. induction s as [|b s IH]; cbn in Ha; [discriminate|].
      destruct (Z.ltb_spec (b2z b) 128); cbn in Ha.
      * destruct (IH Ha) as (c & Hc & Hc2). exists c. split; [right; assumption|assumption].
      * exists b. split; [left; reflexivity|assumption].
    + left. unfold size_ok in Hs. unfold data_byte_length in Hs. cbn [lookup bytes_eqb] in Hs. cbn in Hs.
      destruct (Z.gtb_spec (Z.of_nat (length s) * 1) MAX_BYTE_SIZE); [lia|discriminate].
Qed.

(* DataMessage.checkRep as a proposition *)
Theorem msg_ok_iff m :
  msg_ok m = true <->
  has_space_rune (m_name m) = false /\ 0 <= m_stream m < 128 /\ 0 <= m_function m < 256 /\
  0 <= m_wbit m <= 2 /\ ~ (m_wbit m = 1 /\ m_function m mod 2 = 0) /\
  -1 <= m_sid m < 65536 /\ length (m_sys m) = 4%nat /\ dir_ok (m_dir m) = true.
Proof.
  unfold msg_ok. rewrite !andb_true_iff, !negb_true_iff, andb_false_iff.
  rewrite !Z.leb_le, !Z.ltb_lt, !Z.eqb_neq, Nat.eqb_eq. intuition lia.
Qed.

(* ---------- C16 ---------- *)

Lemma nodupb_spec l : nodupb l = true -> NoDup l.
Proof.
  induction l as [|x l IH]; cbn; intro H; [constructor|].
  apply andb_true_iff in H as [H1 H2]. constructor; [|apply IH; exact H2].
  intro Hin. apply negb_true_iff in H1. assert (existsb (bytes_eqb x) l = true); [|congruence].
  apply existsb_exists. exists x. split; [assumption|apply bytes_eqb_refl].
Qed.

Lemma new_leaf_nodup k w args t : new_leaf k w args = Some t -> NoDup (vars t).
Proof.
  unfold new_leaf. destruct (negb _); [discriminate|]. destruct (map_opt _ _) as [xs|]; [|discriminate].
  destruct (width_okb k w && forallb (val_okb k w) xs && names_ok xs) eqn:E; [|discriminate].
  intro H; inversion H; subst t. apply andb_true_iff in E as [_ E]. unfold names_ok in E.
  apply andb_true_iff in E as [_ E]. cbn [vars]. apply nodupb_spec, E.
Qed.

Lemma new_list_nodup args t : new_list args = Some t -> NoDup (vars t).
Proof.
  unfold new_list. destruct (negb _); [discriminate|]. destruct (map_opt _ _) as [xs|]; [|discriminate].
  destruct (nodupb (direct_vars xs) && list_vars_ok xs && nodupb (vars (IList xs))) eqn:E; [|discriminate].
  intro H; inversion H; subst t. apply andb_true_iff in E as [_ E]. apply nodupb_spec, E.
Qed.

Lemma new_ascii_nodup s t : new_ascii s = Some t -> NoDup (vars t).
Proof. intro H. apply new_ascii_inv in H as (-> & _). constructor. Qed.

Lemma new_ascii_var_nodup n mn mx t : new_ascii_var n mn mx = Some t -> NoDup (vars t).
Proof. unfold new_ascii_var. destruct (_ && _ && _ && _); [|discriminate]. intro H; inversion H. cbn. repeat constructor. auto. Qed.

Lemma fill_plain_nodup s t t' : NoDup (vars t) -> fill_plain s t = Some t' -> NoDup (vars t').
Proof.
  intros Hn H. destruct t; cbn [fill_plain] in H.
  - match type of H with match ?x with _ => _ end = _ => destruct x end; [|discriminate]. eapply new_list_nodup; exact H.
  - inversion H; subst; assumption.
  - unfold fill_leaf in H. destruct (existsb _ _); [eapply new_leaf_nodup; exact H|inversion H; subst; assumption].
  - inversion H; subst; assumption.
  - unfold fill_ascii_var in H. destruct (flookup n s) as [[]|]; try discriminate; try (inversion H; subst; assumption).
    destruct (_ <? _); [discriminate|]. destruct (_ && _); [discriminate|]. eapply new_ascii_nodup; exact H.
  - inversion H; subst; assumption.
Qed.

Lemma fill_ell_nodup s fuel st t t' st' : fill_ell s fuel st t = Some (t', st') -> NoDup (vars t').
Proof.
  destruct fuel as [|f]; [discriminate|]. cbn [fill_ell]. destruct t; try discriminate. intro H.
  repeat match type of H with
         | match ?x with _ => _ end = _ => destruct x eqn:?; try discriminate
         | (if ?c then _ else _) = _ => destruct c eqn:?; try discriminate
         end.
  all: inversion H; subst; eapply new_list_nodup; eassumption.
Qed.

Lemma fill_nodup s t t' : NoDup (vars t) -> fill s t = Some t' -> NoDup (vars t').
Proof.
  intros Hn H. unfold fill in H. destruct t; try (eapply fill_plain_nodup; eassumption).
  destruct (split_values s) as [es os]. destruct (ellipsis_analysis es (IList xs)) as [[tf rem]|]; [|discriminate].
  destruct (0 <? tf).
  - destruct (fill_ell es _ _ _) as [[t1 st1]|] eqn:E; [|discriminate].
    eapply fill_plain_nodup; [|exact H]. eapply fill_ell_nodup; exact E.
  - eapply fill_plain_nodup; eassumption.
Qed.

Lemma hsms_parse_item_nodup bs m : hsms_parse bs = Some (HData m) -> NoDup (vars (m_item m)).
Proof.
  intro H. destruct (decoded_reencodes _ _ H) as (Hc & _). unfold msg_complete in Hc.
  apply andb_true_iff in Hc as [Hc _]. apply andb_true_iff in Hc as [_ Hc].
  destruct (vars (m_item m)); [constructor|discriminate].
Qed.

(* every item and every message of every history: no name twice anywhere *)
Definition entry_nodup (e : entry) : Prop :=
  match e with
  | EItem t => NoDup (vars t)
  | EMsg m => NoDup (vars (m_item m))
  | EParse r => Forall (fun m => NoDup (vars (m_item m))) (r_msgs r)
  | _ => True
  end.

(* ---- the SML parser only returns factory-built items ---- *)

Lemma build_nodup nk args t : build nk args = Some t -> NoDup (vars t).
Proof. destruct nk; cbn [build]; apply new_leaf_nodup. Qed.

Lemma ascii_literal_nodup st ts n acc mn mx t st' :
  ascii_literal st ts n acc mn mx = (IOk t, st') -> NoDup (vars t).
Proof.
  revert st acc. induction ts as [|tk ts IH]; intros st acc H; cbn [ascii_literal] in H.
  - destruct (new_ascii acc) eqn:E; inversion H; subst. eapply new_ascii_nodup; exact E.
  - destruct (t_typ tk);
      repeat match type of H with
             | (let '(_, _) := ?x in _) = _ => destruct x
             | (if ?c then _ else _) = _ => destruct c eqn:?
             | (match ?x with _ => _ end, _) = _ => destruct x eqn:?
             end; try (eapply IH; exact H); try (inversion H; subst; cbn; repeat constructor; auto; fail); try discriminate.
    all: try (inversion H; subst; eapply new_ascii_var_nodup; eassumption).
Qed.

Lemma parse_item_body_nodup floats rec_list :
  (forall st acc count t st', rec_list st acc count = (IOk t, st') -> NoDup (vars t)) ->
  forall st t st', parse_item_body floats rec_list st = (Some t, st') -> NoDup (vars t).
Proof.
  intros Hl st t st' H. unfold parse_item_body in H.
  repeat match type of H with
         | (let '(_, _) := ?x in _) = _ => destruct x eqn:?
         | (if ?c then _ else _) = _ => destruct c eqn:?
         | match ?x with _ => _ end = _ => destruct x eqn:?
         end; try discriminate; inversion H; subst; clear H.
  all: repeat match goal with
              | H : (let '(_, _) := ?x in _) = _ |- _ => destruct x eqn:?
              | H : (if ?c then _ else _) = (_, _, _) |- _ => destruct c eqn:?
              | H : match ?x with _ => _ end = (_, _, _) |- _ => destruct x eqn:?
              end.
  all: repeat match goal with
              | H : (_, _, _) = (_, _, _) |- _ => inversion H; subst; clear H
              end.
  all: try (eapply Hl; eassumption).
  all: try (match goal with H : parse_numeric _ _ _ = (IOk _, _) |- _ =>
              unfold parse_numeric in H;
              repeat match type of H with
                     | (let '(_, _) := ?x in _) = _ => destruct x eqn:?
                     | match ?x with _ => _ end = _ => destruct x eqn:?
                     end; try discriminate; inversion H; subst; eapply build_nodup; eassumption end).
  all: try (match goal with H : ascii_literal _ _ _ _ _ _ = (IOk ?t, _) |- NoDup (vars ?t) => eapply ascii_literal_nodup; exact H end).
  all: try (cbn; constructor).
  all: try (match goal with
            | H : ascii_literal _ _ _ _ _ _ = (?i, _), H0 : match ?i with _ => _ end = IOk ?t |- NoDup (vars ?t) =>
              destruct i as [it| |]; try discriminate;
              pose proof (ascii_literal_nodup _ _ _ _ _ _ _ _ H) as Hn;
              destruct it; try (inversion H0; subst; exact Hn);
              match goal with n : bytes |- _ => destruct n; inversion H0; subst; try exact Hn; cbn; constructor end
            end).
Qed.

Lemma parse_list_body_nodup rec_item rec_list :
  (forall st acc count t st', rec_list st acc count = (IOk t, st') -> NoDup (vars t)) ->
  forall st acc count t st', parse_list_body rec_item rec_list st acc count = (IOk t, st') -> NoDup (vars t).
Proof.
  intros Hl st acc count t st' H. unfold parse_list_body in H.
  destruct (t_typ (peek st)) eqn:Et; try (inversion H; fail);
    repeat match type of H with
           | (let '(_, _) := ?x in _) = _ => destruct x eqn:?
           | (if ?c then _ else _) = _ => destruct c eqn:?
           | match ?x with _ => _ end = _ => destruct x eqn:?
           end; try discriminate; try (eapply Hl; exact H).
  all: try (inversion H; subst; eapply new_list_nodup; eassumption).
  all: try (destruct (new_list acc) eqn:E; inversion H; subst; eapply new_list_nodup; exact E).
Qed.

Lemma parse_nodup floats fuel :
  (forall st t st', parse_item floats fuel st = (Some t, st') -> NoDup (vars t)) /\
  (forall st acc count t st', parse_list floats fuel st acc count = (IOk t, st') -> NoDup (vars t)).
Proof.
  induction fuel as [|f [IHi IHl]]; [split; intros; discriminate|]. split.
  - intros st t st' H. cbn [parse_item] in H. eapply parse_item_body_nodup; [exact IHl|exact H].
  - intros st acc count t st' H. cbn [parse_list] in H. eapply parse_list_body_nodup; [exact IHl|exact H].
Qed.



Lemma of_parse_nodup o : (forall m, o = Some (HData m) -> NoDup (vars (m_item m))) -> entry_nodup (of_parse o).
Proof. destruct o as [[m|h]|]; cbn; auto. Qed.

Lemma check_item m m' : check m = Some m' -> m' = m.
Proof. unfold check. destruct (msg_ok m); [|discriminate]. intro H; inversion H; reflexivity. Qed.

Lemma msgs_err st t k : msgs (err st t k) = msgs st. Proof. reflexivity. Qed.
Lemma msgs_warn st t k : msgs (warn st t k) = msgs st. Proof. reflexivity. Qed.
Lemma msgs_advance st : msgs (advance st) = msgs st. Proof. reflexivity. Qed.
Lemma msgs_add_name st n : msgs (add_name st n) = msgs st. Proof. reflexivity. Qed.
Lemma msgs_with_ecount st e : msgs (with_ecount st e) = msgs st. Proof. reflexivity. Qed.
Lemma msgs_reset st : msgs (reset_msg_scope st) = msgs st. Proof. reflexivity. Qed.
Lemma msgs_crash st : msgs (crash st) = msgs st. Proof. reflexivity. Qed.
#[export] Hint Rewrite msgs_err msgs_warn msgs_advance msgs_add_name msgs_with_ecount msgs_reset msgs_crash : msgs_db.

Lemma take_values_msgs st vs st' : take_values st = (vs, st') -> msgs st' = msgs st.
Proof. unfold take_values. destruct (value_tokens (toks st)). intro H; inversion H; reflexivity. Qed.

Lemma value_arg_msgs floats nk st t g st1 : value_arg floats nk st t = Some (g, st1) -> msgs st1 = msgs st.
Proof.
  unfold value_arg. intro E.
  repeat match type of E with
         | (let '(_, _) := ?x in _) = _ => destruct x eqn:?
         | (if ?c then _ else _) = _ => destruct c eqn:?
         | match ?x with _ => _ end = _ => destruct x eqn:?
         end; try discriminate; inversion E; subst;
  repeat match goal with |- context [match ?x with _ => _ end] => destruct x end; reflexivity.
Qed.

Lemma value_args_msgs floats nk ts : forall st o st', value_args floats nk st ts = (o, st') -> msgs st' = msgs st.
Proof.
  induction ts as [|t ts IH]; intros st o st' H; cbn [value_args] in H; [inversion H; reflexivity|].
  destruct (value_arg floats nk st t) as [[g st1]|] eqn:E.
  - destruct (value_args floats nk st1 ts) as [o2 st2] eqn:E2. inversion H; subst. rewrite (IH _ _ _ E2).
    eapply value_arg_msgs; exact E.
  - inversion H; subst. destruct (t_typ t); reflexivity.
Qed.

Lemma parse_numeric_msgs floats nk st r st' : parse_numeric floats nk st = (r, st') -> msgs st' = msgs st.
Proof.
  unfold parse_numeric. destruct (take_values st) as [vs st0] eqn:E0. destruct (value_args floats nk st0 vs) as [o st1] eqn:E1.
  intro H. apply take_values_msgs in E0. apply value_args_msgs in E1.
  destruct o; [destruct (build nk l)|]; inversion H; subst; congruence.
Qed.

Lemma ascii_literal_msgs ts : forall st n acc mn mx r st', ascii_literal st ts n acc mn mx = (r, st') -> msgs st' = msgs st.
Proof.
  induction ts as [|t ts IH]; intros st n acc mn mx r st' H; cbn [ascii_literal] in H; [inversion H; reflexivity|].
  destruct (t_typ t);
    repeat match type of H with
           | (let '(_, _) := ?x in _) = _ => destruct x eqn:?
           | (if ?c then _ else _) = _ => destruct c eqn:?
           end;
    try (apply IH in H; rewrite H; repeat match goal with |- context [match ?x with _ => _ end] => destruct x end; reflexivity);
    try (inversion H; subst; reflexivity).
Qed.

Definition msgs_nodup (st : pstate) : Prop := Forall (fun m => NoDup (vars (m_item m))) (msgs st).

Lemma parse_item_body_msgs floats rec_list :
  (forall st acc count r st', rec_list st acc count = (r, st') -> msgs st' = msgs st) ->
  forall st o st', parse_item_body floats rec_list st = (o, st') -> msgs st' = msgs st.
Proof.
  intros Hl st o st' H. unfold parse_item_body in H.
  repeat match type of H with
         | (let '(_, _) := ?x in _) = _ => destruct x eqn:?
         | (if ?c then _ else _) = _ => destruct c eqn:?
         | match ?x with _ => _ end = _ => destruct x eqn:?
         end; inversion H; subst; clear H;
  repeat match goal with
         | H : (let '(_, _) := ?x in _) = _ |- _ => destruct x eqn:?
         | H : (if ?c then _ else _) = (_, _, _) |- _ => destruct c eqn:?
         | H : (if ?c then _ else _) = (_, _, _, _) |- _ => destruct c eqn:?
         | H : match ?x with _ => _ end = (_, _, _) |- _ => destruct x eqn:?
         end;
  repeat match goal with
         | H : (_, _, _, _) = (_, _, _, _) |- _ => inversion H; subst; clear H
         | H : (_, _, _) = (_, _, _) |- _ => inversion H; subst; clear H
         end;
  repeat match goal with
         | H : rec_list _ _ _ = _ |- _ => apply Hl in H
         | H : parse_numeric _ _ _ = _ |- _ => apply parse_numeric_msgs in H
         | H : ascii_literal _ _ _ _ _ _ = _ |- _ => apply ascii_literal_msgs in H
         | H : take_values _ = _ |- _ => apply take_values_msgs in H
         end;
  repeat match goal with |- context [if ?c then _ else _] => destruct c end;
  autorewrite with msgs_db in *; congruence.
Qed.

Lemma parse_list_body_msgs rec_item rec_list :
  (forall st o st', rec_item st = (o, st') -> msgs st' = msgs st) ->
  (forall st acc count r st', rec_list st acc count = (r, st') -> msgs st' = msgs st) ->
  forall st acc count r st', parse_list_body rec_item rec_list st acc count = (r, st') -> msgs st' = msgs st.
Proof.
  intros Hi Hl st acc count r st' H. unfold parse_list_body in H.
  destruct (t_typ (peek st));
    repeat match type of H with
           | (let '(_, _) := ?x in _) = _ => destruct x eqn:?
           | (if ?c then _ else _) = _ => destruct c eqn:?
           | match ?x with _ => _ end = _ => destruct x eqn:?
           end;
    try (apply Hl in H);
    try (inversion H; subst; clear H);
    repeat match goal with Hx : rec_item _ = _ |- _ => apply Hi in Hx end;
    repeat match goal with |- context [if ?c then _ else _] => destruct c end;
    repeat match goal with Hx : context [if ?c then _ else _] |- _ => destruct c end;
    autorewrite with msgs_db in *; congruence.
Qed.

Lemma parse_item_msgs floats fuel :
  (forall st o st', parse_item floats fuel st = (o, st') -> msgs st' = msgs st) /\
  (forall st acc count r st', parse_list floats fuel st acc count = (r, st') -> msgs st' = msgs st).
Proof.
  induction fuel as [|f [IHi IHl]]; [split; intros; cbn in *; inversion H; reflexivity|]. split.
  - intros st o st' H. cbn [parse_item] in H. eapply parse_item_body_msgs; [exact IHl|exact H].
  - intros st acc count r st' H. cbn [parse_list] in H. eapply parse_list_body_msgs; [exact IHi|exact IHl|exact H].
Qed.

Lemma parse_message_nodup floats st ok st' : msgs_nodup st -> parse_message floats st = (ok, st') -> msgs_nodup st'.
Proof.
  intros Hn H. unfold parse_message in H.
  repeat match type of H with
         | (let '(_, _) := ?x in _) = _ => destruct x eqn:?
         | (if ?c then _ else _) = _ => destruct c eqn:?
         | match ?x with _ => _ end = _ => destruct x eqn:?
         end; inversion H; subst; clear H; unfold msgs_nodup in *; cbn [msgs err warn advance reset_msg_scope add_msg crash] in *.
  all: repeat match goal with
              | H : (if ?c then _ else _) = (_, _) |- _ => destruct c eqn:?
              end.
  all: repeat match goal with
              | H : (_, _) = (_, _) |- _ => inversion H; subst; clear H
              end; cbn [msgs err warn advance reset_msg_scope add_msg crash] in *.
  all: try match goal with H : parse_item _ _ _ = (?o, ?s) |- _ =>
             let Hm := fresh in pose proof (proj1 (parse_item_msgs floats _) _ _ _ H) as Hm; cbn [msgs err warn advance reset_msg_scope] in Hm
           end.
  all: try (rewrite H in *; cbn [msgs err warn advance reset_msg_scope] in *).
  all: try assumption.
  all: try (apply Forall_app; split; [|constructor; [|constructor]]).
  all: try match goal with H : new_data_message _ _ _ _ _ ?i = Some ?m |- NoDup (vars (m_item ?m)) =>
             unfold new_data_message in H; apply check_item in H; subst; cbn [m_item]
           end.
  all: try (cbn; constructor).
  all: try (match goal with H : parse_item _ _ _ = (Some ?t, _) |- NoDup (vars ?t) => eapply (proj1 (parse_nodup floats _)); exact H end).
  all: try congruence.
Qed.

Lemma parse_loop_nodup floats fuel : forall st, msgs_nodup st -> msgs_nodup (parse_loop floats fuel st).
Proof.
  induction fuel as [|f IH]; intros st Hn; cbn [parse_loop]; [exact Hn|].
  destruct (typ_is (peek st) TEOF); [exact Hn|]. destruct (parse_message floats st) as [ok st1] eqn:E.
  pose proof (parse_message_nodup _ _ _ _ Hn E). destruct ok; [apply IH|]; assumption.
Qed.

Lemma sml_parse_nodup alnum floats input : Forall (fun m => NoDup (vars (m_item m))) (r_msgs (sml_parse alnum floats input)).
Proof.
  unfold sml_parse. cbn [r_msgs].
  match goal with |- context [parse_loop ?f ?n ?s] => pose proof (parse_loop_nodup f n s) as H; set (st := parse_loop f n s) in * end.
  destruct (errs st); [apply H; constructor|constructor].
Qed.

Theorem eval_step_nodup p s : Forall entry_nodup p -> entry_nodup (eval_step p s).
Proof.
  intro Hp.
  assert (Hget : forall i t, get_item p i = Some t -> NoDup (vars t)).
  { intros i t H. unfold get_item in H. destruct (nth_error p i) as [[]|] eqn:E; try discriminate. inversion H; subst.
    apply nth_error_In in E. rewrite Forall_forall in Hp. apply (Hp _ E). }
  assert (Hgetm : forall i m, get_msg p i = Some m -> NoDup (vars (m_item m))).
  { intros i m H. unfold get_msg in H. destruct (nth_error p i) as [[]|] eqn:E; try discriminate. inversion H; subst.
    apply nth_error_In in E. rewrite Forall_forall in Hp. apply (Hp _ E). }
  destruct s; cbn [eval_step]; unfold with_args, rsp_of, of_item, of_msg, of_ctl;
    repeat match goal with
           | |- entry_nodup (match ?x with _ => _ end) => destruct x eqn:?; cbn [entry_nodup of_item of_msg of_ctl]; auto
           end;
    try (apply of_parse_nodup; intros m0 Hm; eapply hsms_parse_item_nodup; exact Hm);
    try match goal with
        | H : new_list _ = Some _ |- _ => eapply new_list_nodup; exact H
        | H : new_int _ _ = Some _ |- _ => eapply new_leaf_nodup; exact H
        | H : new_uint _ _ = Some _ |- _ => eapply new_leaf_nodup; exact H
        | H : new_float _ _ = Some _ |- _ => eapply new_leaf_nodup; exact H
        | H : new_binary _ = Some _ |- _ => eapply new_leaf_nodup; exact H
        | H : new_boolean _ = Some _ |- _ => eapply new_leaf_nodup; exact H
        | H : new_ascii _ = Some _ |- _ => eapply new_ascii_nodup; exact H
        | H : new_ascii_var _ _ _ = Some _ |- _ => eapply new_ascii_var_nodup; exact H
        | H : fill _ _ = Some _ |- _ => eapply fill_nodup; [|exact H]; eauto
        end.
  all: try (constructor).
  all: try match goal with
           | H : new_data_message _ _ _ _ _ _ = Some ?m |- NoDup (vars (m_item ?m)) =>
             unfold new_data_message in H; apply check_item in H; subst; cbn [m_item]; eauto
           | H : new_hsms_data_message _ _ _ _ _ _ _ _ = Some ?m |- NoDup (vars (m_item ?m)) =>
             apply new_hsms_inv in H as (-> & _); cbn [m_item]; eauto
           | H : set_wait_bit _ _ = Some ?m |- NoDup (vars (m_item ?m)) =>
             unfold set_wait_bit in H; destruct (negb _); [inversion H; subst; eauto|apply check_item in H; subst; cbn [m_item with_wbit]; eauto]
           | H : set_session _ _ _ = Some ?m |- NoDup (vars (m_item ?m)) =>
             unfold set_session in H; apply check_item in H; subst; cbn [m_item with_session]; eauto
           | H : fill_msg _ _ = Some ?m |- NoDup (vars (m_item ?m)) =>
             unfold fill_msg in H; destruct (fill _ _) eqn:Ef; [|discriminate]; apply check_item in H; subst; cbn [m_item with_item];
             eapply fill_nodup; [|exact Ef]; eauto
           end.
all: try (apply sml_parse_nodup).
  all: try (match goal with
            | E : nth_error _ ?r = Some (EParse ?res), E2 : nth_error (r_msgs ?res) ?i = Some ?m |- NoDup (vars (m_item ?m)) =>
              apply nth_error_In in E; rewrite Forall_forall in Hp; specialize (Hp _ E); cbn [entry_nodup] in Hp;
              rewrite Forall_forall in Hp; apply Hp; eapply nth_error_In; exact E2
            end).
Qed.

Theorem run_nodup steps : Forall entry_nodup (run steps).
Proof.
  unfold run. assert (H : forall p, Forall entry_nodup p -> Forall entry_nodup (fold_left (fun p s => p ++ [eval_step p s]) steps p)).
  { induction steps as [|s steps IH]; intros p Hp; [exact Hp|]. cbn [fold_left]. apply IH.
    apply Forall_app. split; [exact Hp|]. constructor; [apply eval_step_nodup; exact Hp|constructor]. }
  apply H. constructor.
Qed.

(* encodable iff no variables, for items whose sizes respect the limit *)
Fixpoint sized (t : item) : Prop :=
  match t with
  | IList xs => Z.of_nat (length xs) <= MAX_BYTE_SIZE /\
                (fix all (xs : list item) : Prop := match xs with [] => True | x :: r => sized x /\ all r end) xs
  | ILeaf k w xs => fmt_ok k w /\ Z.of_nat (length xs) * Z.of_nat w <= MAX_BYTE_SIZE
  | IAscii s => Z.of_nat (length s) <= MAX_BYTE_SIZE
  | _ => True
  end.

Lemma sized_list xs : sized (IList xs) <-> Z.of_nat (length xs) <= MAX_BYTE_SIZE /\ Forall sized xs.
Proof.
  cbn [sized]. split; intros [H1 H2]; split; try assumption; clear H1.
  - induction xs as [|x xs IH]; constructor; [exact (proj1 H2)|apply IH; exact (proj2 H2)].
  - induction H2 as [|x xs Hx _ IH]; [exact I|split; assumption].
Qed.

Lemma header_some typ n : 0 <= data_byte_length typ n <= MAX_BYTE_SIZE -> exists h, header_bytes typ n = Some h /\ h <> [].
Proof. intro H. rewrite (header_bytes_exact typ n H). eexists. split; [reflexivity|discriminate]. Qed.

Lemma slot_vals_none xs : slot_vars xs <> [] -> slot_vals xs = None.
Proof.
  induction xs as [|[v|n] xs IH]; cbn; intro H; [congruence| |reflexivity].
  rewrite IH by exact H. reflexivity.
Qed.
Lemma slot_vals_some xs : slot_vars xs = [] -> exists vs, slot_vals xs = Some vs.
Proof.
  induction xs as [|[v|n] xs IH]; cbn; intro H; [eauto| |discriminate].
  destruct (IH H) as (vs & E). rewrite E. eauto.
Qed.

Theorem encodable_iff t : sized t -> t <> IEmpty -> (to_bytes t <> [] <-> vars t = []).
Proof.
  induction t as [xs IH| | k w slots | s | | ] using item_ind'; intros Hs Hne.
  - apply sized_list in Hs as [Hn Hall]. rewrite to_bytes_list.
    destruct (header_some (B"list"%string) (Z.of_nat (length xs))) as (h & Hh & Hhne);
      [unfold data_byte_length; cbn [lookup bytes_eqb]; cbn; lia|]. rewrite Hh.
    assert (Hch : forallb (fun c => negb (is_nil (to_bytes c))) xs = true <-> vars (IList xs) = []).
    { clear -IH Hall. cbn [vars]. induction IH as [|x xs Hx _ IH2]; [cbn; tauto|].
      apply Forall_cons_iff in Hall as [Hsx Hall]. cbn [forallb flat_map]. rewrite andb_true_iff, IH2 by assumption.
      split.
      - intros [HA HB]. rewrite HB, app_nil_r.
        destruct x; try reflexivity; try (cbn in HA; discriminate);
          (match goal with |- vars ?t = [] =>
             assert (Hx' : to_bytes t <> [] <-> vars t = []) by (apply Hx; [assumption|discriminate]);
             apply Hx'; intro E; rewrite E in HA; discriminate end).
      - intro H. apply app_eq_nil in H as [HA HB]. split; [|exact HB].
        destruct x; try discriminate;
          (match goal with |- negb (is_nil (to_bytes ?t)) = true =>
             assert (Hx' : to_bytes t <> [] <-> vars t = []) by (apply Hx; [assumption|discriminate]);
             apply Hx' in HA; destruct (to_bytes t); [congruence|reflexivity] end). }
    destruct (forallb _ xs) eqn:Ef.
    + split; [intros _; apply Hch; reflexivity|intros _ E; apply app_eq_nil in E as [E _]; congruence].
    + split; [congruence|]. intro Hv. apply Hch in Hv. discriminate.
  - cbn. split; [congruence|discriminate].
  - cbn [sized] in Hs. destruct Hs as [Hf Hn]. cbn [to_bytes vars].
    destruct (slot_vars slots) eqn:Ev.
    + destruct (slot_vals_some slots Ev) as (vs & E). rewrite E.
      destruct (header_some (tyname k w) (Z.of_nat (length slots))) as (h & Hh & Hhne);
        [unfold data_byte_length; rewrite width_lookup_tyname by exact Hf; lia|]. rewrite Hh.
      split; [reflexivity|]. intros _ E2. apply app_eq_nil in E2 as [E2 _]. congruence.
    + rewrite slot_vals_none by (rewrite Ev; discriminate). split; [congruence|discriminate].
  - cbn [sized] in Hs. cbn [to_bytes vars].
    destruct (header_some (B"ascii"%string) (Z.of_nat (length s))) as (h & Hh & Hhne);
      [unfold data_byte_length; cbn [lookup bytes_eqb]; cbn; lia|]. rewrite Hh.
    split; [reflexivity|]. intros _ E2. apply app_eq_nil in E2 as [E2 _]. congruence.
  - cbn. split; [congruence|discriminate].
  - congruence.
Qed.

(* ---------- C18 ---------- *)

Definition same_but_wbit (a b : msg) : Prop :=
  m_name a = m_name b /\ m_stream a = m_stream b /\ m_function a = m_function b /\ m_dir a = m_dir b /\
  m_item a = m_item b /\ m_sid a = m_sid b /\ m_sys a = m_sys b.
Definition same_but_session (a b : msg) : Prop :=
  m_name a = m_name b /\ m_stream a = m_stream b /\ m_function a = m_function b /\ m_dir a = m_dir b /\
  m_item a = m_item b /\ m_wbit a = m_wbit b.
Definition same_but_item (a b : msg) : Prop :=
  m_name a = m_name b /\ m_stream a = m_stream b /\ m_function a = m_function b /\ m_dir a = m_dir b /\
  m_wbit a = m_wbit b /\ m_sid a = m_sid b /\ m_sys a = m_sys b.

Theorem set_wait_bit_frame m b m' :
  set_wait_bit m b = Some m' ->
  same_but_wbit m m' /\
  (m_wbit m <> 2 -> m' = m) /\
  (m_wbit m = 2 -> m_wbit m' = (if b then 1 else 0) /\ msg_ok m' = true).
Proof.
  unfold set_wait_bit. destruct (Z.eqb_spec (m_wbit m) 2) as [E|E]; cbn [negb].
  - unfold check. destruct (msg_ok (with_wbit m _)) eqn:Eok; [|discriminate]. intro H; inversion H; subst m'.
    split; [repeat split|]. split; [congruence|]. intros _. split; [reflexivity|exact Eok].
  - intro H; inversion H; subst m'. split; [repeat split|]. split; [reflexivity|congruence].
Qed.

Lemma pad4_length n s : length (pad4 n s) = n.
Proof. revert s; induction n as [|n IH]; intro s; cbn; [reflexivity|]. destruct s; cbn; rewrite IH; reflexivity. Qed.

Lemma pad4_spec s i : (i < 4)%nat -> nth i (pad4 4 s) x00 = nth i s x00.
Proof.
  intro H. destruct s as [|a [|b [|c [|d r]]]]; destruct i as [|[|[|[|i]]]]; try lia; reflexivity.
Qed.

Theorem set_session_frame m sid sys m' :
  set_session m sid sys = Some m' ->
  same_but_session m m' /\ m_sid m' = sid /\ length (m_sys m') = 4%nat /\
  (forall i, (i < 4)%nat -> nth i (m_sys m') x00 = nth i sys x00) /\ msg_ok m' = true.
Proof.
  unfold set_session, check. destruct (msg_ok (with_session m sid (pad4 4 sys))) eqn:Eok; [|discriminate].
  intro H. assert (E : m' = with_session m sid (pad4 4 sys)) by congruence. clear H. subst m'.
  split; [repeat split|]. split; [reflexivity|]. cbn [m_sys with_session]. split; [apply pad4_length|].
  split; [intros i Hi; apply pad4_spec; exact Hi|exact Eok].
Qed.

Theorem fill_msg_frame m s m' :
  fill_msg m s = Some m' ->
  same_but_item m m' /\ fill s (m_item m) = Some (m_item m') /\ msg_ok m' = true.
Proof.
  unfold fill_msg. destruct (fill s (m_item m)) as [it|] eqn:Ef; [|discriminate].
  unfold check. destruct (msg_ok (with_item m it)) eqn:Eok; [|discriminate].
  intro H; inversion H; subst m'. split; [repeat split|]. split; [reflexivity|exact Eok].
Qed.

(* validity is an invariant of every sequence of producers *)
Inductive producer := PWait (b : bool) | PSession (sid : Z) (sys : bytes) | PFill (s : fmap).
Definition apply_producer (o : option msg) (p : producer) : option msg :=
  match o with
  | None => None
  | Some m => match p with
              | PWait b => set_wait_bit m b
              | PSession sid sys => set_session m sid sys
              | PFill s => fill_msg m s
              end
  end.

Theorem producers_valid ps m m' :
  msg_ok m = true -> fold_left apply_producer ps (Some m) = Some m' ->
  msg_ok m' = true /\ m_name m' = m_name m /\ m_stream m' = m_stream m /\ m_function m' = m_function m /\ m_dir m' = m_dir m.
Proof.
  revert m. induction ps as [|p ps IH]; intros m Hok H; cbn [fold_left] in H.
  - inversion H; subst. auto.
  - destruct (apply_producer (Some m) p) as [m1|] eqn:E.
    + assert (msg_ok m1 = true /\ m_name m1 = m_name m /\ m_stream m1 = m_stream m /\ m_function m1 = m_function m /\ m_dir m1 = m_dir m) as (Hok1 & A & B' & C & D).
      { destruct p; cbn [apply_producer] in E.
        - apply set_wait_bit_frame in E as ((A & B' & C & D & _) & Hne & He).
          destruct (Z.eq_dec (m_wbit m) 2) as [E2|E2].
          + destruct (He E2) as [_ Hk]. auto.
          + rewrite (Hne E2). auto.
        - apply set_session_frame in E as ((A & B' & C & D & _) & _ & _ & _ & Hk). auto.
        - apply fill_msg_frame in E as ((A & B' & C & D & _) & _ & Hk). auto. }
      destruct (IH m1 Hok1 H) as (K & A' & B'' & C' & D'). repeat split; congruence.
    + exfalso. clear -H. induction ps as [|q ps IH]; cbn in H; [discriminate|]. apply IH. exact H.
Qed.
