(* FrameProofs.v — a message is parsed from its own tokens alone (C19): if a
   message is accepted, the same message is accepted, with the same
   diagnostics, whatever tokens follow its terminator. *)
From Secs Require Import Ast Fill Utf8 Msg Lexer Parser SmlNumbers SmlProofs LexProofs ParseProofs.
Open Scope Z_scope.

(* the state with more tokens after its own *)
Definition more (st : pstate) (x : list token) : pstate :=
  {| toks := toks st ++ x; names := names st; ecount := ecount st; errs := errs st; warns := warns st;
     msgs := msgs st; crashed := crashed st |}.

Lemma peek_more st x : toks st <> [] -> peek (more st x) = peek st.
Proof. unfold peek, more. cbn [toks]. destruct (toks st); [congruence|reflexivity]. Qed.
Lemma advance_more st x : toks st <> [] -> advance (more st x) = more (advance st) x.
Proof. unfold advance, more. cbn. destruct (toks st); [congruence|reflexivity]. Qed.
Lemma err_more st x t k : err (more st x) t k = more (err st t k) x.          Proof. reflexivity. Qed.
Lemma warn_more st x t k : warn (more st x) t k = more (warn st t k) x.        Proof. reflexivity. Qed.
Lemma add_name_more st x n : add_name (more st x) n = more (add_name st n) x.  Proof. reflexivity. Qed.
Lemma with_ecount_more st x e : with_ecount (more st x) e = more (with_ecount st e) x. Proof. reflexivity. Qed.
Lemma reset_more st x : reset_msg_scope (more st x) = more (reset_msg_scope st) x. Proof. reflexivity. Qed.
Lemma add_msg_more st x m : add_msg (more st x) m = more (add_msg st m) x.     Proof. reflexivity. Qed.
Lemma known_more st x n : known_name (more st x) n = known_name st n.          Proof. reflexivity. Qed.

Lemma ext_nonempty a b : ext a b -> toks b <> [] -> toks a <> [].
Proof. intros [_ [[n Hn] _]] H E. rewrite E, skipn_nil in Hn. congruence. Qed.

(* getDataItemValueTokens stops inside its own tokens unless it runs off their end *)
Lemma value_tokens_more : forall l x vs rest, value_tokens l = (vs, rest) -> rest <> [] ->
  value_tokens (l ++ x) = (vs, rest ++ x).
Proof.
  induction l as [|t r IH]; intros x vs rest H Hne; cbn [value_tokens] in H; [inversion H; subst; congruence|].
  cbn [app value_tokens].
  destruct (t_typ t); try (inversion H; subst; reflexivity);
    destruct (value_tokens r) as [a b] eqn:E; inversion H; subst; rewrite (IH x a rest eq_refl Hne); reflexivity.
Qed.

Lemma take_values_more st x : toks (snd (take_values st)) <> [] ->
  take_values (more st x) = (fst (take_values st), more (snd (take_values st)) x).
Proof.
  unfold take_values. destruct (value_tokens (toks st)) as [vs rest] eqn:E. cbn [fst snd toks]. intro Hne.
  cbn [toks more]. rewrite (value_tokens_more _ x vs rest E Hne). reflexivity.
Qed.

Section Frame.
Variable floats : float_oracle.

(* the value loops never look at the token list *)
Lemma value_arg_more nk st x t : value_arg floats nk (more st x) t =
  match value_arg floats nk st t with Some (g, s) => Some (g, more s x) | None => None end.
Proof.
  unfold value_arg. rewrite known_more. destruct (t_typ t); try reflexivity.
  - destruct nk; try reflexivity.
    + destruct (parse_int _ _) as [v e]; destruct e; reflexivity.
    + destruct (parse_uint _ _) as [v e]; destruct e; reflexivity.
    + destruct (scan_float _ _ _) as [b e]; destruct e; reflexivity.
    + destruct (parse_int _ _) as [v e]. destruct ((0 <=? v) && (v <? 256)); destruct e; reflexivity.
  - destruct nk; reflexivity.
  - destruct (known_name st (t_val t)); reflexivity.
Qed.

Lemma value_args_more nk : forall ts st x, value_args floats nk (more st x) ts =
  (fst (value_args floats nk st ts), more (snd (value_args floats nk st ts)) x).
Proof.
  induction ts as [|t r IH]; intros st x; cbn [value_args]; [reflexivity|].
  rewrite value_arg_more. destruct (value_arg floats nk st t) as [[g s1]|].
  - rewrite IH. destruct (value_args floats nk s1 r) as [o s2]. reflexivity.
  - destruct (t_typ t); reflexivity.
Qed.

Lemma ascii_literal_more : forall ts st x n acc mn mx, ascii_literal (more st x) ts n acc mn mx =
  (fst (ascii_literal st ts n acc mn mx), more (snd (ascii_literal st ts n acc mn mx)) x).
Proof.
  induction ts as [|t r IH]; intros st x n acc mn mx; cbn [ascii_literal]; [reflexivity|].
  destruct (t_typ t); try reflexivity.
  - destruct (parse_uint (t_val t) 64) as [v e]. destruct (127 <? v); destruct e; rewrite ?err_more, IH; reflexivity.
  - destruct (negb (n =? 1)%nat); [reflexivity|]. rewrite known_more. destruct (known_name st (t_val t)); reflexivity.
  - destruct (existsb _ _); rewrite ?err_more, IH; reflexivity.
Qed.
End Frame.

(* ---------- what was parsed before does not matter ---------- *)

(* the state with earlier diagnostics and messages in front of its own *)
Definition past (e w : list diag) (m : list msg) (st : pstate) : pstate :=
  {| toks := toks st; names := names st; ecount := ecount st; errs := e ++ errs st; warns := w ++ warns st;
     msgs := m ++ msgs st; crashed := crashed st |}.

Section Past.
Variable floats : float_oracle.
Variables (e w : list diag) (m : list msg).
Notation P := (past e w m).

Lemma peek_past st : peek (P st) = peek st.                              Proof. reflexivity. Qed.
Lemma advance_past st : advance (P st) = P (advance st).                 Proof. reflexivity. Qed.
Lemma err_past st t k : err (P st) t k = P (err st t k).
Proof. unfold err, past. cbn. rewrite app_assoc. reflexivity. Qed.
Lemma warn_past st t k : warn (P st) t k = P (warn st t k).
Proof. unfold warn, past. cbn. rewrite app_assoc. reflexivity. Qed.
Lemma add_name_past st n : add_name (P st) n = P (add_name st n).        Proof. reflexivity. Qed.
Lemma with_ecount_past st c : with_ecount (P st) c = P (with_ecount st c). Proof. reflexivity. Qed.
Lemma reset_past st : reset_msg_scope (P st) = P (reset_msg_scope st).   Proof. reflexivity. Qed.
Lemma add_msg_past st x : add_msg (P st) x = P (add_msg st x).
Proof. unfold add_msg, past. cbn. rewrite app_assoc. reflexivity. Qed.
Lemma crash_past st : crash (P st) = P (crash st).                       Proof. reflexivity. Qed.
Lemma known_past st n : known_name (P st) n = known_name st n.           Proof. reflexivity. Qed.
Lemma take_values_past st : take_values (P st) = (fst (take_values st), P (snd (take_values st))).
Proof. unfold take_values. cbn [toks past]. destruct (value_tokens (toks st)); reflexivity. Qed.

Ltac past_norm := rewrite ?err_past, ?warn_past, ?add_msg_past.

Lemma value_arg_past nk st t : value_arg floats nk (P st) t =
  match value_arg floats nk st t with Some (g, s) => Some (g, P s) | None => None end.
Proof.
  unfold value_arg. rewrite known_past. destruct (t_typ t); try reflexivity.
  - destruct nk; try reflexivity.
    + destruct (parse_int _ _) as [v x]; destruct x; past_norm; reflexivity.
    + destruct (parse_uint _ _) as [v x]; destruct x; past_norm; reflexivity.
    + destruct (scan_float _ _ _) as [b x]; destruct x; past_norm; reflexivity.
    + destruct (parse_int _ _) as [v x]. destruct ((0 <=? v) && (v <? 256)); destruct x; past_norm; reflexivity.
  - destruct nk; reflexivity.
  - destruct (known_name st (t_val t)); past_norm; reflexivity.
Qed.

Lemma value_args_past nk : forall ts st, value_args floats nk (P st) ts =
  (fst (value_args floats nk st ts), P (snd (value_args floats nk st ts))).
Proof.
  induction ts as [|t r IH]; intro st; cbn [value_args]; [reflexivity|].
  rewrite value_arg_past. destruct (value_arg floats nk st t) as [[g s1]|].
  - rewrite IH. destruct (value_args floats nk s1 r) as [o s2]. reflexivity.
  - destruct (t_typ t); past_norm; reflexivity.
Qed.

Lemma parse_numeric_past nk st : parse_numeric floats nk (P st) =
  (fst (parse_numeric floats nk st), P (snd (parse_numeric floats nk st))).
Proof.
  unfold parse_numeric. rewrite take_values_past. destruct (take_values st) as [vs st0]. cbn [fst snd].
  rewrite value_args_past. destruct (value_args floats nk st0 vs) as [o st1]. cbn [fst snd].
  destruct o as [args|]; [destruct (build nk args)|]; reflexivity.
Qed.

Lemma ascii_literal_past : forall ts st n acc mn mx, ascii_literal (P st) ts n acc mn mx =
  (fst (ascii_literal st ts n acc mn mx), P (snd (ascii_literal st ts n acc mn mx))).
Proof.
  induction ts as [|t r IH]; intros st n acc mn mx; cbn [ascii_literal]; [reflexivity|].
  destruct (t_typ t); past_norm; try reflexivity.
  - destruct (parse_uint (t_val t) 64) as [v x]. destruct (127 <? v); destruct x; past_norm; rewrite IH; reflexivity.
  - destruct (negb (n =? 1)%nat); past_norm; [reflexivity|]. rewrite known_past. destruct (known_name st (t_val t)); past_norm; reflexivity.
  - destruct (existsb _ _); past_norm; rewrite IH; reflexivity.
Qed.

Definition list_past (rec_list : pstate -> list gval -> Z -> ires * pstate) : Prop :=
  forall st acc c, rec_list (P st) acc c = (fst (rec_list st acc c), P (snd (rec_list st acc c))).
Definition item_past (rec_item : pstate -> option item * pstate) : Prop :=
  forall st, rec_item (P st) = (fst (rec_item st), P (snd (rec_item st))).

Ltac past_fin :=
  repeat (past_norm; rewrite ?peek_past, ?advance_past;
          match goal with |- context [if ?c then _ else _] =>
            lazymatch c with context [if _ then _ else _] => fail | _ => destruct c eqn:? end end);
  past_norm; rewrite ?peek_past, ?advance_past; reflexivity.

Lemma parse_item_body_past rec_list : list_past rec_list -> item_past (parse_item_body floats rec_list).
Proof.
  intros Hrec st. unfold parse_item_body. rewrite !peek_past, !advance_past, !peek_past.
  destruct (negb (typ_is (peek st) TLAB)); [past_norm; reflexivity|].
  destruct (negb (typ_is (peek (advance st)) TItemType)); [past_norm; reflexivity|].
  set (st2 := advance (advance st)). set (szt := peek st2).
  destruct (typ_is szt TItemSize) eqn:Esz.
  - destruct (parse_size (t_val szt)) as [lo hi]. cbn [negb andb].
    set (st3 := advance st2).
    destruct (bytes_eqb (t_val (peek (advance st))) (B"L"%string)).
    { rewrite Hrec. destruct (rec_list st3 [] 0) as [r s]. cbn [fst snd]. destruct r as [it| |]; past_fin. }
    destruct (bytes_eqb (t_val (peek (advance st))) (B"A"%string)).
    { rewrite take_values_past. destruct (take_values st3) as [vs st0]. cbn [fst snd].
      rewrite ascii_literal_past. destruct (ascii_literal st0 vs (length vs) [] lo hi) as [r s]. cbn [fst snd].
      destruct r as [it| |]; [|past_fin|past_fin]. destruct it as [xs|n|k w' xs|v|n mn mx|]; past_fin. }
    destruct (nk_of_type _) as [nk|]; [|reflexivity].
    rewrite parse_numeric_past. destruct (parse_numeric floats nk st3) as [r s]. cbn [fst snd]. destruct r as [it| |]; past_fin.
  - cbn [negb andb]. destruct (typ_is szt TError); [past_norm; reflexivity|].
    destruct (bytes_eqb (t_val (peek (advance st))) (B"L"%string)).
    { rewrite Hrec. destruct (rec_list st2 [] 0) as [r s]. cbn [fst snd]. destruct r as [it| |]; past_fin. }
    destruct (bytes_eqb (t_val (peek (advance st))) (B"A"%string)).
    { rewrite take_values_past. destruct (take_values st2) as [vs st0]. cbn [fst snd].
      rewrite ascii_literal_past. destruct (ascii_literal st0 vs (length vs) [] 0 (-1)) as [r s]. cbn [fst snd].
      destruct r as [it| |]; [|past_fin|past_fin]. destruct it as [xs|n|k w' xs|v|n mn mx|]; past_fin. }
    destruct (nk_of_type _) as [nk|]; [|reflexivity].
    rewrite parse_numeric_past. destruct (parse_numeric floats nk st2) as [r s]. cbn [fst snd]. destruct r as [it| |]; past_fin.
Qed.

Lemma parse_list_body_past rec_item rec_list : item_past rec_item -> list_past rec_list ->
  list_past (parse_list_body rec_item rec_list).
Proof.
  intros Hi Hl st acc c. unfold parse_list_body. rewrite !peek_past, !advance_past.
  destruct (t_typ (peek st)); past_norm; try reflexivity.
  - rewrite Hi. destruct (rec_item st) as [[ch|] st1]; cbn [fst snd]; [apply Hl|reflexivity].
  - rewrite known_past. destruct (known_name (advance st) (t_val (peek st))); past_norm; rewrite ?add_name_past; apply Hl.
  - destruct (c =? 0); past_norm; [reflexivity|].
    change (ecount (P (advance st))) with (ecount (advance st)). rewrite with_ecount_past.
    match goal with |- context [if ?x then _ else _] => destruct x end; past_norm; apply Hl.
Qed.

Lemma parse_item_list_past : forall f, item_past (parse_item floats f) /\ list_past (parse_list floats f).
Proof.
  induction f as [|f [IHi IHl]].
  - split; [intro st|intros st acc c]; reflexivity.
  - split.
    + change (parse_item floats (S f)) with (parse_item_body floats (parse_list floats f)).
      apply parse_item_body_past. exact IHl.
    + change (parse_list floats (S f)) with (parse_list_body (parse_item floats f) (parse_list floats f)).
      apply parse_list_body_past; assumption.
Qed.

(* one message: the same outcome, the same new diagnostics and the same new
   message, after whatever was parsed before *)
Theorem parse_message_past st : parse_message floats (P st) =
  (fst (parse_message floats st), P (snd (parse_message floats st))).
Proof.
  unfold parse_message. rewrite reset_past, !peek_past.
  set (st1 := reset_msg_scope st).
  destruct (negb (typ_is (peek st1) TStreamFunction)); [past_norm; reflexivity|].
  rewrite advance_past. set (st2 := advance st1).
  destruct (split_sf (t_val (peek st1))) as [sd fd]. destruct (atoi sd) as [stream0 e1]. destruct (atoi fd) as [function0 e2].
  destruct ((0 <=? stream0) && (stream0 <? 128)); destruct ((0 <=? function0) && (function0 <? 256)); past_norm; rewrite ?peek_past.
  all: match goal with |- context [typ_is (peek ?s) TWaitBit] => set (st4 := s) end.
  all: match goal with |- context [let '(_, _) := (if ?c then _ else _) in _] => idtac | _ => idtac end.
  all: destruct (typ_is (peek st4) TWaitBit);
       [rewrite ?advance_past; destruct (bytes_eqb (t_val (peek st4)) [x57]);
        [match goal with |- context [if ?x =? 0 then _ else _] => destruct (x =? 0) end|destruct (bytes_eqb (t_val (peek st4)) (B"[W]"%string))]|];
       past_norm; rewrite ?peek_past.
  all: match goal with |- context [typ_is (peek ?s) TDirection] => set (st5 := s) end;
       destruct (typ_is (peek st5) TDirection); past_norm; rewrite ?advance_past, ?peek_past.
  all: match goal with |- context [typ_is (peek ?s) TMsgName] => set (st6 := s) end;
       destruct (typ_is (peek st6) TMsgName); rewrite ?advance_past, ?peek_past.
  all: match goal with |- context [typ_is (peek ?s) TMsgEnd] => set (st7 := s) end;
       destruct (typ_is (peek st7) TMsgEnd);
       [|destruct (typ_is (peek st7) TLAB);
         [change (toks (P st7)) with (toks st7); rewrite (proj1 (parse_item_list_past (S (length (toks st7)))) st7);
          destruct (parse_item floats (S (length (toks st7))) st7) as [it s8]; cbn [fst snd]; destruct it as [item|]; [|reflexivity]
         |past_norm; reflexivity]];
       rewrite ?peek_past;
       match goal with |- context [typ_is (peek ?s) TMsgEnd] => destruct (typ_is (peek s) TMsgEnd) end; cbn [negb]; past_norm; try reflexivity;
       rewrite ?advance_past;
       match goal with |- context [new_data_message ?a ?b ?c ?d ?x ?y] => destruct (new_data_message a b c d x y) end;
       past_norm; rewrite ?crash_past; reflexivity.
Qed.
End Past.

(* the final statement: what parse_message does depends on the remaining tokens only *)
Definition fresh (st : pstate) : pstate :=
  {| toks := toks st; names := []; ecount := 0; errs := []; warns := []; msgs := []; crashed := crashed st |}.

Theorem message_depends_on_tokens_only floats st :
  parse_message floats st =
  (fst (parse_message floats (fresh st)),
   past (errs st) (warns st) (msgs st) (snd (parse_message floats (fresh st)))).
Proof.
  rewrite <- parse_message_past. unfold past, fresh. cbn [toks names ecount errs warns msgs crashed]. rewrite !app_nil_r.
  apply parse_message_forgets.
Qed.

(* ---------- the loop ---------- *)

Lemma parse_loop_past floats e w m : forall f st,
  parse_loop floats f (past e w m st) = past e w m (parse_loop floats f st).
Proof.
  induction f as [|f IH]; intro st; [reflexivity|]. cbn [parse_loop].
  change (peek (past e w m st)) with (peek st). destruct (typ_is (peek st) TEOF); [reflexivity|].
  rewrite parse_message_past. destruct (parse_message floats st) as [ok st1]. cbn [fst snd].
  destruct ok; [apply IH|reflexivity].
Qed.

(* what sml.Parse reads off the final state *)
Definition obs (st : pstate) := (msgs st, errs st, warns st, crashed st, toks st).

Definition rescope (st : pstate) (n : list bytes) (c : Z) : pstate :=
  {| toks := toks st; names := n; ecount := c; errs := errs st; warns := warns st; msgs := msgs st; crashed := crashed st |}.

Lemma parse_loop_rescope floats n c : forall f st, obs (parse_loop floats f (rescope st n c)) = obs (parse_loop floats f st).
Proof.
  intros f st. destruct f as [|f]; [reflexivity|]. cbn [parse_loop].
  change (peek (rescope st n c)) with (peek st). destruct (typ_is (peek st) TEOF); [reflexivity|].
  rewrite (parse_message_forgets floats st n c). reflexivity.
Qed.

(* the messages still to come are parsed as if nothing had been parsed before:
   the final result is the result so far followed by the result of parsing the
   remaining tokens from a fresh state *)
Theorem rest_parsed_independently floats f st :
  obs (parse_loop floats f st) =
  obs (past (errs st) (warns st) (msgs st) (parse_loop floats f (fresh st))).
Proof.
  rewrite <- parse_loop_past.
  assert (E : past (errs st) (warns st) (msgs st) (fresh st) = rescope st [] 0).
  { unfold past, fresh, rescope. cbn [toks names ecount errs warns msgs crashed]. rewrite !app_nil_r. reflexivity. }
  rewrite E. symmetry. apply parse_loop_rescope.
Qed.
