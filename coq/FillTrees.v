(* FillTrees.v — C09 for whole item trees: filling a tree in two steps equals
   filling it once with the union of the two maps, for every nesting and size,
   when the first map's values bring no variables of their own (a value that
   does is filled again by the second step but not by the single one — the
   hypothesis is necessary, `two_steps_differ` below). *)
From Secs Require Import Ast FloatProofs Fill Msg WireSpec WireLemmas WireValues HeaderProofs WireEnc WireDec MsgProofs AstProofs FillProofs FillCompose.
Open Scope Z_scope.

(* the argument FillVariables hands to the list factory for one child *)
Definition child_arg (s : fmap) (c : item) : option gval :=
  match c with
  | IVar n => Some (match flookup n s with Some g => g | None => GStr n end)
  | _ => match fill_plain s c with Some c' => Some (GItem c') | None => None end
  end.

Lemma fill_plain_list s xs :
  fill_plain s (IList xs) = match map_opt (child_arg s) xs with Some a => new_list a | None => None end.
Proof.
  cbn [fill_plain].
  match goal with |- match ?f xs with _ => _ end = _ => assert (E : f xs = map_opt (child_arg s) xs) end.
  { induction xs as [|c r IH]; [reflexivity|]. cbn [map_opt]. rewrite IH.
    change (match c with IVar n => Some (match flookup n s with Some g => g | None => GStr n end)
                    | _ => match fill_plain s c with Some c' => Some (GItem c') | None => None end end) with (child_arg s c).
    destruct (child_arg s c); [|reflexivity]. destruct (map_opt (child_arg s) r); reflexivity. }
  rewrite E. reflexivity.
Qed.

Definition not_var (c : item) : Prop := forall n, c <> IVar n.

Lemma child_arg_nonvar s c : not_var c ->
  child_arg s c = match fill_plain s c with Some c' => Some (GItem c') | None => None end.
Proof. intro H. destruct c; try reflexivity. exfalso. apply (H n). reflexivity. Qed.

(* an item every fill leaves alone, and which is not a bare variable *)
Definition closed (c : item) : Prop := not_var c /\ forall s, fill_plain s c = Some c.

(* what the first map must satisfy at the places of [t] it fills: a value for a
   list variable is a closed item; a value for an element of a value item is a
   value, not a name; value items are as the factories build them *)
Fixpoint composable (s : fmap) (t : item) : Prop :=
  match t with
  | IList xs =>
    (fix go (cs : list item) : Prop :=
       match cs with
       | [] => True
       | c :: r => (match c with
                    | IVar n => forall g, flookup n s = Some g -> exists c0, g = GItem c0 /\ closed c0
                    | _ => composable s c
                    end) /\ go r
       end) xs
  | ILeaf k w xs => fmt_ok k w /\ Forall (slot_built k w) xs /\ names_ok xs = true /\ plain_on k w s xs
  | _ => True
  end.

Definition child_composable (s : fmap) (c : item) : Prop :=
  match c with
  | IVar n => forall g, flookup n s = Some g -> exists c0, g = GItem c0 /\ closed c0
  | _ => composable s c
  end.

Lemma composable_children s xs : composable s (IList xs) -> Forall (child_composable s) xs.
Proof.
  cbn [composable]. induction xs as [|c r IH]; intro H; [constructor|]. destruct H as [Hc Hr].
  constructor; [exact Hc|apply IH; exact Hr].
Qed.

Lemma fill_plain_not_var s c c' : not_var c -> fill_plain s c = Some c' -> not_var c'.
Proof.
  intros Hc H n ->. destruct c as [xs|m|k w xs|v|m mn mx|].
  - rewrite fill_plain_list in H. destruct (map_opt _ _) as [a|]; [|discriminate]. unfold new_list in H.
    destruct (negb _); [discriminate|]. destruct (map_opt list_arg a); [|discriminate]. destruct (_ && _ && _); discriminate.
  - apply (Hc m). reflexivity.
  - cbn [fill_plain] in H. unfold fill_leaf, new_leaf in H. destruct (existsb _ _); [|discriminate].
    destruct (negb _); [discriminate|]. destruct (map_opt _ _); [|discriminate]. destruct (_ && _ && _); discriminate.
  - discriminate.
  - cbn [fill_plain] in H. unfold fill_ascii_var in H. destruct (flookup m s) as [[]|]; try discriminate.
    destruct (_ <? _); [discriminate|]. destruct (_ && _); [discriminate|]. apply new_ascii_inv in H as [H _]. discriminate.
  - discriminate.
Qed.

Lemma list_arg_item c : not_var c -> list_arg (GItem c) = Some c.
Proof. intro H. destruct c; try reflexivity. exfalso. apply (H n). reflexivity. Qed.

Lemma list_arg_item_inv c y : list_arg (GItem c) = Some y -> y = c /\ not_var c.
Proof. destruct c; cbn [list_arg]; intro H; inversion H; subst; (split; [reflexivity|intros m E; discriminate]). Qed.

(* one child: the second step on what the first step put there = the union on the original *)
Lemma child_step s1 s2 x a y :
  child_composable s1 x ->
  (forall t', composable s1 x -> fill_plain s1 x = Some t' -> fill_plain s2 t' = fill_plain (s1 ++ s2) x) ->
  child_arg s1 x = Some a -> list_arg a = Some y ->
  child_arg s2 y = child_arg (s1 ++ s2) x.
Proof.
  intros Hc IH Ha Hy.
  assert (Hnv : (exists n, x = IVar n) \/ not_var x).
  { destruct x; try (right; intros m E; discriminate). left. eexists; reflexivity. }
  destruct Hnv as [[n ->]|Hnv].
  - cbn [child_arg child_composable] in *. inversion Ha; subst a. clear Ha. rewrite flookup_app.
    destruct (flookup n s1) as [g|] eqn:El.
    + destruct (Hc g eq_refl) as (c0 & -> & Hnv0 & Hfix). apply list_arg_item_inv in Hy as [-> _].
      rewrite (child_arg_nonvar s2 c0 Hnv0), Hfix. reflexivity.
    + cbn [list_arg] in Hy. inversion Hy; subst y. reflexivity.
  - rewrite (child_arg_nonvar s1 x Hnv) in Ha. rewrite (child_arg_nonvar (s1 ++ s2) x Hnv).
    destruct (fill_plain s1 x) as [c'|] eqn:Ef; [|discriminate]. inversion Ha; subst a. clear Ha.
    apply list_arg_item_inv in Hy as [-> Hnv']. rewrite (child_arg_nonvar s2 c' Hnv').
    assert (Hcx : composable s1 x) by (destruct x; try exact Hc; exfalso; apply (Hnv n); reflexivity).
    rewrite (IH c' Hcx eq_refl). reflexivity.
Qed.

Lemma fill_leaf_shape s k w xs t : fill_leaf s k w xs = Some t -> exists ys, t = ILeaf k w ys.
Proof.
  unfold fill_leaf, new_leaf. destruct (existsb _ _).
  - destruct (negb _); [discriminate|]. destruct (map_opt _ _) as [ys|]; [|discriminate].
    destruct (_ && _ && _); [|discriminate]. intro H; inversion H. eexists; reflexivity.
  - intro H; inversion H. eexists; reflexivity.
Qed.

Theorem fill_plain_composes s1 s2 : forall t t',
  composable s1 t -> fill_plain s1 t = Some t' -> fill_plain s2 t' = fill_plain (s1 ++ s2) t.
Proof.
  induction t as [xs IH|n|k w xs|v|n mn mx|] using item_ind'; intros t' Hc H1.
  - (* list *)
    rewrite fill_plain_list in H1. rewrite (fill_plain_list (s1 ++ s2)).
    destruct (map_opt (child_arg s1) xs) as [a1|] eqn:Ea; [|discriminate].
    unfold new_list in H1. destruct (negb (size_ok _ (length a1))); [discriminate|].
    destruct (map_opt list_arg a1) as [ys|] eqn:Ey; [|discriminate].
    destruct (_ && _ && _); [|discriminate]. inversion H1; subst t'. clear H1.
    rewrite fill_plain_list.
    assert (E : map_opt (child_arg s2) ys = map_opt (child_arg (s1 ++ s2)) xs).
    { pose proof (composable_children s1 xs Hc) as Hcs. clear Hc.
      revert a1 ys Ea Ey. induction xs as [|x r IHr]; intros a1 ys Ea Ey.
      - cbn in Ea. inversion Ea; subst a1. cbn in Ey. inversion Ey; subst ys. reflexivity.
      - inversion IH as [|? ? IHx IHrest]; subst. inversion Hcs as [|? ? Hcx Hcr]; subst.
        cbn [map_opt] in Ea. destruct (child_arg s1 x) as [a|] eqn:Eax; [|discriminate].
        destruct (map_opt (child_arg s1) r) as [ar|] eqn:Ear; [|discriminate]. inversion Ea; subst a1. clear Ea.
        cbn [map_opt] in Ey. destruct (list_arg a) as [y|] eqn:Eyx; [|discriminate].
        destruct (map_opt list_arg ar) as [yr|] eqn:Eyr; [|discriminate]. inversion Ey; subst ys. clear Ey.
        cbn [map_opt]. rewrite (child_step s1 s2 x a y Hcx IHx Eax Eyx), (IHr IHrest Hcr ar yr eq_refl Eyr). reflexivity. }
    rewrite E. reflexivity.
  - inversion H1; subst t'. reflexivity.
  - (* value item *)
    cbn [fill_plain] in *. destruct (fill_leaf_shape _ _ _ _ _ H1) as [ys ->]. cbn [fill_plain].
    destruct Hc as (Hf & Hb & Hn & Hp). eapply fill_leaf_composes_on; eassumption.
  - inversion H1; subst t'. reflexivity.
  - (* ASCII variable *)
    cbn [fill_plain] in *. unfold fill_ascii_var in *. rewrite flookup_app.
    destruct (flookup n s1) as [g|] eqn:El.
    + destruct g; try discriminate. destruct (_ <? _); [discriminate|]. destruct (_ && _); [discriminate|].
      rewrite H1. apply new_ascii_inv in H1 as [-> _]. reflexivity.
    + inversion H1; subst t'. cbn [fill_plain]. unfold fill_ascii_var. reflexivity.
  - inversion H1; subst t'. reflexivity.
Qed.

(* ---- items without variables are closed ---- *)

Fixpoint ground (t : item) : Prop :=
  match t with
  | IList xs => size_ok (B"list"%string) (length xs) = true /\
                (fix go (cs : list item) : Prop := match cs with [] => True | c :: r => ground c /\ go r end) xs
  | ILeaf _ _ xs => slot_vars xs = []
  | IAscii _ => True
  | _ => False
  end.

Lemma ground_children xs : ground (IList xs) -> Forall ground xs.
Proof.
  cbn [ground]. intros [_ H]. induction xs as [|c r IH]; [constructor|]. destruct H as [Hc Hr]. constructor; [exact Hc|apply IH; exact Hr].
Qed.

Lemma ground_not_var c : ground c -> not_var c.
Proof. intros H n ->. exact H. Qed.

Lemma ground_vars : forall t, ground t -> vars t = [].
Proof.
  induction t as [xs IH|n|k w xs|v|n mn mx|] using item_ind'; intro H; try (cbn in H; contradiction); try reflexivity.
  - pose proof (ground_children xs H) as Hc. clear H. cbn [vars].
    induction xs as [|c r IHr]; [reflexivity|]. inversion IH as [|? ? IHc IHrest]; subst. inversion Hc as [|? ? Hgc Hgr]; subst.
    cbn [flat_map]. rewrite (IHr IHrest Hgr), app_nil_r.
    destruct c; try (cbn in Hgc; contradiction); exact (IHc Hgc).
  - exact H.
Qed.

Lemma ground_direct xs : Forall ground xs -> direct_vars xs = [].
Proof.
  induction 1 as [|c r Hc _ IH]; [reflexivity|]. unfold direct_vars in *. cbn [flat_map]. rewrite IH.
  destruct c; try reflexivity. cbn in Hc. contradiction.
Qed.

Theorem ground_closed : forall t, ground t -> closed t.
Proof.
  intros t Hg. split; [apply ground_not_var; exact Hg|]. intro s. revert t Hg.
  induction t as [xs IH|n|k w xs|v|n mn mx|] using item_ind'; intro Hg; try (cbn in Hg; contradiction); try reflexivity.
  - pose proof (ground_children xs Hg) as Hc. destruct Hg as [Hsz _].
    rewrite fill_plain_list.
    assert (E : map_opt (child_arg s) xs = Some (map GItem xs)).
    { clear Hsz. induction xs as [|c r IHr]; [reflexivity|]. inversion IH as [|? ? IHc IHrest]; subst. inversion Hc as [|? ? Hgc Hgr]; subst.
      cbn [map_opt map]. rewrite (child_arg_nonvar s c (ground_not_var c Hgc)), (IHc Hgc), (IHr IHrest Hgr). reflexivity. }
    rewrite E. unfold new_list. rewrite map_length, Hsz. cbn [negb].
    assert (E2 : map_opt list_arg (map GItem xs) = Some xs).
    { clear -Hc. induction Hc as [|c r Hgc _ IHr]; [reflexivity|]. cbn [map map_opt].
      rewrite (list_arg_item c (ground_not_var c Hgc)), IHr. reflexivity. }
    rewrite E2. rewrite (ground_vars (IList xs)); [|split; [exact Hsz|]].
    2:{ clear -Hc. induction Hc as [|c r Hgc _ IHr]; [exact I|]. split; assumption. }
    unfold list_vars_ok. rewrite (ground_direct xs Hc). cbn [nodupb forallb filter length Nat.leb andb].
    destruct xs as [|c r]; [reflexivity|]. inversion Hc as [|? ? Hgc _]; subst. destruct c; try reflexivity. cbn in Hgc. contradiction.
  - cbn [fill_plain]. unfold fill_leaf. cbn [ground] in Hg. rewrite Hg. reflexivity.
Qed.

(* ---- FillVariables itself (split of the map, ellipsis analysis) when no key is an ellipsis ---- *)

Definition no_ellipsis_keys (s : fmap) : Prop := Forall (fun kv => is_ellipsis (fst kv) = false) s.

Lemma split_no_ellipsis s : no_ellipsis_keys s -> split_values s = ([], s).
Proof.
  unfold split_values. induction 1 as [|kv r Hk _ IH]; [reflexivity|]. cbn [filter]. rewrite Hk. cbn [negb].
  injection IH as E1 E2. rewrite E1, E2. reflexivity.
Qed.

Lemma find_ellipsis_nil xs : forall pos, find_ellipsis [] xs pos = None.
Proof.
  induction xs as [|c r IH]; intro pos; [reflexivity|]. cbn [find_ellipsis]. destruct c; try apply IH.
  cbn [flookup]. destruct (is_ellipsis n); apply IH.
Qed.

Lemma analysis_nil : forall t, exists r, ellipsis_analysis [] t = Ok (0, r).
Proof.
  induction t as [xs IH|n|k w xs|v|n mn mx|] using item_ind'; try (eexists; reflexivity).
  cbn [ellipsis_analysis]. rewrite find_ellipsis_nil.
  generalize (if has_unfilled_ellipsis [] xs then 1 else 0). intro rem0.
  revert rem0. induction xs as [|c r IHr]; intro rem0; [eexists; reflexivity|].
  inversion IH as [|? ? IHc IHrest]; subst.
  destruct c; try apply (IHr IHrest).
  destruct IHc as [er Eer]. rewrite Eer. replace (0 + (0 + 1) * 0) with 0 by reflexivity. apply (IHr IHrest).
Qed.

Lemma fill_no_ellipsis s t : no_ellipsis_keys s -> fill s t = fill_plain s t.
Proof.
  intro H. unfold fill. destruct t; try reflexivity. rewrite (split_no_ellipsis s H).
  destruct (analysis_nil (IList xs)) as [r ->]. reflexivity.
Qed.

Theorem fill_composes s1 s2 t t' :
  no_ellipsis_keys s1 -> no_ellipsis_keys s2 -> composable s1 t ->
  fill s1 t = Some t' -> fill s2 t' = fill (s1 ++ s2) t.
Proof.
  intros H1 H2 Hc Hf. rewrite (fill_no_ellipsis s1 t H1) in Hf.
  rewrite (fill_no_ellipsis s2 t' H2), (fill_no_ellipsis (s1 ++ s2) t); [|apply Forall_app; split; assumption].
  apply fill_plain_composes; assumption.
Qed.

(* the hypotheses are met by a nested template filled with an item for a list
   variable, a number for an element and a text for an ASCII variable; both
   routes give the same tree *)
Example compose_tree_example :
  let t := IList [IVar (B"a"%string); ILeaf KUint 1 [SV 1; SX (B"x"%string)];
                  IList [IVar (B"b"%string); IAsciiVar (B"s"%string) 0 (-1)]] in
  let s1 := [(B"a"%string, GItem (IList [IAscii (B"hi"%string)])); (B"x"%string, GInt Kint 7)] in
  let s2 := [(B"b"%string, GItem (ILeaf KBool 1 [SV 1])); (B"s"%string, GStr (B"ok"%string))] in
  no_ellipsis_keys s1 /\ no_ellipsis_keys s2 /\ composable s1 t /\
  exists t', fill s1 t = Some t' /\ fill s2 t' = fill (s1 ++ s2) t /\
             fill s2 t' = Some (IList [IList [IAscii (B"hi"%string)]; ILeaf KUint 1 [SV 1; SV 7];
                                       IList [ILeaf KBool 1 [SV 1]; IAscii (B"ok"%string)]]).
Proof.
  intros t s1 s2. split; [repeat constructor|]. split; [repeat constructor|]. split.
  - cbn [composable t]. split.
    + intros g Hg. vm_compute in Hg. inversion Hg; subst g. eexists. split; [reflexivity|].
      apply ground_closed. cbn. repeat split.
    + split; [|split; [|exact I]].
      * split; [left; reflexivity|]. split; [constructor; [cbn; unfold two64; lia|constructor; [exact I|constructor]]|]. split; [reflexivity|].
        intros n g Hin Hl. destruct Hin as [Hin|[Hin|[]]]; [discriminate|]. inversion Hin; subst n.
        vm_compute in Hl. inversion Hl; subst g. split; [cbn; unfold two63; lia|]. intros m Hm. vm_compute in Hm. discriminate.
      * cbn [composable]. split; [|split; exact I]. intros g Hg. vm_compute in Hg. discriminate.
  - eexists. split; [vm_compute; reflexivity|]. split; vm_compute; reflexivity.
Qed.

(* without the hypothesis the statement is false: a value that brings a
   variable of its own is filled by the second step, not by the single one *)
Example two_steps_differ :
  let t := IList [IVar (B"a"%string)] in
  let s1 := [(B"a"%string, GItem (ILeaf KUint 1 [SX (B"b"%string)]))] in
  let s2 := [(B"b"%string, GInt Kint 5)] in
  exists t', fill s1 t = Some t' /\ fill s2 t' <> fill (s1 ++ s2) t.
Proof. eexists. split; [vm_compute; reflexivity|]. vm_compute. discriminate. Qed.
