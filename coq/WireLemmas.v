(* WireLemmas.v — list and byte-group lemmas used by the wire proofs. *)
From Secs Require Import Ast Fill Msg WireSpec.
Open Scope Z_scope.

Lemma zlength_spec {A} (l : list A) acc : zlength l acc = acc + Z.of_nat (length l).
Proof.
  revert acc; induction l as [|x l IH]; intro acc; cbn [zlength length]; [lia|].
  rewrite IH. lia.
Qed.

Lemma ztake_app {A} (a b : list A) : ztake (a ++ b) (Z.of_nat (length a)) = Some (a, b).
Proof.
  induction a as [|x a IH].
  - cbn. destruct b; reflexivity.
  - cbn [app length ztake]. destruct (Z.leb_spec (Z.of_nat (S (length a))) 0); [lia|].
    replace (Z.of_nat (S (length a)) - 1) with (Z.of_nat (length a)) by lia.
    rewrite IH. reflexivity.
Qed.

Lemma ztake_spec {A} (l : list A) n a b :
  0 <= n -> ztake l n = Some (a, b) -> l = a ++ b /\ Z.of_nat (length a) = n.
Proof.
  revert n a b; induction l as [|x l IH]; intros n a b Hn H.
  - cbn in H. destruct (Z.leb_spec n 0); [|discriminate]. inversion H; subst. split; [reflexivity|cbn; lia].
  - cbn [ztake] in H. destruct (Z.leb_spec n 0).
    + inversion H; subst. split; [reflexivity|cbn; lia].
    + destruct (ztake l (n - 1)) as [[a' b']|] eqn:E; [|discriminate].
      inversion H; subst. apply IH in E as [-> E2]; [|lia]. split; [reflexivity|]. cbn [length]. lia.
Qed.

Lemma ztake_short {A} (l : list A) n : Z.of_nat (length l) < n -> ztake l n = None.
Proof.
  revert n; induction l as [|x l IH]; intros n H; cbn [ztake length] in *.
  - destruct (Z.leb_spec n 0); [lia|reflexivity].
  - destruct (Z.leb_spec n 0); [lia|]. rewrite IH by lia. reflexivity.
Qed.

Lemma ztake_is_some {A} (l : list A) n : n <= Z.of_nat (length l) -> exists a b, ztake l n = Some (a, b).
Proof.
  revert n; induction l as [|x l IH]; intros n H; cbn [ztake length] in *.
  - destruct (Z.leb_spec n 0); [eauto|lia].
  - destruct (Z.leb_spec n 0); [eauto|].
    destruct (IH (n - 1)) as (a & b & E); [lia|]. rewrite E. eauto.
Qed.

(* ---- big-endian groups ---- *)

Lemma be_groups_aux_chunk w chunk rest acc k :
  (0 < w)%nat -> length chunk = k -> (0 < k)%nat ->
  be_groups_aux w (chunk ++ rest) acc k =
  (acc * 256 ^ Z.of_nat k + be_dec chunk) :: be_groups_aux w rest 0 w.
Proof.
  intros Hw. revert acc k. induction chunk as [|b chunk IH]; intros acc k Hl Hk.
  - cbn in Hl. lia.
  - cbn [app be_groups_aux]. destruct k as [|k]; [lia|]. cbn [length] in Hl.
    destruct k as [|k].
    + destruct chunk; [|cbn in Hl; lia]. cbn [app]. f_equal.
      all: try (rewrite be_dec_single; cbn; lia).
    + rewrite IH by (cbn in *; lia). f_equal.
      change (b :: chunk) with ([b] ++ chunk). rewrite be_dec_app, be_dec_single.
      assert (length chunk = S k) by lia. rewrite H.
      replace (Z.of_nat (S (S k))) with (Z.succ (Z.of_nat (S k))) by lia.
      rewrite Z.pow_succ_r by lia. lia.
Qed.

Lemma be_groups_concat w chunks :
  (0 < w)%nat -> Forall (fun c => length c = w) chunks ->
  be_groups w (concat chunks) = map be_dec chunks.
Proof.
  intros Hw H. unfold be_groups. induction H as [|c cs Hc _ IH]; [reflexivity|].
  cbn [concat map]. rewrite be_groups_aux_chunk by assumption. rewrite IH. f_equal; lia.
Qed.

(* any byte string whose length is a multiple of w splits into w-byte chunks *)
Lemma chunks_exist (w : nat) (n : nat) (bs : bytes) :
  length bs = (n * w)%nat -> exists chunks, bs = concat chunks /\ Forall (fun c => length c = w) chunks /\ length chunks = n.
Proof.
  revert bs; induction n as [|n IH]; intros bs H.
  - destruct bs; [|cbn in H; lia]. exists []. repeat split; constructor.
  - destruct (IH (skipn w bs)) as (cs & E & F & L).
    { rewrite skipn_length. lia. }
    exists (firstn w bs :: cs). repeat split.
    + cbn [concat]. rewrite <- E. symmetry. apply firstn_skipn.
    + constructor; [|exact F]. rewrite firstn_length. lia.
    + cbn. lia.
Qed.

Lemma concat_length_uniform (w : nat) (chunks : list bytes) :
  Forall (fun c => length c = w) chunks -> length (concat chunks) = (length chunks * w)%nat.
Proof. induction 1 as [|c cs Hc _ IH]; cbn [concat length]; [reflexivity|]. rewrite app_length, IH. lia. Qed.

Lemma all2_length {A C} (R : A -> C -> Prop) xs ys : all2 R xs ys -> length xs = length ys.
Proof. revert ys; induction xs as [|x xs IH]; intros [|y ys] H; cbn in *; try tauto. f_equal. apply IH. tauto. Qed.

Lemma all2_impl {A C} (R R' : A -> C -> Prop) xs ys :
  (forall x y, R x y -> R' x y) -> all2 R xs ys -> all2 R' xs ys.
Proof. intro H. revert ys; induction xs as [|x xs IH]; intros [|y ys] H2; cbn in *; try tauto. split; [apply H|apply IH]; tauto. Qed.

(* ---- the width table ---- *)

Lemma width_lookup k w : fmt_ok k w -> lookup (size_typ k w) byte_per_value = Z.of_nat w.
Proof.
  destruct k; cbn; intro H; repeat (destruct H as [H|H]); subst; reflexivity.
Qed.

Lemma width_lookup_tyname k w : fmt_ok k w -> lookup (tyname k w) byte_per_value = Z.of_nat w.
Proof.
  destruct k; cbn; intro H; repeat (destruct H as [H|H]); subst; reflexivity.
Qed.

Lemma code_lookup k w : fmt_ok k w -> lookup (tyname k w) format_code = e5_code k w.
Proof.
  destruct k; cbn; intro H; repeat (destruct H as [H|H]); subst; reflexivity.
Qed.

Lemma kind_of_e5_code k w : fmt_ok k w -> kind_of_code (e5_code k w) = Some (k, w).
Proof.
  destruct k; cbn; intro H; repeat (destruct H as [H|H]); subst; reflexivity.
Qed.

Lemma e5_code_range k w : fmt_ok k w -> 0 < e5_code k w < 64 /\ e5_code k w <> 16.
Proof.
  destruct k; cbn; intro H; repeat (destruct H as [H|H]); subst; cbn; lia.
Qed.

Lemma kind_of_code_sound c k w : kind_of_code c = Some (k, w) -> fmt_ok k w /\ c = e5_code k w.
Proof.
  unfold kind_of_code. intro H.
  repeat match type of H with
         | (match ?c with _ => _ end) = _ => destruct c; try discriminate
         end; inversion H; subst; cbn; auto 10.
Qed.

Lemma fmt_ok_pos k w : fmt_ok k w -> (0 < w)%nat.
Proof. destruct k; cbn; intro H; repeat (destruct H as [H|H]); subst; lia. Qed.

Lemma width_okb_of k w : fmt_ok k w -> width_okb k w = true.
Proof. destruct k; cbn; intro H; repeat (destruct H as [H|H]); subst; reflexivity. Qed.
