(* SmlNumbers.v — integer literals: printing then scanning is the identity, in
   every base the lexer admits; range errors are reported, never wrapped. *)
From Secs Require Import Ast Lexer Parser.
Open Scope Z_scope.

Lemma digit_val_digit_byte d : 0 <= d < 36 -> digit_val (digit_byte d) = d.
Proof.
  intro H. unfold digit_val, digit_byte, bz.
  destruct (Z.ltb_spec d 10).
  - rewrite b2z_z2b, Z.mod_small by lia.
    replace ((48 <=? 48 + d) && (48 + d <=? 57)) with true by (symmetry; apply andb_true_iff; split; apply Z.leb_le; lia).
    lia.
  - rewrite b2z_z2b, Z.mod_small by lia.
    replace ((48 <=? 55 + d) && (55 + d <=? 57)) with false by (symmetry; apply andb_false_iff; right; apply Z.leb_gt; lia).
    replace ((97 <=? 55 + d) && (55 + d <=? 122)) with false by (symmetry; apply andb_false_iff; left; apply Z.leb_gt; lia).
    replace ((65 <=? 55 + d) && (55 + d <=? 90)) with true by (symmetry; apply andb_true_iff; split; apply Z.leb_le; lia).
    lia.
Qed.

Lemma digits_val_app base a b acc :
  digits_val base (a ++ b) acc =
  match digits_val base a acc with Some v => digits_val base b v | None => None end.
Proof.
  revert acc; induction a as [|x a IH]; intro acc; cbn [app digits_val]; [reflexivity|].
  destruct (digit_val x <? base); [apply IH|reflexivity].
Qed.

(* the digits fmt_nat_fuel puts in front of acc read back as n *)
Lemma fmt_nat_fuel_val fuel base : 2 <= base <= 36 ->
  forall n acc, 0 <= n < base ^ Z.of_nat fuel -> (0 < fuel)%nat ->
  exists ds, fmt_nat_fuel fuel base n acc = ds ++ acc /\
             forall v0, digits_val base ds v0 = Some (v0 * base ^ Z.of_nat (length ds) + n) /\ ds <> [].
Proof.
  intro Hb. induction fuel as [|f IH]; intros n acc Hn Hf; [lia|].
  cbn [fmt_nat_fuel]. destruct (Z.ltb_spec n base).
  - exists [digit_byte n]. split; [reflexivity|]. intro v. split; [|discriminate].
    cbn [digits_val length]. rewrite digit_val_digit_byte by lia.
    destruct (Z.ltb_spec n base); [|lia]. f_equal. cbn. lia.
  - assert (Hf' : (0 < f)%nat).
    { destruct f; [|lia]. cbn in Hn. lia. }
    assert (Hq : 0 <= n / base < base ^ Z.of_nat f).
    { split; [apply Z.div_pos; lia|]. apply Z.div_lt_upper_bound; [lia|].
      rewrite Nat2Z.inj_succ, Z.pow_succ_r in Hn by lia. lia. }
    destruct (IH (n / base) (digit_byte (n mod base) :: acc) Hq Hf') as (ds & E & Hds).
    exists (ds ++ [digit_byte (n mod base)]). split; [rewrite E, <- app_assoc; reflexivity|].
    intro v. split; [|destruct ds; discriminate].
    rewrite digits_val_app. destruct (Hds v) as [Hv _]. rewrite Hv. cbn [digits_val].
    assert (Hm : 0 <= n mod base < base) by (apply Z.mod_pos_bound; lia).
    rewrite digit_val_digit_byte by lia. destruct (Z.ltb_spec (n mod base) base); [|lia].
    f_equal. rewrite app_length. cbn [length]. rewrite Nat2Z.inj_add. cbn [Z.of_nat Pos.of_succ_nat].
    rewrite Z.pow_add_r, Z.pow_1_r by lia.
    pose proof (Z.div_mod n base). lia.
Qed.

Lemma log2_fuel_enough base n : 2 <= base -> 0 <= n -> n < base ^ Z.of_nat (S (Z.to_nat (Z.log2 n))).
Proof.
  intros Hb Hn. destruct (Z.eq_dec n 0) as [->|Hne]; [cbn; lia|].
  assert (Hl : 0 <= Z.log2 n) by apply Z.log2_nonneg.
  pose proof (Z.log2_spec n ltac:(lia)) as [_ Hu].
  rewrite Nat2Z.inj_succ, Z2Nat.id by lia.
  eapply Z.lt_le_trans; [exact Hu|]. apply Z.pow_le_mono_l. lia.
Qed.

(* printing then scanning, any base 2..36 *)
Theorem digits_val_fmt base n : 2 <= base <= 36 -> 0 <= n ->
  digits_val base (fmt_unsigned base n) 0 = Some n /\ fmt_unsigned base n <> [].
Proof.
  intros Hb Hn. unfold fmt_unsigned.
  destruct (fmt_nat_fuel_val (S (Z.to_nat (Z.log2 n))) base Hb n []) as (ds & E & Hds);
    [split; [exact Hn|apply log2_fuel_enough; lia]|lia|].
  rewrite E, app_nil_r. destruct (Hds 0) as [Hv Hne]. split; [rewrite Hv; f_equal; lia|exact Hne].
Qed.

(* strconv.Atoi on printed decimals *)
Theorem atoi_fmt n : 0 <= n < two63 -> atoi (fmt_unsigned 10 n) = (n, NumOk).
Proof.
  intro H. destruct (digits_val_fmt 10 n ltac:(lia) ltac:(lia)) as [Hv Hne].
  unfold atoi. destruct (fmt_unsigned 10 n) eqn:E; [congruence|]. rewrite Hv.
  destruct (Z.leb_spec two63 n); [lia|reflexivity].
Qed.

Theorem atoi_clamps n : two63 <= n -> atoi (fmt_unsigned 10 n) = (two63 - 1, NumRange).
Proof.
  intro H. destruct (digits_val_fmt 10 n ltac:(lia) ltac:(unfold two63 in H; lia)) as [Hv Hne].
  unfold atoi. destruct (fmt_unsigned 10 n) eqn:E; [congruence|]. rewrite Hv.
  destruct (Z.leb_spec two63 n); [reflexivity|lia].
Qed.

(* the first digit of a printed positive number is not 0 *)
Lemma first_digit_nonzero fuel base : 2 <= base <= 36 -> forall n acc, 0 < n < base ^ Z.of_nat fuel ->
  exists d r, fmt_nat_fuel fuel base n acc = digit_byte d :: r /\ 0 < d < base.
Proof.
  intro Hb. induction fuel as [|f IH]; intros n acc Hn; [cbn in Hn; lia|].
  cbn [fmt_nat_fuel]. destruct (Z.ltb_spec n base); [exists n, acc; split; [reflexivity|lia]|].
  apply IH. split; [apply Z.div_str_pos; lia|]. apply Z.div_lt_upper_bound; [lia|].
  rewrite Nat2Z.inj_succ, Z.pow_succ_r in Hn by lia. lia.
Qed.

Lemma digit_byte_not_zero d : 0 < d < 36 -> byte_eqb (digit_byte d) x30 = false.
Proof.
  intro H. destruct (byte_eqb (digit_byte d) x30) eqn:E; [|reflexivity].
  apply byte_eqb_spec in E. apply (f_equal digit_val) in E. rewrite digit_val_digit_byte in E by lia.
  change (digit_val x30) with 0 in E. lia.
Qed.

(* decimal literals through strconv.ParseUint(s, 0, bits) *)
Theorem parse_uint_decimal n bits : 0 < n -> 0 < bits ->
  parse_uint (fmt_unsigned 10 n) bits = if 2 ^ bits - 1 <? n then (2 ^ bits - 1, NumRange) else (n, NumOk).
Proof.
  intros Hn Hbits. destruct (digits_val_fmt 10 n ltac:(lia) ltac:(lia)) as [Hv Hne].
  unfold fmt_unsigned in *.
  destruct (first_digit_nonzero (S (Z.to_nat (Z.log2 n))) 10 ltac:(lia) n []) as (d & r & E & Hd);
    [split; [lia|apply log2_fuel_enough; lia]|].
  unfold parse_uint. rewrite E in *. unfold parse_unsigned_base0.
  rewrite digit_byte_not_zero by lia. rewrite Hv. reflexivity.
Qed.

Theorem parse_uint_zero bits : 0 < bits -> parse_uint [x30] bits = (0, NumOk).
Proof.
  intro H. unfold parse_uint, parse_unsigned_base0. cbn.
  assert (0 < 2 ^ bits) by (apply Z.pow_pos_nonneg; lia).
  destruct (Z.ltb_spec (2 ^ bits - 1) 0); [lia|reflexivity].
Qed.

(* prefixed literals: 0x / 0b / 0o followed by the digits in that base *)
Theorem parse_unsigned_prefixed (p : byte) base n :
  0 <= n ->
  (bz p = 120 \/ bz p = 88) /\ base = 16 \/ (bz p = 98 \/ bz p = 66) /\ base = 2 \/ (bz p = 111 \/ bz p = 79) /\ base = 8 ->
  parse_unsigned_base0 (x30 :: p :: fmt_unsigned base n) = Some n.
Proof.
  intros Hn Hp.
  assert (Hb : 2 <= base <= 36) by (destruct Hp as [[_ ->]|[[_ ->]|[_ ->]]]; lia).
  destruct (digits_val_fmt base n Hb Hn) as [Hv Hne].
  unfold parse_unsigned_base0. change (byte_eqb x30 x30) with true. cbn iota.
  destruct (fmt_unsigned base n) as [|d ds] eqn:E; [congruence|].
  destruct Hp as [[[Hp|Hp] ->]|[[[Hp|Hp] ->]|[[Hp|Hp] ->]]]; rewrite Hp; cbn [Z.eqb Pos.eqb orb]; exact Hv.
Qed.

Lemma digit_val_nonneg b : 0 <= digit_val b.
Proof.
  unfold digit_val.
  destruct (Z.leb_spec 48 (bz b)); destruct (Z.leb_spec (bz b) 57); cbn [andb]; try lia;
  destruct (Z.leb_spec 97 (bz b)); destruct (Z.leb_spec (bz b) 122); cbn [andb]; try lia;
  destruct (Z.leb_spec 65 (bz b)); destruct (Z.leb_spec (bz b) 90); cbn [andb]; lia.
Qed.

Lemma digits_val_nonneg base s : 0 <= base -> forall acc v, 0 <= acc -> digits_val base s acc = Some v -> 0 <= v.
Proof.
  intro Hb. induction s as [|b s IH]; intros acc v Ha H; cbn [digits_val] in H; [inversion H; lia|].
  destruct (digit_val b <? base); [|discriminate]. eapply IH; [|exact H]. pose proof (digit_val_nonneg b). nia.
Qed.

Lemma parse_unsigned_nonneg s v : parse_unsigned_base0 s = Some v -> 0 <= v.
Proof.
  unfold parse_unsigned_base0. destruct s as [|z r]; [discriminate|].
  destruct (byte_eqb z x30).
  - destruct r as [|p [|d ds]]; try (apply digits_val_nonneg; lia).
    repeat match goal with |- context [if ?c then _ else _] => destruct c end; apply digits_val_nonneg; lia.
  - apply digits_val_nonneg; lia.
Qed.

(* signed literals: ParseInt reports the range, never wraps *)
Theorem parse_int_range s bits v : 0 < bits -> parse_int s bits = (v, NumOk) -> - 2 ^ (bits - 1) <= v < 2 ^ (bits - 1).
Proof.
  intros Hb H. unfold parse_int in H. destruct s as [|c r]; [discriminate|].
  assert (Hp : 0 < 2 ^ (bits - 1)) by (apply Z.pow_pos_nonneg; lia).
  destruct (if byte_eqb c x2b || byte_eqb c x2d then r else c :: r) as [|b0 body]; [discriminate|].
  destruct (parse_unsigned_base0 (b0 :: body)) as [un|] eqn:E; [|destruct (range_first_base0 _ _); [destruct (byte_eqb c x2d)|]; discriminate].
  apply parse_unsigned_nonneg in E.
  destruct (byte_eqb c x2d); cbn [negb andb] in H.
  - destruct (Z.ltb_spec (2 ^ (bits - 1)) un); [discriminate|]. inversion H; subst. lia.
  - destruct (Z.leb_spec (2 ^ (bits - 1)) un); [discriminate|]. inversion H; subst. lia.
Qed.

Theorem parse_uint_range s bits v : 0 < bits -> parse_uint s bits = (v, NumOk) -> 0 <= v < 2 ^ bits.
Proof.
  intros Hb H. unfold parse_uint in H. destruct s as [|c r]; [discriminate|].
  destruct (parse_unsigned_base0 (c :: r)) as [un|] eqn:E; [|destruct (range_first_base0 _ _); discriminate].
  apply parse_unsigned_nonneg in E. destruct (Z.ltb_spec (2 ^ bits - 1) un); [discriminate|]. inversion H; subst. lia.
Qed.

(* a decimal literal with sign *)
Theorem parse_int_decimal z bits : 0 < bits -> z <> 0 ->
  parse_int (fmt_int z) bits =
    if (z <? - 2 ^ (bits - 1)) then (- 2 ^ (bits - 1), NumRange)
    else if (2 ^ (bits - 1) <=? z) then (2 ^ (bits - 1) - 1, NumRange) else (z, NumOk).
Proof.
  intros Hb Hz.
  assert (Hp : 0 < 2 ^ (bits - 1)) by (apply Z.pow_pos_nonneg; lia).
  assert (Hfirst : forall n, 0 < n -> exists d r, fmt_unsigned 10 n = digit_byte d :: r /\ 0 < d < 10).
  { intros n Hn. unfold fmt_unsigned. apply first_digit_nonzero; [lia|]. split; [lia|apply log2_fuel_enough; lia]. }
  unfold fmt_int. destruct (Z.ltb_spec z 0) as [Hneg|Hpos].
  - destruct (Hfirst (- z) ltac:(lia)) as (d & r & E & Hd).
    destruct (digits_val_fmt 10 (- z) ltac:(lia) ltac:(lia)) as [Hv _].
    unfold parse_int. change (byte_eqb x2d x2d) with true. rewrite orb_true_r. rewrite E in *.
    unfold parse_unsigned_base0. rewrite digit_byte_not_zero by lia. rewrite Hv. cbn [negb andb].
    destruct (Z.ltb_spec (2 ^ (bits - 1)) (- z)); destruct (Z.ltb_spec z (- 2 ^ (bits - 1))); try lia; [reflexivity|].
    destruct (Z.leb_spec (2 ^ (bits - 1)) z); [lia|]. f_equal. lia.
  - destruct (Hfirst z ltac:(lia)) as (d & r & E & Hd).
    destruct (digits_val_fmt 10 z ltac:(lia) ltac:(lia)) as [Hv _].
    unfold parse_int. rewrite E in *.
    assert (Hnb : byte_eqb (digit_byte d) x2d = false).
    { destruct (byte_eqb (digit_byte d) x2d) eqn:Eb; [|reflexivity]. apply byte_eqb_spec in Eb.
      apply (f_equal digit_val) in Eb. rewrite digit_val_digit_byte in Eb by lia. change (digit_val x2d) with 99 in Eb. lia. }
    assert (Hnp : byte_eqb (digit_byte d) x2b = false).
    { destruct (byte_eqb (digit_byte d) x2b) eqn:Eb; [|reflexivity]. apply byte_eqb_spec in Eb.
      apply (f_equal digit_val) in Eb. rewrite digit_val_digit_byte in Eb by lia. change (digit_val x2b) with 99 in Eb. lia. }
    rewrite Hnb, Hnp. cbn [orb]. unfold parse_unsigned_base0. rewrite digit_byte_not_zero by lia. rewrite Hv. cbn [negb andb].
    destruct (Z.ltb_spec z (- 2 ^ (bits - 1))); [lia|].
    destruct (Z.leb_spec (2 ^ (bits - 1)) z); reflexivity.
Qed.
