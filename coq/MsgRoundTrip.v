(* MsgRoundTrip.v — a printed message parses back to the message (C04): the
   header line, the item, the terminator; token level here, characters below. *)
From Secs Require Import Ast FloatProofs FloatRound Fill Utf8 Msg WireSpec WireLemmas WireValues HeaderProofs WireEnc WireDec MsgProofs AstProofs FillProofs FillCompose PrintProofs.
From Secs Require Import Lexer Parser SmlNumbers SmlProofs LexProofs ParseProofs LayoutProofs OffsetProofs TokenProofs AsciiTokens TokenTrees LexPrinted AsciiLex LexTrees.
Open Scope Z_scope.

Definition sf_text (m : msg) : bytes := [x53] ++ fmt_int (m_stream m) ++ [x46] ++ fmt_int (m_function m).

Lemma fmt_int_nonneg n : 0 <= n -> fmt_int n = fmt_unsigned 10 n.
Proof. intro H. unfold fmt_int. destruct (Z.ltb_spec n 0); [lia|reflexivity]. Qed.

Lemma split_sf_text m : 0 <= m_stream m -> 0 <= m_function m ->
  split_sf (sf_text m) = (fmt_unsigned 10 (m_stream m), fmt_unsigned 10 (m_function m)).
Proof.
  intros Ha Hb. unfold split_sf, sf_text. cbn [app tl]. rewrite !fmt_int_nonneg by assumption.
  rewrite (span_stop is_digit (fmt_unsigned 10 (m_stream m)) x46 (fmt_unsigned 10 (m_function m))) by (apply fmt_unsigned_digits; lia) || reflexivity.
  reflexivity.
Qed.

Lemma msg_ok_facts m : msg_ok m = true ->
  has_space_rune (m_name m) = false /\ 0 <= m_stream m < 128 /\ 0 <= m_function m < 256 /\
  (m_wbit m = 1 -> (m_function m mod 2 =? 0) = false) /\ 0 <= m_wbit m <= 2 /\ dir_ok (m_dir m) = true.
Proof.
  unfold msg_ok. intro H.
  repeat match type of H with (_ && _) = true => let A := fresh "A" in apply andb_true_iff in H as [H A] end.
  repeat match goal with
         | X : (_ <=? _) = true |- _ => apply Z.leb_le in X
         | X : (_ <? _) = true |- _ => apply Z.ltb_lt in X
         | X : negb _ = true |- _ => apply negb_true_iff in X
         end.
  repeat split; try assumption; try lia;
  try (intro Hw; match goal with X : (m_wbit m =? 1) && _ = false |- _ => rewrite Hw in X; cbn [Z.eqb Pos.eqb andb] in X; exact X end).
Qed.


Section Oracles.
Variable floats : float_oracle.
Variable fl : nat -> Z -> bytes.

(* the tokens of the printed form of a message *)
Definition msg_tokens (m : msg) : list token :=
  [mk TStreamFunction (sf_text m) 0] ++
  (if m_wbit m =? 1 then [mk TWaitBit [x57] 0] else if m_wbit m =? 2 then [mk TWaitBit (B"[W]"%string) 0] else []) ++
  [mk TDirection (m_dir m) 0] ++
  (match m_name m with [] => [] | n => [mk TMsgName n 0] end) ++
  (match m_item m with IEmpty => [] | it => item_tokens fl it end) ++
  [mk TMsgEnd [x2e] 0].

(* a message as the SML parser can return it *)
Definition sml_msg (m : msg) : Prop :=
  msg_ok m = true /\ m_sid m = -1 /\ m_sys m = [x00; x00; x00; x00] /\
  (m_item m = IEmpty \/ (printable (m_item m) /\ scans floats fl (m_item m) /\ canon 0 (vars (m_item m)))).

Definition with_toks (st : pstate) (l : list token) : pstate :=
  {| toks := l; names := names st; ecount := ecount st; errs := errs st; warns := warns st; msgs := msgs st; crashed := crashed st |}.

Theorem msg_parses_back m st rest : sml_msg m -> toks st = msg_tokens m ++ rest ->
  exists st', parse_message floats st = (true, st') /\ toks st' = rest /\ errs st' = errs st /\ warns st' = warns st /\
              msgs st' = msgs st ++ [m] /\ crashed st' = crashed st.
Proof.
  intros (Hok & Hsid & Hsys & Hitem) Ht.
  destruct (msg_ok_facts m Hok) as (Fname & Fs & Ff & Fodd & Fw & Fdir).
  unfold msg_tokens in Ht. rewrite <- !app_assoc in Ht.
  set (wt := if m_wbit m =? 1 then [mk TWaitBit [x57] 0] else if m_wbit m =? 2 then [mk TWaitBit (B"[W]"%string) 0] else []) in *.
  set (nt := match m_name m with [] => [] | n => [mk TMsgName n 0] end) in *.
  set (it := match m_item m with IEmpty => [] | t => item_tokens fl t end) in *.
  cbn [app] in Ht.
  unfold parse_message.
  (* the stream/function token *)
  assert (Hp1 : peek (reset_msg_scope st) = mk TStreamFunction (sf_text m) 0) by (unfold peek; cbn [toks reset_msg_scope]; rewrite Ht; reflexivity).
  rewrite Hp1. cbn [typ_is t_typ mk negb t_val].
  rewrite (split_sf_text m) by lia. rewrite !atoi_fmt by (unfold two63; lia).
  destruct (Z.leb_spec 0 (m_stream m)); [|lia]. destruct (Z.ltb_spec (m_stream m) 128); [|lia].
  destruct (Z.leb_spec 0 (m_function m)); [|lia]. destruct (Z.ltb_spec (m_function m) 256); [|lia]. cbn [andb].
  set (st2 := advance (reset_msg_scope st)).
  assert (T2 : toks st2 = wt ++ mk TDirection (m_dir m) 0 :: nt ++ it ++ mk TMsgEnd [x2e] 0 :: rest).
  { subst st2. unfold advance. cbn [toks reset_msg_scope]. rewrite Ht. reflexivity. }
  assert (Q2 : names st2 = [] /\ ecount st2 = 0 /\ errs st2 = errs st /\ warns st2 = warns st /\ msgs st2 = msgs st /\ crashed st2 = crashed st) by (repeat split).
  clearbody st2. clear Hp1 Ht.
  (* the wait bit *)
  set (W := if typ_is (peek st2) TWaitBit then _ else _).
  assert (HW : exists st5, W = (m_wbit m, st5) /\
             toks st5 = mk TDirection (m_dir m) 0 :: nt ++ it ++ mk TMsgEnd [x2e] 0 :: rest /\
             names st5 = [] /\ ecount st5 = 0 /\ errs st5 = errs st /\ warns st5 = warns st /\ msgs st5 = msgs st /\ crashed st5 = crashed st).
  { subst W wt. destruct Q2 as (N1 & N0 & N2 & N3 & N4 & N5).
    assert (Hw : m_wbit m = 0 \/ m_wbit m = 1 \/ m_wbit m = 2) by lia.
    destruct Hw as [Hw|[Hw|Hw]]; rewrite Hw in *; cbn [Z.eqb Pos.eqb app] in T2; unfold peek; rewrite T2; cbn [typ_is t_typ mk t_val].
    - exists st2. repeat split; assumption.
    - change (bytes_eqb [x57] [x57]) with true. cbv iota.
      rewrite (Fodd eq_refl). exists (advance st2). split; [reflexivity|]. unfold advance. cbn [toks names ecount errs warns msgs crashed]. rewrite T2. repeat split; assumption.
    - change (bytes_eqb (B"[W]"%string) [x57]) with false. change (bytes_eqb (B"[W]"%string) (B"[W]"%string)) with true. cbv iota.
      exists (advance st2). split; [reflexivity|]. unfold advance. cbn [toks names ecount errs warns msgs crashed]. rewrite T2. repeat split; assumption. }
  destruct HW as (st5 & -> & T5 & N5). clear T2 Q2. clearbody wt.
  (* the direction *)
  assert (Hp5 : peek st5 = mk TDirection (m_dir m) 0) by (unfold peek; rewrite T5; reflexivity).
  rewrite Hp5. cbn [typ_is t_typ mk t_val].
  set (st6 := advance st5).
  assert (T6 : toks st6 = nt ++ it ++ mk TMsgEnd [x2e] 0 :: rest) by (subst st6; unfold advance; cbn [toks]; rewrite T5; reflexivity).
  assert (N6 : names st6 = [] /\ ecount st6 = 0 /\ errs st6 = errs st /\ warns st6 = warns st /\ msgs st6 = msgs st /\ crashed st6 = crashed st) by exact N5.
  clearbody st6. clear Hp5 T5 N5.
  (* the first token of what follows the name: '<' or the terminator *)
  assert (Hfirst : exists t0 tl0, it ++ mk TMsgEnd [x2e] 0 :: rest = t0 :: tl0 /\ (t_typ t0 = TLAB \/ t_typ t0 = TMsgEnd)).
  { subst it. destruct Hitem as [E|[Hp _]]; [rewrite E; eexists; eexists; split; [reflexivity|right; reflexivity]|].
    destruct (m_item m) as [xs|n|k w ys| | |] eqn:Ei; cbn [printable] in Hp; try contradiction;
      eexists; eexists; (split; [reflexivity|left; reflexivity]). }
  destruct Hfirst as (t0 & tl0 & E0 & Ht0).
  (* the name *)
  set (N := if typ_is (peek st6) TMsgName then _ else _).
  assert (HN : exists st7, N = (m_name m, st7) /\ toks st7 = it ++ mk TMsgEnd [x2e] 0 :: rest /\
             names st7 = [] /\ ecount st7 = 0 /\ errs st7 = errs st /\ warns st7 = warns st /\ msgs st7 = msgs st /\ crashed st7 = crashed st).
  { subst N nt. destruct (m_name m) as [|c nm] eqn:En.
    - cbn [app] in T6. unfold peek. rewrite T6, E0.
      assert (Hnn : typ_is t0 TMsgName = false) by (unfold typ_is; destruct Ht0 as [-> | ->]; reflexivity).
      rewrite Hnn. exists st6. rewrite <- E0. repeat split; try apply N6; exact T6.
    - cbn [app] in T6. unfold peek. rewrite T6. cbn [typ_is t_typ mk t_val].
      exists (advance st6). split; [reflexivity|]. unfold advance. cbn [toks names ecount errs warns msgs crashed]. rewrite T6. repeat split; apply N6. }
  destruct HN as (st7 & -> & T7 & N7). clear T6 N6. clearbody nt.
  (* the item, or the terminator right away *)
  set (I := if typ_is (peek st7) TMsgEnd then _ else _).
  assert (HI : exists st8, I = (Some (m_item m), st8) /\ toks st8 = mk TMsgEnd [x2e] 0 :: rest /\
             errs st8 = errs st /\ warns st8 = warns st /\ msgs st8 = msgs st /\ crashed st8 = crashed st).
  { subst I it. destruct N7 as (M1 & M0 & M2 & M3 & M4 & M5). destruct Hitem as [E|[Hp [Hsc Hcan]]].
    - rewrite E in *. cbn [app] in T7. unfold peek. rewrite T7. cbn [typ_is t_typ mk].
      exists st7. repeat split; assumption.
    - assert (Hne : m_item m <> IEmpty) by (intro E; rewrite E in Hp; exact Hp).
      assert (Eit : match m_item m with IEmpty => [] | t => item_tokens fl t end = item_tokens fl (m_item m)).
      { destruct (m_item m); reflexivity. }
      rewrite Eit in *.
      assert (Hpk : peek st7 = t0) by (unfold peek; rewrite T7, E0; reflexivity). rewrite Hpk.
      assert (Ht0' : t_typ t0 = TLAB).
      { destruct (m_item m) as [xs|n|k w ys| | |]; cbn [printable] in Hp; try contradiction; cbn [item_tokens leaf_tokens app] in E0; inversion E0; reflexivity. }
      assert (Hn1 : typ_is t0 TMsgEnd = false) by (unfold typ_is; rewrite Ht0'; reflexivity).
      assert (Hn2 : typ_is t0 TLAB = true) by (unfold typ_is; rewrite Ht0'; reflexivity).
      rewrite Hn1, Hn2.
      destruct (item_parses_back floats fl (m_item m) st7 (mk TMsgEnd [x2e] 0 :: rest) Hp Hsc) as [st8 [E8 [T8 [Ee [Ew [Em _]]]]]].
      { intros n _. unfold known_name. rewrite M1. reflexivity. }
      { rewrite M0. exact Hcan. }
      { exact T7. }
      exists st8. split; [exact E8|]. repeat split; try congruence.
      pose proof (proj1 (ext_parse_item_list floats (S (length (toks st7)))) st7) as Hext. rewrite E8 in Hext. cbn [snd] in Hext.
      destruct Hext as [Hc _]. congruence. }
  destruct HI as (st8 & -> & T8 & M8). clear T7 N7.
  (* the terminator, and the message *)
  assert (Hp8 : peek st8 = mk TMsgEnd [x2e] 0) by (unfold peek; rewrite T8; reflexivity).
  rewrite Hp8. cbn [typ_is t_typ mk negb].
  assert (Hnew : new_data_message (m_name m) (m_stream m) (m_function m) (m_wbit m) (m_dir m) (m_item m) = Some m).
  { unfold new_data_message, check.
    assert (Em : {| m_name := m_name m; m_stream := m_stream m; m_function := m_function m; m_wbit := m_wbit m; m_dir := m_dir m;
                    m_item := m_item m; m_sid := -1; m_sys := [x00; x00; x00; x00] |} = m).
    { destruct m. cbn in *. subst. reflexivity. }
    rewrite Em, Hok. reflexivity. }
  rewrite Hnew. destruct M8 as (M2 & M3 & M4 & M5).
  eexists. split; [reflexivity|]. unfold add_msg, advance. cbn [toks errs warns msgs crashed]. rewrite T8. cbn [tl].
  repeat split; congruence.
Qed.

Lemma msg_tokens_length m : (2 <= length (msg_tokens m))%nat.
Proof.
  unfold msg_tokens. cbn [app length]. rewrite !app_length. cbn [length].
  repeat match goal with |- context [length ?x] => generalize (length x); intro end. lia.
Qed.

(* several messages in one text, up to EOF *)
Theorem msgs_parse_back : forall ms f st eof,
  Forall sml_msg ms -> t_typ eof = TEOF -> toks st = flat_map msg_tokens ms ++ [eof] ->
  (length (toks st) < f)%nat ->
  let st' := parse_loop floats f st in
  msgs st' = msgs st ++ ms /\ errs st' = errs st /\ warns st' = warns st /\ crashed st' = crashed st /\ toks st' = [eof].
Proof.
  induction ms as [|m ms IH]; intros f st eof Hms He Ht Hf.
  - cbn [flat_map app] in Ht. destruct f as [|f]; [lia|]. cbn [parse_loop]. unfold peek. rewrite Ht.
    unfold typ_is. rewrite He. cbn. rewrite app_nil_r. repeat split; try reflexivity. exact Ht.
  - inversion Hms as [|? ? Hm Hrest]; subst. cbn [flat_map] in Ht. rewrite <- app_assoc in Ht.
    destruct f as [|f]; [lia|]. cbn [parse_loop].
    assert (Hpk : typ_is (peek st) TEOF = false).
    { unfold peek. rewrite Ht. unfold msg_tokens. cbn [app]. reflexivity. }
    rewrite Hpk.
    destruct (msg_parses_back m st (flat_map msg_tokens ms ++ [eof]) Hm Ht) as [st1 [E [T1 [E1 [W1 [M1 C1]]]]]].
    rewrite E.
    assert (Hf1 : (length (toks st1) < f)%nat).
    { rewrite T1. rewrite Ht in Hf. rewrite app_length in Hf. pose proof (msg_tokens_length m). lia. }
    destruct (IH f st1 eof Hrest He T1 Hf1) as (A1 & A2 & A3 & A4 & A5).
    cbv zeta. rewrite A1, A2, A3, A4, A5, M1, E1, W1, C1, <- app_assoc. repeat split; reflexivity.
Qed.

End Oracles.

(* ---------- characters: the header line ---------- *)

Section HeaderLex.
Variable alnum : list Z.

Lemma to_upper_digits ds : Forall (fun b => is_digit b = true) ds -> to_upper ds = ds.
Proof.
  induction 1 as [|b ds Hb _ IH]; [reflexivity|]. cbn [to_upper map]. fold (to_upper ds). rewrite IH. f_equal.
  unfold upper, is_digit, bz in *. apply andb_true_iff in Hb as [A C]. apply Z.leb_le in A. apply Z.leb_le in C.
  destruct (Z.leb_spec 97 (b2z b)); [lia|]. reflexivity.
Qed.

Lemma digits_nonempty n : 0 <= n -> exists d ds, fmt_unsigned 10 n = d :: ds.
Proof.
  intro Hn. destruct (digits_val_fmt 10 n ltac:(lia) Hn) as [_ Hne]. destruct (fmt_unsigned 10 n) as [|d ds]; [congruence|eauto].
Qed.

(* "S<stream>F<function>" followed by a blank or a line feed *)
Lemma step_sf m d r off : 0 <= m_stream m -> 0 <= m_function m -> is_digit d = false ->
  lex_step1 alnum LHeader (sf_text m ++ d :: r) off =
  LEmit (mk TStreamFunction (sf_text m) off) LHeader (d :: r) (off + zlen (sf_text m)).
Proof.
  intros Hs Hf Hd. unfold sf_text. rewrite !fmt_int_nonneg by assumption.
  pose proof (fmt_unsigned_digits (m_stream m) Hs) as D1. pose proof (fmt_unsigned_digits (m_function m) Hf) as D2.
  destruct (digits_nonempty (m_stream m) Hs) as (a & az & Ea). destruct (digits_nonempty (m_function m) Hf) as (b & bz' & Eb).
  set (s1 := fmt_unsigned 10 (m_stream m)) in *. set (s2 := fmt_unsigned 10 (m_function m)) in *.
  assert (Hm : match_sf (([x53] ++ s1 ++ [x46] ++ s2) ++ d :: r) = Some ([x53] ++ s1 ++ [x46] ++ s2, d :: r)).
  { unfold match_sf. cbn [app]. change (byte_eqb (upper x53) x53) with true. cbv iota.
    rewrite <- app_assoc. cbn [app].
    rewrite (span_stop is_digit s1 x46 (s2 ++ d :: r) D1) by reflexivity.
    rewrite Ea. change (byte_eqb (upper x46) x46) with true. cbv iota. rewrite <- Ea.
    rewrite (span_stop is_digit s2 d r D2 Hd). rewrite Eb. rewrite <- Eb. reflexivity. }
  unfold lex_step1. cbn [app]. rewrite no_slashes by reflexivity. cbn [app] in Hm. rewrite Hm.
  assert (Hu : to_upper (x53 :: s1 ++ x46 :: s2) = x53 :: s1 ++ x46 :: s2).
  { cbn [to_upper map]. fold (to_upper (s1 ++ x46 :: s2)). unfold to_upper. rewrite map_app. cbn [map].
    fold (to_upper s1). fold (to_upper s2). rewrite (to_upper_digits s1 D1), (to_upper_digits s2 D2). reflexivity. }
  rewrite Hu. reflexivity.
Qed.

Lemma step_wbit_w r off : lex_step1 alnum LHeader (x57 :: x20 :: r) off = LEmit (mk TWaitBit [x57] off) LHeader (x20 :: r) (off + 1).
Proof. unfold lex_step1. rewrite no_slashes by reflexivity. reflexivity. Qed.

Lemma step_wbit_opt r off :
  lex_step1 alnum LHeader (x5b :: x57 :: x5d :: x20 :: r) off = LEmit (mk TWaitBit (B"[W]"%string) off) LHeader (x20 :: r) (off + 3).
Proof. unfold lex_step1. rewrite no_slashes by reflexivity. reflexivity. Qed.

Lemma step_dir dir d r off : dir_ok dir = true -> d = x20 \/ d = x0a ->
  lex_step1 alnum LHeader (dir ++ d :: r) off = LEmit (mk TDirection dir off) LHeader (d :: r) (off + zlen dir).
Proof.
  intros Hd Hdd. unfold dir_ok in Hd.
  assert (Hcases : dir = [x48; x2d; x3e; x45] \/ dir = [x48; x3c; x2d; x45] \/ dir = [x48; x3c; x2d; x3e; x45]).
  { apply orb_true_iff in Hd as [Hd|Hd]; [apply orb_true_iff in Hd as [Hd|Hd]|]; apply bytes_eqb_spec in Hd; rewrite Hd; auto. }
  destruct Hcases as [->|[->| ->]]; unfold lex_step1; cbn [app]; rewrite no_slashes by reflexivity;
    destruct Hdd as [->| ->]; reflexivity.
Qed.

Lemma step_header_lab r off : lex_step1 alnum LHeader (x3c :: r) off = LEmit (mk TLAB [x3c] off) LText r (off + 1).
Proof. unfold lex_step1. rewrite no_slashes by reflexivity. destruct r as [|a [|b [|c r]]]; reflexivity. Qed.

Lemma step_header_end r off : lex_step1 alnum LHeader (x2e :: r) off = LEmit (mk TMsgEnd [x2e] off) LHeader r (off + 1).
Proof. unfold lex_step1. rewrite no_slashes by reflexivity. destruct r as [|a [|b [|c r]]]; reflexivity. Qed.

Lemma step_text_end r off : match r with d :: _ => is_digit d = false /\ byte_eqb d x2e = false | [] => True end ->
  lex_step1 alnum LText (x2e :: r) off = LEmit (mk TMsgEnd [x2e] off) LHeader r (off + 1).
Proof.
  intro H. unfold lex_step1. rewrite no_slashes by reflexivity. rewrite no_ident by reflexivity.
  destruct r as [|d r]; [reflexivity|]. destruct H as [H1 H2].
  assert (He : match_ellipsis (x2e :: d :: r) = None).
  { destruct r as [|c r]; cbn [match_ellipsis]; [reflexivity|]. change (byte_eqb x2e x2e) with true. rewrite H2. reflexivity. }
  rewrite He. change (byte_eqb x2e x2b) with false. change (byte_eqb x2e x2d) with false. change (is_digit x2e) with false.
  change (byte_eqb x2e x2e) with true. rewrite H1. reflexivity.
Qed.

(* a message name the header lexer reads as one name when a line feed follows *)
Definition name_lexes (n : bytes) : Prop := forall r off,
  lex_step1 alnum LHeader (n ++ x0a :: r) off = LEmit (mk TMsgName n off) LHeader (x0a :: r) (off + zlen n).

Example name_lexes_example : name_lexes (B"AreYouThere"%string).
Proof. intros r off. reflexivity. Qed.
End HeaderLex.

(* ---------- characters: a whole printed message ---------- *)

Section MsgLex.
Variable alnum : list Z.
Variable floats : float_oracle.
Variable fl : nat -> Z -> bytes.

Definition msg_text (m : msg) : bytes := render fl (msg_print m).

Lemma lexes_from_header s off ts st' r off' : ts <> [] ->
  lexes alnum LText (x3c :: s) off ts st' r off' -> lexes alnum LHeader (x3c :: s) off ts st' r off'.
Proof.
  intros Hne [k Hk]. destruct k as [|k].
  - exfalso. specialize (Hk 0%nat). cbn [Nat.add lex_from] in Hk. destruct ts; [congruence|discriminate].
  - exists (S k). intro F. rewrite <- (Hk F). cbn [Nat.add lex_from]. rewrite step_header_lab, step_lab. reflexivity.
Qed.

Lemma item_text_starts it level : printable it -> level = 0%nat -> exists s, render fl (print_item_at level it) = x3c :: s.
Proof.
  intros Hp ->. destruct it as [xs|n|k w ys| | |]; cbn [printable] in Hp; try contradiction.
  - destruct xs as [|c cs]; [eexists; reflexivity|].
    remember (c :: cs) as zs. 
    assert (E : print_item_at 0 (IList zs) =
      PT (indent 0 ++ [x3c; x4c] ++ (if existsb is_list_var zs then [] else [x5b] ++ fmt_int (Z.of_nat (length zs)) ++ [x5d]) ++ [x0a])
      :: flat_map (child_pieces 0) zs ++ [PT (indent 0 ++ [x3e])]) by (subst zs; reflexivity).
    rewrite E, render_cons. cbn [indent app]. eexists. reflexivity.
  - rewrite (print_leaf_text fl 0 k w ys). unfold leaf_text. destruct ys; cbn [app]; eexists; reflexivity.
  - destruct s; eexists; reflexivity.
  - eexists. reflexivity.
Qed.

Definition after_end_ok (r : bytes) : Prop :=
  match r with d :: _ => is_digit d = false /\ byte_eqb d x2e = false | [] => True end.

Theorem lexes_msg m r off : sml_msg floats fl m ->
  (m_item m = IEmpty \/ lexable alnum fl (m_item m)) -> (m_name m = [] \/ name_lexes alnum (m_name m)) -> after_end_ok r ->
  exists ts, lexes alnum LHeader (msg_text m ++ r) off ts LHeader r (off + zlen (msg_text m)) /\ map zoff ts = msg_tokens fl m.
Proof.
  intros (Hok & Hsid & Hsys & Hitem) Hlex Hname Hr.
  destruct (msg_ok_facts m Hok) as (Fname & Fs & Ff & Fodd & Fw & Fdir).
  (* the part after the header line *)
  set (tailtext := match m_item m with IEmpty => [x2e] | it => render fl (print_item it) ++ [x0a; x2e] end).
  assert (Htext : msg_text m = msg_header m ++ [x0a] ++ tailtext).
  { unfold msg_text, msg_print, tailtext. destruct (m_item m);
      try (rewrite render_cons, render_app; cbn [render flat_map]; rewrite ?app_nil_r, <- !app_assoc; reflexivity).
    cbn [render flat_map]. rewrite ?app_nil_r, <- ?app_assoc. reflexivity. }
  assert (Htail : forall o, exists t2, lexes alnum LHeader (tailtext ++ r) o t2 LHeader r (o + zlen tailtext) /\
                    map zoff t2 = (match m_item m with IEmpty => [] | it => item_tokens fl it end) ++ [mk TMsgEnd [x2e] 0]).
  { intro o. subst tailtext. destruct Hitem as [E|[Hp _]].
    - rewrite E. cbn [app]. eexists. split; [apply lexes_emit; apply step_header_end|reflexivity].
    - assert (Hne : m_item m <> IEmpty) by (intro E; rewrite E in Hp; exact Hp).
      destruct Hlex as [E|Hl]; [congruence|].
      destruct (m_item m) as [xs|n|k w ys| | |] eqn:Ei; try (cbn [printable] in Hp; contradiction).
      all: rewrite <- app_assoc; cbn [app].
      all: match goal with |- context [item_tokens fl ?it] =>
             destruct (lexes_item alnum fl it Hp Hl 0%nat (x0a :: x2e :: r) o) as [t1 [L1 Z1]];
             destruct (item_text_starts it 0 Hp eq_refl) as [s0 Es] end.
      all: unfold print_item; rewrite Es in *; cbn [app] in L1 |- *.
      all: assert (Hne1 : t1 <> []) by (intro E; subst t1; cbn [map] in Z1; discriminate Z1).
      all: exists (t1 ++ [] ++ [mk TMsgEnd [x2e] (o + zlen (x3c :: s0) + 1)]); split;
           [eapply lexes_trans; [apply lexes_from_header; [exact Hne1|exact L1]|];
            eapply lexes_trans; [apply lexes_skip; apply step_blank; reflexivity|];
            match goal with |- lexes _ _ _ ?a _ _ _ ?b => replace b with (a + 1) end;
            [apply lexes_emit; apply step_text_end; exact Hr|unfold zlen; repeat (cbn [length]; rewrite ?app_length); cbn [length]; lia]
           |rewrite !map_app; cbn [map app]; rewrite Z1; reflexivity]. }
  set (wtext := if m_wbit m =? 1 then B" W"%string else if m_wbit m =? 2 then B" [W]"%string else []) in *.
  set (ntext := match m_name m with [] => [] | n => x20 :: n end) in *.
  assert (Htext' : msg_text m ++ r = sf_text m ++ (wtext ++ [x20]) ++ m_dir m ++ (ntext ++ [x0a]) ++ tailtext ++ r).
  { rewrite Htext. unfold msg_header, sf_text. fold wtext. fold ntext. rewrite <- !app_assoc. reflexivity. }
  rewrite Htext'.
  (* between the stream/function code and the direction: a blank, or " W ", or " [W] " *)
  assert (Hw : forall after o, exists tw, lexes alnum LHeader ((wtext ++ [x20]) ++ after) o tw LHeader after (o + zlen (wtext ++ [x20])) /\
             map zoff tw = (if m_wbit m =? 1 then [mk TWaitBit [x57] 0] else if m_wbit m =? 2 then [mk TWaitBit (B"[W]"%string) 0] else [])).
  { intros after o. subst wtext. assert (Hc : m_wbit m = 0 \/ m_wbit m = 1 \/ m_wbit m = 2) by lia.
    destruct Hc as [Hc|[Hc|Hc]]; rewrite Hc; cbn [Z.eqb Pos.eqb app].
    - exists []. split; [apply lexes_skip; apply step_blank; reflexivity|reflexivity].
    - replace (B" W"%string) with [x20; x57] by reflexivity. cbn [app].
      exists ([] ++ [mk TWaitBit [x57] (o + 1)] ++ []). split; [|reflexivity].
      eapply lexes_trans; [apply lexes_skip; apply step_blank; reflexivity|].
      eapply lexes_trans; [apply lexes_emit; apply step_wbit_w|].
      replace (o + zlen [x20; x57; x20]) with (o + 1 + 1 + 1) by (unfold zlen; cbn [length]; lia).
      apply lexes_skip. apply step_blank. reflexivity.
    - replace (B" [W]"%string) with [x20; x5b; x57; x5d] by reflexivity. cbn [app].
      exists ([] ++ [mk TWaitBit (B"[W]"%string) (o + 1)] ++ []). split; [|reflexivity].
      eapply lexes_trans; [apply lexes_skip; apply step_blank; reflexivity|].
      eapply lexes_trans; [apply lexes_emit; apply step_wbit_opt|].
      replace (o + zlen [x20; x5b; x57; x5d; x20]) with (o + 1 + 3 + 1) by (unfold zlen; cbn [length]; lia).
      apply lexes_skip. apply step_blank. reflexivity. }
  (* after the direction: the name if there is one, and the line feed *)
  assert (Hn : forall after o, exists tn, lexes alnum LHeader ((ntext ++ [x0a]) ++ after) o tn LHeader after (o + zlen (ntext ++ [x0a])) /\
             map zoff tn = (match m_name m with [] => [] | n => [mk TMsgName n 0] end) /\
             exists d rest', (ntext ++ [x0a]) ++ after = d :: rest' /\ (d = x20 \/ d = x0a)).
  { intros after o. subst ntext. destruct (m_name m) as [|c nm] eqn:En.
    - cbn [app]. exists []. split; [apply lexes_skip; apply step_blank; reflexivity|]. split; [reflexivity|].
      eexists; eexists; split; [reflexivity|right; reflexivity].
    - destruct Hname as [E|Hnl]; [discriminate|]. cbn [app]. rewrite <- app_assoc. cbn [app].
      exists ([] ++ [mk TMsgName (c :: nm) (o + 1)] ++ []). split; [|split; [reflexivity|eexists; eexists; split; [reflexivity|left; reflexivity]]].
      eapply lexes_trans; [apply lexes_skip; apply step_blank; reflexivity|].
      eapply lexes_trans; [apply lexes_emit; apply (Hnl after (o + 1))|].
      match goal with |- lexes _ _ _ ?a _ _ _ ?b => replace b with (a + 1) end.
      + apply lexes_skip. apply step_blank. reflexivity.
      + unfold zlen. repeat (cbn [length]; rewrite ?app_length). cbn [length]. lia. }
  destruct (Hn (tailtext ++ r) (off + zlen (sf_text m) + zlen (wtext ++ [x20]) + zlen (m_dir m))) as [tn [Ln [Zn (d & rest' & Ed & Hd)]]].
  destruct (Hw (m_dir m ++ (ntext ++ [x0a]) ++ tailtext ++ r) (off + zlen (sf_text m))) as [tw [Lw Zw]].
  destruct (Htail (off + zlen (sf_text m) + zlen (wtext ++ [x20]) + zlen (m_dir m) + zlen (ntext ++ [x0a]))) as [t2 [L2 Z2]].
  assert (Hsf : lex_step1 alnum LHeader (sf_text m ++ (wtext ++ [x20]) ++ m_dir m ++ (ntext ++ [x0a]) ++ tailtext ++ r) off =
                LEmit (mk TStreamFunction (sf_text m) off) LHeader ((wtext ++ [x20]) ++ m_dir m ++ (ntext ++ [x0a]) ++ tailtext ++ r) (off + zlen (sf_text m))).
  { assert (Hsp : exists rest1, (wtext ++ [x20]) ++ m_dir m ++ (ntext ++ [x0a]) ++ tailtext ++ r = x20 :: rest1).
    { subst wtext. destruct (m_wbit m =? 1); [eexists; reflexivity|]. destruct (m_wbit m =? 2); eexists; reflexivity. }
    destruct Hsp as [rest1 Esp]. rewrite Esp. apply step_sf; [lia|lia|reflexivity]. }
  assert (Hdr : forall o, lex_step1 alnum LHeader (m_dir m ++ (ntext ++ [x0a]) ++ tailtext ++ r) o =
                LEmit (mk TDirection (m_dir m) o) LHeader ((ntext ++ [x0a]) ++ tailtext ++ r) (o + zlen (m_dir m))).
  { intro o. rewrite Ed. apply (step_dir alnum (m_dir m) d rest' o Fdir Hd). }
  exists ([mk TStreamFunction (sf_text m) off] ++ tw ++ [mk TDirection (m_dir m) (off + zlen (sf_text m) + zlen (wtext ++ [x20]))] ++ tn ++ t2).
  split.
  - eapply lexes_trans; [apply lexes_emit; exact Hsf|].
    eapply lexes_trans; [exact Lw|].
    eapply lexes_trans; [apply lexes_emit; apply Hdr|].
    eapply lexes_trans; [exact Ln|].
    match goal with |- lexes _ _ _ ?a _ _ _ ?b => replace b with (a + zlen tailtext) end; [exact L2|].
    rewrite Htext. unfold msg_header. fold (sf_text m). fold wtext. fold ntext.
    unfold zlen. repeat (cbn [length]; rewrite ?app_length). cbn [length]. unfold sf_text. repeat (cbn [length]; rewrite ?app_length). lia.
  - unfold msg_tokens. rewrite !map_app. cbn [map]. rewrite Zw, Zn, Z2. reflexivity.
Qed.

Definition msg_good (m : msg) : Prop :=
  sml_msg floats fl m /\ (m_item m = IEmpty \/ lexable alnum fl (m_item m)) /\ (m_name m = [] \/ name_lexes alnum (m_name m)).

(* several printed messages, each followed by a line feed *)
Definition msgs_text (ms : list msg) : bytes := flat_map (fun m => msg_text m ++ [x0a]) ms.

Lemma lexes_msgs : forall ms off, Forall msg_good ms ->
  exists ts, lexes alnum LHeader (msgs_text ms) off ts LHeader [] (off + zlen (msgs_text ms)) /\
             map zoff ts = flat_map (msg_tokens fl) ms.
Proof.
  induction ms as [|m ms IH]; intros off Hg.
  - exists []. split; [|reflexivity]. unfold msgs_text. cbn [flat_map]. replace (off + zlen []) with off by (unfold zlen; cbn [length]; lia). apply lexes_refl.
  - inversion Hg as [|? ? (Hm & Hl & Hn) Hrest]; subst. unfold msgs_text. cbn [flat_map]. fold (msgs_text ms).
    rewrite <- app_assoc. cbn [app].
    destruct (lexes_msg m (x0a :: msgs_text ms) off Hm Hl Hn ltac:(split; reflexivity)) as [t1 [L1 Z1]].
    destruct (IH (off + zlen (msg_text m) + 1) Hrest) as [t2 [L2 Z2]].
    exists (t1 ++ [] ++ t2). split.
    + eapply lexes_trans; [exact L1|].
      eapply lexes_trans; [apply lexes_skip; apply step_blank; reflexivity|].
      match goal with |- lexes _ _ _ _ _ _ _ ?b => replace b with (off + zlen (msg_text m) + 1 + zlen (msgs_text ms)) end; [exact L2|].
      unfold zlen. repeat (cbn [length]; rewrite ?app_length). cbn [length]. lia.
    + rewrite !map_app. cbn [map app flat_map]. rewrite Z1, Z2. reflexivity.
Qed.
End MsgLex.

(* ---------- sml.Parse of a printed text ---------- *)

Lemma zoff_typ t ty : typ_is (zoff t) ty = typ_is t ty.
Proof. reflexivity. Qed.

Lemma no_comment_tokens fl : forall t, Forall (fun k => typ_is k TComment = false) (item_tokens fl t).
Proof.
  induction t as [xs IH|n|k w ys|v|n mn mx|] using item_ind'; try (cbn [item_tokens]; apply Forall_nil).
  - cbn [item_tokens app]. constructor; [reflexivity|]. constructor; [reflexivity|].
    apply Forall_app. split; [destruct (existsb is_list_var xs); repeat constructor|].
    apply Forall_app. split; [|repeat constructor].
    induction IH as [|c cs Hc _ IHcs]; [constructor|]. cbn [flat_map]. apply Forall_app. split; [|exact IHcs].
    destruct c; try exact Hc. destruct (is_ellipsis n); repeat constructor.
  - unfold item_tokens, leaf_tokens. cbn [app]. constructor; [reflexivity|]. constructor; [reflexivity|]. constructor; [reflexivity|].
    apply Forall_app. split; [|repeat constructor].
    induction ys as [|y ys IHy]; [constructor|]. cbn [map]. constructor; [destruct y as [v|n]; [destruct k|]; reflexivity|exact IHy].
  - unfold item_tokens, ascii_tokens. cbn [app]. constructor; [reflexivity|]. constructor; [reflexivity|].
    apply Forall_app. split; [destruct v; repeat constructor|].
    apply Forall_app. split; [|repeat constructor].
    eapply Forall_impl; [|apply atoks_values]. intros t H. cbv beta in H. unfold typ_is. destruct (t_typ t); try contradiction; reflexivity.
  - unfold item_tokens, ascii_var_tokens, ascii_var_size_tokens. cbn [app]. constructor; [reflexivity|]. constructor; [reflexivity|].
    apply Forall_app. split; [|repeat constructor].
    destruct ((mn =? 0) && (mx =? -1)); [constructor|]. destruct (mn =? mx); [repeat constructor|]. destruct (mx =? -1); repeat constructor.
Qed.

Lemma msg_tokens_no_comment fl m : Forall (fun k => typ_is k TComment = false) (msg_tokens fl m).
Proof.
  unfold msg_tokens. repeat (apply Forall_app; split); repeat constructor.
  - destruct (m_wbit m =? 1); [repeat constructor|]. destruct (m_wbit m =? 2); repeat constructor.
  - destruct (m_name m); repeat constructor.
  - destruct (m_item m); try apply no_comment_tokens. constructor.
Qed.

Lemma filter_all {X} (p : X -> bool) l : Forall (fun x => p x = true) l -> filter p l = l.
Proof. induction 1 as [|x l Hx _ IH]; [reflexivity|]. cbn. rewrite Hx, IH. reflexivity. Qed.

(* the end-to-end statement: printing messages and parsing the text gives the
   messages back, with no error and no warning *)
Theorem print_parse_messages alnum floats fl ms : Forall (msg_good alnum floats fl) ms ->
  let r := sml_parse alnum floats (msgs_text fl ms) in
  r_msgs r = ms /\ r_errs r = [] /\ r_warns r = [] /\ r_crashed r = false.
Proof.
  intro Hg. set (text := msgs_text fl ms).
  destruct (lexes_msgs alnum floats fl ms 0 Hg) as [ts [[k Hk] Z0]]. fold text in Hk.
  (* the token stream *)
  set (eof := mk TEOF (B"EOF"%string) (0 + zlen text)).
  assert (Hlex : lex_all alnum text = ts ++ [eof]).
  { unfold lex_all. rewrite (lex_fuel_irrelevant alnum (S (S (length text))) (k + S (S (length text))) LHeader text 0) by lia.
    rewrite Hk. reflexivity. }
  assert (Hnc : Forall (fun t => negb (typ_is t TComment) = true) (ts ++ [eof])).
  { apply Forall_app. split; [|repeat constructor].
    assert (Hz : Forall (fun t => typ_is t TComment = false) (map zoff ts)).
    { rewrite Z0. clear. induction ms as [|m ms IH]; [constructor|]. cbn [flat_map]. apply Forall_app. split; [apply msg_tokens_no_comment|exact IH]. }
    clear -Hz. induction ts as [|t ts IH]; [constructor|]. inversion Hz; subst. constructor; [|apply IH; assumption].
    rewrite zoff_typ in *. match goal with H : typ_is t TComment = false |- _ => rewrite H end. reflexivity. }
  unfold sml_parse. fold text. rewrite Hlex, (filter_all _ _ Hnc).
  set (st0 := {| toks := ts ++ [eof]; names := []; ecount := 0; errs := []; warns := []; msgs := []; crashed := false |}).
  set (f := S (length (ts ++ [eof]))).
  pose (g := fun _ : token => 0).
  assert (Hg0 : g zero_tok = 0) by reflexivity.
  assert (HtR : toks (R g st0) = flat_map (msg_tokens fl) ms ++ [zoff eof]).
  { unfold R, st0. cbn [toks]. rewrite map_app. change (map (re g) ts) with (map zoff ts). rewrite Z0. reflexivity. }
  assert (Hms : Forall (sml_msg floats fl) ms) by (clear -Hg; induction Hg as [|m ms (H & _) _ IH]; constructor; assumption).
  destruct (msgs_parse_back floats fl ms f (R g st0) (zoff eof) Hms eq_refl HtR) as (A1 & A2 & A3 & A4 & _).
  { subst f. unfold R, st0. cbn [toks]. rewrite map_length. lia. }
  rewrite (parse_loop_R g Hg0 floats f st0) in A1, A2, A3, A4.
  unfold R in A1, A2, A3, A4. cbn [msgs errs warns crashed] in A1, A2, A3, A4.
  cbn [r_msgs r_errs r_warns r_crashed].
  apply map_eq_nil in A2. apply map_eq_nil in A3. rewrite A2, A3. cbn [map]. repeat split; assumption.
Qed.

(* premises are satisfiable: two messages, one with a nested item that has
   named variables and two ellipses (printed as "...", numbered by the parser), one header-only *)
Example print_parse_example :
  let m1 := {| m_name := B"Report"%string; m_stream := 6; m_function := 11; m_wbit := 1; m_dir := B"H<-E"%string;
               m_item := IList [ILeaf KUint 4 [SX (B"dataid"%string); SV 7]; IVar (B"v"%string);
                                IList [ILeaf KBin 1 [SV 255]; ILeaf KBool 1 [SV 1]; IAscii (B"say " ++ [x22] ++ B"hi" ++ [x22; x0a])%string; IAsciiVar (B"txt"%string) 1 10; IAscii []; IVar (B"...[0]"%string)];
                                IVar (B"...[1]"%string)];
               m_sid := -1; m_sys := [x00; x00; x00; x00] |} in
  let m2 := {| m_name := []; m_stream := 1; m_function := 2; m_wbit := 0; m_dir := B"H<->E"%string;
               m_item := IEmpty; m_sid := -1; m_sys := [x00; x00; x00; x00] |} in
  forall alnum floats fl, Forall (msg_good alnum floats fl) [m1; m2].
Proof.
  intros m1 m2 alnum floats fl. constructor; [|constructor; [|constructor]].
  - split; [|split].
    + split; [reflexivity|]. split; [reflexivity|]. split; [reflexivity|]. right.
      cbn [m_item m1 printable]. repeat split; try reflexivity; try discriminate; try (left; reflexivity);
        try (right; left; reflexivity); try (right; right; left; reflexivity); repeat constructor; cbn; lia.
    + right. cbn [m_item m1 lexable]. repeat (first [intros He; try (vm_compute in He; discriminate He) | split]); repeat constructor; try reflexivity; cbn; lia.
    + right. intros r off. reflexivity.
  - split; [|split].
    + split; [reflexivity|]. split; [reflexivity|]. split; [reflexivity|]. left. reflexivity.
    + left. reflexivity.
    + left. reflexivity.
Qed.

(* the concatenation law (C19) for printed texts: parsing the printed form of
   one sequence followed by the printed form of another returns the messages of
   the first followed by the messages of the second, each as parsed alone *)
Theorem concat_printed alnum floats fl ms1 ms2 : Forall (msg_good alnum floats fl) ms1 -> Forall (msg_good alnum floats fl) ms2 ->
  r_msgs (sml_parse alnum floats (msgs_text fl ms1 ++ msgs_text fl ms2)) =
    r_msgs (sml_parse alnum floats (msgs_text fl ms1)) ++ r_msgs (sml_parse alnum floats (msgs_text fl ms2)) /\
  r_errs (sml_parse alnum floats (msgs_text fl ms1 ++ msgs_text fl ms2)) = [] /\
  r_warns (sml_parse alnum floats (msgs_text fl ms1 ++ msgs_text fl ms2)) = [].
Proof.
  intros H1 H2.
  assert (E : msgs_text fl ms1 ++ msgs_text fl ms2 = msgs_text fl (ms1 ++ ms2)) by (unfold msgs_text; rewrite flat_map_app; reflexivity).
  rewrite E.
  destruct (print_parse_messages alnum floats fl (ms1 ++ ms2) ltac:(apply Forall_app; split; assumption)) as (A & B' & C & _).
  destruct (print_parse_messages alnum floats fl ms1 H1) as (A1 & _).
  destruct (print_parse_messages alnum floats fl ms2 H2) as (A2 & _).
  cbv zeta in *. rewrite A, A1, A2, B', C. repeat split; reflexivity.
Qed.

(* the float hypotheses are satisfiable: with the oracles answering "1.5" for
   the float64 bit pattern of 1.5 (as strconv does), an F8 item holding it
   meets [scans] and [lexable] *)
Example float_premises :
  let v := 4609434218613702656 in                       (* 0x3FF8000000000000 = 1.5 *)
  let fl := fun (_ : nat) (_ : Z) => B"1.5"%string in
  let floats := [(B"1.5"%string, (0, 1069547520, 0, v))] in
  let t := ILeaf KFloat 8 [SV v] in
  printable t /\ scans floats fl t /\ forall alnum, lexable alnum fl t.
Proof.
  intros v fl floats t. split; [|split].
  - cbn [printable t]. repeat split; try reflexivity; [right; reflexivity|repeat constructor].
  - cbn [scans t]. constructor; [|constructor]. split; [reflexivity|discriminate].
  - intro alnum. cbn [lexable t]. constructor; [|constructor]. cbn [slot_lexable].
    intros d r off [->|[->| ->]]; reflexivity.
Qed.
