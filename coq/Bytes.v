(* Bytes.v — byte strings, big-endian integers, two's complement.
   Go strings and []byte are both [list byte]; numbers are [Z]. *)
From Coq Require Export List ZArith Lia Bool.
From Coq Require Export Strings.Byte.
From Coq Require Import ZifyBool ZifyNat.
From Coq Require Strings.String.
Export String.StringSyntax.
Delimit Scope string_scope with string.
Export ListNotations.
Ltac Zify.zify_post_hook ::= Z.div_mod_to_equations.
Open Scope Z_scope.

Definition bytes := list byte.

Definition b2z (b : byte) : Z := Z.of_N (Byte.to_N b).
Definition z2b (n : Z) : byte :=
  match Byte.of_N (Z.to_N (n mod 256)) with Some b => b | None => x00 end.

Lemma b2z_range b : 0 <= b2z b < 256.
Proof. unfold b2z. pose proof (Byte.to_N_bounded b). lia. Qed.

Lemma z2b_b2z b : z2b (b2z b) = b.
Proof.
  unfold z2b, b2z. pose proof (Byte.to_N_bounded b).
  rewrite Z.mod_small by lia. rewrite N2Z.id, Byte.of_to_N. reflexivity.
Qed.

Lemma b2z_z2b n : b2z (z2b n) = n mod 256.
Proof.
  unfold z2b, b2z.
  assert (H : 0 <= n mod 256 < 256) by (apply Z.mod_pos_bound; lia).
  destruct (Byte.of_N (Z.to_N (n mod 256))) as [b|] eqn:E.
  - apply Byte.to_of_N in E. rewrite E. lia.
  - apply Byte.of_N_None_iff in E. lia.
Qed.

Lemma b2z_inj a b : b2z a = b2z b -> a = b.
Proof. intro H. rewrite <- (z2b_b2z a), <- (z2b_b2z b), H. reflexivity. Qed.

Lemma z2b_small_inj a b : 0 <= a < 256 -> 0 <= b < 256 -> z2b a = z2b b -> a = b.
Proof.
  intros Ha Hb H. apply (f_equal b2z) in H. rewrite !b2z_z2b in H.
  rewrite !Z.mod_small in H; lia.
Qed.

Definition byte_eqb (a b : byte) : bool := Byte.eqb a b.
Lemma byte_eqb_spec a b : byte_eqb a b = true <-> a = b.
Proof. unfold byte_eqb. split; [apply Byte.byte_dec_bl | apply Byte.byte_dec_lb]. Qed.

Fixpoint bytes_eqb (a b : bytes) : bool :=
  match a, b with
  | [], [] => true
  | x :: a', y :: b' => byte_eqb x y && bytes_eqb a' b'
  | _, _ => false
  end.
Lemma bytes_eqb_spec a b : bytes_eqb a b = true <-> a = b.
Proof.
  revert b; induction a as [|x a IH]; intros [|y b]; cbn; try (split; congruence).
  rewrite andb_true_iff, byte_eqb_spec, IH. split; [intros [-> ->]; reflexivity | intros H; inversion H; auto].
Qed.
Lemma bytes_eqb_refl a : bytes_eqb a a = true.
Proof. apply bytes_eqb_spec; reflexivity. Qed.

(* Big-endian encoding of [n] in [k] bytes, defined by recursion on the
   least-significant byte; silently truncates like Go's byte(x >> s). *)
Fixpoint be_enc (k : nat) (n : Z) : bytes :=
  match k with
  | O => []
  | S k' => be_enc k' (n / 256) ++ [z2b n]
  end.

Definition be_dec (bs : bytes) : Z :=
  fold_left (fun acc b => acc * 256 + b2z b) bs 0.

Lemma be_enc_length k n : length (be_enc k n) = k.
Proof. revert n; induction k as [|k IH]; intro n; cbn; [reflexivity|]. rewrite app_length, IH; cbn; lia. Qed.

Lemma fold_be_app acc bs :
  fold_left (fun acc b => acc * 256 + b2z b) bs acc =
  acc * 256 ^ Z.of_nat (length bs) + be_dec bs.
Proof.
  unfold be_dec. revert acc. induction bs as [|b bs IH]; intro acc.
  - cbn. lia.
  - cbn [fold_left length]. rewrite IH, (IH (0 * 256 + b2z b)).
    rewrite Nat2Z.inj_succ, Z.pow_succ_r by lia. lia.
Qed.

Lemma be_dec_app a b : be_dec (a ++ b) = be_dec a * 256 ^ Z.of_nat (length b) + be_dec b.
Proof. unfold be_dec at 1. rewrite fold_left_app. fold (be_dec a). apply fold_be_app. Qed.

Lemma be_dec_single b : be_dec [b] = b2z b.
Proof. unfold be_dec; cbn; lia. Qed.

Lemma be_dec_range bs : 0 <= be_dec bs < 256 ^ Z.of_nat (length bs).
Proof.
  induction bs as [|b bs IH] using rev_ind.
  - cbn. lia.
  - rewrite be_dec_app, be_dec_single, app_length. cbn [length].
    pose proof (b2z_range b).
    replace (Z.of_nat (length bs + 1)) with (Z.succ (Z.of_nat (length bs))) by lia.
    rewrite Z.pow_succ_r by lia. rewrite Z.pow_1_r. lia.
Qed.

Lemma be_dec_enc k n : be_dec (be_enc k n) = n mod 256 ^ Z.of_nat k.
Proof.
  revert n; induction k as [|k IH]; intro n.
  - cbn. rewrite Z.mod_1_r. reflexivity.
  - cbn [be_enc]. rewrite be_dec_app, be_dec_single, IH, b2z_z2b. cbn [length].
    rewrite Z.pow_1_r, Nat2Z.inj_succ, Z.pow_succ_r by lia.
    assert (Hp : 0 < 256 ^ Z.of_nat k) by (apply Z.pow_pos_nonneg; lia).
    rewrite Z.rem_mul_r by lia. lia.
Qed.

Lemma be_enc_dec bs : be_enc (length bs) (be_dec bs) = bs.
Proof.
  induction bs as [|b bs IH] using rev_ind; [reflexivity|].
  rewrite app_length. cbn [length]. rewrite Nat.add_1_r. cbn [be_enc].
  rewrite be_dec_app, be_dec_single. cbn [length]. rewrite Z.pow_1_r.
  pose proof (b2z_range b).
  rewrite Z.div_add_l by lia. rewrite (Z.div_small (b2z b)) by lia. rewrite Z.add_0_r.
  rewrite IH. f_equal. f_equal.
  apply b2z_inj. rewrite b2z_z2b, Z.add_comm, Z_mod_plus_full. apply Z.mod_small, b2z_range.
Qed.

Lemma be_enc_small k n : 0 <= n < 256 ^ Z.of_nat k -> be_dec (be_enc k n) = n.
Proof. intro H. rewrite be_dec_enc. apply Z.mod_small; exact H. Qed.

Lemma be_enc_inj k a b :
  0 <= a < 256 ^ Z.of_nat k -> 0 <= b < 256 ^ Z.of_nat k -> be_enc k a = be_enc k b -> a = b.
Proof. intros Ha Hb H. apply (f_equal be_dec) in H. rewrite !be_enc_small in H; assumption. Qed.

(* two's complement *)
Definition to_signed (w : nat) (n : Z) : Z :=
  if n <? 256 ^ Z.of_nat w / 2 then n else n - 256 ^ Z.of_nat w.
Definition of_signed (w : nat) (z : Z) : Z := z mod 256 ^ Z.of_nat w.

Lemma pow256_pos w : 0 < 256 ^ Z.of_nat w.
Proof. apply Z.pow_pos_nonneg; lia. Qed.
Lemma pow256_even w : (0 < w)%nat -> 256 ^ Z.of_nat w = 2 * (256 ^ Z.of_nat w / 2).
Proof.
  intro H. destruct w as [|w]; [lia|]. rewrite Nat2Z.inj_succ, Z.pow_succ_r by lia.
  pose proof (pow256_pos w). lia.
Qed.

Lemma to_of_signed w z : (0 < w)%nat ->
  - (256 ^ Z.of_nat w / 2) <= z < 256 ^ Z.of_nat w / 2 -> to_signed w (of_signed w z) = z.
Proof.
  intros Hw H. unfold to_signed, of_signed. pose proof (pow256_even w Hw) as He.
  pose proof (pow256_pos w) as Hp.
  set (P := 256 ^ Z.of_nat w) in *. set (h := P / 2) in *.
  destruct (Z.lt_ge_cases z 0) as [Hneg|Hpos].
  - assert (E : z mod P = z + P) by (symmetry; apply (Z.mod_unique_pos z P (-1)); lia).
    rewrite E. destruct (Z.ltb_spec (z + P) h); lia.
  - rewrite Z.mod_small by lia. destruct (Z.ltb_spec z h); lia.
Qed.

Lemma of_to_signed w n : 0 <= n < 256 ^ Z.of_nat w -> of_signed w (to_signed w n) = n.
Proof.
  intro H. unfold to_signed, of_signed.
  set (P := 256 ^ Z.of_nat w) in *. set (h := P / 2) in *.
  destruct (Z.ltb_spec n h).
  - apply Z.mod_small; lia.
  - symmetry; apply (Z.mod_unique_pos (n - P) P (-1)); lia.
Qed.

Lemma to_signed_range w n : (0 < w)%nat -> 0 <= n < 256 ^ Z.of_nat w ->
  - (256 ^ Z.of_nat w / 2) <= to_signed w n < 256 ^ Z.of_nat w / 2.
Proof.
  intros Hw H. unfold to_signed. pose proof (pow256_even w Hw).
  destruct (Z.ltb_spec n (256 ^ Z.of_nat w / 2)); lia.
Qed.

(* list helpers used everywhere *)
Fixpoint take {A} (n : nat) (l : list A) : option (list A * list A) :=
  match n with
  | O => Some ([], l)
  | S n' => match l with
            | [] => None
            | x :: l' => match take n' l' with
                         | Some (a, b) => Some (x :: a, b)
                         | None => None
                         end
            end
  end.

Lemma take_app {A} (a b : list A) : take (length a) (a ++ b) = Some (a, b).
Proof. induction a as [|x a IH]; cbn; [reflexivity|]. rewrite IH. reflexivity. Qed.

Lemma take_spec {A} n (l a b : list A) : take n l = Some (a, b) -> l = a ++ b /\ length a = n.
Proof.
  revert l a b; induction n as [|n IH]; intros l a b H; cbn in H.
  - inversion H; subst. split; reflexivity.
  - destruct l as [|x l]; [discriminate|]. destruct (take n l) as [[a' b']|] eqn:E; [|discriminate].
    inversion H; subst. apply IH in E as [-> <-]. split; reflexivity.
Qed.

Lemma take_none {A} n (l : list A) : take n l = None <-> (length l < n)%nat.
Proof.
  revert l; induction n as [|n IH]; intro l; cbn.
  - split; [discriminate|lia].
  - destruct l as [|x l]; cbn; [split; [lia|reflexivity]|].
    specialize (IH l). destruct (take n l) as [[a b]|].
    + split; [discriminate|]. intro H. assert (H' : (length l < n)%nat) by lia.
      apply IH in H'. discriminate.
    + split; [|reflexivity]. intros _. assert (length l < n)%nat by (apply IH; reflexivity). lia.
Qed.
