(* HeaderProofs.v — getHeaderBytes / getDataByteLength: the length header is
   exact for every size (C13), for every type name of the table. *)
From Secs Require Import Ast.
Open Scope Z_scope.

Definition len_k (n : Z) : nat := if n <=? 255 then 1%nat else if n <=? 65535 then 2%nat else 3%nat.

Lemma z2b_eq_x00 n : byte_eqb (z2b n) x00 = (n mod 256 =? 0).
Proof.
  destruct (byte_eqb (z2b n) x00) eqn:E.
  - apply byte_eqb_spec in E. apply (f_equal b2z) in E. rewrite b2z_z2b in E.
    change (b2z x00) with 0 in E. rewrite E. reflexivity.
  - destruct (Z.eqb_spec (n mod 256) 0) as [H|H]; [|reflexivity].
    assert (z2b n = x00).
    { apply b2z_inj. rewrite b2z_z2b, H. reflexivity. }
    apply byte_eqb_spec in H0. congruence.
Qed.

Lemma be_enc_1 n : be_enc 1 n = [z2b n].
Proof. reflexivity. Qed.
Lemma be_enc_2 n : be_enc 2 n = [z2b (n / 256); z2b n].
Proof. reflexivity. Qed.
Lemma be_enc_3 n : be_enc 3 n = [z2b (n / 65536); z2b (n / 256); z2b n].
Proof. cbn. rewrite Z.div_div by lia. reflexivity. Qed.

(* the three length bytes the code computes, trimmed, are the minimal big-endian
   encoding of len *)
Lemma header_bytes_exact typ size :
  let len := data_byte_length typ size in
  0 <= len <= MAX_BYTE_SIZE ->
  header_bytes typ size =
    Some (z2b (lookup typ format_code * 4 + Z.of_nat (len_k len)) :: be_enc (len_k len) len).
Proof.
  intros len H. unfold header_bytes. fold len. unfold MAX_BYTE_SIZE in *.
  destruct (Z.gtb_spec len 16777215) as [Hgt|_]; [lia|].
  rewrite !z2b_eq_x00. unfold len_k.
  destruct (Z.leb_spec len 255) as [H1|H1].
  - rewrite (Z.div_small len 65536), (Z.div_small len 256) by lia. cbn [Z.modulo Z.eqb]. 
    change (0 mod 256 =? 0) with true. cbn iota. rewrite be_enc_1. reflexivity.
  - destruct (Z.leb_spec len 65535) as [H2|H2].
    + rewrite (Z.div_small len 65536) by lia. change (0 mod 256 =? 0) with true. cbn iota.
      assert (Hq : 1 <= len / 256 < 256) by lia.
      rewrite (Z.mod_small (len / 256)) by lia.
      destruct (Z.eqb_spec (len / 256) 0); [lia|]. rewrite be_enc_2. reflexivity.
    + assert (Hq : 1 <= len / 65536 < 256) by lia.
      rewrite (Z.mod_small (len / 65536)) by lia.
      destruct (Z.eqb_spec (len / 65536) 0); [lia|]. rewrite be_enc_3. reflexivity.
Qed.

Lemma header_bytes_refused typ size :
  MAX_BYTE_SIZE < data_byte_length typ size -> header_bytes typ size = None.
Proof.
  intro H. unfold header_bytes. destruct (Z.gtb_spec (data_byte_length typ size) MAX_BYTE_SIZE); [reflexivity|lia].
Qed.

Lemma len_k_fits len : 0 <= len <= MAX_BYTE_SIZE -> 0 <= len < 256 ^ Z.of_nat (len_k len).
Proof.
  unfold len_k, MAX_BYTE_SIZE. intro H.
  destruct (Z.leb_spec len 255); [cbn; lia|]. destruct (Z.leb_spec len 65535); cbn; lia.
Qed.

(* minimality: no shorter length field can hold len *)
Lemma len_k_minimal len k : 0 <= len <= MAX_BYTE_SIZE -> (1 <= k)%nat -> len < 256 ^ Z.of_nat k -> (len_k len <= k)%nat.
Proof.
  unfold len_k, MAX_BYTE_SIZE. intros H Hk Hl.
  destruct (Z.leb_spec len 255); [lia|].
  destruct k as [|[|k]]; [lia| cbn in Hl; lia |].
  destruct (Z.leb_spec len 65535); [lia|].
  destruct k as [|k]; [cbn in Hl; lia|lia].
Qed.

Lemma len_k_range len : (1 <= len_k len <= 3)%nat.
Proof. unfold len_k. destruct (len <=? 255); [lia|]. destruct (len <=? 65535); lia. Qed.

(* what the decoder reads back from such a header *)
Lemma header_readback len : 0 <= len <= MAX_BYTE_SIZE -> be_dec (be_enc (len_k len) len) = len.
Proof. intro H. apply be_enc_small, len_k_fits, H. Qed.

Lemma format_byte_split c k : 0 <= c < 64 -> (1 <= k <= 3)%nat ->
  b2z (z2b (c * 4 + Z.of_nat k)) / 4 = c /\ b2z (z2b (c * 4 + Z.of_nat k)) mod 4 = Z.of_nat k.
Proof.
  intros Hc Hk. rewrite b2z_z2b. rewrite Z.mod_small by lia. lia.
Qed.
