(* Fill.v — FillVariables of every node: plain substitution through the
   factories, and the ellipsis expander of list.go (state-passing model that
   mirrors fillState / fillEllipsis / ellipsisAnalysis one to one). *)
From Secs Require Export Ast.
Open Scope Z_scope.

Definition fmap := list (bytes * gval).

Fixpoint flookup (n : bytes) (s : fmap) : option gval :=
  match s with
  | [] => None
  | (k, v) :: r => if bytes_eqb n k then Some v else flookup n r
  end.

Definition typed_val (k : kind) (w : nat) (v : Z) : gval :=
  match k with
  | KInt => GInt Kint64 v
  | KUint => GInt Kuint64 v
  | KBin => GInt Kint v
  | KBool => GBool (negb (v =? 0))
  | KFloat => match w with 4%nat => GF32 v | _ => GF64 v end
  end.

Definition slot_arg (k : kind) (w : nat) (s : fmap) (x : slot) : gval :=
  match x with
  | SV v => typed_val k w v
  | SX n => match flookup n s with Some g => g | None => GStr n end
  end.

Definition fill_leaf (s : fmap) (k : kind) (w : nat) (xs : list slot) : option item :=
  if existsb (fun n => match flookup n s with Some _ => true | None => false end) (slot_vars xs)
  then new_leaf k w (map (slot_arg k w s) xs)
  else Some (ILeaf k w xs).

Definition fill_ascii_var (s : fmap) (n : bytes) (mn mx : Z) : option item :=
  match flookup n s with
  | None => Some (IAsciiVar n mn mx)
  | Some (GStr v) =>
    let l := Z.of_nat (length v) in
    if l <? mn then None
    else if negb (mx =? -1) && (mx <? l) then None
    else new_ascii v
  | Some _ => None
  end.

(* FillVariables when no ellipsis is to be expanded (all nodes; a list's
   children receive the same map) *)
Fixpoint fill_plain (s : fmap) (t : item) : option item :=
  match t with
  | IList xs =>
    match (fix args (xs : list item) : option (list gval) :=
             match xs with
             | [] => Some []
             | c :: r =>
               let a := match c with
                        | IVar n => Some (match flookup n s with Some g => g | None => GStr n end)
                        | _ => match fill_plain s c with Some c' => Some (GItem c') | None => None end
                        end in
               match a, args r with
               | Some a, Some rs => Some (a :: rs)
               | _, _ => None
               end
             end) xs with
    | Some a => new_list a
    | None => None
    end
  | IVar n => Some (IVar n)
  | ILeaf k w xs => fill_leaf s k w xs
  | IAscii v => Some (IAscii v)
  | IAsciiVar n mn mx => fill_ascii_var s n mn mx
  | IEmpty => Some IEmpty
  end.

(* ---------- ellipsis ---------- *)

Definition split_values (s : fmap) : fmap * fmap :=
  (filter (fun kv => is_ellipsis (fst kv)) s, filter (fun kv => negb (is_ellipsis (fst kv))) s).

(* the ellipsis variable of this list that has a value in [s]: position, value *)
Fixpoint find_ellipsis (s : fmap) (xs : list item) (pos : nat) : option (nat * gval) :=
  match xs with
  | [] => None
  | IVar n :: r => if is_ellipsis n then
                     match flookup n s with
                     | Some g => Some (pos, g)
                     | None => find_ellipsis s r (S pos)
                     end
                   else find_ellipsis s r (S pos)
  | _ :: r => find_ellipsis s r (S pos)
  end.

Definition has_unfilled_ellipsis (s : fmap) (xs : list item) : bool :=
  existsb (fun c => match c with
                    | IVar n => is_ellipsis n && match flookup n s with Some _ => false | None => true end
                    | _ => false
                    end) xs.

Inductive outcome (A : Type) := Ok (a : A) | Panic.
Arguments Ok {A} a. Arguments Panic {A}.

(* ellipsisAnalysis: (to fill, remaining); Panic when a value is not an int *)
Fixpoint ellipsis_analysis (s : fmap) (t : item) : outcome (Z * Z) :=
  match t with
  | IList xs =>
    let own := match find_ellipsis s xs 0 with
               | Some (_, GInt Kint v) => Ok (1, v)
               | Some _ => Panic
               | None => Ok (0, 0)
               end in
    match own with
    | Panic => Panic
    | Ok (tf0, v) =>
      let rem0 := if has_unfilled_ellipsis s xs then 1 else 0 in
      (fix go (xs : list item) (tf rem : Z) : outcome (Z * Z) :=
         match xs with
         | [] => Ok (tf, rem)
         | (IList _ as c) :: r =>
           match ellipsis_analysis s c with
           | Ok (ef, er) => go r (tf + (v + 1) * ef) (rem + (v + 1) * er)
           | Panic => Panic
           end
         | _ :: r => go r tf rem
         end) xs tf0 rem0
    end
  | _ => Ok (0, 0)
  end.

Record fstate := { fs_dim : Z; fs_idx : list Z; fs_count : Z; fs_multi : bool }.

Definition new_fill_state (remaining : Z) : fstate :=
  {| fs_dim := 0; fs_idx := []; fs_count := 0; fs_multi := 1 <? remaining |}.

Fixpoint set_nth (l : list Z) (n : nat) (v : Z) : option (list Z) :=
  match l, n with
  | [], _ => None
  | _ :: r, O => Some (v :: r)
  | x :: r, S n' => match set_nth r n' v with Some r' => Some (x :: r') | None => None end
  end.

Definition zidx (l : list Z) (i : Z) : option Z :=
  if i <? 0 then None else nth_error l (Z.to_nat i).

Definition grow_dimension (st : fstate) : option fstate :=
  if fs_dim st =? Z.of_nat (length (fs_idx st))
  then Some {| fs_dim := fs_dim st + 1; fs_idx := fs_idx st ++ [0]; fs_count := fs_count st; fs_multi := fs_multi st |}
  else if fs_dim st <? 0 then None
  else match set_nth (fs_idx st) (Z.to_nat (fs_dim st)) 0 with
       | Some l => Some {| fs_dim := fs_dim st + 1; fs_idx := l; fs_count := fs_count st; fs_multi := fs_multi st |}
       | None => None
       end.

Definition exit_dimension (st : fstate) : fstate :=
  {| fs_dim := fs_dim st - 1; fs_idx := fs_idx st; fs_count := fs_count st; fs_multi := fs_multi st |}.

Definition cur_index (st : fstate) : option Z := zidx (fs_idx st) (fs_dim st - 1).

Definition grow_index (st : fstate) : option fstate :=
  match cur_index st with
  | Some v => match set_nth (fs_idx st) (Z.to_nat (fs_dim st - 1)) (v + 1) with
              | Some l => Some {| fs_dim := fs_dim st; fs_idx := l; fs_count := fs_count st; fs_multi := fs_multi st |}
              | None => None
              end
  | None => None
  end.

Definition index_suffix (i : Z) : bytes := [x5b] ++ fmt_int i ++ [x5d].

Fixpoint suffix_of (idx : list Z) (n : nat) : option bytes :=
  match n with
  | O => Some []
  | S n' => match idx with
            | i :: r => match suffix_of r n' with Some s => Some (index_suffix i ++ s) | None => None end
            | [] => None
            end
  end.

(* getNewVariableName *)
Definition new_var_name (st : fstate) (n : bytes) : option (bytes * fstate) :=
  if is_ellipsis n then
    if fs_multi st
    then Some ([x2e; x2e; x2e] ++ index_suffix (fs_count st),
               {| fs_dim := fs_dim st; fs_idx := fs_idx st; fs_count := fs_count st + 1; fs_multi := fs_multi st |})
    else Some ([x2e; x2e; x2e], st)
  else
    if fs_dim st <? 0 then Some (n, st)        (* the loop `i < currentDimension` does not run *)
    else match suffix_of (fs_idx st) (Z.to_nat (fs_dim st)) with
         | Some s => Some (n ++ s, st)
         | None => None
         end.

Fixpoint rename_all (st : fstate) (ns : list bytes) : option (fmap * fstate) :=
  match ns with
  | [] => Some ([], st)
  | n :: r => match new_var_name st n with
              | Some (n', st1) => match rename_all st1 r with
                                  | Some (m, st2) => Some ((n, GStr n') :: m, st2)
                                  | None => None
                                  end
              | None => None
              end
  end.

Fixpoint depth (t : item) : nat :=
  match t with
  | IList xs => S (fold_right (fun c m => Nat.max (depth c) m) O xs)
  | _ => O
  end.

Section FillEll.
Variable s : fmap.

(* one pass over a segment of the children *)
Definition process_one (rec : fstate -> item -> option (item * fstate))
           (st : fstate) (c : item) : option (gval * fstate) :=
  match c with
  | IList _ => match rec st c with Some (c', st') => Some (GItem c', st') | None => None end
  | IAscii _ => Some (GItem c, st)
  | IAsciiVar n mn mx =>
    match new_var_name st n with
    | Some (n', st') => match new_ascii_var n' mn mx with Some c' => Some (GItem c', st') | None => None end
    | None => None
    end
  | IVar n => match new_var_name st n with Some (n', st') => Some (GStr n', st') | None => None end
  | IEmpty => match new_var_name st [] with Some (n', st') => Some (GStr n', st') | None => None end
  | ILeaf k w xs =>
    match slot_vars xs with
    | [] => Some (GItem c, st)
    | ns => match rename_all st ns with
            | Some (m, st') => match fill_leaf m k w xs with Some c' => Some (GItem c', st') | None => None end
            | None => None
            end
    end
  end.

Fixpoint process_seg (rec : fstate -> item -> option (item * fstate))
         (st : fstate) (xs : list item) : option (list gval * fstate) :=
  match xs with
  | [] => Some ([], st)
  | c :: r => match process_one rec st c with
              | Some (a, st1) => match process_seg rec st1 r with
                                 | Some (rs, st2) => Some (a :: rs, st2)
                                 | None => None
                                 end
              | None => None
              end
  end.

(* the `i = 0` restart loop: repeat the prefix while the index is below n *)
Fixpoint repeat_prefix (fuel : nat) (rec : fstate -> item -> option (item * fstate))
         (n : Z) (st : fstate) (pre : list item) : option (list gval * fstate) :=
  match cur_index st with
  | None => None
  | Some i =>
    if i <? n then
      match fuel with
      | O => None
      | S f =>
        match grow_index st with
        | None => None
        | Some st1 =>
          match process_seg rec st1 pre with
          | Some (out, st2) => match repeat_prefix f rec n st2 pre with
                               | Some (out', st3) => Some (out ++ out', st3)
                               | None => None
                               end
          | None => None
          end
        end
      end
    else Some ([], exit_dimension st)
  end.

Fixpoint fill_ell (fuel : nat) (st : fstate) (t : item) : option (item * fstate) :=
  match fuel with
  | O => None
  | S f =>
    match t with
    | IList xs =>
      let rec := fill_ell f in
      match find_ellipsis s xs 0 with
      | Some (p, GInt Kint n) =>
        let pre := firstn p xs in
        let post := skipn (S p) xs in
        match (if 0 <? n then grow_dimension st else Some st) with
        | None => None
        | Some st0 =>
          match process_seg rec st0 pre with
          | None => None
          | Some (out1, st1) =>
            if n =? 0 then
              match process_seg rec st1 post with
              | Some (out3, st3) => match new_list (out1 ++ out3) with Some t' => Some (t', st3) | None => None end
              | None => None
              end
            else
              match repeat_prefix (Z.to_nat n + 1) rec n st1 pre with
              | None => None
              | Some (out2, st2) =>
                match process_seg rec st2 post with
                | Some (out3, st3) => match new_list (out1 ++ out2 ++ out3) with Some t' => Some (t', st3) | None => None end
                | None => None
                end
              end
          end
        end
      | Some (_, _) => None          (* values[name].(int) panics *)
      | None =>
        match process_seg rec st xs with
        | Some (out, st1) => match new_list out with Some t' => Some (t', st1) | None => None end
        | None => None
        end
      end
    | _ => None
    end
  end.
End FillEll.

(* ItemNode.FillVariables *)
Definition fill (s : fmap) (t : item) : option item :=
  match t with
  | IList _ =>
    let '(es, os) := split_values s in
    match ellipsis_analysis es t with
    | Panic => None
    | Ok (tf, rem) =>
      if 0 <? tf then
        match fill_ell es (S (depth t)) (new_fill_state rem) t with
        | Some (t', _) => fill_plain os t'
        | None => None
        end
      else fill_plain os t
    end
  | _ => fill_plain s t
  end.
