(* LexPrinted.v — the lexer reads the printed form of a value item back into
   the tokens the parser needs (C04, character level): '<', the type name, the
   size, the elements separated by blanks, '>'. *)
From Secs Require Import Ast FloatProofs Fill Utf8 Msg WireSpec WireLemmas WireValues HeaderProofs WireEnc WireDec MsgProofs AstProofs FillProofs FillCompose PrintProofs.
From Secs Require Import Lexer Parser SmlNumbers SmlProofs LexProofs ParseProofs LayoutProofs OffsetProofs TokenProofs.
Open Scope Z_scope.

Section LexPrinted.
Variable alnum : list Z.

(* [lexes st s off ts st' r off']: from state [st] at input [s], the lexer emits
   [ts] and goes on in state [st'] at input [r] — for every amount of fuel left *)
Definition lexes (st : lstate) (s : bytes) (off : Z) (ts : list token) (st' : lstate) (r : bytes) (off' : Z) : Prop :=
  exists k, forall F, lex_from alnum (k + F) st s off = ts ++ lex_from alnum F st' r off'.

Lemma lexes_refl st s off : lexes st s off [] st s off.
Proof. exists 0%nat. reflexivity. Qed.

Lemma lexes_trans st s off ts1 st1 r1 off1 ts2 st2 r2 off2 :
  lexes st s off ts1 st1 r1 off1 -> lexes st1 r1 off1 ts2 st2 r2 off2 -> lexes st s off (ts1 ++ ts2) st2 r2 off2.
Proof.
  intros [k1 H1] [k2 H2]. exists (k1 + k2)%nat. intro F. rewrite <- Nat.add_assoc, H1, H2, app_assoc. reflexivity.
Qed.

Lemma lexes_emit st s off tok st' r off' : lex_step1 alnum st s off = LEmit tok st' r off' -> lexes st s off [tok] st' r off'.
Proof. intro H. exists 1%nat. intro F. cbn [Nat.add lex_from]. rewrite H. reflexivity. Qed.

Lemma lexes_skip st s off st' r off' : lex_step1 alnum st s off = LSkip st' r off' -> lexes st s off [] st' r off'.
Proof. intro H. exists 1%nat. intro F. cbn [Nat.add lex_from]. rewrite H. reflexivity. Qed.

(* ---------- what the first byte rules out ---------- *)

Lemma no_slashes b s : byte_eqb x2f b = false -> starts_with slashes (b :: s) = false.
Proof.
  intro H. destruct s as [|c s].
  - change (starts_with slashes [b]) with (byte_eqb x2f b && false). rewrite H. reflexivity.
  - change (starts_with slashes (b :: c :: s)) with (byte_eqb x2f b && (byte_eqb x2f c && true)). rewrite H. reflexivity.
Qed.

Lemma no_ellipsis b s : byte_eqb b x2e = false -> match_ellipsis (b :: s) = None.
Proof. intro H. destruct s as [|c [|d s]]; cbn [match_ellipsis]; try reflexivity. rewrite H. reflexivity. Qed.

Lemma no_ident b s : is_alpha_ b = false -> match_ident (b :: s) = None.
Proof. intro H. cbn [match_ident]. rewrite H. reflexivity. Qed.

(* ---------- single-character tokens ---------- *)

Lemma step_lab r off : lex_step1 alnum LText (x3c :: r) off = LEmit (mk TLAB [x3c] off) LText r (off + 1).
Proof.
  unfold lex_step1. rewrite no_slashes, no_ellipsis, no_ident by reflexivity.
  destruct r as [|d r]; reflexivity.
Qed.

Lemma step_rab r off : lex_step1 alnum LText (x3e :: r) off = LEmit (mk TRAB [x3e] off) LText r (off + 1).
Proof.
  unfold lex_step1. rewrite no_slashes, no_ellipsis, no_ident by reflexivity.
  destruct r as [|d r]; reflexivity.
Qed.

Lemma step_blank st b r off : is_ws b = true -> lex_step1 alnum st (b :: r) off = LSkip st r (off + 1).
Proof.
  intro H. destruct (ws_cases b H) as [E|[E|[E|E]]]; subst b; unfold lex_step1;
    rewrite no_slashes by reflexivity; destruct st.
  all: try (destruct r as [|a [|c r]]; reflexivity).
  all: rewrite no_ellipsis, no_ident by reflexivity; destruct r as [|d r]; reflexivity.
Qed.

(* ---------- the type name, followed by the size ---------- *)


(* ---------- the type name, followed by the size ---------- *)

Ltac tag_step k w :=
  let t := eval vm_compute in (leaf_tag k w) in
  change (leaf_tag k w) with t; unfold lex_step1; cbn [app];
  rewrite no_slashes, no_ellipsis by reflexivity; reflexivity.

Lemma step_type k w r off : fmt_ok k w ->
  lex_step1 alnum LText (leaf_tag k w ++ x5b :: r) off =
  LEmit (mk TItemType (leaf_tag k w) off) LText (x5b :: r) (off + zlen (leaf_tag k w)).
Proof.
  intros Hf. destruct k; cbn in Hf.
  - subst w. tag_step KBin 1%nat.
  - subst w. tag_step KBool 1%nat.
  - destruct Hf as [->|[->|[->| ->]]]; [tag_step KInt 1%nat|tag_step KInt 2%nat|tag_step KInt 4%nat|tag_step KInt 8%nat].
  - destruct Hf as [->|[->|[->| ->]]]; [tag_step KUint 1%nat|tag_step KUint 2%nat|tag_step KUint 4%nat|tag_step KUint 8%nat].
  - destruct Hf as [->| ->]; [tag_step KFloat 4%nat|tag_step KFloat 8%nat].
Qed.

(* ---------- the size "[n]" ---------- *)

Lemma span_head_stops p (x : byte) s : p x = false -> span p (x :: s) = ([], x :: s).
Proof. intro H. cbn [span]. rewrite H. reflexivity. Qed.

Lemma digit_not_ws b : is_digit b = true -> is_ws b = false.
Proof.
  unfold is_digit, is_ws, bz. intro H. apply andb_true_iff in H as [A C]. apply Z.leb_le in A. apply Z.leb_le in C.
  repeat (apply orb_false_iff; split); apply Z.eqb_neq; lia.
Qed.

Lemma digit_not_space b : is_digit b = true -> is_space_rune (bz b) = false.
Proof.
  unfold is_digit, bz. intro H. apply andb_true_iff in H as [A C]. apply Z.leb_le in A. apply Z.leb_le in C.
  unfold is_space_rune, in_range.
  repeat match goal with |- context [?a <=? ?b] => destruct (Z.leb_spec a b); try lia end;
  repeat match goal with |- context [?a =? ?b] => destruct (Z.eqb_spec a b); try lia end; reflexivity.
Qed.

Lemma remove_spaces_id s : Forall (fun b => is_digit b = true \/ b = x5b \/ b = x5d) s -> remove_spaces s = s.
Proof.
  induction 1 as [|b s Hb _ IH]; [reflexivity|]. unfold remove_spaces in *. cbn [filter].
  assert (E : is_space_rune (bz b) = false).
  { destruct Hb as [Hd|[->| ->]]; [apply digit_not_space; exact Hd|reflexivity|reflexivity]. }
  rewrite E. cbn [negb]. rewrite IH. reflexivity.
Qed.

Lemma lex_size_printed n r : 0 <= n ->
  lex_size (x5b :: fmt_unsigned 10 n ++ x5d :: r) = Some (x5b :: fmt_unsigned 10 n ++ [x5d], r).
Proof.
  intro Hn. pose proof (fmt_unsigned_digits n Hn) as Hd.
  destruct (digits_val_fmt 10 n ltac:(lia) Hn) as [_ Hne].
  destruct (fmt_unsigned 10 n) as [|d ds] eqn:E; [congruence|]. clear Hne.
  inversion Hd as [|? ? Hd1 Hds]; subst.
  unfold lex_size.
  change ((d :: ds) ++ x5d :: r) with (d :: (ds ++ x5d :: r)).
  rewrite (span_head_stops is_ws d _ (digit_not_ws d Hd1)).
  change (d :: ds ++ x5d :: r) with ((d :: ds) ++ x5d :: r).
  rewrite (span_stop is_digit (d :: ds) x5d r) by (assumption || reflexivity).
  rewrite (span_head_stops is_ws x5d r) by reflexivity.
  assert (Hsw : starts_with [x2e; x2e] (x5d :: r) = false).
  { destruct r as [|c r]; [reflexivity|].
    change (starts_with [x2e; x2e] (x5d :: c :: r)) with (byte_eqb x2e x5d && (byte_eqb x2e c && true)). reflexivity. }
  rewrite Hsw. change (byte_eqb x5d x5d) with true. cbn [is_nil andb negb app]. rewrite ?app_nil_r. reflexivity.
Qed.

Lemma step_size n r off : 0 <= n ->
  lex_step1 alnum LText (x5b :: fmt_unsigned 10 n ++ x5d :: r) off =
  LEmit (mk TItemSize (x5b :: fmt_unsigned 10 n ++ [x5d]) off) LText r (off + zlen (x5b :: fmt_unsigned 10 n ++ [x5d])).
Proof.
  intro Hn. unfold lex_step1. rewrite no_slashes, no_ellipsis, no_ident by reflexivity.
  change (byte_eqb x5b x2b) with false. change (byte_eqb x5b x2d) with false.
  change (is_digit x5b) with false. change (byte_eqb x5b x2e) with false. cbn [orb andb].
  change (byte_eqb x5b x3c) with false. change (byte_eqb x5b x3e) with false. change (byte_eqb x5b x5b) with true. cbv iota.
  rewrite (lex_size_printed n r Hn). rewrite remove_spaces_id; [reflexivity|].
  constructor; [right; left; reflexivity|]. apply Forall_app. split.
  - apply Forall_impl with (P := fun c => is_digit c = true); [intros c Hc; left; exact Hc|apply fmt_unsigned_digits; exact Hn].
  - constructor; [right; right; reflexivity|constructor].
Qed.

(* ---------- numbers, followed by a blank or '>' ---------- *)

Definition delim (d : byte) : Prop := d = x20 \/ d = x3e \/ d = x0a.

Lemma delim_facts d r : delim d ->
  is_digit d = false /\ is_bindigit d = false /\ byte_eqb d x2e = false /\ byte_eqb (upper d) x45 = false /\
  byte_eqb (upper d) x58 = false /\ byte_eqb (upper d) x42 = false /\ byte_eqb (upper d) x4f = false /\
  byte_eqb d x2b = false /\ byte_eqb d x2d = false /\ byte_eqb d x30 = false /\ is_word d = false /\ byte_eqb d x5b = false /\
  (let '(rn, w) := decode_rune (d :: r) in is_alnum_rune alnum rn = false).
Proof. intros [->|[->| ->]]; repeat split; reflexivity. Qed.

Lemma digit_is_not b : is_digit b = true ->
  byte_eqb b x2b = false /\ byte_eqb b x2d = false /\ byte_eqb b x2e = false.
Proof.
  intro H. repeat split; destruct (byte_eqb b _) eqn:E; try reflexivity; apply byte_eqb_spec in E; subst b; discriminate.
Qed.

(* the tail of lexNumber once the digits are read: no fraction, no exponent, a delimiter follows *)
Lemma lex_number_decimal sg ds d r :
  (sg = [] \/ sg = [x2d]) -> Forall (fun b => is_digit b = true) ds ->
  (exists d0 ds', ds = d0 :: ds' /\ byte_eqb d0 x30 = false) \/ ds = [x30] ->
  delim d -> lex_number alnum (sg ++ ds ++ d :: r) = (sg ++ ds, d :: r, true).
Proof.
  intros Hsg Hds Hfirst Hd.
  destruct (delim_facts d r Hd) as (D1 & D2 & D3 & D4 & D5 & D6 & D7 & D8 & D9 & D10 & D11 & D12 & D13).
  assert (Hhead : exists d0 ds', ds = d0 :: ds' /\ is_digit d0 = true).
  { destruct Hfirst as [(d0 & ds' & -> & _)| ->]; [inversion Hds; eauto|eexists; eexists; split; reflexivity]. }
  destruct Hhead as (d0 & ds' & Eds & Hd0). destruct (digit_is_not d0 Hd0) as (N1 & N2 & N3).
  unfold lex_number.
  (* the sign *)
  assert (Hs : accept1 (fun b => byte_eqb b x2b || byte_eqb b x2d) (sg ++ ds ++ d :: r) = (sg, ds ++ d :: r)).
  { destruct Hsg as [->| ->]; [|reflexivity]. subst ds. cbn [app accept1]. rewrite N1, N2. reflexivity. }
  rewrite Hs. clear Hs.
  destruct Hfirst as [(e0 & es & E & Hnz)| ->].
  - (* a first digit that is not 0 *)
    rewrite E in *. injection Eds as -> ->.
    cbn [app accept1]. rewrite Hnz.
    change (d0 :: ds' ++ d :: r) with ((d0 :: ds') ++ d :: r).
    rewrite (span_stop is_digit (d0 :: ds') d r Hds D1).
    repeat (cbn [accept1 app]; rewrite ?D3, ?D4; cbv beta iota zeta). rewrite ?app_nil_r.
    destruct (decode_rune (d :: r)) as [rn w]. rewrite D13. reflexivity.
  - (* the number 0 *)
    cbn [app accept1]. change (byte_eqb x30 x30) with true. cbv iota. rewrite D5, D6, D7.
    rewrite (span_head_stops is_digit d r D1).
    repeat (cbn [accept1 app]; rewrite ?D3, ?D4; cbv beta iota zeta). rewrite ?app_nil_r.
    destruct (decode_rune (d :: r)) as [rn w]. rewrite D13. reflexivity.
Qed.

(* the shape of a printed decimal: an optional '-', then digits whose first is not 0 unless the number is 0 *)
Lemma fmt_int_shape v : exists sg ds, fmt_int v = sg ++ ds /\ (sg = [] \/ sg = [x2d]) /\
  Forall (fun b => is_digit b = true) ds /\
  ((exists d0 ds', ds = d0 :: ds' /\ byte_eqb d0 x30 = false) \/ ds = [x30]).
Proof.
  assert (Hpos : forall n, 0 < n -> exists d0 ds', fmt_unsigned 10 n = d0 :: ds' /\ byte_eqb d0 x30 = false).
  { intros n Hn. unfold fmt_unsigned.
    destruct (first_digit_nonzero (S (Z.to_nat (Z.log2 n))) 10 ltac:(lia) n []) as (d & r & E & Hd);
      [split; [lia|apply log2_fuel_enough; lia]|].
    exists (digit_byte d), r. split; [exact E|apply digit_byte_not_zero; lia]. }
  unfold fmt_int. destruct (Z.ltb_spec v 0).
  - exists [x2d], (fmt_unsigned 10 (- v)). split; [reflexivity|]. split; [right; reflexivity|].
    split; [apply fmt_unsigned_digits; lia|left; apply Hpos; lia].
  - exists [], (fmt_unsigned 10 v). split; [reflexivity|]. split; [left; reflexivity|].
    split; [apply fmt_unsigned_digits; lia|].
    destruct (Z.eq_dec v 0) as [->|Hne]; [right; reflexivity|left; apply Hpos; lia].
Qed.

Lemma step_decimal v d r off : delim d ->
  lex_step1 alnum LText (fmt_int v ++ d :: r) off = LEmit (mk TNumber (fmt_int v) off) LText (d :: r) (off + zlen (fmt_int v)).
Proof.
  intro Hd. destruct (fmt_int_shape v) as (sg & ds & E & Hsg & Hds & Hfirst). rewrite E, <- app_assoc.
  pose proof (lex_number_decimal sg ds d r Hsg Hds Hfirst Hd) as Hl.
  assert (Hhead : exists b t, sg ++ ds ++ d :: r = b :: t /\ (byte_eqb b x2d = true \/ is_digit b = true)).
  { destruct Hsg as [->| ->].
    - destruct Hfirst as [(d0 & ds' & -> & _)| ->]; [inversion Hds; subst|]; eexists; eexists; (split; [reflexivity|right]); [assumption|reflexivity].
    - eexists; eexists. split; [reflexivity|left; reflexivity]. }
  destruct Hhead as (b & t & Eb & Hb). 
  assert (Hb' : byte_eqb x2f b = false /\ byte_eqb b x2e = false /\ is_alpha_ b = false /\
                (byte_eqb b x2b || byte_eqb b x2d || is_digit b = true)).
  { destruct Hb as [Hb|Hb].
    - apply byte_eqb_spec in Hb. subst b. repeat split; reflexivity.
    - destruct (digit_is_not b Hb) as (N1 & N2 & N3). repeat split; try assumption.
      + destruct (byte_eqb x2f b) eqn:Ex; [|reflexivity]. apply byte_eqb_spec in Ex. subst b. discriminate.
      + unfold is_digit, is_alpha_ in *. apply andb_true_iff in Hb as [A C]. apply Z.leb_le in A. apply Z.leb_le in C.
        repeat (apply orb_false_iff; split); try (apply andb_false_iff; left; apply Z.leb_gt; lia); apply Z.eqb_neq; lia.
      + rewrite Hb. apply orb_true_r. }
  destruct Hb' as (B1 & B2 & B3 & B4).
  unfold lex_step1. rewrite Eb. rewrite (no_slashes b t B1), (no_ellipsis b t B2), (no_ident b t B3).
  match goal with |- context [if ?c then _ else _] => replace c with true end.
  2:{ symmetry. rewrite B4. reflexivity. }
  rewrite <- Eb, Hl. reflexivity.
Qed.

(* ---------- binary elements "0b..." ---------- *)

Lemma fmt_bin_digits n : 0 <= n -> Forall (fun c => is_bindigit c = true) (fmt_bin n) /\ fmt_bin n <> [].
Proof.
  intro Hn. split.
  - unfold fmt_bin, fmt_unsigned. generalize (S (Z.to_nat (Z.log2 n))). intro fuel.
    assert (G : forall acc m, 0 <= m -> Forall (fun c => is_bindigit c = true) acc ->
                Forall (fun c => is_bindigit c = true) (fmt_nat_fuel fuel 2 m acc)).
    { induction fuel as [|f IH]; intros acc m Hm Ha; [exact Ha|]. cbn [fmt_nat_fuel].
      assert (Hd : forall d, 0 <= d < 2 -> is_bindigit (digit_byte d) = true).
      { intros d Hd. assert (E : d = 0 \/ d = 1) by lia. destruct E as [->| ->]; reflexivity. }
      destruct (Z.ltb_spec m 2).
      - constructor; [apply Hd; lia|exact Ha].
      - apply IH; [apply Z.div_pos; lia|]. constructor; [apply Hd; apply Z.mod_pos_bound; lia|exact Ha]. }
    apply G; [exact Hn|constructor].
  - destruct (digits_val_fmt 2 n ltac:(lia) Hn) as [_ Hne]. exact Hne.
Qed.

Lemma lex_number_binary bits d r : Forall (fun b => is_bindigit b = true) bits -> delim d ->
  lex_number alnum (x30 :: x62 :: bits ++ d :: r) = (x30 :: x62 :: bits, d :: r, true).
Proof.
  intros Hb Hd. destruct (delim_facts d r Hd) as (D1 & D2 & D3 & D4 & D5 & D6 & D7 & D8 & D9 & D10 & D11 & D12 & D13).
  unfold lex_number. cbn [accept1]. change (byte_eqb x30 x2b || byte_eqb x30 x2d) with false. cbv iota.
  cbn [accept1]. change (byte_eqb x30 x30) with true. cbv iota.
  change (byte_eqb (upper x62) x58) with false. change (byte_eqb (upper x62) x42) with true. cbv iota.
  rewrite (span_stop is_bindigit bits d r Hb D2).
  repeat (cbn [accept1 app]; rewrite ?D3, ?D4; cbv beta iota zeta). rewrite ?app_nil_r.
  destruct (decode_rune (d :: r)) as [rn w]. rewrite D13. reflexivity.
Qed.

Lemma step_binary v d r off : 0 <= v -> delim d ->
  lex_step1 alnum LText (x30 :: x62 :: fmt_bin v ++ d :: r) off =
  LEmit (mk TNumber (x30 :: x62 :: fmt_bin v) off) LText (d :: r) (off + zlen (x30 :: x62 :: fmt_bin v)).
Proof.
  intros Hv Hd. destruct (fmt_bin_digits v Hv) as [Hb _].
  unfold lex_step1. rewrite no_slashes, no_ellipsis, no_ident by reflexivity.
  change (byte_eqb x30 x2b || byte_eqb x30 x2d || is_digit x30) with true. cbn [orb]. cbv iota.
  rewrite (lex_number_binary (fmt_bin v) d r Hb Hd). reflexivity.
Qed.

(* ---------- boolean elements ---------- *)

Lemma step_bool (v : Z) d r off : delim d ->
  lex_step1 alnum LText ((if v =? 0 then [x46] else [x54]) ++ d :: r) off =
  LEmit (mk TBool (if v =? 0 then [x46] else [x54]) off) LText (d :: r) (off + 1).
Proof.
  intro Hd. destruct (delim_facts d r Hd) as (D1 & D2 & D3 & D4 & D5 & D6 & D7 & D8 & D9 & D10 & D11 & D12 & D13).
  destruct (v =? 0); unfold lex_step1; cbn [app]; rewrite no_slashes, no_ellipsis by reflexivity;
    cbn [match_ident]; (change (is_alpha_ x46) with true || change (is_alpha_ x54) with true); cbv iota;
    rewrite (span_head_stops is_word d r D11); reflexivity.
Qed.

(* ---------- variable names ---------- *)

Definition is_group (g : bytes) : Prop :=
  exists ds, g = x5b :: ds ++ [x5d] /\ ds <> [] /\ Forall (fun b => is_digit b = true) ds.

Lemma drop_while_span p s : drop_while p s = snd (span p s).
Proof. induction s as [|b s IH]; [reflexivity|]. cbn. destruct (p b); [rewrite IH; destruct (span p s); reflexivity|reflexivity]. Qed.

Lemma span_forall p : forall s a c, span p s = (a, c) -> Forall (fun x => p x = true) a.
Proof.
  induction s as [|b s IH]; intros a c H; cbn in H; [inversion H; constructor|].
  destruct (p b) eqn:E; [|inversion H; constructor].
  destruct (span p s) as [a' c'] eqn:E2. inversion H; subst. constructor; [exact E|eapply IH; reflexivity].
Qed.

Lemma strip_index_group s r' : strip_index s = Some r' -> exists g, is_group g /\ s = g ++ r'.
Proof.
  unfold strip_index. destruct s as [|b r0]; [discriminate|]. destruct (byte_eqb b x5b) eqn:Eb; [|discriminate].
  apply byte_eqb_spec in Eb. subst b. destruct r0 as [|d0 r1]; [discriminate|].
  destruct (is_digit d0) eqn:Ed; [|discriminate]. rewrite drop_while_span.
  destruct (span is_digit (d0 :: r1)) as [ds rest0] eqn:Es. cbn [snd].
  pose proof (span_eq _ _ _ _ Es) as Heq. pose proof (span_forall _ _ _ _ Es) as Hall.
  destruct rest0 as [|c r2]; [discriminate|]. destruct (byte_eqb c x5d) eqn:Ec; [|discriminate].
  apply byte_eqb_spec in Ec. subst c. intro H; inversion H; subst r2.
  exists (x5b :: ds ++ [x5d]). split.
  - exists ds. split; [reflexivity|]. split; [|exact Hall]. cbn [span] in Es. rewrite Ed in Es.
    destruct (span is_digit r1); inversion Es. discriminate.
  - cbn [app]. rewrite Heq, <- app_assoc. reflexivity.
Qed.

Lemma all_indices_groups : forall f idx, all_indices f idx = true -> exists gs, idx = concat gs /\ Forall is_group gs.
Proof.
  induction f as [|f IH]; intros idx H; destruct idx as [|b r]; try (exists []; split; [reflexivity|constructor]); cbn [all_indices] in H; [discriminate|].
  destruct (strip_index (b :: r)) as [r'|] eqn:E; [|discriminate].
  destruct (strip_index_group _ _ E) as [g [Hg Eg]]. destruct (IH r' H) as [gs [Egs Hgs]].
  exists (g :: gs). split; [cbn [concat]; rewrite Eg, Egs; reflexivity|constructor; assumption].
Qed.

Lemma match_index_group ds tail : ds <> [] -> Forall (fun b => is_digit b = true) ds ->
  match_index (x5b :: ds ++ x5d :: tail) = Some (x5b :: ds ++ [x5d], tail).
Proof.
  intros Hne Hd. unfold match_index. change (byte_eqb x5b x5b) with true. cbv iota.
  rewrite (span_stop is_digit ds x5d tail Hd) by reflexivity.
  destruct ds as [|x ds]; [congruence|]. change (byte_eqb x5d x5d) with true. reflexivity.
Qed.

Lemma match_indices_groups tail : match_index tail = None -> forall gs fuel, Forall is_group gs -> (length gs <= fuel)%nat ->
  match_indices fuel (concat gs ++ tail) = (concat gs, tail).
Proof.
  intros Ht. induction gs as [|g gs IH]; intros fuel Hg Hf.
  - cbn [concat app]. destruct fuel; cbn [match_indices]; [reflexivity|]. rewrite Ht. reflexivity.
  - inversion Hg as [|? ? Hg1 Hgs]; subst. destruct fuel as [|fuel]; [cbn in Hf; lia|]. cbn [match_indices concat].
    destruct Hg1 as (ds & -> & Hne & Hd).
    rewrite <- app_assoc. change ((x5b :: ds ++ [x5d]) ++ concat gs ++ tail) with (x5b :: (ds ++ [x5d]) ++ concat gs ++ tail).
    rewrite <- (app_assoc ds [x5d]). cbn [app].
    rewrite (match_index_group ds (concat gs ++ tail) Hne Hd).
    rewrite (IH fuel Hgs ltac:(cbn in Hf; lia)). reflexivity.
Qed.

Definition ident_part (n : bytes) : bytes := match n with c :: r => c :: fst (span is_word r) | [] => [] end.

(* a name the printer can emit and the lexer reads back as a variable: a valid
   variable name whose identifier part is not a type name or a boolean *)
Definition sml_var (n : bytes) : Prop :=
  is_valid_var_name n = true /\ mem_bytes (to_upper (ident_part n)) item_types = false /\
  (bytes_eqb (to_upper (ident_part n)) [x54] || bytes_eqb (to_upper (ident_part n)) [x46]) = false.

Lemma concat_length_ge (gs : list bytes) : Forall is_group gs -> (length gs <= length (concat gs))%nat.
Proof.
  induction 1 as [|g gs Hg _ IH]; [cbn; lia|]. cbn [concat length]. rewrite app_length.
  destruct Hg as (ds & -> & _ & _). cbn [length]. lia.
Qed.

Lemma alpha_facts c : is_alpha_ c = true -> byte_eqb x2f c = false /\ byte_eqb c x2e = false.
Proof.
  intro H. split; destruct (byte_eqb _ _) eqn:E; try reflexivity; apply byte_eqb_spec in E; subst c; discriminate.
Qed.

Lemma step_var n d r off : sml_var n -> delim d ->
  lex_step1 alnum LText (n ++ d :: r) off = LEmit (mk TVariable n off) LText (d :: r) (off + zlen n).
Proof.
  intros (Hv & Hty & Hbool) Hd.
  destruct (delim_facts d r Hd) as (D1 & D2 & D3 & D4 & D5 & D6 & D7 & D8 & D9 & D10 & D11 & D12 & D13).
  destruct n as [|c r0]; [discriminate|]. cbn [is_valid_var_name] in Hv. apply andb_true_iff in Hv as [Hc Hidx].
  destruct (alpha_facts c Hc) as [A1 A2]. rewrite drop_while_span in Hidx.
  destruct (span is_word r0) as [w idx] eqn:Es. cbn [snd] in Hidx. cbn [ident_part fst] in Hty, Hbool. rewrite Es in Hty, Hbool. cbn [fst] in Hty, Hbool.
  pose proof (span_eq _ _ _ _ Es) as Er0. pose proof (span_forall _ _ _ _ Es) as Hw.
  destruct (all_indices_groups _ _ Hidx) as [gs [Egs Hgs]].
  (* the identifier stops where the word characters stop *)
  assert (Hspan : span is_word (r0 ++ d :: r) = (w, idx ++ d :: r)).
  { rewrite Er0, <- app_assoc. destruct idx as [|x idx'].
    - cbn [app]. apply span_stop; assumption.
    - assert (Hx : is_word x = false).
      { destruct gs as [|g gs']; [discriminate|]. inversion Hgs as [|? ? Hg _]; subst. destruct Hg as (ds & -> & _ & _).
        cbn [concat app] in Egs. inversion Egs. reflexivity. }
      cbn [app]. apply span_stop; assumption. }
  unfold lex_step1. cbn [app]. rewrite (no_slashes c _ A1), (no_ellipsis c _ A2).
  cbn [match_ident]. rewrite Hc, Hspan, Hty, Hbool.
  assert (Hmi : match_indices (length (idx ++ d :: r)) (idx ++ d :: r) = (idx, d :: r)).
  { rewrite Egs. apply match_indices_groups; [|exact Hgs|].
    - unfold match_index. rewrite D12. reflexivity.
    - rewrite app_length. pose proof (concat_length_ge gs Hgs). lia. }
  rewrite Hmi. rewrite Er0. f_equal. unfold zlen. cbn [length]. rewrite !app_length. cbn [length]. lia.
Qed.

(* ---------- a whole printed value item ---------- *)

Definition zoff (t : token) : token := re (fun _ => 0) t.

Variable fl : nat -> Z -> bytes.          (* strconv.FormatFloat, whatever it prints *)

Definition slot_text (k : kind) (w : nat) (x : slot) : bytes :=
  match x with
  | SX n => n
  | SV v => match k with
            | KBool => if v =? 0 then [x46] else [x54]
            | KBin => x30 :: x62 :: fmt_bin v
            | KFloat => fl w v
            | _ => fmt_int v
            end
  end.

Fixpoint elems_text (k : kind) (w : nat) (ys : list slot) : bytes :=
  match ys with
  | [] => []
  | [x] => slot_text k w x
  | x :: r => slot_text k w x ++ [x20] ++ elems_text k w r
  end.

(* what is assumed of the text of a float: followed by a blank, '>' or a line
   feed the lexer reads it as one number token (the other oracle hypothesis is
   [slot_scans]) *)
Definition float_lexes (t : bytes) : Prop := forall d r off, delim d ->
  lex_step1 alnum LText (t ++ d :: r) off = LEmit (mk TNumber t off) LText (d :: r) (off + zlen t).

Definition slot_lexable (k : kind) (w : nat) (x : slot) : Prop :=
  match x with
  | SX n => sml_var n
  | SV v => match k with KBin => 0 <= v | KFloat => float_lexes (fl w v) | _ => True end
  end.

Lemma slot_step k w x d r off : slot_lexable k w x -> delim d ->
  exists tok, lex_step1 alnum LText (slot_text k w x ++ d :: r) off = LEmit tok LText (d :: r) (off + zlen (slot_text k w x)) /\
              zoff tok = slot_token fl k w x.
Proof.
  intros Hx Hd. destruct x as [v|n]; cbn [slot_text slot_token slot_lexable] in *.
  - destruct k.
    + eexists. split; [apply (step_binary v d r off Hx Hd)|reflexivity].
    + exists (mk TBool (if v =? 0 then [x46] else [x54]) off). split; [|reflexivity].
      replace (off + zlen (if v =? 0 then [x46] else [x54])) with (off + 1) by (destruct (v =? 0); reflexivity).
      apply (step_bool v d r off Hd).
    + eexists. split; [apply (step_decimal v d r off Hd)|reflexivity].
    + eexists. split; [apply (step_decimal v d r off Hd)|reflexivity].
    + eexists. split; [apply (Hx d r off Hd)|reflexivity].
  - eexists. split; [apply (step_var n d r off Hx Hd)|reflexivity].
Qed.

Lemma lexes_elems k w : forall ys r off, ys <> [] -> Forall (slot_lexable k w) ys ->
  exists ts, lexes LText (elems_text k w ys ++ x3e :: r) off ts LText (x3e :: r) (off + zlen (elems_text k w ys)) /\
             map zoff ts = map (slot_token fl k w) ys.
Proof.
  induction ys as [|x ys IH]; intros r off Hne Hl; [congruence|].
  inversion Hl as [|? ? Hx Hys]; subst. destruct ys as [|y ys].
  - cbn [elems_text]. destruct (slot_step k w x x3e r off Hx (or_intror (or_introl eq_refl))) as [tok [E Z0]].
    exists [tok]. split; [apply lexes_emit; exact E|cbn [map]; rewrite Z0; reflexivity].
  - change (elems_text k w (x :: y :: ys)) with (slot_text k w x ++ [x20] ++ elems_text k w (y :: ys)).
    rewrite <- !app_assoc. cbn [app].
    destruct (slot_step k w x x20 (elems_text k w (y :: ys) ++ x3e :: r) off Hx (or_introl eq_refl)) as [tok [E Z0]].
    destruct (IH r (off + zlen (slot_text k w x) + 1) ltac:(discriminate) Hys) as [ts [L Z1]].
    exists (tok :: ts). split.
    + change (tok :: ts) with ([tok] ++ [] ++ ts).
      eapply lexes_trans; [apply lexes_emit; exact E|].
      eapply lexes_trans; [apply lexes_skip; apply step_blank; reflexivity|].
      replace (off + zlen (slot_text k w x ++ x20 :: elems_text k w (y :: ys))) with (off + zlen (slot_text k w x) + 1 + zlen (elems_text k w (y :: ys))).
      * exact L.
      * unfold zlen. rewrite app_length. cbn [length]. lia.
    + cbn [map]. rewrite Z0, Z1. reflexivity.
Qed.

(* the printed form of a value item *)
Definition leaf_text (k : kind) (w : nat) (ys : list slot) : bytes :=
  match ys with
  | [] => [x3c] ++ leaf_tag k w ++ B"[0]>"%string
  | _ => [x3c] ++ leaf_tag k w ++ [x5b] ++ fmt_int (Z.of_nat (length ys)) ++ [x5d; x20] ++ elems_text k w ys ++ [x3e]
  end.

Theorem lexes_leaf k w ys r off : fmt_ok k w -> Forall (slot_lexable k w) ys ->
  exists ts, lexes LText (leaf_text k w ys ++ r) off ts LText r (off + zlen (leaf_text k w ys)) /\
             map zoff ts = leaf_tokens fl k w ys.
Proof.
  intros Hf Hl.
  assert (Hfi : forall n : nat, fmt_int (Z.of_nat n) = fmt_unsigned 10 (Z.of_nat n)).
  { intro n. unfold fmt_int. destruct (Z.ltb_spec (Z.of_nat n) 0); [lia|reflexivity]. }
  destruct ys as [|y ys].
  - (* "<TAG[0]>" *)
    unfold leaf_text, leaf_tokens. cbn [length map app]. change (B"[0]>"%string) with (x5b :: fmt_unsigned 10 0 ++ x5d :: [x3e]).
    rewrite <- !app_assoc. cbn [app].
    eexists. split.
    + eapply lexes_trans; [apply lexes_emit; apply step_lab|].
      eapply lexes_trans; [apply lexes_emit; apply (step_type k w _ _ Hf)|].
      eapply lexes_trans; [apply lexes_emit; apply (step_size 0); lia|].
      eapply lexes_trans; [apply lexes_emit; apply step_rab|].
      match goal with |- lexes _ _ ?a _ _ _ ?b => replace b with a; [apply lexes_refl|] end.
      unfold zlen. repeat (cbn [length]; rewrite ?app_length). cbn [length]. lia.
    + reflexivity.
  - unfold leaf_text. rewrite Hfi. rewrite <- !app_assoc. cbn [app].
    set (n := Z.of_nat (length (y :: ys))).
    destruct (lexes_elems k w (y :: ys) r (off + 1 + zlen (leaf_tag k w) + zlen (x5b :: fmt_unsigned 10 n ++ [x5d]) + 1)
                ltac:(discriminate) Hl) as [ts [L Z1]].
    exists ([mk TLAB [x3c] off] ++ [mk TItemType (leaf_tag k w) (off + 1)] ++
            [mk TItemSize (x5b :: fmt_unsigned 10 n ++ [x5d]) (off + 1 + zlen (leaf_tag k w))] ++ [] ++ ts ++
            [mk TRAB [x3e] (off + 1 + zlen (leaf_tag k w) + zlen (x5b :: fmt_unsigned 10 n ++ [x5d]) + 1 + zlen (elems_text k w (y :: ys)))]).
    split.
    + eapply lexes_trans; [apply lexes_emit; apply step_lab|].
      eapply lexes_trans; [apply lexes_emit; apply (step_type k w _ _ Hf)|].
      eapply lexes_trans; [apply lexes_emit; apply (step_size n); subst n; lia|].
      eapply lexes_trans; [apply lexes_skip; apply step_blank; reflexivity|].
      eapply lexes_trans; [exact L|].
      match goal with |- lexes _ _ _ _ _ _ ?b =>
        replace b with (off + 1 + zlen (leaf_tag k w) + zlen (x5b :: fmt_unsigned 10 n ++ [x5d]) + 1 + zlen (elems_text k w (y :: ys)) + 1) end.
      * apply lexes_emit. apply step_rab.
      * unfold zlen. repeat (cbn [length]; rewrite ?app_length). cbn [length]. lia.
    + unfold leaf_tokens. rewrite !map_app. cbn [map]. rewrite Z1. reflexivity.
Qed.

(* the text of that item is what the printer model prints *)
Lemma render_elems k w : forall ys, render fl (join_pieces (map (print_slot k w) ys)) = elems_text k w ys.
Proof.
  induction ys as [|x ys IH]; [reflexivity|].
  assert (Hx : render fl (print_slot k w x) = slot_text k w x).
  { destruct x as [v|n]; [destruct k|]; cbn; rewrite ?app_nil_r; reflexivity. }
  destruct ys as [|y ys].
  - cbn [map join_pieces elems_text]. exact Hx.
  - cbn [map] in *. rewrite join_pieces_cons2, render_app, Hx.
    change (render fl (PT sp :: ?a)) with (sp ++ render fl a). rewrite IH. reflexivity.
Qed.

Lemma print_leaf_text level k w ys :
  render fl (print_item_at level (ILeaf k w ys)) = leaf_text k w ys.
Proof.
  destruct ys as [|y ys].
  - cbn. rewrite app_nil_r. reflexivity.
  - remember (y :: ys) as zs eqn:Ez.
    assert (E : print_item_at level (ILeaf k w zs) =
                PT ([x3c] ++ leaf_tag k w ++ [x5b] ++ fmt_int (Z.of_nat (length zs)) ++ [x5d; x20])
                :: join_pieces (map (print_slot k w) zs) ++ [PT [x3e]]) by (subst zs; reflexivity).
    rewrite E, render_cons, render_app, (render_elems k w zs). unfold leaf_text. subst zs.
    cbn [render flat_map]. rewrite app_nil_r, <- !app_assoc. reflexivity.
Qed.
End LexPrinted.

Lemma zlen_app (a b : bytes) : zlen (a ++ b) = zlen a + zlen b.
Proof. unfold zlen. rewrite app_length. lia. Qed.
