(* AsciiLex.v — the lexer reads the printed form of ASCII items and ASCII
   variables back into their tokens (C04, character level). *)
From Secs Require Import Ast FloatProofs Fill Utf8 Msg WireSpec WireLemmas WireValues HeaderProofs WireEnc WireDec MsgProofs AstProofs FillProofs FillCompose PrintProofs.
From Secs Require Import Lexer Parser SmlNumbers SmlProofs LexProofs ParseProofs LayoutProofs OffsetProofs TokenProofs AsciiTokens LexPrinted.
Open Scope Z_scope.

(* ---------- characters ---------- *)

Section AsciiLex.
Variable alnum : list Z.

Lemma step_A d r off : is_word d = false ->
  lex_step1 alnum LText (x41 :: d :: r) off = LEmit (mk TItemType [x41] off) LText (d :: r) (off + 1).
Proof.
  intro Hd. unfold lex_step1. rewrite no_slashes, no_ellipsis by reflexivity.
  cbn [match_ident]. change (is_alpha_ x41) with true. cbv iota. rewrite (span_head_stops is_word d r Hd). reflexivity.
Qed.

Lemma printable_facts b : is_printable b = true ->
  byte_eqb b x22 = false /\ byte_eqb b x0d = false /\ byte_eqb b x0a = false.
Proof.
  unfold is_printable. intro H. apply negb_true_iff in H. apply orb_false_iff in H as [H H3]. apply orb_false_iff in H as [H1 H2].
  apply Z.ltb_ge in H1. apply Z.eqb_neq in H2. apply Z.eqb_neq in H3.
  repeat split; destruct (byte_eqb b _) eqn:E; try reflexivity; apply byte_eqb_spec in E; subst b; cbn in *; lia.
Qed.

(* a quoted run of printable characters *)
Lemma step_quoted run rest off : Forall (fun b => is_printable b = true) run ->
  lex_step1 alnum LText (quoted run ++ rest) off = LEmit (mk TQuoted (quoted run) off) LText rest (off + zlen (quoted run)).
Proof.
  intro Hp. unfold quoted. cbn [app]. rewrite <- app_assoc. cbn [app].
  unfold lex_step1. rewrite no_slashes, no_ellipsis, no_ident by reflexivity.
  assert (Hq : lex_quoted (x22 :: run ++ x22 :: rest) = Some (x22 :: run ++ [x22], rest)).
  { unfold lex_quoted.
    rewrite (span_stop (fun b => negb (byte_eqb b x22)) run x22 rest).
    - assert (He : existsb (fun b => byte_eqb b x0d || byte_eqb b x0a) run = false).
      { clear -Hp. induction Hp as [|b run Hb _ IH]; [reflexivity|]. cbn [existsb]. destruct (printable_facts b Hb) as (_ & A & C). rewrite A, C, IH. reflexivity. }
      rewrite He. reflexivity.
    - eapply Forall_impl; [|exact Hp]. intros b Hb. cbv beta. destruct (printable_facts b Hb) as (A & _). rewrite A. reflexivity.
    - reflexivity. }
  destruct (run ++ x22 :: rest) as [|d0 r0] eqn:Er; [destruct run; discriminate|].
  change (byte_eqb x22 x2b) with false. change (byte_eqb x22 x2d) with false. change (is_digit x22) with false.
  change (byte_eqb x22 x2e) with false. cbn [orb andb].
  change (byte_eqb x22 x3c) with false. change (byte_eqb x22 x3e) with false. change (byte_eqb x22 x5b) with false.
  change (byte_eqb x22 x22) with true. cbv iota. rewrite Hq. reflexivity.
Qed.

Definition hex_step_ok (n : Z) : bool :=
  forallb is_hexdigit (fmt_hex2 n).

Lemma hex_digits_all : forallb hex_step_ok (map Z.of_nat (seq 0 256)) = true.
Proof. vm_compute. reflexivity. Qed.

Lemma hex2_digits b : Forall (fun c => is_hexdigit c = true) (fmt_hex2 (b2z b)).
Proof.
  pose proof (b2z_range b) as Hr. pose proof hex_digits_all as H. rewrite forallb_forall in H.
  assert (Hin : In (b2z b) (map Z.of_nat (seq 0 256))).
  { apply in_map_iff. exists (Z.to_nat (b2z b)). split; [lia|]. apply in_seq. lia. }
  specialize (H _ Hin). unfold hex_step_ok in H. rewrite forallb_forall in H. apply Forall_forall. exact H.
Qed.

(* "0xNN" followed by a blank or '>' *)
Lemma step_hex b d r off : delim d ->
  lex_step1 alnum LText (hexlit b ++ d :: r) off = LEmit (mk TNumber (hexlit b) off) LText (d :: r) (off + zlen (hexlit b)).
Proof.
  intro Hd. destruct (delim_facts alnum d r Hd) as (D1 & D2 & D3 & D4 & D5 & D6 & D7 & D8 & D9 & D10 & D11 & D12 & D13).
  assert (Dh : is_hexdigit d = false) by (destruct Hd as [->|[->| ->]]; reflexivity).
  unfold hexlit. cbn [app].
  assert (Hl : lex_number alnum (x30 :: x78 :: fmt_hex2 (b2z b) ++ d :: r) = (x30 :: x78 :: fmt_hex2 (b2z b), d :: r, true)).
  { unfold lex_number. cbn [accept1]. change (byte_eqb x30 x2b || byte_eqb x30 x2d) with false. cbv iota.
    cbn [accept1]. change (byte_eqb x30 x30) with true. cbv iota.
    change (byte_eqb (upper x78) x58) with true. cbv iota.
    rewrite (span_stop is_hexdigit (fmt_hex2 (b2z b)) d r (hex2_digits b) Dh).
    repeat (cbn [accept1 app]; rewrite ?D3, ?D4; cbv beta iota zeta). rewrite ?app_nil_r.
    destruct (decode_rune (d :: r)) as [rn w]. rewrite D13. reflexivity. }
  unfold lex_step1. rewrite no_slashes, no_ellipsis, no_ident by reflexivity.
  change (byte_eqb x30 x2b || byte_eqb x30 x2d || is_digit x30) with true. cbn [orb]. cbv iota.
  rewrite Hl. reflexivity.
Qed.

Lemma atext_head s r : exists d rest, atext s None ++ x3e :: r = d :: rest /\ delim d.
Proof.
  destruct s as [|b t]; cbn [atext app].
  - eexists; eexists. split; [reflexivity|right; left; reflexivity].
  - destruct (is_printable b).
    + (* an open run starts with a blank *)
      assert (H : forall t run tail, exists rest, atext t (Some run) ++ tail = x20 :: rest).
      { clear. induction t as [|c t IH]; intros run tail; cbn [atext]; [eexists; reflexivity|].
        destruct (is_printable c); [apply IH|eexists; reflexivity]. }
      destruct (H t [b] (x3e :: r)) as [rest E]. exists x20, rest. split; [exact E|left; reflexivity].
    + eexists; eexists. split; [reflexivity|left; reflexivity].
Qed.

Lemma lexes_atext : forall s (run : option bytes) r off, Forall (fun b => is_printable b = true) (match run with Some x => x | None => [] end) ->
  exists ts, lexes alnum LText (atext s run ++ x3e :: r) off ts LText (x3e :: r) (off + zlen (atext s run)) /\
             map zoff ts = atoks s run.
Proof.
  induction s as [|b t IH]; intros run r off Hrun; cbn [atext atoks].
  - destruct run as [x|].
    + cbn [app]. exists ([] ++ [mk TQuoted (quoted x) (off + 1)]). split; [|reflexivity].
      eapply lexes_trans; [apply lexes_skip; apply step_blank; reflexivity|].
      replace (off + zlen (x20 :: quoted x)) with (off + 1 + zlen (quoted x)) by (unfold zlen; cbn [length]; lia).
      apply lexes_emit. apply step_quoted. exact Hrun.
    + exists []. split; [|reflexivity]. replace (off + zlen []) with off by (unfold zlen; cbn [length]; lia). apply lexes_refl.
  - destruct (is_printable b) eqn:Eb.
    + apply IH. destruct run as [x|]; [apply Forall_app; split; [exact Hrun|repeat constructor; exact Eb]|repeat constructor; exact Eb].
    + destruct (atext_head t r) as (d & rest & Ed & Hd).
      destruct (IH None r (off + zlen ((match run with Some x => x20 :: quoted x | None => [] end) ++ x20 :: hexlit b)) ltac:(constructor)) as [t2 [L2 Z2]].
      assert (Hst : forall o, lex_step1 alnum LText (hexlit b ++ atext t None ++ x3e :: r) o =
                    LEmit (mk TNumber (hexlit b) o) LText (atext t None ++ x3e :: r) (o + zlen (hexlit b))).
      { intro o. rewrite Ed. apply (step_hex b d rest o Hd). }
      destruct run as [x|].
      * cbn [app]. rewrite <- !app_assoc. cbn [app].
        exists ([] ++ [mk TQuoted (quoted x) (off + 1)] ++ [] ++ [mk TNumber (hexlit b) (off + 1 + zlen (quoted x) + 1)] ++ t2). split.
        -- eapply lexes_trans; [apply lexes_skip; apply step_blank; reflexivity|].
           eapply lexes_trans; [apply lexes_emit; apply step_quoted; exact Hrun|].
           eapply lexes_trans; [apply lexes_skip; apply step_blank; reflexivity|].
           eapply lexes_trans; [apply lexes_emit; apply Hst|].
           match goal with |- lexes _ _ _ ?a _ _ _ ?c => replace c with (a + zlen (atext t None)) end.
           ++ match goal with |- lexes _ _ _ ?a _ _ _ _ => replace a with (off + zlen ((x20 :: quoted x) ++ x20 :: hexlit b)) end; [exact L2|].
              unfold zlen. repeat (cbn [length]; rewrite ?app_length). cbn [length]. lia.
           ++ unfold zlen. repeat (cbn [length]; rewrite ?app_length). cbn [length]. lia.
        -- rewrite !map_app. cbn [map app]. rewrite Z2. reflexivity.
      * cbn [app]. rewrite <- !app_assoc. cbn [app].
        exists ([] ++ [mk TNumber (hexlit b) (off + 1)] ++ t2). split.
        -- eapply lexes_trans; [apply lexes_skip; apply step_blank; reflexivity|].
           eapply lexes_trans; [apply lexes_emit; apply Hst|].
           match goal with |- lexes _ _ _ ?a _ _ _ ?c => replace c with (a + zlen (atext t None)) end.
           ++ match goal with |- lexes _ _ _ ?a _ _ _ _ => replace a with (off + zlen ([] ++ x20 :: hexlit b)) end; [exact L2|].
              unfold zlen. repeat (cbn [length]; rewrite ?app_length). cbn [length]. lia.
           ++ unfold zlen. repeat (cbn [length]; rewrite ?app_length). cbn [length]. lia.
        -- rewrite !map_app. cbn [map app]. rewrite Z2. reflexivity.
Qed.
End AsciiLex.

Section AsciiItemsLex.
Variable alnum : list Z.

Definition ascii_text (s : bytes) : bytes :=
  match s with [] => B"<A[0]>"%string | _ => [x3c; x41] ++ print_ascii_body s false ++ [x3e] end.

Theorem lexes_ascii s r off :
  exists ts, lexes alnum LText (ascii_text s ++ r) off ts LText r (off + zlen (ascii_text s)) /\ map zoff ts = ascii_tokens s.
Proof.
  destruct s as [|c s'].
  - unfold ascii_text, ascii_tokens. replace (B"<A[0]>"%string) with (x3c :: x41 :: x5b :: fmt_unsigned 10 0 ++ x5d :: [x3e]) by reflexivity.
    cbn [app atoks]. rewrite <- app_assoc. cbn [app].
    eexists. split.
    + eapply lexes_trans; [apply lexes_emit; apply step_lab|].
      eapply lexes_trans; [apply lexes_emit; apply step_A; reflexivity|].
      eapply lexes_trans; [apply lexes_emit; apply (step_size alnum 0); lia|].
      eapply lexes_trans; [apply lexes_emit; apply step_rab|].
      match goal with |- lexes _ _ _ ?a _ _ _ ?b => replace b with a; [apply lexes_refl|] end.
      unfold zlen. repeat (cbn [length]; rewrite ?app_length). cbn [length]. lia.
    + reflexivity.
  - remember (c :: s') as s eqn:Es.
    assert (Et : ascii_text s = [x3c; x41] ++ atext s None ++ [x3e]).
    { unfold ascii_text. rewrite (proj2 (print_ascii_body_atext s)). subst s. reflexivity. }
    assert (Ek : ascii_tokens s = [mk TLAB [x3c] 0; mk TItemType [x41] 0] ++ atoks s None ++ [mk TRAB [x3e] 0]).
    { unfold ascii_tokens. subst s. reflexivity. }
    rewrite Et, Ek. rewrite <- !app_assoc. cbn [app].
    destruct (atext_head s r) as (d & rest & Ed & Hd).
    destruct (lexes_atext alnum s None r (off + 1 + 1) ltac:(constructor)) as [t2 [L2 Z2]].
    assert (Hw : is_word d = false) by (destruct Hd as [->|[->| ->]]; reflexivity).
    assert (HstA : lex_step1 alnum LText (x41 :: atext s None ++ x3e :: r) (off + 1) =
                   LEmit (mk TItemType [x41] (off + 1)) LText (atext s None ++ x3e :: r) (off + 1 + 1)).
    { rewrite Ed. apply step_A. exact Hw. }
    exists ([mk TLAB [x3c] off] ++ [mk TItemType [x41] (off + 1)] ++ t2 ++ [mk TRAB [x3e] (off + 1 + 1 + zlen (atext s None))]). split.
    + eapply lexes_trans; [apply lexes_emit; apply step_lab|].
      eapply lexes_trans; [apply lexes_emit; exact HstA|].
      eapply lexes_trans; [exact L2|].
      match goal with |- lexes _ _ _ ?a _ _ _ ?b => replace b with (a + 1) end; [apply lexes_emit; apply step_rab|].
      change (x3c :: x41 :: atext s None ++ [x3e]) with ([x3c; x41] ++ atext s None ++ [x3e]).
      rewrite !zlen_app. change (zlen [x3c; x41]) with 2. change (zlen [x3e]) with 1. lia.
    + rewrite !map_app. cbn [map app]. rewrite Z2. reflexivity.
Qed.
End AsciiItemsLex.

Section AsciiVarLex.
Variable alnum : list Z.

Lemma remove_spaces_id' s : Forall (fun b => is_digit b = true \/ b = x5b \/ b = x5d \/ b = x2e) s -> remove_spaces s = s.
Proof.
  induction 1 as [|b s Hb _ IH]; [reflexivity|]. unfold remove_spaces in *. cbn [filter].
  assert (E : is_space_rune (bz b) = false).
  { destruct Hb as [Hd|[->|[->| ->]]]; [apply digit_not_space; exact Hd|reflexivity|reflexivity|reflexivity]. }
  rewrite E. cbn [negb]. rewrite IH. reflexivity.
Qed.

Lemma digits_head n : 0 <= n -> exists d ds, fmt_unsigned 10 n = d :: ds /\ is_digit d = true.
Proof.
  intro Hn. pose proof (fmt_unsigned_digits n Hn) as Hd. destruct (digits_val_fmt 10 n ltac:(lia) Hn) as [_ Hne].
  destruct (fmt_unsigned 10 n) as [|d ds]; [congruence|]. inversion Hd; subst. eauto.
Qed.

Lemma starts_dots r : starts_with [x2e; x2e] (x2e :: x2e :: r) = true.
Proof. reflexivity. Qed.

(* "[a..]" and "[a..b]" *)
Lemma lex_size_lower a r : 0 <= a ->
  lex_size (x5b :: fmt_unsigned 10 a ++ x2e :: x2e :: x5d :: r) = Some (x5b :: fmt_unsigned 10 a ++ [x2e; x2e; x5d], r).
Proof.
  intro Ha. pose proof (fmt_unsigned_digits a Ha) as Hd. destruct (digits_head a Ha) as (d & ds & E & Hd1).
  unfold lex_size. rewrite E in *. change ((d :: ds) ++ x2e :: x2e :: x5d :: r) with (d :: (ds ++ x2e :: x2e :: x5d :: r)).
  rewrite (span_head_stops is_ws d _ (digit_not_ws d Hd1)).
  change (d :: ds ++ x2e :: x2e :: x5d :: r) with ((d :: ds) ++ x2e :: x2e :: x5d :: r).
  rewrite (span_stop is_digit (d :: ds) x2e (x2e :: x5d :: r) Hd) by reflexivity.
  rewrite (span_head_stops is_ws x2e _) by reflexivity. rewrite starts_dots. cbn [skipn].
  rewrite (span_head_stops is_ws x5d r) by reflexivity. rewrite (span_head_stops is_digit x5d r) by reflexivity.
  change (byte_eqb x5d x5d) with true. cbn [is_nil andb negb app]. rewrite ?app_nil_r. reflexivity.
Qed.

Lemma lex_size_range a b r : 0 <= a -> 0 <= b ->
  lex_size (x5b :: fmt_unsigned 10 a ++ x2e :: x2e :: fmt_unsigned 10 b ++ x5d :: r) =
  Some (x5b :: fmt_unsigned 10 a ++ x2e :: x2e :: fmt_unsigned 10 b ++ [x5d], r).
Proof.
  intros Ha Hb. pose proof (fmt_unsigned_digits a Ha) as Hd. destruct (digits_head a Ha) as (d & ds & E & Hd1).
  pose proof (fmt_unsigned_digits b Hb) as He. destruct (digits_head b Hb) as (e & es & E' & He1).
  unfold lex_size. rewrite E in *. change ((d :: ds) ++ x2e :: x2e :: fmt_unsigned 10 b ++ x5d :: r) with (d :: (ds ++ x2e :: x2e :: fmt_unsigned 10 b ++ x5d :: r)).
  rewrite (span_head_stops is_ws d _ (digit_not_ws d Hd1)).
  change (d :: ds ++ x2e :: x2e :: fmt_unsigned 10 b ++ x5d :: r) with ((d :: ds) ++ x2e :: x2e :: fmt_unsigned 10 b ++ x5d :: r).
  rewrite (span_stop is_digit (d :: ds) x2e (x2e :: fmt_unsigned 10 b ++ x5d :: r) Hd) by reflexivity.
  rewrite (span_head_stops is_ws x2e _) by reflexivity. rewrite starts_dots. cbn [skipn].
  rewrite E' in *. change ((e :: es) ++ x5d :: r) with (e :: (es ++ x5d :: r)).
  rewrite (span_head_stops is_ws e _ (digit_not_ws e He1)).
  change (e :: es ++ x5d :: r) with ((e :: es) ++ x5d :: r).
  rewrite (span_stop is_digit (e :: es) x5d r He) by reflexivity.
  rewrite (span_head_stops is_ws x5d r) by reflexivity.
  change (byte_eqb x5d x5d) with true. cbn [is_nil andb negb app]. rewrite ?app_nil_r. reflexivity.
Qed.

Lemma step_size_gen raw r off : (exists d rest, raw = x5b :: d :: rest) ->
  lex_size (raw ++ r) = Some (raw, r) -> remove_spaces raw = raw ->
  lex_step1 alnum LText (raw ++ r) off = LEmit (mk TItemSize raw off) LText r (off + zlen raw).
Proof.
  intros (d & rest & ->) Hl Hr. cbn [app] in *. unfold lex_step1. rewrite no_slashes, no_ellipsis, no_ident by reflexivity.
  change (byte_eqb x5b x2b) with false. change (byte_eqb x5b x2d) with false.
  change (is_digit x5b) with false. change (byte_eqb x5b x2e) with false. cbn [orb andb].
  change (byte_eqb x5b x3c) with false. change (byte_eqb x5b x3e) with false. change (byte_eqb x5b x5b) with true. cbv iota.
  rewrite Hl, Hr. reflexivity.
Qed.
End AsciiVarLex.

Section AsciiVarItemLex.
Variable alnum : list Z.

Lemma fmt_int_nn n : 0 <= n -> fmt_int n = fmt_unsigned 10 n.
Proof. intro H. unfold fmt_int. destruct (Z.ltb_spec n 0); [lia|reflexivity]. Qed.

Theorem lexes_ascii_var n mn mx r off : sml_var n -> 0 <= mn -> -1 <= mx -> (mx = -1 \/ mn <= mx) ->
  exists ts, lexes alnum LText (print_ascii_var n mn mx ++ r) off ts LText r (off + zlen (print_ascii_var n mn mx)) /\
             map zoff ts = ascii_var_tokens n mn mx.
Proof.
  intros Hn C1 C2 C3. unfold print_ascii_var, ascii_var_tokens, ascii_var_size_tokens.
  assert (Hdig : forall a, 0 <= a -> Forall (fun b => is_digit b = true \/ b = x5b \/ b = x5d \/ b = x2e) (fmt_unsigned 10 a)).
  { intros a Ha. eapply Forall_impl; [|apply (fmt_unsigned_digits a Ha)]. intros b Hb. left. exact Hb. }
  destruct ((mn =? 0) && (mx =? -1)) eqn:E0.
  - (* "<A name>" *)
    cbn [app]. rewrite <- !app_assoc. cbn [app].
    exists ([mk TLAB [x3c] off] ++ [mk TItemType [x41] (off + 1)] ++ [] ++ [mk TVariable n (off + 1 + 1 + 1)] ++ [mk TRAB [x3e] (off + 1 + 1 + 1 + zlen n)]).
    split; [|reflexivity].
    eapply lexes_trans; [apply lexes_emit; apply step_lab|].
    eapply lexes_trans; [apply lexes_emit; apply step_A; reflexivity|].
    eapply lexes_trans; [apply lexes_skip; apply step_blank; reflexivity|].
    eapply lexes_trans; [apply lexes_emit; apply (step_var alnum n x3e r _ Hn); right; left; reflexivity|].
    match goal with |- lexes _ _ _ ?a _ _ _ ?b => replace b with (a + 1) end; [apply lexes_emit; apply step_rab|].
    change (x3c :: x41 :: x20 :: n ++ [x3e]) with ([x3c; x41; x20] ++ n ++ [x3e]). rewrite !zlen_app.
    change (zlen [x3c; x41; x20]) with 3. change (zlen [x3e]) with 1. lia.
  - destruct (Z.eqb_spec mn mx) as [Em|Em]; [|destruct (Z.eqb_spec mx (-1)) as [Ex|Ex]].
    + (* "<A[n] name>" *)
      subst mx. rewrite (fmt_int_nn mn C1). repeat (progress (rewrite <- ?app_assoc; cbn [app])).
      set (raw := x5b :: fmt_unsigned 10 mn ++ [x5d]).
      exists ([mk TLAB [x3c] off] ++ [mk TItemType [x41] (off + 1)] ++ [mk TItemSize raw (off + 1 + 1)] ++ [] ++
              [mk TVariable n (off + 1 + 1 + zlen raw + 1)] ++ [mk TRAB [x3e] (off + 1 + 1 + zlen raw + 1 + zlen n)]).
      split; [|reflexivity].
      eapply lexes_trans; [apply lexes_emit; apply step_lab|].
      eapply lexes_trans; [apply lexes_emit; apply step_A; reflexivity|].
      eapply lexes_trans; [apply lexes_emit; apply (step_size alnum mn); lia|].
      eapply lexes_trans; [apply lexes_skip; apply step_blank; reflexivity|].
      eapply lexes_trans; [apply lexes_emit; apply (step_var alnum n x3e r _ Hn); right; left; reflexivity|].
      match goal with |- lexes _ _ _ ?a _ _ _ ?b => replace b with (a + 1) end; [apply lexes_emit; apply step_rab|].
      match goal with |- _ = off + zlen ?t => replace t with ([x3c; x41] ++ raw ++ [x20] ++ n ++ [x3e])
        by (subst raw; repeat (progress (rewrite <- ?app_assoc; cbn [app])); reflexivity) end.
      rewrite !zlen_app. change (zlen [x3c; x41]) with 2. change (zlen [x20]) with 1. change (zlen [x3e]) with 1. subst raw. lia.
    + (* "<A[a..] name>" *)
      subst mx. rewrite (fmt_int_nn mn C1). repeat (progress (rewrite <- ?app_assoc; cbn [app])).
      set (raw := x5b :: fmt_unsigned 10 mn ++ [x2e; x2e; x5d]).
      assert (Hstep : forall rr o, lex_step1 alnum LText (raw ++ rr) o = LEmit (mk TItemSize raw o) LText rr (o + zlen raw)).
      { intros rr o. apply step_size_gen.
        - destruct (digits_head mn C1) as (d & ds & E & _). subst raw. rewrite E. eexists; eexists; reflexivity.
        - subst raw. cbn [app]. rewrite <- app_assoc. cbn [app]. apply (lex_size_lower mn rr C1).
        - subst raw. apply remove_spaces_id'. constructor; [right; left; reflexivity|]. apply Forall_app. split; [apply Hdig; exact C1|].
          constructor; [right; right; right; reflexivity|]. constructor; [right; right; right; reflexivity|]. constructor; [right; right; left; reflexivity|constructor]. }
      exists ([mk TLAB [x3c] off] ++ [mk TItemType [x41] (off + 1)] ++ [mk TItemSize raw (off + 1 + 1)] ++ [] ++
              [mk TVariable n (off + 1 + 1 + zlen raw + 1)] ++ [mk TRAB [x3e] (off + 1 + 1 + zlen raw + 1 + zlen n)]).
      split; [|reflexivity].
      match goal with |- lexes _ _ (x3c :: x41 :: ?t) _ _ _ _ _ => replace t with (raw ++ x20 :: n ++ x3e :: r)
        by (subst raw; repeat (progress (rewrite <- ?app_assoc; cbn [app])); reflexivity) end.
      eapply lexes_trans; [apply lexes_emit; apply step_lab|].
      eapply lexes_trans; [apply lexes_emit; apply step_A; reflexivity|].
      eapply lexes_trans; [apply lexes_emit; apply Hstep|].
      eapply lexes_trans; [apply lexes_skip; apply step_blank; reflexivity|].
      eapply lexes_trans; [apply lexes_emit; apply (step_var alnum n x3e r _ Hn); right; left; reflexivity|].
      match goal with |- lexes _ _ _ ?a _ _ _ ?b => replace b with (a + 1) end; [apply lexes_emit; apply step_rab|].
      match goal with |- _ = off + zlen ?t => replace t with ([x3c; x41] ++ raw ++ [x20] ++ n ++ [x3e])
        by (subst raw; repeat (progress (rewrite <- ?app_assoc; cbn [app])); reflexivity) end.
      rewrite !zlen_app. change (zlen [x3c; x41]) with 2. change (zlen [x20]) with 1. change (zlen [x3e]) with 1. subst raw. lia.
    + (* "<A[a..b] name>" *)
      assert (C4 : 0 <= mx) by lia.
      rewrite (fmt_int_nn mn C1), (fmt_int_nn mx C4). repeat (progress (rewrite <- ?app_assoc; cbn [app])).
      set (raw := x5b :: fmt_unsigned 10 mn ++ x2e :: x2e :: fmt_unsigned 10 mx ++ [x5d]).
      assert (Hstep : forall rr o, lex_step1 alnum LText (raw ++ rr) o = LEmit (mk TItemSize raw o) LText rr (o + zlen raw)).
      { intros rr o. apply step_size_gen.
        - destruct (digits_head mn C1) as (d & ds & E & _). subst raw. rewrite E. eexists; eexists; reflexivity.
        - subst raw. cbn [app]. rewrite <- !app_assoc. cbn [app]. rewrite <- app_assoc. cbn [app]. apply (lex_size_range mn mx rr C1 C4).
        - subst raw. apply remove_spaces_id'. constructor; [right; left; reflexivity|]. apply Forall_app. split; [apply Hdig; exact C1|].
          constructor; [right; right; right; reflexivity|]. constructor; [right; right; right; reflexivity|]. apply Forall_app. split; [apply Hdig; exact C4|constructor; [right; right; left; reflexivity|constructor]]. }
      exists ([mk TLAB [x3c] off] ++ [mk TItemType [x41] (off + 1)] ++ [mk TItemSize raw (off + 1 + 1)] ++ [] ++
              [mk TVariable n (off + 1 + 1 + zlen raw + 1)] ++ [mk TRAB [x3e] (off + 1 + 1 + zlen raw + 1 + zlen n)]).
      split; [|reflexivity].
      match goal with |- lexes _ _ (x3c :: x41 :: ?t) _ _ _ _ _ => replace t with (raw ++ x20 :: n ++ x3e :: r)
        by (subst raw; repeat (progress (rewrite <- ?app_assoc; cbn [app])); reflexivity) end.
      eapply lexes_trans; [apply lexes_emit; apply step_lab|].
      eapply lexes_trans; [apply lexes_emit; apply step_A; reflexivity|].
      eapply lexes_trans; [apply lexes_emit; apply Hstep|].
      eapply lexes_trans; [apply lexes_skip; apply step_blank; reflexivity|].
      eapply lexes_trans; [apply lexes_emit; apply (step_var alnum n x3e r _ Hn); right; left; reflexivity|].
      match goal with |- lexes _ _ _ ?a _ _ _ ?b => replace b with (a + 1) end; [apply lexes_emit; apply step_rab|].
      match goal with |- _ = off + zlen ?t => replace t with ([x3c; x41] ++ raw ++ [x20] ++ n ++ [x3e])
        by (subst raw; repeat (progress (rewrite <- ?app_assoc; cbn [app])); reflexivity) end.
      rewrite !zlen_app. change (zlen [x3c; x41]) with 2. change (zlen [x20]) with 1. change (zlen [x3e]) with 1. subst raw. lia.
Qed.
End AsciiVarItemLex.
