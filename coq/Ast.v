(* Ast.v — the data model of pkg/ast: items (with variables), Go argument
   values, factories with their checkRep, Variables, Size, ToBytes, String.
   Hand-written model; tied to the code by the correspondence harness.
   No proofs here (so the model still extracts when a proof breaks). *)
From Secs Require Export Bytes.
Open Scope Z_scope.

Notation "'B' s" := (String.list_byte_of_string s) (at level 1, s at level 0, only parsing).

(* ---------- text helpers (strconv.FormatInt, fmt %d, %02X) ---------- *)

Definition digit_byte (d : Z) : byte := z2b (if d <? 10 then 48 + d else 55 + d). (* 0-9 A-Z *)

Fixpoint fmt_nat_fuel (fuel : nat) (base n : Z) (acc : bytes) : bytes :=
  match fuel with
  | O => acc
  | S f => if n <? base then digit_byte n :: acc
           else fmt_nat_fuel f base (n / base) (digit_byte (n mod base) :: acc)
  end.

(* digits of a non-negative number; fuel log2 n + 1 always suffices for base >= 2 *)
Definition fmt_unsigned (base n : Z) : bytes :=
  fmt_nat_fuel (S (Z.to_nat (Z.log2 n))) base n [].

Definition fmt_int (n : Z) : bytes :=       (* strconv.FormatInt(n, 10) / %d *)
  if n <? 0 then x2d :: fmt_unsigned 10 (- n) else fmt_unsigned 10 n.

Definition fmt_bin (n : Z) : bytes := fmt_unsigned 2 n.   (* FormatInt(n,2), n >= 0 *)

Definition fmt_hex2 (n : Z) : bytes := [digit_byte (n / 16 mod 16); digit_byte (n mod 16)]. (* %02X, 0<=n<256 *)

(* ---------- names ---------- *)

Definition is_digit (b : byte) : bool := let z := b2z b in (48 <=? z) && (z <=? 57).
Definition is_alpha_ (b : byte) : bool :=
  let z := b2z b in ((65 <=? z) && (z <=? 90)) || ((97 <=? z) && (z <=? 122)) || (z =? 95).
Definition is_word (b : byte) : bool := is_alpha_ b || is_digit b.

Fixpoint drop_while (p : byte -> bool) (s : bytes) : bytes :=
  match s with
  | [] => []
  | b :: r => if p b then drop_while p r else s
  end.

(* one index group "[" digit+ "]" at the head; returns the rest *)
Definition strip_index (s : bytes) : option bytes :=
  match s with
  | b :: r =>
    if byte_eqb b x5b then
      match r with
      | d :: _ => if is_digit d then
                    match drop_while is_digit r with
                    | c :: r' => if byte_eqb c x5d then Some r' else None
                    | [] => None
                    end
                  else None
      | [] => None
      end
    else None
  | [] => None
  end.

Fixpoint all_indices (fuel : nat) (s : bytes) : bool :=   (* (\[\d+\])*$ *)
  match s with
  | [] => true
  | _ => match fuel with
         | O => false
         | S f => match strip_index s with Some r => all_indices f r | None => false end
         end
  end.

(* ^[A-Za-z_]\w*(\[\d+\])*$ *)
Definition is_valid_var_name (s : bytes) : bool :=
  match s with
  | b :: r => is_alpha_ b && all_indices (length r) (drop_while is_word r)
  | [] => false
  end.

(* ^\.{3}(\[\d+\])?$ *)
Definition is_ellipsis (s : bytes) : bool :=
  match s with
  | a :: b :: c :: r =>
    byte_eqb a x2e && byte_eqb b x2e && byte_eqb c x2e &&
    match r with
    | [] => true
    | _ => match strip_index r with Some [] => true | _ => false end
    end
  | _ => false
  end.

(* ---------- items ---------- *)

Inductive kind := KBin | KBool | KInt | KUint | KFloat.

Inductive slot := SV (v : Z) | SX (n : bytes).

Inductive item :=
| IList (xs : list item)
| IVar (n : bytes)                       (* a variable position of a list *)
| ILeaf (k : kind) (w : nat) (xs : list slot)
| IAscii (s : bytes)
| IAsciiVar (n : bytes) (mn mx : Z)
| IEmpty.

Definition kind_eqb (a b : kind) : bool :=
  match a, b with
  | KBin, KBin | KBool, KBool | KInt, KInt | KUint, KUint | KFloat, KFloat => true
  | _, _ => false
  end.

(* ---------- tables of interface.go (literal here; compared with the
   regenerated gen/Tables.v in TablesTie.v) ---------- *)

Definition MAX_BYTE_SIZE : Z := 16777215.

Definition byte_per_value : list (bytes * Z) :=
  [(B"list",1); (B"binary",1); (B"boolean",1); (B"ascii",1); (B"i8",8); (B"i1",1);
   (B"i2",2); (B"i4",4); (B"f8",8); (B"f4",4); (B"u8",8); (B"u1",1); (B"u2",2); (B"u4",4)]%string.

Definition format_code : list (bytes * Z) :=
  [(B"list",0); (B"binary",8); (B"boolean",9); (B"ascii",16); (B"i8",24); (B"i1",25);
   (B"i2",26); (B"i4",28); (B"f8",32); (B"f4",36); (B"u8",40); (B"u1",41); (B"u2",42); (B"u4",44)]%string.

Fixpoint lookup (k : bytes) (m : list (bytes * Z)) : Z :=   (* Go map read: 0 when missing *)
  match m with
  | [] => 0
  | (k', v) :: r => if bytes_eqb k k' then v else lookup k r
  end.

Definition tyname (k : kind) (w : nat) : bytes :=
  match k with
  | KBin => B"binary"%string
  | KBool => B"boolean"%string
  | KInt => x69 :: fmt_int (Z.of_nat w)
  | KUint => x75 :: fmt_int (Z.of_nat w)
  | KFloat => x66 :: fmt_int (Z.of_nat w)
  end.

Definition data_byte_length (typ : bytes) (size : Z) : Z := size * lookup typ byte_per_value.

(* getHeaderBytes *)
Definition header_bytes (typ : bytes) (size : Z) : option bytes :=
  let len := data_byte_length typ size in
  if len >? MAX_BYTE_SIZE then None else
  let b0 := z2b (len / 65536) in
  let b1 := z2b (len / 256) in
  let b2 := z2b len in
  let lb := if byte_eqb b0 x00 then (if byte_eqb b1 x00 then [b2] else [b1; b2]) else [b0; b1; b2] in
  Some (z2b (lookup typ format_code * 4 + Z.of_nat (length lb)) :: lb).

(* ---------- observers ---------- *)

Definition slot_vars (xs : list slot) : list bytes :=
  flat_map (fun s => match s with SX n => [n] | SV _ => [] end) xs.

Fixpoint vars (t : item) : list bytes :=
  match t with
  | IList xs => flat_map (fun c => match c with
                                   | IVar n => [n]
                                   | IEmpty => [[]]      (* posVar[i] of a stray empty node: "" *)
                                   | _ => vars c
                                   end) xs
  | IVar n => [n]
  | ILeaf _ _ xs => slot_vars xs
  | IAscii _ => []
  | IAsciiVar n _ _ => [n]
  | IEmpty => []
  end.

Definition size (t : item) : Z :=
  match t with
  | IList xs => Z.of_nat (length xs)
  | ILeaf _ _ xs => Z.of_nat (length xs)
  | IAscii s => Z.of_nat (length s)
  | IAsciiVar _ _ _ => -1
  | IVar _ | IEmpty => 0
  end.

Definition enc_val (k : kind) (w : nat) (v : Z) : bytes :=
  match k with
  | KBin | KBool => [z2b v]
  | KInt | KUint | KFloat => be_enc w v     (* two's complement falls out of floor division *)
  end.

Definition is_nil {A} (l : list A) : bool := match l with [] => true | _ => false end.

Fixpoint slot_vals (xs : list slot) : option (list Z) :=
  match xs with
  | [] => Some []
  | SV v :: r => match slot_vals r with Some vs => Some (v :: vs) | None => None end
  | SX _ :: _ => None
  end.

Fixpoint to_bytes (t : item) : bytes :=
  match t with
  | IList xs =>
    match header_bytes (B"list"%string) (Z.of_nat (length xs)) with
    | None => []
    | Some h =>
      (* the children in order; nothing at all when one of them has no encoding *)
      match (fix go (xs : list item) : option bytes :=
               match xs with
               | [] => Some []
               | x :: r => let c := to_bytes x in
                           if is_nil c then None
                           else match go r with Some rest => Some (c ++ rest) | None => None end
               end) xs with
      | Some body => h ++ body
      | None => []
      end
    end
  | ILeaf k w xs =>
    match slot_vals xs with
    | None => []
    | Some vs => match header_bytes (tyname k w) (Z.of_nat (length xs)) with
                 | None => []
                 | Some h => h ++ flat_map (enc_val k w) vs
                 end
    end
  | IAscii s => match header_bytes (B"ascii"%string) (Z.of_nat (length s)) with
                | None => []
                | Some h => h ++ s
                end
  | IVar _ | IAsciiVar _ _ _ | IEmpty => []
  end.

(* ---------- printing: pieces, so that float text stays an oracle ---------- *)

Inductive piece := PT (s : bytes) | PF (w : nat) (bits : Z).

Definition sp : bytes := [x20].
Fixpoint join_pieces (xs : list (list piece)) : list piece :=
  match xs with
  | [] => []
  | [x] => x
  | x :: r => x ++ PT sp :: join_pieces r
  end.

Definition print_slot (k : kind) (w : nat) (s : slot) : list piece :=
  match s with
  | SX n => [PT n]
  | SV v => match k with
            | KBin => [PT (x30 :: x62 :: fmt_bin v)]
            | KBool => [PT (if v =? 0 then [x46] else [x54])]
            | KInt | KUint => [PT (fmt_int v)]
            | KFloat => [PF w v]
            end
  end.

Definition leaf_tag (k : kind) (w : nat) : bytes :=
  match k with
  | KBin => [x42]
  | KBool => B"BOOLEAN"%string
  | KInt => x49 :: fmt_int (Z.of_nat w)
  | KUint => x55 :: fmt_int (Z.of_nat w)
  | KFloat => x46 :: fmt_int (Z.of_nat w)
  end.

Definition is_printable (b : byte) : bool := let z := b2z b in negb ((z <? 32) || (z =? 127) || (z =? 34)).

(* the body of ASCIINode.String() between "<A" and ">" *)
Fixpoint print_ascii_body (s : bytes) (quoted : bool) : bytes :=
  match s with
  | [] => if quoted then [x22] else []
  | b :: r =>
    if is_printable b then
      (if quoted then [b] else [x20; x22; b]) ++ print_ascii_body r true
    else
      (if quoted then [x22] else []) ++ [x20; x30; x78] ++ fmt_hex2 (b2z b) ++ print_ascii_body r false
  end.

Definition print_ascii_var (n : bytes) (mn mx : Z) : bytes :=
  let len :=
    if (mn =? 0) && (mx =? -1) then []
    else if mn =? mx then [x5b] ++ fmt_int mx ++ [x5d]
    else if mx =? -1 then [x5b] ++ fmt_int mn ++ [x2e; x2e; x5d]
    else [x5b] ++ fmt_int mn ++ [x2e; x2e] ++ fmt_int mx ++ [x5d] in
  [x3c; x41] ++ len ++ [x20] ++ n ++ [x3e].

Fixpoint indent (level : nat) : bytes :=
  match level with O => [] | S l => x20 :: x20 :: indent l end.

Definition is_list_var (c : item) : bool := match c with IVar _ => true | _ => false end.

Fixpoint print_item_at (level : nat) (t : item) : list piece :=
  match t with
  | IList xs =>
    match xs with
    | [] => [PT (indent level ++ B"<L[0]>"%string)]
    | _ =>
      let body := flat_map (fun c =>
        match c with
        | IList _ => print_item_at (S level) c ++ [PT [x0a]]
        | IVar n => [PT (indent level ++ [x20; x20] ++ (if is_ellipsis n then [x2e; x2e; x2e] else n) ++ [x0a])]
        | _ => PT (indent level ++ [x20; x20]) :: print_item_at 0 c ++ [PT [x0a]]
        end) xs in
      let sizestr := if existsb is_list_var xs then [] else [x5b] ++ fmt_int (Z.of_nat (length xs)) ++ [x5d] in
      PT (indent level ++ [x3c; x4c] ++ sizestr ++ [x0a]) :: body ++ [PT (indent level ++ [x3e])]
    end
  | IVar n => [PT n]
  | ILeaf k w xs =>
    match xs with
    | [] => [PT ([x3c] ++ leaf_tag k w ++ B"[0]>"%string)]
    | _ => PT ([x3c] ++ leaf_tag k w ++ [x5b] ++ fmt_int (Z.of_nat (length xs)) ++ [x5d; x20])
           :: join_pieces (map (print_slot k w) xs) ++ [PT [x3e]]
    end
  | IAscii s =>
    match s with
    | [] => [PT (B"<A[0]>"%string)]
    | _ => [PT ([x3c; x41] ++ print_ascii_body s false ++ [x3e])]
    end
  | IAsciiVar n mn mx => [PT (print_ascii_var n mn mx)]
  | IEmpty => []
  end.

Definition print_item (t : item) : list piece := print_item_at 0 t.

(* ---------- Go argument values ---------- *)

Inductive ikind := Kint | Kint8 | Kint16 | Kint32 | Kint64
                 | Kuint | Kuint8 | Kuint16 | Kuint32 | Kuint64.

Inductive gval :=
| GInt (k : ikind) (z : Z)     (* z within the range of k *)
| GF32 (bits : Z)
| GF64 (bits : Z)
| GBool (b : bool)
| GStr (s : bytes)
| GItem (t : item)
| GOther.

Definition two63 : Z := 9223372036854775808.
Definition two64 : Z := 18446744073709551616.

(* Go's wrap-around integer conversions, written out *)
Definition conv_int64 (z : Z) : Z := let m := z mod two64 in if m <? two63 then m else m - two64.
Definition conv_uint64 (z : Z) : Z := z mod two64.

Definition is_unsigned_kind (k : ikind) : bool :=
  match k with Kuint | Kuint8 | Kuint16 | Kuint32 | Kuint64 => true | _ => false end.

(* ---------- floats as IEEE bit patterns ---------- *)

Definition f32_exp (b : Z) : Z := (b / 8388608) mod 256.
Definition f32_frac (b : Z) : Z := b mod 8388608.
Definition f64_exp (b : Z) : Z := (b / 4503599627370496) mod 2048.
Definition f64_frac (b : Z) : Z := b mod 4503599627370496.
Definition f32_finite (b : Z) : bool := negb (f32_exp b =? 255).
Definition f64_finite (b : Z) : bool := negb (f64_exp b =? 2047).

(* float64(float32) : exact widening, including subnormals *)
Definition f32_to_f64 (b : Z) : Z :=
  let s := b / 2147483648 in
  let e := f32_exp b in
  let f := f32_frac b in
  let sign := s * 9223372036854775808 in
  if e =? 255 then sign + 2047 * 4503599627370496 + f * 536870912
  else if e =? 0 then
    if f =? 0 then sign
    else (* subnormal: value f * 2^-149, normalise *)
      let l := Z.log2 f in                       (* 0..22 *)
      let e64 := l - 149 + 1023 in
      let m := (f - 2 ^ l) * 2 ^ (52 - l) in
      sign + e64 * 4503599627370496 + m
  else sign + (e - 127 + 1023) * 4503599627370496 + f * 536870912.

(* float32(float64) : round to nearest even on the magnitude; overflow gives +-Inf *)
Definition round_shift (m sh : Z) : Z :=       (* m / 2^sh rounded to nearest even, sh >= 1 *)
  let q := m / 2 ^ sh in
  let r := m mod 2 ^ sh in
  let half := 2 ^ (sh - 1) in
  if r <? half then q else if half <? r then q + 1 else if Z.even q then q else q + 1.

Definition f64_to_f32 (b : Z) : Z :=
  let s := b / 9223372036854775808 in
  let e := f64_exp b in
  let f := f64_frac b in
  let sign := s * 2147483648 in
  if e =? 2047 then
    if f =? 0 then sign + 255 * 8388608
    else sign + 255 * 8388608 + 4194304 + (f / 536870912) mod 4194304   (* NaN: quieted *)
  else
    let e32 := e - 1023 + 127 in
    if 0 <? e32 then
      (* normal candidate: 24-bit significand (1.f) rounded to 23 fraction bits *)
      let m := round_shift (4503599627370496 + f) 29 in      (* in [2^23, 2^24] *)
      let mag := (e32 - 1) * 8388608 + m in                  (* carry propagates into exponent *)
      if 255 * 8388608 <=? mag then sign + 255 * 8388608 else sign + mag
    else if e =? 0 then sign                                 (* f64 zero/subnormal -> 0 *)
    else
      (* result subnormal (or rounds up to the least normal): shift 1.f right *)
      let sh := 29 + (1 - e32) in
      if 80 <? sh then sign else sign + round_shift (4503599627370496 + f) sh.

Definition max_f32_as_f64 : Z := 5183643170566569984. (* 0x47EFFFFFE0000000 = math.MaxFloat32 *)

(* ---------- factories ---------- *)

Fixpoint nodupb (l : list bytes) : bool :=
  match l with
  | [] => true
  | x :: r => negb (existsb (bytes_eqb x) r) && nodupb r
  end.

Definition width_ok_int (w : nat) : bool :=
  match w with 1%nat | 2%nat | 4%nat | 8%nat => true | _ => false end.
Definition width_ok_float (w : nat) : bool :=
  match w with 4%nat | 8%nat => true | _ => false end.

Definition size_ok (typ : bytes) (n : nat) : bool :=
  negb (data_byte_length typ (Z.of_nat n) >? MAX_BYTE_SIZE).

(* one argument of NewIntNode / NewUintNode / ... -> slot, or refusal *)
Definition int_arg (a : gval) : option slot :=
  match a with
  | GInt k z =>
    if is_unsigned_kind k then (if two63 <=? z then None else Some (SV z))
    else Some (SV (conv_int64 z))
  | GStr s => Some (SX s)
  | _ => None
  end.

Definition uint_arg (a : gval) : option slot :=
  match a with
  | GInt k z => if z <? 0 then None else Some (SV (conv_uint64 z))
  | GStr s => Some (SX s)
  | _ => None
  end.

Definition has_prefix_0b (s : bytes) : bool :=
  match s with a :: b :: _ => byte_eqb a x30 && byte_eqb b x62 | _ => false end.

(* strconv.ParseInt(s, 0, 0) restricted to "0b" strings: digits 0/1 with the
   base-prefix underscore rule; None = syntax or range error *)
Fixpoint bin_digits (s : bytes) (acc : Z) (prev_us : bool) (any : bool) : option Z :=
  match s with
  | [] => if prev_us || negb any then None else Some acc
  | c :: r =>
    if byte_eqb c x5f then (if prev_us then None else bin_digits r acc true any)
    else if byte_eqb c x30 then bin_digits r (2 * acc) false true
    else if byte_eqb c x31 then bin_digits r (2 * acc + 1) false true
    else None
  end.

Definition parse_0b (s : bytes) : option Z :=
  match s with
  | _ :: _ :: r =>
    bin_digits r 0 false false     (* "0b_1" is legal: an underscore may follow the prefix *)
  | _ => None
  end.

Definition bin_arg (a : gval) : option slot :=
  match a with
  | GInt Kint z => Some (SV z)
  | GStr s =>
    if has_prefix_0b s then
      match parse_0b s with
      | Some v => if v <? two63 then Some (SV v) else None
      | None => None
      end
    else Some (SX s)
  | _ => None
  end.

Definition bool_arg (a : gval) : option slot :=
  match a with
  | GBool b => Some (SV (if b then 1 else 0))
  | GStr s => Some (SX s)
  | _ => None
  end.

Fixpoint map_opt {A C} (f : A -> option C) (l : list A) : option (list C) :=
  match l with
  | [] => Some []
  | x :: r => match f x with
              | Some y => match map_opt f r with Some ys => Some (y :: ys) | None => None end
              | None => None
              end
  end.

Definition names_ok (xs : list slot) : bool :=
  forallb is_valid_var_name (slot_vars xs) && nodupb (slot_vars xs).

Definition int_val_ok (w : nat) (s : slot) : bool :=
  match s with
  | SV v => (- (256 ^ Z.of_nat w / 2) <=? v) && (v <? 256 ^ Z.of_nat w / 2)
  | SX _ => true
  end.
Definition uint_val_ok (w : nat) (s : slot) : bool :=
  match s with
  | SV v => (0 <=? v) && (v <? 256 ^ Z.of_nat w)
  | SX _ => true
  end.
Definition bin_val_ok (s : slot) : bool :=
  match s with SV v => (0 <=? v) && (v <? 256) | SX _ => true end.

(* float arguments: every Go numeric type is converted to float64 first *)
Definition abs_le_maxf32 (b64 : Z) : bool := (b64 mod 9223372036854775808) <=? max_f32_as_f64.

(* float64(int) for |z| small enough to be exact is all the harness uses; the
   general conversion (round to nearest even) is [int_to_f64]. *)
Definition int_to_f64 (z : Z) : Z :=
  if z =? 0 then 0 else
  let s := if z <? 0 then 9223372036854775808 else 0 in
  let a := Z.abs z in
  let l := Z.log2 a in
  if l <=? 52 then s + (l + 1023) * 4503599627370496 + (a - 2 ^ l) * 2 ^ (52 - l)
  else
    let m := round_shift a (l - 52) in          (* in [2^52, 2^53] *)
    s + (l + 1023 - 1) * 4503599627370496 + m.   (* carry propagates *)

Definition float_arg (w : nat) (a : gval) : option slot :=
  match a with
  | GStr s => Some (SX s)
  | GF32 b => if f32_finite b then
                match w with
                | 4%nat => Some (SV b)
                | _ => Some (SV (f32_to_f64 b))
                end
              else None
  | GF64 b => if f64_finite b then
                match w with
                | 4%nat => if abs_le_maxf32 b then Some (SV (f64_to_f32 b)) else None
                | _ => Some (SV b)
                end
              else None
  | GInt k z => let b := int_to_f64 z in
                match w with
                | 4%nat => if abs_le_maxf32 b then Some (SV (f64_to_f32 b)) else None
                | _ => Some (SV b)
                end
  | _ => None
  end.

(* the five value-item factories share one shape: size limit, conversion of
   every argument by the Go-type switch, then checkRep *)
Definition leaf_arg (k : kind) (w : nat) : gval -> option slot :=
  match k with
  | KInt => int_arg
  | KUint => uint_arg
  | KBin => bin_arg
  | KBool => bool_arg
  | KFloat => float_arg w
  end.

Definition val_okb (k : kind) (w : nat) (s : slot) : bool :=
  match k with
  | KInt => int_val_ok w s
  | KUint => uint_val_ok w s
  | KBin => bin_val_ok s
  | KBool | KFloat => true          (* already decided by the conversion *)
  end.

Definition width_okb (k : kind) (w : nat) : bool :=
  match k with
  | KInt | KUint => width_ok_int w
  | KFloat => width_ok_float w
  | KBin | KBool => (w =? 1)%nat
  end.

Definition size_typ (k : kind) (w : nat) : bytes :=
  match k with
  | KBool => B"binary"%string           (* sic: NewBooleanNode asks for "binary" *)
  | _ => tyname k w
  end.

Definition new_leaf (k : kind) (w : nat) (args : list gval) : option item :=
  if negb (size_ok (size_typ k w) (length args)) then None else
  match map_opt (leaf_arg k w) args with
  | None => None
  | Some xs =>
    if width_okb k w && forallb (val_okb k w) xs && names_ok xs
    then Some (ILeaf k w xs) else None
  end.

Definition new_int (w : nat) := new_leaf KInt w.
Definition new_uint (w : nat) := new_leaf KUint w.
Definition new_float (w : nat) := new_leaf KFloat w.
Definition new_binary := new_leaf KBin 1.
Definition new_boolean := new_leaf KBool 1.

Definition is_ascii_bytes (s : bytes) : bool := forallb (fun b => b2z b <? 128) s.

Definition new_ascii (s : bytes) : option item :=
  if negb (size_ok (B"ascii"%string) (length s)) then None
  else if is_ascii_bytes s then Some (IAscii s) else None.

Definition new_ascii_var (n : bytes) (mn mx : Z) : option item :=
  if is_valid_var_name n && (0 <=? mn) && (-1 <=? mx) && ((mx =? -1) || (mn <=? mx))
  then Some (IAsciiVar n mn mx) else None.

Definition list_arg (a : gval) : option item :=
  match a with
  | GItem (IVar _) => None          (* not a Go value *)
  | GItem t => Some t
  | GStr s => Some (IVar s)
  | _ => None
  end.

Definition direct_vars (xs : list item) : list bytes :=
  flat_map (fun c => match c with IVar n => [n] | _ => [] end) xs.

(* checkRep of ListNode on the direct variables: valid names, at most one
   ellipsis and not in front *)
Definition list_vars_ok (xs : list item) : bool :=
  forallb (fun n => is_valid_var_name n || is_ellipsis n) (direct_vars xs) &&
  (length (filter (fun n => negb (is_valid_var_name n) && is_ellipsis n) (direct_vars xs)) <=? 1)%nat &&
  match xs with
  | IVar n :: _ => is_valid_var_name n     (* position 0 must not be an ellipsis *)
  | _ => true
  end.

Definition new_list (args : list gval) : option item :=
  if negb (size_ok (B"list"%string) (length args)) then None else
  match map_opt list_arg args with
  | None => None
  | Some xs =>
    if nodupb (direct_vars xs) && list_vars_ok xs && nodupb (vars (IList xs))
    then Some (IList xs) else None
  end.
