(* main.ml — runs the extracted model (model.ml) on the cases the Go harness
   ran.  Input: one case per line, "<id>\t<steps>"; output: for every case
   "<id>\t<k>\t<observation of pool entry k>" lines.  This file only parses
   the case text into the model's [step] values and prints what [observe]
   returns; nothing here interprets the library's behaviour. *)
module S = Stdlib.String
module L = Stdlib.List
module A = Stdlib.Array
type str = S.t
open Model

(* ---- conversions between OCaml values and the extracted datatypes ---- *)

let rec pos_of_int (i : int) : positive =
  if i = 1 then XH
  else if i land 1 = 0 then XO (pos_of_int (i lsr 1))
  else XI (pos_of_int (i lsr 1))

let z_of_int (i : int) : z =
  if i = 0 then Z0 else if i > 0 then Zpos (pos_of_int i) else Zneg (pos_of_int (- i))

let rec nat_of_int (i : int) : nat = if i <= 0 then O else S (nat_of_int (i - 1))

let z10 = z_of_int 10

(* decimal string (optional leading '-') of any size *)
let z_of_string (s : str) : z =
  let neg = S.length s > 0 && s.[0] = '-' in
  let start = if neg then 1 else 0 in
  let acc = ref Z0 in
  for i = start to S.length s - 1 do
    let d = Char.code s.[i] - 48 in
    if d < 0 || d > 9 then failwith ("bad number " ^ s);
    acc := Z.add (Z.mul !acc z10) (z_of_int d)
  done;
  if neg then Z.opp !acc else !acc

(* Coq's [byte] has 256 constant constructors x00..xff in order: the model's
   own z2b is used to build the table once, so no representation is assumed *)
let byte_table : byte array = A.init 256 (fun i -> z2b (z_of_int i))

let hexval c =
  match c with
  | '0' .. '9' -> Char.code c - 48
  | 'a' .. 'f' -> Char.code c - 87
  | 'A' .. 'F' -> Char.code c - 55
  | _ -> failwith "bad hex"

let bytes_of_hex (s : str) : byte list =
  if s = "-" then []
  else begin
    let n = S.length s / 2 in
    let r = ref [] in
    for i = n - 1 downto 0 do
      r := byte_table.(hexval s.[2 * i] * 16 + hexval s.[2 * i + 1]) :: !r
    done;
    !r
  end

let byte_of_hex (s : str) : byte =
  match bytes_of_hex s with [b] -> b | _ -> failwith "bad byte"

(* printing: [byte] -> char through the model's b2z *)
let int_of_z (z : z) : int =
  let rec p = function XH -> 1 | XO q -> 2 * p q | XI q -> 2 * p q + 1 in
  match z with Z0 -> 0 | Zpos q -> p q | Zneg q -> - (p q)

let char_tbl : (byte, char) Hashtbl.t = Hashtbl.create 256
let () = A.iteri (fun i b -> Hashtbl.replace char_tbl b (Char.chr i)) byte_table
let () = A.iteri (fun i b -> if int_of_z (b2z b) <> i then failwith "byte table") byte_table

let output_bytes oc (l : byte list) =
  let buf = Buffer.create 4096 in
  L.iter (fun b -> Buffer.add_char buf (Hashtbl.find char_tbl b)) l;
  Buffer.output_buffer oc buf

(* ---- case parser ---- *)

exception Parse_error of str

let alnum_of (t : str) : z list =
  if t = "-" then [] else L.map z_of_string (S.split_on_char ',' t)

let floats_of (t : str) =
  if t = "-" then []
  else
    L.map (fun p ->
        match S.split_on_char ':' p with
        | [tok; s32; b32; s64; b64] ->
          (bytes_of_hex tok, (((z_of_string s32, z_of_string b32), z_of_string s64), z_of_string b64))
        | _ -> raise (Parse_error "float oracle"))
      (S.split_on_char ';' t)


let ikinds = [| Kint; Kint8; Kint16; Kint32; Kint64; Kuint; Kuint8; Kuint16; Kuint32; Kuint64 |]

let parse_steps (toks : str list) : step list =
  let toks = ref toks in
  let next () = match !toks with t :: r -> toks := r; t | [] -> raise (Parse_error "eof") in
  let peek () = match !toks with t :: _ -> t | [] -> "" in
  let num () = z_of_string (next ()) in
  let nat () = nat_of_int (int_of_string (next ())) in
  let hexs () = bytes_of_hex (next ()) in
  let rec arg () : arg =
    let t = next () in
    match t with
    | "o" -> AOther
    | "b0" -> ABool false
    | "b1" -> ABool true
    | "s" -> AStr (hexs ())
    | "r" -> ARef (nat ())
    | "f4" -> AF32 (num ())
    | "f8" -> AF64 (num ())
    | "*" -> let n = num () in let a = arg () in ARep (n, a)
    | _ when S.length t = 2 && t.[0] = 'i' ->
      let k = ikinds.(Char.code t.[1] - 48) in AInt (k, num ())
    | _ -> raise (Parse_error ("arg " ^ t))
  in
  let args () : arg list =
    if next () <> "(" then raise (Parse_error "(");
    let r = ref [] in
    while peek () <> ")" do r := arg () :: !r done;
    ignore (next ());
    L.rev !r
  in
  let fmap () : (byte list * arg) list =
    if next () <> "{" then raise (Parse_error "{");
    let r = ref [] in
    while peek () <> "}" do
      let k = hexs () in
      let a = arg () in
      r := (k, a) :: !r
    done;
    ignore (next ());
    L.rev !r
  in
  let step () : step =
    match next () with
    | "NL" -> SNewList (args ())
    | "NI" -> let w = nat () in SNewInt (w, args ())
    | "NU" -> let w = nat () in SNewUint (w, args ())
    | "NF" -> let w = nat () in SNewFloat (w, args ())
    | "NB" -> SNewBinary (args ())
    | "NO" -> SNewBoolean (args ())
    | "NA" -> SNewAscii (hexs ())
    | "NAR" -> let b = byte_of_hex (next ()) in SNewAsciiRep (b, num ())
    | "NAV" -> let n = hexs () in let mn = num () in let mx = num () in SNewAsciiVar (n, mn, mx)
    | "NE" -> SNewEmpty
    | "FI" -> let r = nat () in SFill (r, fmap ())
    | "NM" ->
      let name = hexs () in let s = num () in let f = num () in let w = num () in
      let dir = hexs () in let it = nat () in SNewMsg (name, s, f, w, dir, it)
    | "NH" ->
      let name = hexs () in let s = num () in let f = num () in let w = num () in
      let dir = hexs () in let it = nat () in let sid = num () in let sys = hexs () in
      SNewHsmsMsg (name, s, f, w, dir, it, sid, sys)
    | "SW" -> let r = nat () in SSetWaitBit (r, next () = "1")
    | "SS" -> let r = nat () in let sid = num () in SSetSession (r, sid, hexs ())
    | "FM" -> let r = nat () in SFillMsg (r, fmap ())
    | "HP" -> SHsmsParse (hexs ())
    | "RP" -> SReparse (nat ())
    | "CN" -> SCtlNew (hexs ())
    | "CSQ" -> let sid = num () in SCtlSelectReq (sid, hexs ())
    | "CSR" -> let r = nat () in SCtlSelectRsp (r, byte_of_hex (next ()))
    | "CDQ" -> let sid = num () in SCtlDeselectReq (sid, hexs ())
    | "CDR" -> let r = nat () in SCtlDeselectRsp (r, byte_of_hex (next ()))
    | "CLQ" -> SCtlLinktestReq (hexs ())
    | "CLR" -> SCtlLinktestRsp (nat ())
    | "CRJ" ->
      let sid = num () in let pt = byte_of_hex (next ()) in let st = byte_of_hex (next ()) in
      let sys = hexs () in let reason = byte_of_hex (next ()) in
      SCtlRejectReq (sid, pt, st, sys, reason)
    | "CPQ" -> let sid = num () in SCtlSeparateReq (sid, hexs ())
    | "HB" -> let typ = hexs () in SHeader (typ, num ())
    | "SP" ->
      let input = hexs () in
      let alnum = alnum_of (next ()) in
      let floats = floats_of (next ()) in
      SSml (input, alnum, floats)
    | "SX" -> let input = hexs () in SLex (input, alnum_of (next ()))
    | "PK" -> let r = nat () in SPick (r, nat ())
    | t -> raise (Parse_error ("step " ^ t))
  in
  let r = ref [] in
  while !toks <> [] do
    r := step () :: !r;
    (match !toks with
     | ";" :: rest -> toks := rest
     | [] -> ()
     | t :: _ -> raise (Parse_error ("expected ; got " ^ t)))
  done;
  L.rev !r

let () =
  let ic = if A.length Sys.argv > 1 then open_in Sys.argv.(1) else stdin in
  let oc = stdout in
  (try
     while true do
       let line = input_line ic in
       if line <> "" then begin
         match S.index_opt line '\t' with
         | None -> ()
         | Some i ->
           let id = S.sub line 0 i in
           let body = S.sub line (i + 1) (S.length line - i - 1) in
           let toks = L.filter (fun s -> s <> "") (S.split_on_char ' ' body) in
           (match (try Some (parse_steps toks) with Parse_error m -> prerr_endline ("case " ^ id ^ ": " ^ m); None) with
            | None -> output_string oc (id ^ "\tERR\n")
            | Some steps ->
              let obs = observe steps in
              L.iteri (fun k o ->
                  output_string oc id; output_char oc '\t';
                  output_string oc (string_of_int k); output_char oc '\t';
                  output_bytes oc o; output_char oc '\n') obs)
       end
     done
   with End_of_file -> ());
  flush oc
