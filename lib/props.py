"""Per-property configuration of ./check: which theorem file states the
property, which proof/tie files it stands on, which correspondence suites tie
the model to /repo, and which observables are decisive (a disagreement there
is itself a counterexample, because a theorem pins the model's value as the
only correct one)."""

import extras

MODEL_FILES = ["Bytes.v", "Utf8.v", "Ast.v", "Fill.v", "Msg.v", "Lexer.v", "Parser.v", "Api.v"]

TRUSTED_BASE = [
    "Coq 8.16.1 kernel (coqc, full .vo build; vm_compute used only where a finite sweep is lifted by forallb_forall; no native_compute)",
    "no axioms declared; no Admitted/admit; guard, positivity and universe checks on (grep in every run)",
    "extraction: ExtrOcamlBasic only (Extract Inductive for bool, option, unit, list, prod, sumbool as that file sets them; no Extract Constant); Z, positive, nat, byte stay extracted datatypes; OCaml 4.13.1 ocamlopt",
    "translator harness/cmd/gengo (go/ast + go/types): constants, tables and control-message code are regenerated into coq/gen/*.v on every run; trusted to mean what the recognised Go forms mean",
    "correspondence harness (harness/, -tags verif, replace => /repo) and driver/main.ml: the hand-written model of the algorithmic code is tied to /repo by agreement on the generated histories only",
    "modelled, not verified: Go language primitives (integer conversions, float32(), slicing, range over strings), strconv/fmt float text (oracle, rendered by the harness), unicode tables beyond the IsSpace set, the Go runtime",
]

SML_PROOFS = ["SmlNumbers.v", "SmlProofs.v"]
SML_DEEP = SML_PROOFS + ["LexProofs.v", "ParseProofs.v"]
SML_LAYOUT = SML_DEEP + ["LayoutProofs.v", "FrameProofs.v", "OffsetProofs.v"]
SML_CASE = ["PrintProofs.v", "LexPrinted.v", "CaseProofs.v", "LexNames.v", "GapProofs.v"]
AST_PROOFS = ["FloatProofs.v", "AstProofs.v", "FillProofs.v"]
FILL_DEEP = ["FillCompose.v", "EllipsisProofs.v", "PrintProofs.v"]
WIRE_PROOFS = ["HeaderProofs.v", "WireSpec.v", "WireLemmas.v", "WireValues.v", "WireEnc.v", "WireDec.v", "MsgProofs.v"]

PROPS = {
    "C01": dict(
        prop_file="props/C01.v", proof_files=WIRE_PROOFS, tie_files=["TablesTie.v"],
        suites=["C01"],
        decisive=["kind", "bytes", "str", "vars", "size", "stream", "function", "wbit", "sid", "sys", "entries"],
        decisive_why="C01_msg proves the model decodes the model's encoding back to the same message; the model's encoding is the unique E5 encoding (C02_item, C02_functional), so a different encoding, a refusal or a different decoded message on the library side is a round-trip failure of the library",
        assumptions=["messages whose text exceeds 2^32-11 bytes are outside the theorem (HSMS has a 4-byte length): known finding K2",
                     "nesting depth of generated trees is bounded (quick: 60, thorough: 170): decoding is quadratic in depth"],
    ),
    "C02": dict(
        prop_file="props/C02.v", proof_files=WIRE_PROOFS, tie_files=["TablesTie.v"],
        suites=["C02"],
        decisive=["kind", "bytes", "entries"],
        decisive_why="C02_item + C02_functional: the model's bytes are the one and only strict E5 encoding of the item",
        exhaustive=False,
        assumptions=["IEEE-754 meaning of a bit pattern and float32() rounding are Go's; the model fixes byte order, width and which pattern is written"],
    ),
    "C03": dict(
        prop_file="props/C03.v", proof_files=WIRE_PROOFS, tie_files=["TablesTie.v"],
        suites=["C03"],
        decisive=["kind", "bytes", "str", "vars", "size", "stream", "function", "wbit", "sid", "sys", "type", "entries"],
        decisive_why="C03_sound/C03_complete: the model accepts exactly the well-formed frames and returns the message they denote; C03_unique: there is no other",
    ),
    "C14": dict(
        prop_file="props/C14.v", proof_files=WIRE_PROOFS + ["CtrlProofs.v"], tie_files=["CtrlTie.v", "TablesTie.v"],
        suites=["C14"],
        decisive=["kind", "bytes", "type", "entries"],
        decisive_why="C14_layout_*, C14_echo: the header layout is stated byte by byte; C14_type_total: the type of every (PType, SType) pair; C14_decode",
        exhaustive=True,
        rule="all 65,536 session ids through the constructors, all 256 status and reason codes, all 65,536 (PType, SType) pairs through Type() (and a ninth of them, plus PType 0..2 completely, through the decoder); distinct = distinct case texts",
    ),
    "C04": dict(
        prop_file="props/C04.v", proof_files=WIRE_PROOFS + AST_PROOFS + ["FloatRound.v", "FillCompose.v"] + SML_DEEP + ["PrintProofs.v", "LayoutProofs.v", "OffsetProofs.v", "TokenProofs.v", "AsciiTokens.v", "TokenTrees.v", "LexPrinted.v", "CaseProofs.v", "LexNames.v", "AsciiLex.v", "LexTrees.v", "MsgRoundTrip.v", "NameLex.v", "Converse.v"], tie_files=["TablesTie.v"],
        suites=["C04"],
        decisive=[],
        assumptions=["float text is strconv's (FormatFloat/ParseFloat), an oracle of the model rendered by the harness",
                     "C04_print_parse is not proved (only the literal level): decided by monitors and correspondence"],
    ),
    "C05": dict(
        prop_file="props/C05.v", proof_files=SML_PROOFS, tie_files=["TablesTie.v"],
        suites=["C05"],
        decisive=["n", "errs", "kind", "str", "bytes"],
        decisive_why="C05_int/C05_uint/C05_bin/C05_quoted: the model stores the value the literal denotes or records an error; a different stored value or a missing error on the library side is a silent substitution",
    ),
    "C06": dict(
        prop_file="props/C06.v", proof_files=SML_DEEP, tie_files=["TablesTie.v"],
        suites=["C06"],
        decisive=["kind"],
        decisive_why="an escaping panic (kind P) where the model returns normally",
        extra=extras.hostile_sml_stage,
        assumptions=["partial: time (the real lexer is quadratic: lineColumn and per-token regexp compilation) and the Go stack are not modelled; the worker's watchdog and TotalAlloc bound are the observation"],
    ),
    "C08": dict(
        prop_file="props/C08.v", proof_files=SML_LAYOUT + SML_CASE, tie_files=["TablesTie.v"],
        suites=["C08"],
        decisive=[],
    ),
    "C15": dict(
        prop_file="props/C15.v", proof_files=SML_PROOFS, tie_files=["TablesTie.v"],
        suites=["C15"],
        decisive=["n", "errs", "kind"],
        decisive_why="C15_iff + C15_form_*: the model reports a size error exactly when the count is outside the declared bounds",
        exhaustive=True,
        rule="exhaustive grid: 14 item types x 4 declaration forms (+ a spaced form) x lower, upper, count in 0..5; overflowing bounds; ASCII variables: 5 declaration forms x bounds 0..4 x fill lengths 0..6",
    ),
    "C19": dict(
        prop_file="props/C19.v", proof_files=WIRE_PROOFS + AST_PROOFS + ["FloatRound.v", "FillCompose.v", "PrintProofs.v"] + SML_LAYOUT + ["TokenProofs.v", "AsciiTokens.v", "TokenTrees.v", "LexPrinted.v", "CaseProofs.v", "LexNames.v", "AsciiLex.v", "LexTrees.v", "MsgRoundTrip.v", "NameLex.v", "Converse.v"], tie_files=["TablesTie.v"],
        suites=["C19"],
        decisive=[],
    ),
    "C07": dict(
        prop_file="props/C07.v", proof_files=WIRE_PROOFS, tie_files=["TablesTie.v"],
        suites=["C07"],
        decisive=["kind", "bytes", "str", "entries"],
        decisive_why="C03_sound/C03_complete pin which inputs are accepted and what they decode to",
        extra=extras.hostile_hsms_stage,
        assumptions=["partial: GC behaviour and the goroutine stack cap are the runtime's; time is not part of C07 (decoding is quadratic in the nesting depth)",
                     "TotalAlloc is measured per input in a worker subprocess; the linear bound (2048 bytes per input byte + 64 KiB) is about 4x the worst ratio seen on the clean tree"],
    ),
    "C09": dict(
        prop_file="props/C09.v", proof_files=WIRE_PROOFS + AST_PROOFS + ["FillCompose.v", "FillTrees.v"], tie_files=["TablesTie.v"],
        suites=["C09"],
        decisive=["kind"],
        decisive_why="a fill that is refused by one side and accepted by the other contradicts C09_subst (refusal coincides with the factory's)",
        assumptions=["composition law for list templates: Go-side monitor + correspondence (C09_compose_partial), proved for value items"],
    ),
    "C10": dict(
        prop_file="props/C10.v", proof_files=WIRE_PROOFS + AST_PROOFS + ["EllipsisProofs.v"], tie_files=["TablesTie.v"],
        suites=["C10"],
        decisive=[],
        assumptions=["C10_refines (imperative expander = declarative expander) is not proved yet; the imperative model is tied to the code by exhaustive small templates"],
    ),
    "C11": dict(
        prop_file="props/C11.v", proof_files=["Heap.v"], tie_files=["EffectsTie.v"],
        suites=["C11"],
        decisive=[],
        assumptions=["the heap model covers the byte slices and maps that cross the API; strings are immutable in Go",
                     "the effect summary (gengo/effects.go) is a syntactic analysis, trusted for the recognised forms"],
        rule="histories of 6-50 API calls over a growing pool (factories, shared children, producers, fills, both directions of the HSMS codec, control messages) with every argument slice/map and every returned slice scribbled over after each call; monitor: every object observed at creation = observed at the end",
    ),
    "C17": dict(
        prop_file="props/C17.v", proof_files=["Conc.v"], tie_files=["EffectsTie.v"],
        suites=[],
        decisive=[],
        extra=extras.race_stage,
        assumptions=["partial by nature: the Go memory model, scheduler, race detector's happens-before view and the thread safety of regexp/fmt/sort/strconv are outside the model; the -race driver is the observation for them"],
    ),
    "C12": dict(
        prop_file="props/C12.v", proof_files=WIRE_PROOFS + AST_PROOFS + ["FloatRound.v"], tie_files=["TablesTie.v"],
        suites=["C12"],
        decisive=["kind", "bytes", "str", "vars", "size", "entries"],
        decisive_why="C12_leaf_exact / C12_int_no_wrap / C12_leaf_refused: the model stores the mathematical value or refuses; printing and encoding of stored values are pinned by C02",
        exhaustive=True,
        rule="boundary grid: every integer boundary (2^7, 2^8, 2^15, 2^16, 2^31, 2^32, 2^53, 2^63, 2^64 +-2 and negatives) in every Go integer type that holds it x every factory x widths 1,2,4,8 and invalid widths; float boundaries around MaxFloat32, subnormals, ties, Inf/NaN; every byte in ASCII items; name pool; message field grid; plus random float values",
    ),
    "C16": dict(
        prop_file="props/C16.v", proof_files=WIRE_PROOFS + AST_PROOFS + ["PrintProofs.v"], tie_files=["TablesTie.v"],
        suites=["C16"],
        decisive=["vars", "size", "entries"],
        decisive_why="C16_nodup / C16_encodable / C16_size pin the model's variable list, encodability and size",
    ),
    "C18": dict(
        prop_file="props/C18.v", proof_files=WIRE_PROOFS + AST_PROOFS, tie_files=["TablesTie.v"],
        suites=["C18"],
        decisive=["kind", "name", "stream", "function", "wbit", "dir", "sid", "sys", "header", "entries", "vars", "str", "bytes"],
        decisive_why="C18_setwaitbit / C18_setsession / C18_fill: the model's producers change exactly the named fields; the result's item is pinned by C18_fill, hence its variable list, printed form and encoding",
    ),
    "C13": dict(
        prop_file="props/C13.v", proof_files=WIRE_PROOFS, tie_files=["TablesTie.v"],
        suites=["C13"],
        decisive=["kind", "bytes", "entries", "size"],
        decisive_why="C13_header_exact: the model's header is the exact minimal length header for every size",
    ),
}
