"""Per-property configuration of ./check: which theorem file states the
property, which proof/tie files it stands on, which correspondence suites tie
the model to /repo, and which observables are decisive (a disagreement there
is itself a counterexample, because a theorem pins the model's value as the
only correct one)."""

MODEL_FILES = ["Bytes.v", "Utf8.v", "Ast.v", "Fill.v", "Msg.v", "Api.v"]

TRUSTED_BASE = [
    "Coq 8.16.1 kernel (coqc, full .vo build; vm_compute used only where a finite sweep is lifted by forallb_forall; no native_compute)",
    "no axioms declared; no Admitted/admit; guard, positivity and universe checks on (grep in every run)",
    "extraction: ExtrOcamlBasic only (Extract Inductive for bool, option, unit, list, prod, sumbool as that file sets them; no Extract Constant); Z, positive, nat, byte stay extracted datatypes; OCaml 4.13.1 ocamlopt",
    "translator harness/cmd/gengo (go/ast + go/types): constants, tables and control-message code are regenerated into coq/gen/*.v on every run; trusted to mean what the recognised Go forms mean",
    "correspondence harness (harness/, -tags verif, replace => /repo) and driver/main.ml: the hand-written model of the algorithmic code is tied to /repo by agreement on the generated histories only",
    "modelled, not verified: Go language primitives (integer conversions, float32(), slicing, range over strings), strconv/fmt float text (oracle, rendered by the harness), unicode tables beyond the IsSpace set, the Go runtime",
]

WIRE_PROOFS = ["HeaderProofs.v", "WireSpec.v", "WireLemmas.v", "WireValues.v", "WireEnc.v", "WireDec.v", "MsgProofs.v"]

PROPS = {
    "C01": dict(
        prop_file="props/C01.v", proof_files=WIRE_PROOFS, tie_files=["TablesTie.v"],
        suites=["C01"],
        decisive=["kind", "bytes", "str", "vars", "size", "stream", "function", "wbit", "sid", "sys", "entries"],
        decisive_why="C01_msg proves the model decodes the model's encoding back to the same message; the model's encoding is the unique E5 encoding (C02_item, C02_functional), so a different encoding, a refusal or a different decoded message on the library side is a round-trip failure of the library",
        assumptions=["messages whose text exceeds 2^32-11 bytes are outside the theorem (HSMS has a 4-byte length): known finding K2",
                     "nesting depth of generated trees is bounded (quick: 60, thorough: 170): decoding is quadratic in depth"],
    ),
    "C02": dict(
        prop_file="props/C02.v", proof_files=WIRE_PROOFS, tie_files=["TablesTie.v"],
        suites=["C02"],
        decisive=["kind", "bytes", "entries"],
        decisive_why="C02_item + C02_functional: the model's bytes are the one and only strict E5 encoding of the item",
        exhaustive=False,
        assumptions=["IEEE-754 meaning of a bit pattern and float32() rounding are Go's; the model fixes byte order, width and which pattern is written"],
    ),
    "C03": dict(
        prop_file="props/C03.v", proof_files=WIRE_PROOFS, tie_files=["TablesTie.v"],
        suites=["C03"],
        decisive=["kind", "bytes", "str", "vars", "size", "stream", "function", "wbit", "sid", "sys", "type", "entries"],
        decisive_why="C03_sound/C03_complete: the model accepts exactly the well-formed frames and returns the message they denote; C03_unique: there is no other",
    ),
    "C14": dict(
        prop_file="props/C14.v", proof_files=WIRE_PROOFS + ["CtrlProofs.v"], tie_files=["CtrlTie.v", "TablesTie.v"],
        suites=["C14"],
        decisive=["kind", "bytes", "type", "entries"],
        decisive_why="C14_layout_*, C14_echo: the header layout is stated byte by byte; C14_type_total: the type of every (PType, SType) pair; C14_decode",
        exhaustive=True,
        rule="all 65,536 session ids through the constructors, all 256 status and reason codes, all 65,536 (PType, SType) pairs through Type() (and a ninth of them, plus PType 0..2 completely, through the decoder); distinct = distinct case texts",
    ),
    "C13": dict(
        prop_file="props/C13.v", proof_files=WIRE_PROOFS, tie_files=["TablesTie.v"],
        suites=["C13"],
        decisive=["kind", "bytes", "entries", "size"],
        decisive_why="C13_header_exact: the model's header is the exact minimal length header for every size",
    ),
}
