"""Texts of MANIFEST.json, per property."""

BASE_NOTE = ("Trusted: Coq 8.16.1 kernel; the translator gengo; ExtrOcamlBasic extraction and the OCaml driver; "
             "the correspondence harness (agreement of model and library is established on the generated histories only); "
             "Go primitives, strconv float text and the Go runtime are modelled or oracles, not verified. "
             "Print Assumptions of every property theorem: Closed under the global context (recorded per run in the evidence).")

TEXT = {
    "C01": dict(
        level="Proof: C01_item (decode(encode t ++ rest) = (t, rest) for every value item, by nested induction over item trees, unbounded size/depth/values), C01_msg / C01_reencode (message level: same stream, function, wait bit, session id, system bytes, identical item, same bytes again), C01_decoder_output. The model is tied to /repo by the correspondence suite C01 (messages built by factories, producers and the decoder itself, encoded and re-decoded on library and model) and a Go-side round-trip monitor.",
        note=BASE_NOTE + " Hypothesis of C01_msg: message text below 2^32-10 bytes (4-byte HSMS length).",
        technique="Coq proof (induction over item trees) + differential correspondence with the extracted model"),
    "C02": dict(
        level="Proof: C02_item (ToBytes of every value item satisfies the relation `wire true` written from SEMI E5: format byte, minimal big-endian length, payload encodings, children in order), C02_functional (that encoding is unique), C02_codes (the code's table equals the E5 codes), C02_frame / C02_frame_wf (E37 frame), C02_incomplete (empty byte string). Correspondence suite C02: exhaustive 1- and 2-byte formats, boundary and random values, trees, complete and incomplete messages.",
        note=BASE_NOTE + " float32() rounding is modelled (f64_to_f32) and validated, not proved against IEEE-754.",
        technique="Coq proof against an independent relational spec of E5/E37 + differential correspondence"),
    "C03": dict(
        level="Proof: C03_sound and C03_complete (hsms_parse bs = Some m <-> frame_wf bs m, where frame_wf is the E37 frame with a lenient E5 item: 1-3 length bytes, any non-zero boolean), C03_unique, item-level soundness/completeness, C03_reencode. Correspondence suite C03: valid encodings, non-minimal rewrites, every truncation, appended bytes, every header/format/length byte altered (exhaustively for short messages), unstructured bytes.",
        note=BASE_NOTE,
        technique="Coq proof (decoder = relational spec, both directions) + differential correspondence on corrupted inputs"),
    "C14": dict(
        level="Proof over the constructors as regenerated from hsms.go by the translator (gen/Ctrl.v): C14_layout_req, C14_layout_reject, C14_short_system_bytes, C14_echo (responses echo session id and system bytes, wrong kind refused), C14_bytes, C14_type_function, C14_type_total (all 65,536 (PType, SType) pairs: forallb ... = true by vm_compute, lifted with forallb_forall), C14_decode. Correspondence suite C14 is exhaustive over session ids, status/reason codes and (PType, SType) pairs.",
        note=BASE_NOTE + " The translation of the eight constructors, Type() and ToBytes() is by gengo's recognised statement forms; an unrecognised form makes CtrlTie.v fail.",
        technique="Coq proof over translator-generated definitions (reflexivity, finite sweep lifted by forallb_forall) + exhaustive correspondence"),
    "C04": dict(
        level="Proof (sub-grammar complete, rest partial): C04_print_parse — sml.Parse of the printed form of any sequence of messages (any stream/function code, wait bit, direction, a name the header lexer reads as one name; item trees of lists, plain list variables, integer / unsigned / binary / boolean value items, ASCII items over all 128 characters and ASCII variables with length constraints, of any size, nesting and value; or no item) returns exactly those messages with no error and no warning: the printer model, the lexer model and the parser model composed, by induction over trees, elements and fuel. Its layers: C04_print_lex_parse (characters -> tokens -> tree), C04_item_tokens, C04_leaf_item, C04_leaf_tokens, and the literal lemmas C04_partial_*. Not proved: float items (their text is a strconv oracle), ellipses, and the converse direction (printed form is a fixed point of every accepted text); those are decided by the Go-side monitors of suite C04 (API-built messages printed and re-parsed: exactly one message, no diagnostics, same header, variables, printed form and bytes; every accepted text re-printed and re-parsed) and by the correspondence of printer, lexer and parser with the model.",
        note=BASE_NOTE + " Float text is an oracle (strconv).",
        technique="Coq proof (printer, lexer and parser models composed; offset parametricity of the parser) + print/parse monitors + differential correspondence"),
    "C05": dict(
        level="Proof: C05_int / C05_uint / C05_bin (a number token that adds no error is stored as the integer strconv reads from it, within the item's range), C05_digits (printing in base 2..36 then scanning is the identity), C05_decimal (value or range error at every width, never wrapped), C05_prefixed (0x/0b/0o in either case), C05_quoted / C05_quoted_refused. Floats: oracle (C05_float_partial). Suite C05: literal grammar for all 14 types with expected values computed independently of library and model.",
        note=BASE_NOTE + " strconv.ParseInt/ParseUint/Atoi are re-implemented in the model for the token language of the lexer; ParseFloat is an oracle.",
        technique="Coq proof over a re-implementation of strconv's integer scanning + literal-grammar suite with an independent oracle"),
    "C06": dict(
        level="Proof: C06_no_crash (for every input the one panic site outside parseDataItem's recover, the message constructor, is never reached with arguments it refuses: lexer invariant over the UTF-8 decoder + parser invariant), C06_all_or_nothing, C06_nothing_dropped (no error reported => every token up to EOF was read: a refused message always adds an error, an accepted one consumes a token, the fuel is never used up), C06_lexer_terminates (every lexer step consumes input; the stream ends in EOF or an error token), C06_progress, C06_positions. Partial by nature: time and the Go stack are the runtime's; token soups, every Unicode space at every header position, mutated messages, random bytes and resource-hostile texts run in a worker subprocess under a memory bound and a watchdog, and in the correspondence.",
        note=BASE_NOTE + " Partial: time complexity and the Go stack are not modelled.",
        technique="Coq proof (lexer and parser invariants by induction on fuel) + hostile-input worker subprocess + token-soup correspondence"),
    "C08": dict(
        level="Proof (partial): C08_whitespace (any run of blanks, tabs, CR, LF before a token is skipped in both lexer states), C08_comment (a // comment with any bytes up to its line feed yields no token and moves the following offsets by exactly its length), C08_offsets (lexing at another offset = the same tokens, moved), C08_positions_irrelevant / C08_diagnostics_follow_tokens (the parser's messages and diagnostic kinds do not depend on token offsets; each diagnostic carries the token it points at), C08_fuel, C08_positions, C08_prefix_case. Not proved in general: that a gap after a token leaves that token unchanged (locality of the prefix matchers; proved for printed texts in C04) and keyword letter case; decided by metamorphic pairs on the library (same token sequence, valid or invalid, under different layouts, comment texts with arbitrary trailing bytes, letter case), an independent token-position monitor, and the token-level correspondence.",
        note=BASE_NOTE,
        technique="Coq proof (step-function lexer: whitespace, comments, offset shifting; offset parametricity of the parser) + metamorphic layout pairs + token-stream correspondence"),
    "C15": dict(
        level="Proof: C15_iff (the size check refuses exactly the counts outside the bounds), C15_form_exact / _range / _lower / _upper (each declaration form denotes the bounds written, for all bounds below 2^63), C15_overflow (clamped bounds still refuse), C15_variable (an ASCII variable enforces its bounds on fill). Suite C15 is the exhaustive grid over types, forms and (lower, upper, count) in 0..5 with an independent expectation.",
        note=BASE_NOTE,
        technique="Coq proof (arithmetic + decimal scanning) + exhaustive grid with independent oracle"),
    "C19": dict(
        level="Proof (partial): C19_message_alone + C19_rest_alone (at any point of the message loop the final result is the result so far followed by the result of parsing the remaining tokens from a fresh state: names, ellipsis counter, earlier diagnostics and messages do not influence what follows), C19_scoping, C19_all_messages (the loop stops only at EOF or with an error), C19_separator, C19_comment_separator. Not proved: that the tokens of t1 ++ sep ++ t2 are those of t1 followed by those of t2 (lexer locality after a terminator) and that the first text's messages do not depend on the tokens that follow; decided by suite C19: sequences of accepted texts joined by every separator class, on the library (monitor, incl. warnings modulo position) and on the model.",
        note=BASE_NOTE,
        technique="Coq proof (past-independence of the message loop by rewriting through every parser function) + concatenation monitor + differential correspondence"),
    "C07": dict(
        level="Proof (partial): C07_total (the decoder model's only outcomes are rejection or the denoted message), C07_alloc / C07_alloc_items (allocation units, charged where the Go code allocates, are at most 5 per input byte + 16 whatever lengths the input declares; mutual induction over the fuel using decoder soundness), C07_depth (recursion depth at most half the input length). The runtime half: every hostile input is decoded in a worker subprocess under an address-space limit and a watchdog, runtime.MemStats.TotalAlloc must stay below 2048 bytes per input byte + 64 KiB, no panic may escape, an abort is a violation unless it is the listed known finding K1 (stack overflow at 8,000,000 nesting levels).",
        note=BASE_NOTE + " Partial: the allocator, GC and the 1 GB goroutine stack cap are the Go runtime's; the unit cost model is tied to the code by the TotalAlloc bound, not by proof.",
        technique="Coq proof of a linear bound on a cost semantics + worker-subprocess measurement of TotalAlloc on hostile inputs"),
    "C09": dict(
        level="Proof (partial for lists): C09_subst (FillVariables of a value item = the factory on the argument list with the values in place, refusal included), C09_compose_leaf (filling a value item in two steps = filling once with the union of the maps, for values that bring no variable of their own), C09_unknown, C09_values_survive, C09_names, C09_bytes. The composition law and the order of remaining variables for list templates are decided by the Go-side monitor of suite C09 (single fill vs every split into successive fills) and by the correspondence with the model.",
        note=BASE_NOTE,
        technique="Coq proof (substitution lemma through the factory) + differential correspondence + metamorphic monitor (split fills)"),
    "C10": dict(
        level="Proof: C10_refines (for every template, nesting and non-negative counts the expander of list.go — dimension stack, index vector, restart of the loop index, counter of remaining ellipses — computes the declarative expansion expand_d: the group before a filled ellipsis n+1 times, copy j under the index path extended by j, the rest once; by induction on fuel with a state-representation invariant), C10_fill (FillVariables = that expansion under the empty path, then plain substitution), C10_count ((n+1)*p + rest children), C10_rename (suffix [j] after the enclosing suffixes, outermost first), C10_renumber, C10_unique. Negative counts are outside the theorem (hypothesis counts_ok) and compared by the suite. The model is tied to the code by all small templates (exhaustive enumeration) and random larger ones, plus structural monitors.",
        note=BASE_NOTE,
        technique="Coq refinement proof (state-passing expander vs declarative expansion) + exhaustive small-template correspondence + structural monitors"),
    "C11": dict(
        level="Proof: C11_histories (address-level model Heap.v: for every sequence of constructor, producer, accessor calls and caller writes through every address the caller ever held, every pooled object is observed as at creation; invariant by induction), C11_exposure_refuted (the same model with an exposing accessor violates it: the statement is not vacuous), C11_no_exposure / C11_no_retention / C11_no_writes_to_shared (the policy holds of the source: effect summary regenerated by the translator on every run), C11_pool_grows (pure model). Correspondence: mutation histories with scribbling over every shared slice, and a creation-vs-end monitor.",
        note=BASE_NOTE + " The effect analysis is syntactic and conservative (unknown forms fail the obligation).",
        technique="Coq invariant proof over an address-level heap model + translator-generated effect summary + mutation histories"),
    "C17": dict(
        level="Proof (partial): C17_footprints (from the regenerated effect summary: no package-level variables, no goroutines, writes only through call-local work objects that the API never hands out), C17_drf and C17_results (Conc.v: for calls with such footprints no interleaving contains conflicting accesses and every call reads what it reads alone; induction over the schedule). The runtime half is decided by the -race driver: goroutines printing, encoding, listing, filling shared items/messages and running both parsers, results compared with the calls made alone.",
        note=BASE_NOTE + " Partial: the Go memory model, the runtime and the standard library's own thread safety cannot be exhibited by the Gallina model; the race detector observes them on the executions run.",
        technique="Coq proof over footprints from the translator's effect summary + go -race stress driver with sequential oracle"),
    "C12": dict(
        level="Proof: C12_leaf_exact (every stored element is the mathematical value of the argument, within the item's range; floats finite and rounded by the modelled conversion), C12_int_no_wrap / C12_uint_no_wrap (no wrap-around for any Go integer type), C12_leaf_refused (every refusal has a documented reason), C12_float32_finite, C12_ascii, C12_message, C12_fill. Correspondence suite C12: the full boundary grid, plus an independent big-integer oracle on the Go side.",
        note=BASE_NOTE + " float64->float32 and int->float64 conversions are modelled in Gallina (round to nearest even) and validated against Go on the boundary grid and random values.",
        technique="Coq proof over the factory model + exhaustive boundary-grid correspondence + independent oracle"),
    "C16": dict(
        level="Proof: C16_nodup (for every history of API calls no name occurs twice in any pooled item or message: invariant by induction over the history), C16_printed_form + C16_order (the printed form is the text of a printer that marks every variable-name occurrence; erasing the marks gives String(), and the marked names in order are exactly Variables(), an ellipsis shown as ...), C16_order_premise, C16_encodable (ToBytes non-empty iff no variables), C16_size. Suite C16 (a third of the cases with every returned slice written over) + an independent reader of the printed form on the Go side.",
        note=BASE_NOTE,
        technique="Coq invariant over histories (fold_left) + marked-printer theorem + correspondence + independent printed-form reader"),
    "C18": dict(
        level="Proof: C18_setwaitbit, C18_setsession, C18_fill (each result is refused or equal to the input in every field but the named ones), C18_sequences (validity and identity fields are invariants of every producer sequence). Correspondence suite C18 + Go-side frame-condition monitor.",
        note=BASE_NOTE,
        technique="Coq proof (record frame conditions, fold_left invariant) + correspondence + frame monitor"),
    "C13": dict(
        level="Proof: C13_header_exact / C13_length_bytes (1 length byte up to 255, 2 up to 65,535, 3 beyond, for all sizes 0..16,777,215 and every type name, by arithmetic), C13_header_refused, C13_constructible_iff, C13_encoding, C13_readback, C13_decoder_reads. Correspondence: getHeaderBytes through the verif hook at every boundary and on random sizes, real items around 255|256 and 65535|65536, Go-side probes at the 16,777,215 limit.",
        note=BASE_NOTE,
        technique="Coq proof by arithmetic (lia) + correspondence through the getHeaderBytes hook"),
}

NOT_APPLICABLE = []

NOTES = ("Every check rebuilds from /repo's working tree: the translator regenerates coq/gen/*.v, the Coq development is rebuilt "
         "(incremental make), the harness is rebuilt with -tags verif. Replays are JSON files under build/replays/.")
