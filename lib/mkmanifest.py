#!/usr/bin/env python3
"""Writes MANIFEST.json from lib/props.py and lib/manifest_text.py."""
import json, os, sys
sys.path.insert(0, os.path.dirname(os.path.abspath(__file__)))
from props import PROPS
from manifest_text import TEXT, NOT_APPLICABLE, NOTES

checks = []
for pid in sorted(PROPS):
    t = TEXT[pid]
    checks.append({
        "property_id": pid,
        "quick_cmd": "./check %s --tier quick" % pid,
        "thorough_cmd": "./check %s --tier thorough" % pid,
        "evidence_file": "/verif/evidence/%s.json" % pid,
        "replay_cmd_template": "./check --replay {path}",
        "engine": "coq-proof+correspondence",
        "level_claimed": {"category": "proof", "text": t["level"], "design_ref": t.get("design_ref", "DESIGN.md section 6")},
        "level_note": t["note"],
        "technique": t["technique"],
    })
na = list(NOT_APPLICABLE)
claimed = set(PROPS) | {x["property_id"] for x in na}
for i in range(1, 20):
    pid = "C%02d" % i
    if pid not in claimed:
        na.append({"property_id": pid, "reason": "not claimed yet: its check is still being built (no technical obstacle; see DESIGN.md section 6)"})
m = {
    "version": 1,
    "setup_cmd": "./check --setup",
    "hooks": {
        "guard": "verif",
        "enable": "go build -tags verif (the harness module in /verif/harness replaces the library by /repo)",
        "baseline_off_cmd": "cd /repo && GOFLAGS=-mod=mod GOPROXY=off GOSUMDB=off GOTOOLCHAIN=local go test -vet=off -count=1 ./...",
        "source_commits": ["e4c20a4"],
        "add_only": True,
    },
    "engines": [{"name": "coq-proof+correspondence", "path": "/verif/check",
                 "serves_properties": sorted(PROPS),
                 "kind_free_text": "Coq 8.16 theorems about a Gallina model (coq/), translator gengo regenerating coq/gen/*.v from /repo on every run, correspondence harness (Go, -tags verif) + extracted OCaml model driver comparing histories, Go-side monitors evaluating the property statement on the library"}],
    "checks": checks,
    "not_applicable": na,
    "notes": NOTES,
}
json.dump(m, open(os.path.join(os.path.dirname(os.path.dirname(os.path.abspath(__file__))), "MANIFEST.json"), "w"), indent=1)
print("MANIFEST.json:", len(checks), "checks,", len(NOT_APPLICABLE), "not applicable")
