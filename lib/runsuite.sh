#!/bin/bash
# runsuite.sh SUITE [tier] — developer helper: generate, run model (sharded), compare
S=$1; T=${2:-quick}; B=/verif/build; D=$B/run/$S
mkdir -p $D && cd $B && ./corr gen -suite $S -seed ${SEED:-1} -tier $T -dir $D || exit 1
ulimit -s unlimited 2>/dev/null
rm -f $D/model*.obs
split -n l/16 -d $D/cases.txt $D/sh_
for f in $D/sh_*; do ( timeout ${TMO:-300} ./driver/driver $f > $f.obs 2> $f.err ) & done; wait
cat $D/sh_*.obs > $D/model.obs; cat $D/sh_*.err | head -5; rm -f $D/sh_*
./corr cmp -dir $D
