#!/usr/bin/env python3
"""seedtest.py — confirms a seeded change and runs the checks against it.

  lib/seedtest.py confirm /tmp/mut/C01.out/mutA C01     verify the change in a scratch worktree, store it under seeded/
  lib/seedtest.py run seeded/C01-mutA [props...]        apply to /repo, run the quick checks, undo

A change is kept only if: the patch applies, the repository builds, the
existing tests pass with it, the demonstration fails with it and passes without.
"""
import json, os, shutil, subprocess, sys, time

VERIF = os.path.dirname(os.path.dirname(os.path.abspath(__file__)))
REPO = "/repo"
ENV = dict(os.environ, GOFLAGS="-mod=mod", GOPROXY="off", GOSUMDB="off", GOTOOLCHAIN="local")


def sh(cmd, cwd=None, timeout=900):
    p = subprocess.run(cmd, shell=True, cwd=cwd, env=ENV, stdout=subprocess.PIPE, stderr=subprocess.STDOUT, text=True, timeout=timeout)
    return p.returncode, p.stdout


def confirm(src, prop):
    name = "%s-%s" % (prop, os.path.basename(src.rstrip("/")))
    meta = json.load(open(os.path.join(src, "meta.json")))
    wt = "/tmp/seedwt-%d" % os.getpid()
    sh("git -C %s worktree add -q --detach %s HEAD" % (REPO, wt))
    try:
        demos = [f for f in os.listdir(src) if f.endswith("_test.go")]
        place = meta.get("demo_place", "pkg/ast").strip("/")
        if place.startswith("/"):
            place = place.split("/tmp/mut/%s/" % prop)[-1]
        res = {"name": name}
        # without the patch: demo passes
        for d in demos:
            shutil.copy(os.path.join(src, d), os.path.join(wt, place, d))
        import re
        names = []
        for d in demos:
            names += re.findall(r"^func (Test\w+)\(", open(os.path.join(src, d)).read(), re.M)
        race = "-race " if "-race" in meta.get("demo_cmd", "") else ""
        run = "cd %s && go test %s-count=1 -run '^(%s)$' ./%s/" % (wt, race, "|".join(names), place)
        rc0, out0 = sh(run, cwd=wt)
        res["demo_without_patch_rc"] = rc0
        rc, out = sh("git apply %s" % os.path.join(os.path.abspath(src), "patch.diff"), cwd=wt)
        res["apply_rc"] = rc
        if rc != 0:
            res["apply_out"] = out[-500:]
        rc1, out1 = sh(run, cwd=wt)
        res["demo_with_patch_rc"] = rc1
        for d in demos:
            os.remove(os.path.join(wt, place, d))
        rcb, outb = sh("go build ./... && go test -count=1 ./...", cwd=wt)
        res["suite_with_patch_rc"] = rcb
        ok = rc0 == 0 and rc == 0 and rc1 != 0 and rcb == 0
        res["confirmed"] = ok
        if ok:
            dst = os.path.join(VERIF, "seeded", name)
            os.makedirs(dst, exist_ok=True)
            shutil.copy(os.path.join(src, "patch.diff"), dst)
            for d in demos:
                shutil.copy(os.path.join(src, d), dst)
            meta["property"] = prop
            meta["confirmed"] = {"demo_passes_without_patch": True, "patch_applies": True, "demo_fails_with_patch": True,
                                 "build_and_existing_tests_pass_with_patch": True, "commands": [run, "go build ./... && go test -count=1 ./..."],
                                 "base_commit": sh("git -C %s rev-parse --short HEAD" % REPO)[1].strip()}
            json.dump(meta, open(os.path.join(dst, "meta.json"), "w"), indent=1)
        else:
            res["detail"] = (out0[-300:], out1[-300:], outb[-300:])
        print(json.dumps(res))
        return ok
    finally:
        sh("git -C %s worktree remove --force %s" % (REPO, wt))


def runchecks(seed_dir, props):
    meta = json.load(open(os.path.join(seed_dir, "meta.json")))
    props = props or [meta["property"]]
    rc, out = sh("git -C %s status --porcelain" % REPO)
    if out.strip():
        print("refusing: /repo is not clean"); return 2
    rc, out = sh("git -C %s apply %s" % (REPO, os.path.abspath(os.path.join(seed_dir, "patch.diff"))))
    if rc != 0:
        print("patch does not apply:", out[-300:]); return 2
    results = {}
    # the checks rewrite evidence/<id>.json: keep the clean-tree evidence
    ev_backup = os.path.join("/tmp", "evidence-backup-%d" % os.getpid())
    shutil.copytree(os.path.join(VERIF, "evidence"), ev_backup)
    try:
        for p in props:
            t0 = time.time()
            rc, out = sh("./check %s --tier quick" % p, cwd=VERIF, timeout=3000)
            viol = [l for l in out.splitlines() if l.startswith("VIOLATION")]
            results[p] = {"rc": rc, "violations": viol[:3], "s": round(time.time() - t0)}
            if viol:
                rp = viol[0].split("replay=")[1].split()[0]
                try:
                    o = json.load(open(rp))
                    results[p]["replay_kind"] = o.get("kind")
                    results[p]["replay_what"] = (o.get("what") or o.get("source") or "")
                    results[p]["replay_detail"] = json.dumps(o.get("detail") or o.get("diffs") or "")[:300]
                except Exception as e:
                    results[p]["replay_err"] = str(e)
    finally:
        sh("git -C %s checkout -- ." % REPO)
        sh("git -C %s clean -fdq pkg" % REPO)
        shutil.rmtree(os.path.join(VERIF, "evidence"), ignore_errors=True)
        shutil.copytree(ev_backup, os.path.join(VERIF, "evidence"))
        shutil.rmtree(ev_backup, ignore_errors=True)
        # regenerate the translated files for the clean tree
        sh("%s -repo %s -out %s" % (os.path.join(VERIF, "build", "gengo"), REPO, os.path.join(VERIF, "coq", "gen")))
    print(json.dumps({"seed": os.path.basename(seed_dir), "results": results}, indent=1))
    return 0


if __name__ == "__main__":
    if sys.argv[1] == "confirm":
        sys.exit(0 if confirm(sys.argv[2], sys.argv[3]) else 1)
    elif sys.argv[1] == "run":
        sys.exit(runchecks(sys.argv[2], sys.argv[3:]))
