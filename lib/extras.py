"""Property-specific stages of ./check beyond the correspondence suites."""
import json, os, re, subprocess, time


def _run(cmd, env, timeout, cwd=None):
    try:
        p = subprocess.run(cmd, shell=isinstance(cmd, str), env=env, cwd=cwd, timeout=timeout,
                           stdout=subprocess.PIPE, stderr=subprocess.STDOUT, text=True, errors="replace")
        return p.returncode, p.stdout
    except subprocess.TimeoutExpired as e:
        out = e.stdout if isinstance(e.stdout, str) else (e.stdout or b"").decode("utf8", "replace")
        return 124, (out or "") + "\n[timeout]"


def race_stage(pid, tier, seed, BUILD, GOENV, known):
    """C17, dynamic half: the race detector over concurrent calls on shared objects."""
    verif = os.path.dirname(BUILD)
    hdir = os.path.join(verif, "harness")
    binp = os.path.join(BUILD, "corr_race")
    rc, out = _run(["go", "build", "-race", "-tags", "verif", "-o", binp, "."], GOENV, 900, cwd=hdir)
    if rc != 0:
        return {"violations": [{"kind": "broken-obligation", "what": "race driver does not build", "detail": out[-2000:]}]}
    workers, rounds, objects = (32, 12, 40) if tier == "quick" else (64, 120, 150)
    env = dict(GOENV, GORACE="halt_on_error=0 exitcode=66")
    t0 = time.time()
    cmd = [binp, "race", "-seed", str(seed), "-workers", str(workers), "-rounds", str(rounds), "-objects", str(objects)]
    rc, out = _run(cmd, env, 1500 if tier == "quick" else 7200)
    res = {"race_driver_s": round(time.time() - t0, 1), "race_cmd": " ".join(cmd), "violations": []}
    m = re.search(r"race ops=(\d+) calls=(\d+) mismatches=(\d+)", out)
    if m:
        res["evaluations"] = int(m.group(2))
        res["distinct"] = int(m.group(1))
        res["race_ops"] = int(m.group(1))
        res["samples"] = ["race driver: %s operations on shared objects x %d goroutines x %d rounds, each result compared with the result of the call made alone" % (m.group(1), workers, rounds)]
    races = out.count("WARNING: DATA RACE")
    res["data_races_reported"] = races
    if races:
        first = out[out.index("WARNING: DATA RACE"):][:3000]
        res["violations"].append({"kind": "counterexample", "source": "race detector", "what": "data race",
                                  "detail": first, "extra_replay_cmd": "GORACE=halt_on_error=1 " + " ".join(cmd)})
    if "MISMATCH" in out:
        line = [l for l in out.splitlines() if l.startswith("MISMATCH")][0]
        res["violations"].append({"kind": "counterexample", "source": "race driver", "what": "a concurrent call returned a different result",
                                  "detail": line[:2000], "extra_replay_cmd": " ".join(cmd)})
    if rc not in (0, 3, 66) or (not m and not races):
        res["violations"].append({"kind": "broken-obligation", "what": "race driver failed", "detail": out[-2000:]})
    return res
