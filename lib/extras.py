"""Property-specific stages of ./check beyond the correspondence suites."""
import json, os, re, subprocess, time


def _run(cmd, env, timeout, cwd=None):
    try:
        p = subprocess.run(cmd, shell=isinstance(cmd, str), env=env, cwd=cwd, timeout=timeout,
                           stdout=subprocess.PIPE, stderr=subprocess.STDOUT, text=True, errors="replace")
        return p.returncode, p.stdout
    except subprocess.TimeoutExpired as e:
        out = e.stdout if isinstance(e.stdout, str) else (e.stdout or b"").decode("utf8", "replace")
        return 124, (out or "") + "\n[timeout]"


def race_stage(pid, tier, seed, BUILD, GOENV, known):
    """C17, dynamic half: the race detector over concurrent calls on shared objects."""
    verif = os.path.dirname(BUILD)
    hdir = os.path.join(verif, "harness")
    binp = os.path.join(BUILD, "corr_race")
    rc, out = _run(["go", "build", "-race", "-tags", "verif", "-o", binp, "."], GOENV, 900, cwd=hdir)
    if rc != 0:
        return {"violations": [{"kind": "broken-obligation", "what": "race driver does not build", "detail": out[-2000:]}]}
    workers, rounds, objects = (32, 12, 40) if tier == "quick" else (64, 120, 150)
    env = dict(GOENV, GORACE="halt_on_error=0 exitcode=66")
    t0 = time.time()
    cmd = [binp, "race", "-seed", str(seed), "-workers", str(workers), "-rounds", str(rounds), "-objects", str(objects)]
    rc, out = _run(cmd, env, 1500 if tier == "quick" else 7200)
    # a second process without the sequential pass: first uses (lazy initialisation) race with each other
    cold_cmd = [binp, "race", "-cold", "-seed", str(seed), "-workers", str(workers), "-objects", str(objects)]
    rc2, out2 = _run(cold_cmd, env, 1500)
    if "WARNING: DATA RACE" in out2 or "MISMATCH" in out2 or rc2 not in (0, 3, 66):
        if "WARNING: DATA RACE" not in out and "MISMATCH" not in out:
            cmd, rc, out = cold_cmd, rc2, out2
    res = {"race_driver_s": round(time.time() - t0, 1), "race_cmd": " ".join(cmd), "cold_start_cmd": " ".join(cold_cmd), "violations": []}
    m = re.search(r"race ops=(\d+) calls=(\d+) mismatches=(\d+)", out)
    if m:
        res["evaluations"] = int(m.group(2))
        res["distinct"] = int(m.group(1))
        res["race_ops"] = int(m.group(1))
        res["samples"] = ["race driver: %s operations on shared objects x %d goroutines x %d rounds, each result compared with the result of the call made alone" % (m.group(1), workers, rounds)]
    races = out.count("WARNING: DATA RACE")
    res["data_races_reported"] = races
    if "fatal error: concurrent map" in out:
        res["violations"].append({"kind": "counterexample", "source": "Go runtime", "what": "concurrent map access aborted the process",
                                  "detail": out[out.index("fatal error: concurrent map"):][:2000], "extra_replay_cmd": " ".join(cmd)})
    if races:
        first = out[out.index("WARNING: DATA RACE"):][:3000]
        res["violations"].append({"kind": "counterexample", "source": "race detector", "what": "data race",
                                  "detail": first, "extra_replay_cmd": "GORACE=halt_on_error=1 " + " ".join(cmd)})
    if "MISMATCH" in out:
        line = [l for l in out.splitlines() if l.startswith("MISMATCH")][0]
        res["violations"].append({"kind": "counterexample", "source": "race driver", "what": "a concurrent call returned a different result",
                                  "detail": line[:2000], "extra_replay_cmd": " ".join(cmd)})
    if rc not in (0, 3, 66) or (not m and not races):
        res["violations"].append({"kind": "broken-obligation", "what": "race driver failed", "detail": out[-2000:]})
    return res


ALLOC_K = 2048      # bytes of TotalAlloc allowed per input byte (measured maximum on the clean tree: ~520, deep nesting)
ALLOC_C = 1 << 16


def hostile_hsms_stage(pid, tier, seed, BUILD, GOENV, known):
    """C07: hostile inputs in a worker subprocess; TotalAlloc must stay below a
    fixed linear function of the input length; no panic may escape; an abort of
    the worker is a violation unless it is the listed known finding."""
    corr = os.path.join(BUILD, "corr")
    res = {"violations": [], "known_lines": []}
    inputs = os.path.join(BUILD, "hostile-%s-%d.txt" % (pid, os.getpid()))
    rc, out = _run("%s hostile-hsms -seed %d -tier %s > %s" % (corr, seed, tier, inputs), GOENV, 1800)
    if rc != 0:
        res["violations"].append({"kind": "broken-obligation", "what": "hostile input generator failed", "detail": out[-1000:]})
        return res
    kinds, hexes = [], []
    for line in open(inputs):
        k, h = line.rstrip("\n").split(" ", 1)
        kinds.append(k)
        hexes.append(h)
    os.remove(inputs)
    # the worker gets the inputs on stdin; a limit on its address space keeps a
    # runaway allocation from taking the machine down
    pos = 0
    measured = 0
    worst = (0.0, 0, 0, "")
    dist = {}
    t0 = time.time()
    restarts = 0
    while pos < len(hexes) and restarts < 20:
        chunk = "\n".join(hexes[pos:]) + "\n"
        p = subprocess.Popen("ulimit -v 12000000; exec %s worker-hsms" % corr, shell=True, env=GOENV,
                             stdin=subprocess.PIPE, stdout=subprocess.PIPE, stderr=subprocess.PIPE, text=True, errors="replace")
        try:
            so, se = p.communicate(chunk, timeout=1500 if tier == "quick" else 14000)
        except subprocess.TimeoutExpired:
            p.kill()
            so, se = p.communicate()
            se += "\n[watchdog timeout]"
        done_here = 0
        for line in so.splitlines():
            f = line.split()
            if f and f[0] == "done":
                n, alloc, st = int(f[1]), int(f[2]), int(f[3])
                i = pos + done_here
                done_here += 1
                measured += 1
                dist[kinds[i]] = dist.get(kinds[i], 0) + 1
                ratio = alloc / (n + 1.0)
                if ratio > worst[0]:
                    worst = (ratio, n, alloc, kinds[i])
                if st == 2:
                    res["violations"].append({"kind": "counterexample", "source": "worker", "what": "a panic escaped hsms.Parse",
                                              "detail": "input (%s, %d bytes): %s" % (kinds[i], n, hexes[i][:400]), "case": "HP " + hexes[i] if n < 5000 else None})
                elif alloc > ALLOC_K * n + ALLOC_C:
                    res["violations"].append({"kind": "counterexample", "source": "worker", "what": "allocation not linear in the input",
                                              "detail": "input (%s, %d bytes) allocated %d bytes (bound %d*len+%d): %s" % (kinds[i], n, alloc, ALLOC_K, ALLOC_C, hexes[i][:400]),
                                              "case": "HP " + hexes[i] if n < 5000 else None})
        pos += done_here
        if p.returncode != 0 and pos < len(hexes):
            # the worker died on input pos
            res["violations"].append({"kind": "counterexample", "source": "worker", "what": "the process aborted while decoding",
                                      "detail": "input (%s, %d bytes): %s ... stderr: %s" % (kinds[pos], len(hexes[pos]) // 2, hexes[pos][:300], se[-600:]),
                                      "case": "HP " + hexes[pos] if len(hexes[pos]) < 10000 else None})
            pos += 1
            restarts += 1
        elif p.returncode != 0:
            break
    res["evaluations"] = measured
    res["distinct"] = len(set(hexes))
    res["worker_inputs"] = measured
    res["worker_s"] = round(time.time() - t0, 1)
    res["alloc_bound"] = "TotalAlloc <= %d * len + %d" % (ALLOC_K, ALLOC_C)
    res["worst_alloc_per_byte"] = {"ratio": round(worst[0], 1), "len": worst[1], "alloc": worst[2], "kind": worst[3]}
    res["input_kinds"] = dist
    res["samples"] = ["hostile input (%s): %s" % (kinds[i], hexes[i][:120]) for i in range(0, min(len(hexes), 2000), 500)]
    res["violations"] = res["violations"][:6]
    # known finding K1: unbounded recursion depth
    for k in known.get("known", []):
        if k.get("property") == pid and k.get("probe") == "k1probe":
            rc, out = _run("ulimit -v 12000000; %s k1probe -levels %d" % (corr, k.get("levels", 8000000)), GOENV, 600)
            if "stack overflow" in out or "goroutine stack exceeds" in out:
                res["known_lines"].append("KNOWN-FINDING: property=%s %s" % (pid, k["what"]))
            res["k1_probe"] = out.strip().splitlines()[-1][:200] if out.strip() else ""
    return res


SML_ALLOC_K = 100000   # bytes of TotalAlloc per input byte: the lexer compiles seven regexps per token (tens of KB per token)
SML_ALLOC_C = 1 << 22
SML_TIME_MS = 20000


def hostile_sml_stage(pid, tier, seed, BUILD, GOENV, known):
    """C06: hostile texts in a worker subprocess under an address-space limit and
    a watchdog: no panic may escape, the process must not abort or hang, memory
    must stay within a fixed linear function of the input length."""
    corr = os.path.join(BUILD, "corr")
    res = {"violations": [], "known_lines": []}
    inputs = os.path.join(BUILD, "hostile-%s-%d.txt" % (pid, os.getpid()))
    rc, out = _run("%s hostile-sml -seed %d -tier %s > %s" % (corr, seed, tier, inputs), GOENV, 1800)
    if rc != 0:
        res["violations"].append({"kind": "broken-obligation", "what": "hostile input generator failed", "detail": out[-1000:]})
        return res
    kinds, hexes = [], []
    for line in open(inputs):
        k, h = line.rstrip("\n").split(" ", 1)
        kinds.append(k)
        hexes.append(h)
    os.remove(inputs)
    pos, measured, restarts = 0, 0, 0
    worst = (0.0, 0, 0, "")
    slowest = (0, 0, "")
    dist = {}
    t0 = time.time()
    while pos < len(hexes) and restarts < 20:
        chunk = "\n".join(hexes[pos:]) + "\n"
        p = subprocess.Popen("ulimit -v 12000000; exec %s worker-sml" % corr, shell=True, env=GOENV,
                             stdin=subprocess.PIPE, stdout=subprocess.PIPE, stderr=subprocess.PIPE, text=True, errors="replace")
        hung = False
        try:
            so, se = p.communicate(chunk, timeout=900 if tier == "quick" else 14000)
        except subprocess.TimeoutExpired:
            p.kill()
            so, se = p.communicate()
            hung = True
        done_here = 0
        for line in so.splitlines():
            f = line.split()
            if not f or f[0] != "done":
                continue
            i = pos + done_here
            done_here += 1
            measured += 1
            n, alloc = int(f[1]), int(f[2])
            dist[kinds[i]] = dist.get(kinds[i], 0) + 1
            text = bytes.fromhex(hexes[i]) if hexes[i] != "-" else b""
            if f[3] == "PANIC":
                res["violations"].append({"kind": "counterexample", "source": "worker", "what": "a panic escaped sml.Parse",
                                          "detail": "input (%s): %r panic: %s" % (kinds[i], text[:300], bytes.fromhex(f[4]).decode("utf8", "replace")[:300])})
                continue
            ns = int(f[6])
            ratio = alloc / (n + 1.0)
            if ratio > worst[0]:
                worst = (ratio, n, alloc, kinds[i])
            if ns > slowest[0]:
                slowest = (ns, n, kinds[i])
            if alloc > SML_ALLOC_K * n + SML_ALLOC_C:
                res["violations"].append({"kind": "counterexample", "source": "worker", "what": "memory not bounded by the input length",
                                          "detail": "input (%s, %d bytes) allocated %d bytes: %r" % (kinds[i], n, alloc, text[:300])})
            if ns > SML_TIME_MS * 1e6:
                res["violations"].append({"kind": "counterexample", "source": "worker", "what": "parsing did not return within %d s" % (SML_TIME_MS // 1000),
                                          "detail": "input (%s, %d bytes) took %.1f s: %r" % (kinds[i], n, ns / 1e9, text[:200])})
        pos += done_here
        if (p.returncode != 0 or hung) and pos < len(hexes):
            text = bytes.fromhex(hexes[pos]) if hexes[pos] != "-" else b""
            res["violations"].append({"kind": "counterexample", "source": "worker",
                                      "what": "the process %s while parsing" % ("hung" if hung else "aborted"),
                                      "detail": "input (%s, %d bytes): %r ... stderr: %s" % (kinds[pos], len(text), text[:300], se[-500:])})
            pos += 1
            restarts += 1
        elif p.returncode != 0:
            break
    res["evaluations"] = measured
    res["distinct"] = len(set(hexes))
    res["worker_inputs"] = measured
    res["worker_s"] = round(time.time() - t0, 1)
    res["alloc_bound"] = "TotalAlloc <= %d * len + %d" % (SML_ALLOC_K, SML_ALLOC_C)
    res["worst_alloc_per_byte"] = {"ratio": round(worst[0], 1), "len": worst[1], "alloc": worst[2], "kind": worst[3]}
    res["slowest"] = {"ms": slowest[0] // 1000000, "len": slowest[1], "kind": slowest[2]}
    res["input_kinds"] = dist
    res["samples"] = ["hostile text (%s): %r" % (kinds[i], (bytes.fromhex(hexes[i]) if hexes[i] != "-" else b"")[:100]) for i in range(0, min(len(hexes), 2000), 400)]
    res["violations"] = res["violations"][:6]
    return res
