#!/usr/bin/env python3
"""seedtable.py — writes seeded/README.md: one line per seeded change with what it
does and which part of the check reported it (from a log of `lib/seedtest.py run`
results: lines "<name> violations=N nfi=M ... "replay_what": "<what>")."""
import json, os, re, sys

VERIF = os.path.dirname(os.path.dirname(os.path.abspath(__file__)))
logs = sys.argv[1:]
res = {}
for lg in logs:
    for line in open(lg):
        m = re.match(r"(C\d\d-mut\w)\s+violations=(\d+)\s+nfi=(\d+)(.*)", line)
        if m:
            what = re.search(r'"replay_what":\s*"([^"]*)"', m.group(4))
            res[m.group(1)] = (int(m.group(2)), int(m.group(3)), what.group(1) if what else "")
rows = []
for d in sorted(os.listdir(os.path.join(VERIF, "seeded"))):
    mp = os.path.join(VERIF, "seeded", d, "meta.json")
    if not os.path.exists(mp):
        continue
    meta = json.load(open(mp))
    s = meta.get("summary", "").replace("\n", " ").replace("|", "/")
    if len(s) > 230:
        s = s[:227] + "..."
    v, nfi, what = res.get(d, (None, None, ""))
    if v is None:
        outcome = "not in the log"
    elif v == 0:
        outcome = "MISSED"
    elif nfi and v == nfi:
        outcome = "reported, no-failing-input-found (%s)" % what
    else:
        outcome = "concrete replay: %s" % what
    rows.append("| %s | %s | %s | %s |" % (d, ", ".join(meta.get("files_touched", [])), s, outcome))
out = ["# Seeded changes", "",
       "Written by sub-agents from the property text alone (nothing from /verif), each confirmed in a scratch",
       "worktree (applies, builds, the 62 existing tests pass with it, its demonstration fails with it and passes",
       "without). `lib/seedtest.py run seeded/<name>` applies one to /repo, runs the property's quick check and",
       "undoes it. Last column: what the check reported in the most recent full run.", "",
       "| change | files | what it does | reported as |", "|---|---|---|---|"] + rows
open(os.path.join(VERIF, "seeded", "README.md"), "w").write("\n".join(out) + "\n")
print(len(rows), "rows;", sum(1 for r in rows if "concrete replay" in r), "concrete;", sum(1 for r in rows if "MISSED" in r), "missed")
